import Exetera.Lemmas.CsvCellNl
import Exetera.Lemmas.CsvIndex
/-! A whole record, then a list of records (C05). -/
namespace Exetera.Csv
open Exetera Spec

abbrev isWs : Nat → Bool := fun b => b == WS

theorem takeWhile_append_stop (p : Nat → Bool) (xs : Bytes) (t : Nat) (B : Bytes) (ht : p t = false) :
    (xs ++ t :: B).takeWhile p = xs.takeWhile p := by
  induction xs with
  | nil => simp [List.takeWhile, ht]
  | cons x xs ih =>
    cases hx : p x <;> simp [List.takeWhile, hx, ih]

/-- the blanks in front of a cell are exactly what `renderCell` has and `body` lacks -/
theorem lead_split (c : Cell) (t : Nat) (B : Bytes) (ht : t = SEP ∨ t = NL) :
    (renderCell c ++ t :: B).takeWhile isWs ++ body c = renderCell c := by
  have htw : isWs t = false := by
    rcases ht with h | h <;> rw [h] <;> decide
  cases hq : c.quoted with
  | true =>
    have : renderCell c = QUOTE :: (escape c.text ++ [QUOTE]) := by simp [renderCell, hq]
    have hqw : (QUOTE == WS) = false := by decide
    rw [body, hq, this]
    simp [List.takeWhile_cons, isWs, hqw]
  | false =>
    have : renderCell c = c.text := by simp [renderCell, hq]
    rw [body, hq, this, takeWhile_append_stop _ _ _ _ htw]
    exact List.takeWhile_append_dropWhile

theorem lead_drop (c : Cell) (t : Nat) (B : Bytes) (ht : t = SEP ∨ t = NL) :
    (renderCell c ++ t :: B).dropWhile isWs = body c ++ t :: B := by
  have h1 := lead_split c t B ht
  have h2 : (renderCell c ++ t :: B).takeWhile isWs ++ (renderCell c ++ t :: B).dropWhile isWs = renderCell c ++ t :: B :=
    List.takeWhile_append_dropWhile
  have h1' : renderCell c ++ t :: B = (renderCell c ++ t :: B).takeWhile isWs ++ (body c ++ t :: B) := by
    rw [← List.append_assoc, h1]
  exact List.append_cancel_left (h2.trans h1')

/-- entries staged after the cells `cs` of one record, the first of them in column `j` -/
def stageRow (hdr : Bool) (E : Nat → List Bytes) : Nat → List Cell → Nat → List Bytes
  | _, [] => E
  | j, c :: cs => stageRow hdr (stage hdr E j c.value) (j + 1) cs

/-- every cell of the record fits (strictly) into what is left of its column's budget -/
def RowCap (offs : List Nat) (hdr : Bool) (E : Nat → List Bytes) : Nat → List Cell → Prop
  | _, [] => True
  | j, c :: cs =>
    (hdr = false → offAt offs j + (E j).flatten.length + c.value.length < offAt offs (j + 1)) ∧
    RowCap offs hdr (stage hdr E j c.value) (j + 1) cs

/-- one record: from the start of its first cell to the start of the first cell of the next record -/
theorem row_cells {src : Bytes} {offs : List Nat} {maxrow ncols : Nat} (cs : List Cell) :
    ∀ (A0 X : Bytes) (s : KS) (j : Nat) (hdr : Bool) (k np : Nat) (E : Nat → List Bytes),
      cs ≠ [] → (∀ c ∈ cs, c.WF) → j + cs.length = ncols →
      src = A0 ++ (renderCells cs ++ X) →
      CellStart src offs maxrow ncols s (A0 ++ (renderCells cs ++ X).takeWhile isWs) j hdr k np E →
      RowCap offs hdr E j cs → (hdr = false → k + 1 < maxrow) →
      ∃ n s', KSteps src offs maxrow n s s' ∧
        CellStart src offs maxrow ncols s' ((A0 ++ renderCells cs) ++ X.takeWhile isWs) 0 false (if hdr then 0 else k + 1)
          (A0 ++ renderCells cs).length (stageRow hdr E j cs) := by
  induction cs with
  | nil => intro _ _ _ _ _ _ _ _ h; exact absurd rfl h
  | cons c cs ih =>
    intro A0 X s j hdr k np E _ hwf hlen hsrc hcs hcap hrows
    have hwfc := hwf c (by simp)
    cases cs with
    | nil =>
      -- the last cell of the record
      have hrc : renderCells [c] ++ X = renderCell c ++ NL :: X := by simp [renderCells]
      rw [hrc] at hsrc hcs
      have hsrc' : src = (A0 ++ (renderCell c ++ NL :: X).takeWhile isWs) ++ (body c ++ NL :: X) := by
        rw [List.append_assoc, ← lead_drop c NL X (Or.inr rfl), List.takeWhile_append_dropWhile]; exact hsrc
      obtain ⟨n, s', hsteps, hcs'⟩ :=
        cell_nl (offs := offs) (maxrow := maxrow) c hwfc _ X s j hdr k np E hcs hsrc' (by simpa using hlen) hcap.1 hrows
      refine ⟨n, s', hsteps, ?_⟩
      have hA : A0 ++ (renderCell c ++ NL :: X).takeWhile isWs ++ (body c ++ NL :: X.takeWhile isWs) =
          (A0 ++ renderCells [c]) ++ X.takeWhile isWs := by
        have := lead_split c NL X (Or.inr rfl)
        simp only [renderCells, List.append_assoc]
        rw [← List.append_assoc ((renderCell c ++ NL :: X).takeWhile isWs), this]
        simp
      have hL : (A0 ++ (renderCell c ++ NL :: X).takeWhile isWs).length + (body c).length + 1 =
          (A0 ++ renderCells [c]).length := by
        have := congrArg List.length (lead_split c NL X (Or.inr rfl))
        simp only [renderCells, List.length_append, List.length_cons, List.length_nil] at this ⊢
        omega
      rw [hA, hL] at hcs'
      exact hcs'
    | cons d ds =>
      have hrc : renderCells (c :: d :: ds) ++ X = renderCell c ++ SEP :: (renderCells (d :: ds) ++ X) := by
        simp [renderCells]
      rw [hrc] at hsrc hcs
      have hsrc' : src = (A0 ++ (renderCell c ++ SEP :: (renderCells (d :: ds) ++ X)).takeWhile isWs) ++
          (body c ++ SEP :: (renderCells (d :: ds) ++ X)) := by
        rw [List.append_assoc, ← lead_drop c SEP _ (Or.inl rfl), List.takeWhile_append_dropWhile]; exact hsrc
      obtain ⟨n1, s1, hsteps1, hcs1⟩ :=
        cell_sep (offs := offs) (maxrow := maxrow) c hwfc _ (renderCells (d :: ds) ++ X) s j hdr k np E hcs hsrc'
          (by simp at hlen; omega) hcap.1
      have hA : A0 ++ (renderCell c ++ SEP :: (renderCells (d :: ds) ++ X)).takeWhile isWs ++
          (body c ++ SEP :: (renderCells (d :: ds) ++ X).takeWhile isWs) =
          (A0 ++ (renderCell c ++ [SEP])) ++ (renderCells (d :: ds) ++ X).takeWhile isWs := by
        have := lead_split c SEP (renderCells (d :: ds) ++ X) (Or.inl rfl)
        simp only [List.append_assoc]
        rw [← List.append_assoc ((renderCell c ++ SEP :: (renderCells (d :: ds) ++ X)).takeWhile isWs), this]
        simp
      rw [hA] at hcs1
      have hsrc1 : src = (A0 ++ (renderCell c ++ [SEP])) ++ (renderCells (d :: ds) ++ X) := by
        rw [hsrc]; simp
      obtain ⟨n2, s2, hsteps2, hcs2⟩ :=
        ih (A0 ++ (renderCell c ++ [SEP])) X s1 (j + 1) hdr k np (stage hdr E j c.value) (by simp)
          (fun x hx => hwf x (by simp [hx])) (by simp at hlen ⊢; omega) hsrc1 hcs1 hcap.2 hrows
      refine ⟨n1 + n2, s2, StepsN.trans hsteps1 hsteps2, ?_⟩
      have hB : A0 ++ (renderCell c ++ [SEP]) ++ renderCells (d :: ds) = A0 ++ renderCells (c :: d :: ds) := by
        simp [renderCells]
      rw [hB] at hcs2
      exact hcs2

end Exetera.Csv
