import Exetera.Gen.Kernels
import Exetera.Lemmas.While
import Exetera.Lemmas.GenKernels
import Exetera.Lemmas.GenKernelsJoin
/-!
  The TRANSLATED kernel `streaming_sort_partial(in_chunk_indices, in_chunk_lengths, src_value_chunks, src_index_chunks,
  dest_value_chunk, dest_index_chunk)` — one merge step of a k-way streaming sort (2-D arguments as lists of rows, `a.sum()`,
  `a[k] += 1`, `return` from inside the `for` loop nested in the `while` loop).

  The kernel has NO caller in the library (only tests/ call it; it is unused by any public path): the theorems below are NOT
  obligations of any property; they are re-checked by `lake build Exetera` only. The translation itself is validated
  differentially under C10 (checks/harness/genkernels.py, 1–3 chunks).

  Plain functional specification for TWO chunks: `mergeUntil A B` merges two chunks of (value, row index) pairs until one of them is
  used up, the first chunk winning ties (`cur_value < min_value` is strict). `streaming_sort_two_chunks`: entered at positions
  `[0, 0]` with destination buffers that have room for both chunks, the translated kernel returns `len(mergeUntil A B)`, the
  advanced positions and the merged values / row indices in the destination buffers, for every fuel > len(A) + len(B).
  `mergeUntil_sorted`: chunks sorted by value merge into rows sorted by value. (More than two chunks: differential validation
  only.)
-/
namespace Exetera.GenK
open Exetera Exetera.PyRt Exetera.Gen.Kernels

/-- merge of two chunks of (value, row index) pairs until one of them is used up; on equal values the first chunk goes first -/
def mergeUntil : List (Int × Int) → List (Int × Int) → List (Int × Int)
  | [], _ => []
  | _ :: _, [] => []
  | x :: xs, y :: ys => if y.1 < x.1 then y :: mergeUntil (x :: xs) ys else x :: mergeUntil xs (y :: ys)
termination_by l r => l.length + r.length

@[simp] theorem mergeUntil_nil_left (r : List (Int × Int)) : mergeUntil [] r = [] := by rw [mergeUntil]
@[simp] theorem mergeUntil_nil_right (l : List (Int × Int)) : mergeUntil l [] = [] := by cases l <;> rw [mergeUntil]

theorem mem_mergeUntil (A B : List (Int × Int)) : ∀ z ∈ mergeUntil A B, z ∈ A ∨ z ∈ B := by
  induction A, B using mergeUntil.induct with
  | case1 r => intro z hz; rw [mergeUntil] at hz; cases hz
  | case2 a l => intro z hz; rw [mergeUntil] at hz; cases hz
  | case3 x xs y ys hlt ih1 =>
    intro z hz
    rw [mergeUntil, if_pos hlt] at hz
    rcases List.mem_cons.mp hz with rfl | hz'
    · exact Or.inr (by simp)
    · rcases ih1 z hz' with h | h
      · exact Or.inl h
      · exact Or.inr (List.mem_cons_of_mem _ h)
  | case4 x xs y ys hlt ih2 =>
    intro z hz
    rw [mergeUntil, if_neg hlt] at hz
    rcases List.mem_cons.mp hz with rfl | hz'
    · exact Or.inl (by simp)
    · rcases ih2 z hz' with h | h
      · exact Or.inl (List.mem_cons_of_mem _ h)
      · exact Or.inr h

/-- chunks sorted by value merge into rows sorted by value -/
theorem mergeUntil_sorted (A B : List (Int × Int)) (hA : A.Pairwise (fun p q => p.1 ≤ q.1)) (hB : B.Pairwise (fun p q => p.1 ≤ q.1)) :
    (mergeUntil A B).Pairwise (fun p q => p.1 ≤ q.1) := by
  induction A, B using mergeUntil.induct with
  | case1 r => rw [mergeUntil]; exact List.Pairwise.nil
  | case2 a l => rw [mergeUntil]; exact List.Pairwise.nil
  | case3 x xs y ys hlt ih1 =>
    have hx := List.pairwise_cons.mp hA
    have hy := List.pairwise_cons.mp hB
    rw [mergeUntil, if_pos hlt]
    refine List.pairwise_cons.mpr ⟨?_, ih1 hA hy.2⟩
    intro z hz
    rcases mem_mergeUntil _ _ z hz with h | h
    · rcases List.mem_cons.mp h with rfl | h'
      · omega
      · have := hx.1 z h'; omega
    · exact hy.1 z h
  | case4 x xs y ys hlt ih2 =>
    have hx := List.pairwise_cons.mp hA
    have hy := List.pairwise_cons.mp hB
    rw [mergeUntil, if_neg hlt]
    refine List.pairwise_cons.mpr ⟨?_, ih2 hx.2 hB⟩
    intro z hz
    rcases mem_mergeUntil _ _ z hz with h | h
    · exact hx.1 z h
    · rcases List.mem_cons.mp h with rfl | h'
      · omega
      · have := hy.1 z h'; omega

namespace SSort

abbrev St := streaming_sort_partial.St

abbrev mk (pos lens : List Int) (vals idx : List (List Int)) (dv di : List Int) (n mx v2 v3 v4 v5 v6 : Int) (ret : Bool)
    (rv0 : Int) : St := ⟨pos, lens, vals, idx, dv, di, n, mx, v2, v3, v4, v5, v6, ret, rv0⟩

variable (A B : List (Int × Int))

/-- both chunks have a row: one row is emitted -/
theorem body_emit (dv di : List Int) (pa pb : Nat) (mx v2 v3 v4 v5 v6 rv0 : Int) (x y : Int × Int)
    (hx : A[pa]? = some x) (hy : B[pb]? = some y) (hdv : pa + pb < dv.length) (hdi : pa + pb < di.length) :
    ∃ w2 w3 w4 w5 w6, streaming_sort_partial.body_L1
        (mk [(pa : Int), (pb : Int)] [(A.length : Int), (B.length : Int)] [A.map (·.1), B.map (·.1)] [A.map (·.2), B.map (·.2)] dv di
          ((pa + pb : Nat) : Int) mx v2 v3 v4 v5 v6 false rv0)
      = .ok (if y.1 < x.1 then
          mk [(pa : Int), ((pb + 1 : Nat) : Int)] [(A.length : Int), (B.length : Int)] [A.map (·.1), B.map (·.1)] [A.map (·.2), B.map (·.2)]
            (dv.set (pa + pb) y.1) (di.set (pa + pb) y.2) ((pa + (pb + 1) : Nat) : Int) mx w2 w3 w4 w5 w6 false rv0
        else
          mk [((pa + 1 : Nat) : Int), (pb : Int)] [(A.length : Int), (B.length : Int)] [A.map (·.1), B.map (·.1)] [A.map (·.2), B.map (·.2)]
            (dv.set (pa + pb) x.1) (di.set (pa + pb) x.2) ((pa + 1 + pb : Nat) : Int) mx w2 w3 w4 w5 w6 false rv0) := by
  have hpa : pa < A.length := by
    rcases Nat.lt_or_ge pa A.length with h | h
    · exact h
    · rw [List.getElem?_eq_none h] at hx; cases hx
  have hpb : pb < B.length := by
    rcases Nat.lt_or_ge pb B.length with h | h
    · exact h
    · rw [List.getElem?_eq_none h] at hy; cases hy
  have ne1 : ((pa : Int) == (A.length : Int)) = false := by simp; omega
  have ne2 : ((pb : Int) == (B.length : Int)) = false := by simp; omega
  have ha1 : (A.map (·.1))[pa]? = some x.1 := by simp [hx]
  have ha2 : (A.map (·.2))[pa]? = some x.2 := by simp [hx]
  have hb1 : (B.map (·.1))[pb]? = some y.1 := by simp [hy]
  have hb2 : (B.map (·.2))[pb]? = some y.2 := by simp [hy]
  have e1 : (pa : Int) + 1 = ((pa + 1 : Nat) : Int) := by omega
  have e2 : (pb : Int) + 1 = ((pb + 1 : Nat) : Int) := by omega
  have e3 : ((pa + pb : Nat) : Int) + 1 = ((pa + (pb + 1) : Nat) : Int) := by omega
  have e4 : ((pa + pb : Nat) : Int) + 1 = ((pa + 1 + pb : Nat) : Int) := by omega
  have i00 : ∀ (u v : Int) (site : String), idxE [u, v] 0 site = .ok u := fun _ _ _ => rfl
  have i01 : ∀ (u v : Int) (site : String), idxE [u, v] 1 site = .ok v := fun _ _ _ => rfl
  have j00 : ∀ (u v : List Int) (site : String), idxE [u, v] 0 site = .ok u := fun _ _ _ => rfl
  have j01 : ∀ (u v : List Int) (site : String), idxE [u, v] 1 site = .ok v := fun _ _ _ => rfl
  have ga1 : ∀ site, idxE (A.map (·.1)) (pa : Int) site = .ok x.1 := fun site => by rw [idxE_nat]; simp [getE, ha1]
  have ga2 : ∀ site, idxE (A.map (·.2)) (pa : Int) site = .ok x.2 := fun site => by rw [idxE_nat]; simp [getE, ha2]
  have gb1 : ∀ site, idxE (B.map (·.1)) (pb : Int) site = .ok y.1 := fun site => by rw [idxE_nat]; simp [getE, hb1]
  have gb2 : ∀ site, idxE (B.map (·.2)) (pb : Int) site = .ok y.2 := fun site => by rw [idxE_nat]; simp [getE, hb2]
  have sdv : ∀ (v : Int) site, setIdxE dv ((pa + pb : Nat) : Int) v site = .ok (dv.set (pa + pb) v) := fun v site => by
    rw [setIdxE_nat]; simp [setE, hdv]
  have sdi : ∀ (v : Int) site, setIdxE di ((pa + pb : Nat) : Int) v site = .ok (di.set (pa + pb) v) := fun v site => by
    rw [setIdxE_nat]; simp [setE, hdi]
  have sp0 : ∀ (u v w : Int) site, setIdxE [u, v] 0 w site = .ok [w, v] := fun _ _ _ _ => rfl
  have sp1 : ∀ (u v w : Int) site, setIdxE [u, v] 1 w site = .ok [u, w] := fun _ _ _ _ => rfl
  have hrange : ∀ (u v : Int), ((pyLen [u, v]) - 1).toNat = 1 := fun _ _ => rfl
  by_cases hlt : y.1 < x.1
  · refine ⟨y.1, 1, 1, y.1, y.2, ?_⟩
    simp only [streaming_sort_partial.body_L1, mk, i00, bindE_ok, ne1, Bool.false_eq_true, if_false, j00, ga1, forRangeB, hrange,
      forRangeAux, streaming_sort_partial.body_L2, i01, ne2, j01, gb1, hlt, decide_true, if_true, gb2, sdv, sdi, sp1, e2, e3]
  · refine ⟨x.1, 0, 1, y.1, x.2, ?_⟩
    simp only [streaming_sort_partial.body_L1, mk, i00, bindE_ok, ne1, Bool.false_eq_true, if_false, j00, ga1, forRangeB, hrange,
      forRangeAux, streaming_sort_partial.body_L2, i01, ne2, j01, gb1, hlt, decide_false, ga2, sdv, sdi, sp0, e1, e4]

/-- the first chunk is used up: `return dest_index` -/
theorem body_a_done (dv di : List Int) (pb : Int) (n mx v2 v3 v4 v5 v6 rv0 : Int) (vals idx : List (List Int)) (lb : Int) :
    streaming_sort_partial.body_L1 (mk [(A.length : Int), pb] [(A.length : Int), lb] vals idx dv di n mx v2 v3 v4 v5 v6 false rv0)
      = .ok (mk [(A.length : Int), pb] [(A.length : Int), lb] vals idx dv di n mx v2 v3 v4 v5 v6 true n) := by
  have i00 : ∀ (u v : Int) (site : String), idxE [u, v] 0 site = .ok u := fun _ _ _ => rfl
  simp only [streaming_sort_partial.body_L1, mk, i00, bindE_ok, beq_self_eq_true, if_true]

/-- the second chunk is used up (the first is not): `return dest_index` from inside the `for` loop -/
theorem body_b_done (dv di : List Int) (pa : Nat) (n mx v2 v3 v4 v5 v6 rv0 : Int) (x : Int × Int) (hx : A[pa]? = some x) :
    ∃ w2 w3 w4, streaming_sort_partial.body_L1
        (mk [(pa : Int), (B.length : Int)] [(A.length : Int), (B.length : Int)] [A.map (·.1), B.map (·.1)] [A.map (·.2), B.map (·.2)] dv di
          n mx v2 v3 v4 v5 v6 false rv0)
      = .ok (mk [(pa : Int), (B.length : Int)] [(A.length : Int), (B.length : Int)] [A.map (·.1), B.map (·.1)] [A.map (·.2), B.map (·.2)]
          dv di n mx w2 w3 w4 v5 v6 true n) := by
  have hpa : pa < A.length := by
    rcases Nat.lt_or_ge pa A.length with h | h
    · exact h
    · rw [List.getElem?_eq_none h] at hx; cases hx
  have ne1 : ((pa : Int) == (A.length : Int)) = false := by simp; omega
  have ha1 : (A.map (·.1))[pa]? = some x.1 := by simp [hx]
  have i00 : ∀ (u v : Int) (site : String), idxE [u, v] 0 site = .ok u := fun _ _ _ => rfl
  have i01 : ∀ (u v : Int) (site : String), idxE [u, v] 1 site = .ok v := fun _ _ _ => rfl
  have j00 : ∀ (u v : List Int) (site : String), idxE [u, v] 0 site = .ok u := fun _ _ _ => rfl
  have ga1 : ∀ site, idxE (A.map (·.1)) (pa : Int) site = .ok x.1 := fun site => by rw [idxE_nat]; simp [getE, ha1]
  have hrange : ∀ (u v : Int), ((pyLen [u, v]) - 1).toNat = 1 := fun _ _ => rfl
  refine ⟨x.1, 0, 1, ?_⟩
  simp only [streaming_sort_partial.body_L1, mk, i00, bindE_ok, ne1, Bool.false_eq_true, if_false, j00, ga1, forRangeB, hrange,
    forRangeAux, streaming_sort_partial.body_L2, i01, beq_self_eq_true, if_true]

theorem while_ret (F : Nat) (s : St) (h : s.ret = true) :
    whileE streaming_sort_partial.guard_L1 streaming_sort_partial.body_L1 F s = .ok s := by
  cases F <;> simp [whileE, streaming_sort_partial.guard_L1, h]

theorem take_set_drop (dv : List Int) (n : Nat) (v : Int) (M : List Int) (h : n < dv.length) :
    (dv.set n v).take (n + 1) ++ M ++ (dv.set n v).drop (n + 1 + M.length) = dv.take n ++ (v :: M) ++ dv.drop (n + (M.length + 1)) := by
  rw [take_set_succ _ _ _ h, List.drop_set_of_lt (by omega)]
  simp [Nat.add_assoc, Nat.add_comm 1]

/-- the loop from the chunk positions `(pa, pb)` with `pa + pb` rows emitted: it emits `mergeUntil` of the rests and returns -/
theorem loop (cap : Nat) (hcap : A.length + B.length ≤ cap) :
    ∀ (m pa pb : Nat) (dv di : List Int) (v2 v3 v4 v5 v6 rv0 : Int) (F : Nat),
      (A.length - pa) + (B.length - pb) ≤ m → m < F → pa ≤ A.length → pb ≤ B.length → dv.length = cap → di.length = cap →
      ∃ (s' : St) (pa' pb' : Nat), whileE streaming_sort_partial.guard_L1 streaming_sort_partial.body_L1 F
          (mk [(pa : Int), (pb : Int)] [(A.length : Int), (B.length : Int)] [A.map (·.1), B.map (·.1)] [A.map (·.2), B.map (·.2)] dv di
            ((pa + pb : Nat) : Int) ((A.length + B.length : Nat) : Int) v2 v3 v4 v5 v6 false rv0) = .ok s' ∧
        (if s'.ret then s'.rv0 else s'.v0) = ((pa + pb + (mergeUntil (A.drop pa) (B.drop pb)).length : Nat) : Int) ∧
        s'.p0 = [(pa' : Int), (pb' : Int)] ∧ pa' + pb' = pa + pb + (mergeUntil (A.drop pa) (B.drop pb)).length ∧
        s'.p4 = dv.take (pa + pb) ++ (mergeUntil (A.drop pa) (B.drop pb)).map (·.1)
                  ++ dv.drop (pa + pb + (mergeUntil (A.drop pa) (B.drop pb)).length) ∧
        s'.p5 = di.take (pa + pb) ++ (mergeUntil (A.drop pa) (B.drop pb)).map (·.2)
                  ++ di.drop (pa + pb + (mergeUntil (A.drop pa) (B.drop pb)).length) := by
  intro m
  induction m with
  | zero =>
    intro pa pb dv di v2 v3 v4 v5 v6 rv0 F hm hF hpa hpb hdv hdi
    have ea : pa = A.length := by omega
    have eb : pb = B.length := by omega
    subst ea eb
    have hg : streaming_sort_partial.guard_L1 (mk [(A.length : Int), (B.length : Int)] [(A.length : Int), (B.length : Int)]
        [A.map (·.1), B.map (·.1)] [A.map (·.2), B.map (·.2)] dv di ((A.length + B.length : Nat) : Int)
        ((A.length + B.length : Nat) : Int) v2 v3 v4 v5 v6 false rv0) = false := by
      simp [streaming_sort_partial.guard_L1]
    refine ⟨mk [(A.length : Int), (B.length : Int)] [(A.length : Int), (B.length : Int)]
        [A.map (·.1), B.map (·.1)] [A.map (·.2), B.map (·.2)] dv di ((A.length + B.length : Nat) : Int)
        ((A.length + B.length : Nat) : Int) v2 v3 v4 v5 v6 false rv0, A.length, B.length, ?_, ?_⟩
    · cases F with
      | zero => rw [whileE, hg]; rfl
      | succ F' => rw [whileE, hg]; rfl
    · simp
  | succ m ih =>
    intro pa pb dv di v2 v3 v4 v5 v6 rv0 F hm hF hpa hpb hdv hdi
    obtain ⟨F', rfl⟩ : ∃ F', F = F' + 1 := ⟨F - 1, by omega⟩
    by_cases ha : pa < A.length
    · have hg : streaming_sort_partial.guard_L1 (mk [(pa : Int), (pb : Int)] [(A.length : Int), (B.length : Int)]
          [A.map (·.1), B.map (·.1)] [A.map (·.2), B.map (·.2)] dv di ((pa + pb : Nat) : Int)
          ((A.length + B.length : Nat) : Int) v2 v3 v4 v5 v6 false rv0) = true := by
        simp [streaming_sort_partial.guard_L1]; omega
      have hda : A.drop pa = A[pa] :: A.drop (pa + 1) := List.drop_eq_getElem_cons ha
      by_cases hb : pb < B.length
      · have hdb : B.drop pb = B[pb] :: B.drop (pb + 1) := List.drop_eq_getElem_cons hb
        obtain ⟨w2, w3, w4, w5, w6, hbody⟩ := body_emit A B dv di pa pb ((A.length + B.length : Nat) : Int) v2 v3 v4 v5 v6 rv0
          A[pa] B[pb] (List.getElem?_eq_getElem ha) (List.getElem?_eq_getElem hb) (by omega) (by omega)
        rw [whileE, hg, if_pos rfl, hbody]
        by_cases hlt : B[pb].1 < A[pa].1
        · rw [if_pos hlt]
          simp only []
          obtain ⟨s', pa', pb', hw, h1, h2, h3, h4, h5⟩ := ih pa (pb + 1) (dv.set (pa + pb) B[pb].1) (di.set (pa + pb) B[pb].2)
            w2 w3 w4 w5 w6 rv0 F' (by omega) (by omega) hpa (by omega) (by simpa using hdv) (by simpa using hdi)
          have hM : mergeUntil (A.drop pa) (B.drop pb) = B[pb] :: mergeUntil (A.drop pa) (B.drop (pb + 1)) := by
            rw [hda, hdb, mergeUntil, if_pos hlt, ← hda]
          refine ⟨s', pa', pb', hw, ?_, h2, ?_, ?_, ?_⟩
          · rw [h1, hM]; simp only [List.length_cons]; congr 1; omega
          · rw [h3, hM]; simp only [List.length_cons]; omega
          · rw [h4, hM]
            have := take_set_drop dv (pa + pb) B[pb].1 ((mergeUntil (A.drop pa) (B.drop (pb + 1))).map (·.1)) (by omega)
            simp only [List.length_map] at this
            simpa [Nat.add_assoc] using this
          · rw [h5, hM]
            have := take_set_drop di (pa + pb) B[pb].2 ((mergeUntil (A.drop pa) (B.drop (pb + 1))).map (·.2)) (by omega)
            simp only [List.length_map] at this
            simpa [Nat.add_assoc] using this
        · rw [if_neg hlt]
          simp only []
          obtain ⟨s', pa', pb', hw, h1, h2, h3, h4, h5⟩ := ih (pa + 1) pb (dv.set (pa + pb) A[pa].1) (di.set (pa + pb) A[pa].2)
            w2 w3 w4 w5 w6 rv0 F' (by omega) (by omega) (by omega) hpb (by simpa using hdv) (by simpa using hdi)
          have hM : mergeUntil (A.drop pa) (B.drop pb) = A[pa] :: mergeUntil (A.drop (pa + 1)) (B.drop pb) := by
            rw [hda, hdb, mergeUntil, if_neg hlt, ← hdb]
          have e : pa + 1 + pb = pa + pb + 1 := by omega
          rw [e] at h1 h3 h4 h5
          refine ⟨s', pa', pb', hw, ?_, h2, ?_, ?_, ?_⟩
          · rw [h1, hM]; simp only [List.length_cons]; congr 1; omega
          · rw [h3, hM]; simp only [List.length_cons]; omega
          · rw [h4, hM]
            have := take_set_drop dv (pa + pb) A[pa].1 ((mergeUntil (A.drop (pa + 1)) (B.drop pb)).map (·.1)) (by omega)
            simp only [List.length_map] at this
            simpa [Nat.add_assoc] using this
          · rw [h5, hM]
            have := take_set_drop di (pa + pb) A[pa].2 ((mergeUntil (A.drop (pa + 1)) (B.drop pb)).map (·.2)) (by omega)
            simp only [List.length_map] at this
            simpa [Nat.add_assoc] using this
      · have eb : pb = B.length := by omega
        subst eb
        obtain ⟨w2, w3, w4, hbody⟩ := body_b_done A B dv di pa ((pa + B.length : Nat) : Int) ((A.length + B.length : Nat) : Int)
          v2 v3 v4 v5 v6 rv0 A[pa] (List.getElem?_eq_getElem ha)
        rw [whileE, hg, if_pos rfl, hbody]
        simp only []
        rw [while_ret _ _ rfl]
        have hM : mergeUntil (A.drop pa) (B.drop B.length) = [] := by rw [hda, List.drop_length, mergeUntil]
        exact ⟨_, pa, B.length, rfl, by simp, rfl, by simp, by simp, by simp⟩
    · have ea : pa = A.length := by omega
      subst ea
      have hM : mergeUntil (A.drop A.length) (B.drop pb) = [] := by rw [List.drop_length, mergeUntil]
      by_cases hb : pb < B.length
      · have hg : streaming_sort_partial.guard_L1 (mk [(A.length : Int), (pb : Int)] [(A.length : Int), (B.length : Int)]
            [A.map (·.1), B.map (·.1)] [A.map (·.2), B.map (·.2)] dv di ((A.length + pb : Nat) : Int)
            ((A.length + B.length : Nat) : Int) v2 v3 v4 v5 v6 false rv0) = true := by
          simp [streaming_sort_partial.guard_L1]; omega
        rw [whileE, hg, if_pos rfl, body_a_done]
        simp only []
        rw [while_ret _ _ rfl]
        exact ⟨_, A.length, pb, rfl, by simp, rfl, by simp, by simp, by simp⟩
      · have eb : pb = B.length := by omega
        subst eb
        have hg : streaming_sort_partial.guard_L1 (mk [(A.length : Int), (B.length : Int)] [(A.length : Int), (B.length : Int)]
            [A.map (·.1), B.map (·.1)] [A.map (·.2), B.map (·.2)] dv di ((A.length + B.length : Nat) : Int)
            ((A.length + B.length : Nat) : Int) v2 v3 v4 v5 v6 false rv0) = false := by
          simp [streaming_sort_partial.guard_L1]
        refine ⟨mk [(A.length : Int), (B.length : Int)] [(A.length : Int), (B.length : Int)]
            [A.map (·.1), B.map (·.1)] [A.map (·.2), B.map (·.2)] dv di ((A.length + B.length : Nat) : Int)
            ((A.length + B.length : Nat) : Int) v2 v3 v4 v5 v6 false rv0, A.length, B.length, ?_, ?_⟩
        · rw [whileE, hg]; rfl
        · simp

end SSort
/-- **two chunks** of (value, row index) pairs, positions `[0, 0]`, destination buffers with room for both chunks: the translated kernel
    returns the number of rows of `mergeUntil A B`, the new chunk positions, and the two destination buffers holding the merged
    values / row indices followed by their untouched rest — no subscript out of range or negative, within len(A) + len(B) + 1
    iterations of the outer loop -/
theorem streaming_sort_two_chunks (A B : List (Int × Int)) (dv di : List Int) (cap : Nat) (hdv : dv.length = cap)
    (hdi : di.length = cap) (hcap : A.length + B.length ≤ cap) (fuel : Nat) (hf : A.length + B.length < fuel) :
    ∃ pa pb : Nat, pa + pb = (mergeUntil A B).length ∧
      streaming_sort_partial.run [0, 0] [(A.length : Int), (B.length : Int)] [A.map (·.1), B.map (·.1)] [A.map (·.2), B.map (·.2)]
          dv di fuel
        = .ok (((mergeUntil A B).length : Int), [(pa : Int), (pb : Int)],
            (mergeUntil A B).map (·.1) ++ dv.drop (mergeUntil A B).length,
            (mergeUntil A B).map (·.2) ++ di.drop (mergeUntil A B).length) := by
  obtain ⟨s', pa', pb', hw, h1, h2, h3, h4, h5⟩ := SSort.loop A B cap hcap (A.length + B.length) 0 0 dv di 0 0 0 0 0 0 fuel
    (by omega) hf (Nat.zero_le _) (Nat.zero_le _) hdv hdi
  simp only [List.drop_zero, Nat.add_zero, Nat.zero_add, List.take_zero, List.nil_append] at h1 h3 h4 h5
  refine ⟨pa', pb', h3, ?_⟩
  unfold streaming_sort_partial.run
  have hsum : ([(A.length : Int), (B.length : Int)].foldl (· + ·) 0) = ((A.length + B.length : Nat) : Int) := by
    simp [List.foldl]
  simp only [hsum]
  simp only [SSort.mk, Nat.add_zero, Int.natCast_zero] at hw
  simp only [hw, bindE_ok]
  cases hr : s'.ret
  · simp only [hr, Bool.false_eq_true, if_false] at h1 ⊢
    rw [h1, h2, h4, h5]
  · simp only [hr, if_true] at h1 ⊢
    rw [h1, h2, h4, h5]

example : streaming_sort_partial.run [0, 0] [3, 3] [[1, 4, 6], [2, 4, 9]] [[0, 1, 2], [100, 101, 102]] [0, 0, 0, 0, 0, 0]
    [0, 0, 0, 0, 0, 0] 7 = .ok (5, [3, 2], [1, 2, 4, 4, 6, 0], [0, 100, 1, 101, 2, 0]) := rfl
example : mergeUntil [(1, 0), (4, 1), (6, 2)] [(2, 100), (4, 101), (9, 102)] = [(1, 0), (2, 100), (4, 1), (4, 101), (6, 2)] := by
  simp [mergeUntil]

end Exetera.GenK
