import Exetera.Lemmas.JournalSortBase
import Exetera.Lemmas.JournalPlan
/-! A reading of `Spec.Journal.history` that does not mention the sorting algorithm: the rows of a key, paired with their
    `valid_from` times, are strictly ascending in (time, physical row) — equal times keep the physical order. -/
namespace Exetera.Journal
open Exetera Exetera.Spec.Journal

/-- strictly earlier in (time, row) order -/
def TimeRowLt (a b : Int × Nat) : Prop := a.1 < b.1 ∨ (a.1 = b.1 ∧ a.2 < b.2)

theorem mem_insertByTime {t : Int} {r : Nat} {p : Int × Nat} : ∀ {l : List (Int × Nat)},
    p ∈ insertByTime t r l ↔ p = (t, r) ∨ p ∈ l
  | [] => by simp [insertByTime]
  | (t', r') :: rest => by
    unfold insertByTime
    split
    · simp only [List.mem_cons, mem_insertByTime (l := rest)]
      constructor
      · rintro (h | h | h) <;> simp [h]
      · rintro (h | h | h) <;> simp [h]
    · simp

theorem mem_sortByTime {p : Int × Nat} : ∀ {l : List (Int × Nat)}, p ∈ sortByTime l ↔ p ∈ l
  | [] => by simp [sortByTime]
  | (t, r) :: rest => by simp [sortByTime, mem_insertByTime, mem_sortByTime (l := rest)]

theorem insertByTime_lex {t : Int} {r : Nat} : ∀ {l : List (Int × Nat)}, l.Pairwise TimeRowLt → (∀ p, p ∈ l → r < p.2) →
    (insertByTime t r l).Pairwise TimeRowLt
  | [], _, _ => by simp [insertByTime]
  | (t', r') :: rest, hl, hr => by
    rw [List.pairwise_cons] at hl
    unfold insertByTime
    split
    · rename_i hlt
      rw [List.pairwise_cons]
      refine ⟨?_, insertByTime_lex hl.2 (fun p hp => hr p (by simp [hp]))⟩
      intro p hp
      rw [mem_insertByTime] at hp
      rcases hp with rfl | hp
      · exact Or.inl hlt
      · exact hl.1 p hp
    · rename_i hge
      rw [List.pairwise_cons]
      refine ⟨?_, List.pairwise_cons.2 hl⟩
      intro p hp
      rw [List.mem_cons] at hp
      have hrp := hr p (by simpa using hp)
      rcases hp with rfl | hp
      · simp only [TimeRowLt]
        by_cases e : t = t'
        · exact Or.inr ⟨e, hrp⟩
        · exact Or.inl (by show t < t'; omega)
      · have h1 := hl.1 p hp
        simp only [TimeRowLt] at h1 ⊢
        by_cases e : t = p.1
        · exact Or.inr ⟨e, hrp⟩
        · left
          rcases h1 with h1 | h1 <;> omega

theorem sortByTime_lex : ∀ {l : List (Int × Nat)}, (l.map (·.2)).Pairwise (· < ·) → (sortByTime l).Pairwise TimeRowLt
  | [], _ => List.Pairwise.nil
  | (t, r) :: rest, h => by
    simp only [List.map_cons, List.pairwise_cons] at h
    simp only [sortByTime]
    apply insertByTime_lex (sortByTime_lex h.2)
    intro p hp
    rw [mem_sortByTime] at hp
    exact h.1 p.2 (List.mem_map.2 ⟨p, hp, rfl⟩)

theorem positionsFrom_ascending (k : Int) : ∀ (xs : List Int) (base : Nat),
    (positionsFrom k base xs).Pairwise (· < ·) ∧ ∀ r, r ∈ positionsFrom k base xs → base ≤ r
  | [], _ => by simp [positionsFrom]
  | x :: xs, base => by
    obtain ⟨ih1, ih2⟩ := positionsFrom_ascending k xs (base + 1)
    simp only [positionsFrom]
    split
    · refine ⟨List.pairwise_cons.2 ⟨fun r hr => by have := ih2 r hr; omega, ih1⟩, ?_⟩
      intro r hr
      rw [List.mem_cons] at hr
      rcases hr with rfl | hr
      · exact Nat.le_refl _
      · have := ih2 r hr; omega
    · exact ⟨ih1, fun r hr => by have := ih2 r hr; omega⟩

theorem rows_sublist (f : Nat → Option Int) : ∀ (l : List Nat),
    ((l.filterMap (fun r => (f r).map (·, r))).map (·.2)).Sublist l
  | [] => List.Sublist.slnil
  | a :: t => by
    rw [List.filterMap_cons]
    cases f a with
    | none => exact List.Sublist.cons _ (rows_sublist f t)
    | some v => exact List.Sublist.cons_cons _ (rows_sublist f t)

/-- the history of a key, with the times attached, is strictly ascending in (valid_from, physical row) -/
theorem history_time_row_order (okeys ovf : List Int) (k : Int) :
    ∃ L : List (Int × Nat), history okeys ovf k = L.map (·.2) ∧ L.Pairwise TimeRowLt ∧
      ∀ p, p ∈ L → ovf[p.2]? = some p.1 ∧ okeys[p.2]? = some k := by
  refine ⟨sortByTime ((positions k okeys).filterMap (fun r => ovf[r]?.map (·, r))), rfl, ?_, ?_⟩
  · apply sortByTime_lex
    have hsub := rows_sublist (fun r => ovf[r]?) (positions k okeys)
    exact (positionsFrom_ascending k okeys 0).1.sublist hsub
  · intro p hp
    rw [mem_sortByTime, List.mem_filterMap] at hp
    obtain ⟨r, hr, he⟩ := hp
    cases hv : ovf[r]? with
    | none => simp [hv] at he
    | some t =>
      simp only [hv, Option.map_some, Option.some.injEq] at he
      subst he
      exact ⟨hv, (mem_positions hr).2⟩

end Exetera.Journal
