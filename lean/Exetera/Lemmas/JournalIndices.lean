import Exetera.Model.Journal
import Exetera.Lemmas.JournalSpec
import Exetera.Lemmas.While
/-! `ordered_generate_journalling_indices`: both passes terminate without an out-of-bounds access and the result is
    `Spec.Journal.indices` (old keys ascending, snapshot keys strictly ascending). -/
namespace Exetera.Journal
open Exetera Exetera.Spec.Journal

/-! ### the run-skipping scan -/

theorem skipRunFrom_spec (old : List Int) : ∀ (f i : Nat), i < old.length → old.length ≤ i + 1 + f →
    i ≤ skipRunFrom old f i ∧ skipRunFrom old f i < old.length ∧
    (∀ t, i ≤ t → t ≤ skipRunFrom old f i → old[t]? = old[i]?) ∧
    (skipRunFrom old f i + 1 < old.length → old[skipRunFrom old f i + 1]? ≠ old[skipRunFrom old f i]?) := by
  intro f
  induction f with
  | zero =>
    intro i hi hf
    simp only [skipRunFrom]
    refine ⟨Nat.le_refl _, hi, ?_, ?_⟩
    · intro t h1 h2; have : t = i := by omega
      rw [this]
    · intro h; omega
  | succ f ih =>
    intro i hi hf
    simp only [skipRunFrom]
    split
    · rename_i hc
      simp only [Bool.and_eq_true, decide_eq_true_eq, beq_iff_eq] at hc
      obtain ⟨h1, h2, h3, h4⟩ := ih (i + 1) hc.1 (by omega)
      refine ⟨by omega, h2, ?_, h4⟩
      intro t ht1 ht2
      by_cases hti : t = i
      · rw [hti]
      · rw [h3 t (by omega) ht2, hc.2]
    · rename_i hc
      refine ⟨Nat.le_refl _, hi, ?_, ?_⟩
      · intro t h1 h2; have : t = i := by omega
        rw [this]
      · intro h hh
        apply hc
        simp only [Bool.and_eq_true, decide_eq_true_eq, beq_iff_eq]
        exact ⟨h, hh⟩

theorem skipRun_spec (old : List Int) (i : Nat) (hi : i < old.length) :
    i ≤ skipRun old i ∧ skipRun old i < old.length ∧
    (∀ t, i ≤ t → t ≤ skipRun old i → old[t]? = old[i]?) ∧
    (skipRun old i + 1 < old.length → old[skipRun old i + 1]? ≠ old[skipRun old i]?) :=
  skipRunFrom_spec old (old.length - i) i hi (by omega)

theorem sorted_getElem_le {l : List Int} (h : l.Pairwise (· ≤ ·)) {p q : Nat} (hpq : p ≤ q) (hq : q < l.length) :
    l[p]'(by omega) ≤ l[q] := by
  by_cases e : p = q
  · subst e; exact Int.le_refl _
  · exact (List.pairwise_iff_getElem.1 h) p q (by omega) hq (by omega)

theorem strict_getElem_lt {l : List Int} (h : l.Pairwise (· < ·)) {p q : Nat} (hpq : p < q) (hq : q < l.length) :
    l[p]'(by omega) < l[q] :=
  (List.pairwise_iff_getElem.1 h) p q (by omega) hq hpq

/-- the prefix up to the end of the run starting at `i` -/
theorem take_skipRun (old : List Int) (i : Nat) (hi : i < old.length) :
    old.take (skipRun old i + 1) = old.take i ++ List.replicate (skipRun old i + 1 - i) old[i] := by
  obtain ⟨h1, h2, h3, _⟩ := skipRun_spec old i hi
  apply List.ext_getElem?
  intro t
  by_cases ht : t < i
  · rw [List.getElem?_append_left (by simp; omega), List.getElem?_take, List.getElem?_take]
    simp [ht]; intro; omega
  · rw [List.getElem?_append_right (by simp; omega)]
    simp only [List.length_take, List.getElem?_take, List.getElem?_replicate]
    have hmin : min i old.length = i := by omega
    rw [hmin]
    by_cases hte : t ≤ skipRun old i
    · rw [if_pos (by omega), if_pos (by omega), h3 t (by omega) hte]
      exact List.getElem?_eq_getElem hi
    · rw [if_neg (by omega), if_neg (by omega)]

/-- everything after the run is greater (old ascending) -/
theorem drop_skipRun_gt {old : List Int} (hs : old.Pairwise (· ≤ ·)) (i : Nat) (hi : i < old.length) :
    ∀ y, y ∈ old.drop (skipRun old i + 1) → old[i] < y := by
  obtain ⟨h1, h2, h3, h4⟩ := skipRun_spec old i hi
  intro y hy
  obtain ⟨t, ht, rfl⟩ := List.mem_drop_iff_getElem.1 hy
  have he : old[skipRun old i]? = old[i]? := h3 _ h1 (Nat.le_refl _)
  rw [List.getElem?_eq_getElem h2, List.getElem?_eq_getElem hi] at he
  have he' : old[skipRun old i] = old[i] := by simpa using he
  have hlt : skipRun old i + 1 < old.length := by omega
  have hne := h4 hlt
  rw [List.getElem?_eq_getElem hlt, List.getElem?_eq_getElem h2] at hne
  have hne' : old[skipRun old i + 1] ≠ old[skipRun old i] := by simpa using hne
  have hle1 : old[skipRun old i] ≤ old[skipRun old i + 1] := sorted_getElem_le hs (p := skipRun old i) (q := skipRun old i + 1) (by omega) hlt
  have hle2 : old[skipRun old i + 1] ≤ old[skipRun old i + 1 + t] := sorted_getElem_le hs (p := skipRun old i + 1) (q := skipRun old i + 1 + t) (by omega) (by omega)
  omega


/-! ### list facts -/

theorem getElem_mem_drop {l : List Int} {i : Nat} (h : i < l.length) : l[i] ∈ l.drop i :=
  List.mem_drop_iff_getElem.2 ⟨0, by omega, by simp⟩

theorem mem_drop_of_le {l : List Int} {a b : Nat} (hab : a ≤ b) {y : Int} (hy : y ∈ l.drop b) : y ∈ l.drop a := by
  obtain ⟨t, ht, rfl⟩ := List.mem_drop_iff_getElem.1 hy
  refine List.mem_drop_iff_getElem.2 ⟨b - a + t, by omega, ?_⟩
  congr 1; omega

theorem mem_take_lt_of_strict {l : List Int} (h : l.Pairwise (· < ·)) {j : Nat} (hj : j < l.length) {x : Int}
    (hx : x ∈ l.take j) : x < l[j] := by
  obtain ⟨t, ht, rfl⟩ := List.mem_take_iff_getElem.1 hx
  exact strict_getElem_lt h (by omega) hj

theorem mem_drop_succ_gt_of_strict {l : List Int} (h : l.Pairwise (· < ·)) {j : Nat} (hj : j < l.length) {y : Int}
    (hy : y ∈ l.drop (j + 1)) : l[j] < y := by
  obtain ⟨t, ht, rfl⟩ := List.mem_drop_iff_getElem.1 hy
  exact strict_getElem_lt h (by omega) (by omega)

theorem mem_drop_ge_of_sorted {l : List Int} (h : l.Pairwise (· ≤ ·)) {j : Nat} (hj : j < l.length) {y : Int}
    (hy : y ∈ l.drop j) : l[j] ≤ y := by
  obtain ⟨t, ht, rfl⟩ := List.mem_drop_iff_getElem.1 hy
  exact sorted_getElem_le h (by omega) (by omega)

/-! ### the boundary invariant: both cursors stand at a key boundary, everything consumed is smaller than everything left -/

structure Bnd (old new : List Int) (i j : Nat) : Prop where
  hi : i ≤ old.length
  hj : j ≤ new.length
  b1 : ∀ x, x ∈ old.take i → ∀ y, y ∈ old.drop i → x < y
  b2 : ∀ x, x ∈ old.take i → ∀ y, y ∈ new.drop j → x < y
  b3 : ∀ x, x ∈ new.take j → ∀ y, y ∈ old.drop i → x < y

theorem Bnd.zero (old new : List Int) : Bnd old new 0 0 :=
  ⟨Nat.zero_le _, Nat.zero_le _, by simp, by simp, by simp⟩

set_option linter.unusedSectionVars false
section steps
variable {old new : List Int} (hso : old.Pairwise (· ≤ ·)) (hsn : new.Pairwise (· < ·)) {i j : Nat}
include hso hsn

theorem Bnd.lt_old (hb : Bnd old new i j) (hi : i < old.length) :
    ∀ x, x ∈ old.take i ∨ x ∈ new.take j → x < old[i] := by
  intro x hx
  rcases hx with hx | hx
  · exact hb.b1 x hx _ (getElem_mem_drop hi)
  · exact hb.b3 x hx _ (getElem_mem_drop hi)

theorem Bnd.lt_new (hb : Bnd old new i j) (hj : j < new.length) :
    ∀ x, x ∈ old.take i ∨ x ∈ new.take j → x < new[j] := by
  intro x hx
  rcases hx with hx | hx
  · exact hb.b2 x hx _ (getElem_mem_drop hj)
  · exact mem_take_lt_of_strict hsn hj hx

theorem Bnd.oldStep (hb : Bnd old new i j) (hi : i < old.length) (hlt : ∀ y, y ∈ new.drop j → old[i] < y) :
    Bnd old new (skipRun old i + 1) j := by
  obtain ⟨h1, h2, _, _⟩ := skipRun_spec old i hi
  refine ⟨by omega, hb.hj, ?_, ?_, ?_⟩
  · intro x hx y hy
    rw [take_skipRun old i hi, List.mem_append, List.mem_replicate] at hx
    rcases hx with hx | ⟨_, rfl⟩
    · exact hb.b1 x hx y (mem_drop_of_le (by omega) hy)
    · exact drop_skipRun_gt hso i hi y hy
  · intro x hx y hy
    rw [take_skipRun old i hi, List.mem_append, List.mem_replicate] at hx
    rcases hx with hx | ⟨_, rfl⟩
    · exact hb.b2 x hx y hy
    · exact hlt y hy
  · intro x hx y hy
    exact hb.b3 x hx y (mem_drop_of_le (by omega) hy)

theorem Bnd.newStep (hb : Bnd old new i j) (hj : j < new.length) (hlt : ∀ y, y ∈ old.drop i → new[j] < y) :
    Bnd old new i (j + 1) := by
  refine ⟨hb.hi, by omega, hb.b1, ?_, ?_⟩
  · intro x hx y hy
    exact hb.b2 x hx y (mem_drop_of_le (by omega) hy)
  · intro x hx y hy
    rw [List.take_succ_eq_append_getElem hj, List.mem_append, List.mem_singleton] at hx
    rcases hx with hx | rfl
    · exact hb.b3 x hx y hy
    · exact hlt y hy

theorem Bnd.bothStep (hb : Bnd old new i j) (hi : i < old.length) (hj : j < new.length) (heq : old[i] = new[j]) :
    Bnd old new (skipRun old i + 1) (j + 1) := by
  obtain ⟨h1, h2, _, _⟩ := skipRun_spec old i hi
  refine ⟨by omega, by omega, ?_, ?_, ?_⟩
  · intro x hx y hy
    rw [take_skipRun old i hi, List.mem_append, List.mem_replicate] at hx
    rcases hx with hx | ⟨_, rfl⟩
    · exact hb.b1 x hx y (mem_drop_of_le (by omega) hy)
    · exact drop_skipRun_gt hso i hi y hy
  · intro x hx y hy
    rw [take_skipRun old i hi, List.mem_append, List.mem_replicate] at hx
    rcases hx with hx | ⟨_, rfl⟩
    · exact hb.b2 x hx y (mem_drop_of_le (by omega) hy)
    · rw [heq]; exact mem_drop_succ_gt_of_strict hsn hj hy
  · intro x hx y hy
    rw [List.take_succ_eq_append_getElem hj, List.mem_append, List.mem_singleton] at hx
    rcases hx with hx | rfl
    · exact hb.b3 x hx y (mem_drop_of_le (by omega) hy)
    · rw [← heq]; exact drop_skipRun_gt hso i hi y hy

/-! how the specification grows with each kind of step -/

theorem indices_oldStep (hb : Bnd old new i j) (hi : i < old.length) :
    indices (old.take (skipRun old i + 1)) (new.take j) =
      ((indices (old.take i) (new.take j)).1 ++ [(skipRun old i : Int)], (indices (old.take i) (new.take j)).2 ++ [-1]) := by
  obtain ⟨h1, h2, _, _⟩ := skipRun_spec old i hi
  have := indices_snoc (m := skipRun old i + 1 - i) (b := false) (Bnd.lt_old hso hsn hb hi) (Or.inl (by omega))
  rw [take_skipRun old i hi]
  simp only [snocNew, Bool.false_eq_true, if_false, List.append_nil] at this
  rw [this]
  have hl : lastOld (old.take i) (skipRun old i + 1 - i) = some (skipRun old i) := by
    unfold lastOld
    rw [if_neg (by omega), List.length_take]
    congr 1; omega
  simp [hl, newRow, idxOr]

theorem indices_newStep (hb : Bnd old new i j) (hj : j < new.length) :
    indices (old.take i) (new.take (j + 1)) =
      ((indices (old.take i) (new.take j)).1 ++ [-1], (indices (old.take i) (new.take j)).2 ++ [(j : Int)]) := by
  have := indices_snoc (m := 0) (b := true) (Bnd.lt_new hso hsn hb hj) (Or.inr rfl)
  rw [List.take_succ_eq_append_getElem hj]
  simp only [snocNew, if_true, List.replicate_zero, List.append_nil] at this
  rw [this]
  have hmin : min j new.length = j := by omega
  simp [lastOld, newRow, idxOr, hmin]

theorem indices_bothStep (hb : Bnd old new i j) (hi : i < old.length) (hj : j < new.length) (heq : old[i] = new[j]) :
    indices (old.take (skipRun old i + 1)) (new.take (j + 1)) =
      ((indices (old.take i) (new.take j)).1 ++ [(skipRun old i : Int)],
       (indices (old.take i) (new.take j)).2 ++ [(j : Int)]) := by
  obtain ⟨h1, h2, _, _⟩ := skipRun_spec old i hi
  have := indices_snoc (m := skipRun old i + 1 - i) (b := true) (Bnd.lt_old hso hsn hb hi) (Or.inl (by omega))
  rw [take_skipRun old i hi, List.take_succ_eq_append_getElem hj, ← heq]
  simp only [snocNew, if_true] at this
  rw [this]
  have hl : lastOld (old.take i) (skipRun old i + 1 - i) = some (skipRun old i) := by
    unfold lastOld
    rw [if_neg (by omega), List.length_take]
    congr 1; omega
  have hmin : min j new.length = j := by omega
  simp [hl, newRow, idxOr, hmin]


/-! ### one pass -/

/-- what a pass has produced so far, against the specification `I` of the consumed prefixes -/
def Out (w : Option Nat) (s : JS) (I : List Int × List Int) : Prop :=
  match w with
  | none => s.n = I.1.length
  | some _ => s.ob = I.1 ∧ s.nb = I.2

omit hso hsn in
theorem Out.congr {w : Option Nat} {s s' : JS} {I : List Int × List Int} (hn : s'.n = s.n) (ho : s'.ob = s.ob)
    (hb : s'.nb = s.nb) (h : Out w s I) : Out w s' I := by
  cases w with
  | none => simpa [Out, hn] using h
  | some c => simpa [Out, ho, hb] using h

omit hso hsn in
theorem emit_ok {w : Option Nat} {s : JS} {I : List Int × List Int} (a b : Int) (hout : Out w s I)
    (hcap : ∀ cap, w = some cap → I.1.length < cap) :
    ∃ s', emit w s a b = .ok s' ∧ s'.i = s.i ∧ s'.j = s.j ∧ Out w s' (I.1 ++ [a], I.2 ++ [b]) := by
  cases w with
  | none => exact ⟨_, rfl, rfl, rfl, by simp [Out] at hout ⊢; exact hout⟩
  | some cap =>
    have hc := hcap cap rfl
    simp only [Out] at hout
    have hlt : s.ob.length < cap := by rw [hout.1]; exact hc
    refine ⟨{ s with ob := s.ob ++ [a], nb := s.nb ++ [b] }, by simp only [emit, hlt, if_true], rfl, rfl, ?_⟩
    simp [Out, hout.1, hout.2]

structure PInv (w : Option Nat) (old new : List Int) (s : JS) : Prop where
  bnd : Bnd old new s.i s.j
  out : Out w s (indices (old.take s.i) (new.take s.j))

omit hso hsn in
theorem prefix_length_le (a b : Nat) :
    (indices (old.take a) (new.take b)).1.length ≤ (keyUnion old new).length := by
  rw [(indices_length _ _).1]
  apply keyUnion_length_mono
  intro x hx
  rcases hx with hx | hx
  · exact Or.inl (List.mem_of_mem_take hx)
  · exact Or.inr (List.mem_of_mem_take hx)

variable {w : Option Nat} (hcap : ∀ cap, w = some cap → (keyUnion old new).length ≤ cap) {s : JS}
include hcap

theorem step_old (hp : PInv w old new s) (hi : s.i < old.length) (hlt : ∀ y, y ∈ new.drop s.j → old[s.i] < y) :
    ∃ s', oldStep w old s = .ok s' ∧ PInv w old new s' ∧ s'.i = skipRun old s.i + 1 ∧ s'.j = s.j := by
  have hI := indices_oldStep hso hsn hp.bnd hi
  have hlen := prefix_length_le (old := old) (new := new) (skipRun old s.i + 1) s.j
  obtain ⟨s1, he, hi1, hj1, ho1⟩ := emit_ok (skipRun old s.i : Int) (-1) hp.out (by
    intro cap hw; have := hcap cap hw
    rw [hI] at hlen; simp only [List.length_append, List.length_singleton] at hlen; omega)
  refine ⟨{ s1 with i := skipRun old s.i + 1 }, by simp only [oldStep, he], ⟨?_, ?_⟩, rfl, hj1⟩
  · simpa [hj1] using Bnd.oldStep hso hsn hp.bnd hi hlt
  · show Out w _ (indices (old.take (skipRun old s.i + 1)) (new.take s1.j))
    rw [hj1, hI]
    exact Out.congr rfl rfl rfl ho1

theorem step_new (hp : PInv w old new s) (hj : s.j < new.length) (hlt : ∀ y, y ∈ old.drop s.i → new[s.j] < y) :
    ∃ s', newStep w s = .ok s' ∧ PInv w old new s' ∧ s'.i = s.i ∧ s'.j = s.j + 1 := by
  have hI := indices_newStep hso hsn hp.bnd hj
  have hlen := prefix_length_le (old := old) (new := new) s.i (s.j + 1)
  obtain ⟨s1, he, hi1, hj1, ho1⟩ := emit_ok (-1) (s.j : Int) hp.out (by
    intro cap hw; have := hcap cap hw
    rw [hI] at hlen; simp only [List.length_append, List.length_singleton] at hlen; omega)
  refine ⟨{ s1 with j := s.j + 1 }, by simp only [newStep, he], ⟨?_, ?_⟩, hi1, rfl⟩
  · simpa [hi1] using Bnd.newStep hso hsn hp.bnd hj hlt
  · show Out w _ (indices (old.take s1.i) (new.take (s.j + 1)))
    rw [hi1, hI]
    exact Out.congr rfl rfl rfl ho1

theorem step_both (hp : PInv w old new s) (hi : s.i < old.length) (hj : s.j < new.length) (heq : old[s.i] = new[s.j]) :
    ∃ s', bothStep w old s = .ok s' ∧ PInv w old new s' ∧ s'.i = skipRun old s.i + 1 ∧ s'.j = s.j + 1 := by
  have hI := indices_bothStep hso hsn hp.bnd hi hj heq
  have hlen := prefix_length_le (old := old) (new := new) (skipRun old s.i + 1) (s.j + 1)
  obtain ⟨s1, he, hi1, hj1, ho1⟩ := emit_ok (skipRun old s.i : Int) (s.j : Int) hp.out (by
    intro cap hw; have := hcap cap hw
    rw [hI] at hlen; simp only [List.length_append, List.length_singleton] at hlen; omega)
  refine ⟨{ s1 with i := skipRun old s.i + 1, j := s.j + 1 }, by simp only [bothStep, he], ⟨?_, ?_⟩, rfl, rfl⟩
  · exact Bnd.bothStep hso hsn hp.bnd hi hj heq
  · show Out w _ (indices (old.take (skipRun old s.i + 1)) (new.take (s.j + 1)))
    rw [hI]
    exact Out.congr rfl rfl rfl ho1

theorem step_main (hp : PInv w old new s) (hi : s.i < old.length) (hj : s.j < new.length) :
    ∃ s', mainBody w old new s = .ok s' ∧ PInv w old new s' ∧ s.i ≤ s'.i ∧ s.j ≤ s'.j ∧ s.i + s.j < s'.i + s'.j := by
  have hsk := (skipRun_spec old s.i hi).1
  simp only [mainBody, getE_of_lt _ hi, getE_of_lt _ hj]
  by_cases hab : old[s.i] < new[s.j]
  · rw [if_pos hab]
    obtain ⟨s', h1, h2, h3, h4⟩ := step_old hso hsn hcap hp hi (by
      intro y hy
      have := mem_drop_ge_of_sorted (strict_le hsn) hj hy
      omega)
    exact ⟨s', h1, h2, by omega, by omega, by omega⟩
  · rw [if_neg hab]
    by_cases hba : old[s.i] > new[s.j]
    · rw [if_pos hba]
      obtain ⟨s', h1, h2, h3, h4⟩ := step_new hso hsn hcap hp hj (by
        intro y hy
        have := mem_drop_ge_of_sorted hso hi hy
        omega)
      exact ⟨s', h1, h2, by omega, by omega, by omega⟩
    · rw [if_neg hba]
      obtain ⟨s', h1, h2, h3, h4⟩ := step_both hso hsn hcap hp hi hj (by omega)
      exact ⟨s', h1, h2, by omega, by omega, by omega⟩

/-- one pass ends with both columns consumed and has produced the specification -/
theorem pass_spec : ∃ s, pass w old new = .ok s ∧ Out w s (indices old new) := by
  -- first loop
  obtain ⟨s1, hw1, ⟨hp1, -⟩, hg1⟩ := whileE_rule (fun s : JS => decide (s.i < old.length) && decide (s.j < new.length))
    (mainBody w old new) (fun s => PInv w old new s ∧ True) (fun s => old.length + new.length - (s.i + s.j))
    (by
      intro s hp hg
      simp only [Bool.and_eq_true, decide_eq_true_eq] at hg
      obtain ⟨s', h1, h2, h3, h4, h5⟩ := step_main hso hsn hcap hp.1 hg.1 hg.2
      have := h2.bnd.hi; have := h2.bnd.hj
      exact ⟨s', h1, ⟨h2, trivial⟩, by omega⟩)
    (old.length + new.length) {} ⟨⟨Bnd.zero old new, by
      cases w <;> simp [Out, indices, keyUnion]⟩, trivial⟩ (by simp)
  simp only [Bool.and_eq_false_iff, decide_eq_false_iff_not] at hg1
  -- second loop
  obtain ⟨s2, hw2, ⟨hp2, hd2⟩, hg2⟩ := whileE_rule (fun s : JS => decide (s.i < old.length))
    (oldStep w old) (fun s => PInv w old new s ∧ (s.i < old.length → s.j = new.length)) (fun s => old.length - s.i)
    (by
      intro s hp hg
      simp only [decide_eq_true_eq] at hg
      obtain ⟨s', h1, h2, h3, h4⟩ := step_old hso hsn hcap hp.1 hg (by
        intro y hy
        rw [hp.2 hg] at hy
        simp at hy)
      have := (skipRun_spec old s.i hg).1
      exact ⟨s', h1, ⟨h2, fun _ => by rw [h4]; exact hp.2 hg⟩, by omega⟩)
    old.length s1 ⟨hp1, by
      intro h; have := hp1.bnd.hj
      rcases hg1 with h' | h' <;> omega⟩ (by omega)
  simp only [decide_eq_false_iff_not] at hg2
  -- third loop
  obtain ⟨s3, hw3, ⟨hp3, hd3⟩, hg3⟩ := whileE_rule (fun s : JS => decide (s.j < new.length))
    (newStep w) (fun s => PInv w old new s ∧ s.i = old.length) (fun s => new.length - s.j)
    (by
      intro s hp hg
      simp only [decide_eq_true_eq] at hg
      obtain ⟨s', h1, h2, h3, h4⟩ := step_new hso hsn hcap hp.1 hg (by
        intro y hy
        rw [hp.2] at hy
        simp at hy)
      exact ⟨s', h1, ⟨h2, by rw [h3]; exact hp.2⟩, by omega⟩)
    new.length s2 ⟨hp2, by have := hp2.bnd.hi; omega⟩ (by omega)
  simp only [decide_eq_false_iff_not] at hg3
  refine ⟨s3, ?_, ?_⟩
  · simp only [pass, hw1, hw2, hw3]
  · have hj3 : s3.j = new.length := by have := hp3.bnd.hj; omega
    have := hp3.out
    rwa [hd3, hj3, List.take_length, List.take_length] at this

end steps


/-- **ordered_generate_journalling_indices**: for ascending old keys and strictly ascending snapshot keys both passes run to
    completion (no out-of-bounds access, no loop out of fuel) and return exactly the specified slots. -/
theorem journalIndices_eq {old new : List Int} (hso : old.Pairwise (· ≤ ·)) (hsn : new.Pairwise (· < ·)) :
    journalIndices old new = .ok (indices old new) := by
  obtain ⟨c, hc, hoc⟩ := pass_spec hso hsn (w := none) (by intro cap h; cases h)
  simp only [Out] at hoc
  obtain ⟨r, hr, hor⟩ := pass_spec hso hsn (w := some c.n) (by
    intro cap h; cases h; rw [hoc, (indices_length old new).1]; exact Nat.le_refl _)
  simp only [Out] at hor
  simp only [journalIndices, hc, hr]
  simp only [hor.1, hor.2, hoc, (indices_length old new).1, (indices_length old new).2,
    Nat.sub_self, List.replicate_zero, List.append_nil]

end Exetera.Journal
