"""C12 — streaming operations always terminate. The streamed drivers are run on adversarial shapes (a key repeated more
often than the chunk size, chunk size 1, zero-length inputs, entries longer than a buffer …) with a per-case watchdog; the number
of `_partial` invocations is counted by wrapping the module attributes from outside and compared with the model's count."""
from checks.harness import meta

PROPERTY = "C12"
LEVEL = "proof"
LEAN_MODULES = ["Exetera.Props.C12", "Exetera.Props.C12Copy", "Exetera.Props.C12Map", "Exetera.Props.C12Rest"]
BASES = ["c03", "c04", "c16", "c05", "c18", "c12_copy"]
MODES = {"quick": ["jit"], "thorough": ["jit", "nojit"], "search": ["jit"]}
CASE_TIMEOUT = 15
EXHAUSTIVE = {"quick": False, "thorough": False}
TECHNIQUE = "Lean 4 total-correctness theorems (explicit linear fuel bound, fuel-indexed loops; outOfFuel = spin) + call-count correspondence and watchdog on adversarial inputs"
LEVEL_TEXT = ("Proof on the model's step semantics: every modelled streamed driver, given fuel above an explicit bound linear in input plus "
              "output size, finishes normally for every chunk size >= 1 (also when a run of equal keys exceeds the chunk), and the number of "
              "kernel invocations is at most twice that bound. Partial by nature: wall-clock time is not modelled; the step semantics is tied "
              "to the code by comparing kernel-invocation counts and by a watchdog.")
LEVEL_NOTE = ("Trusted: Lean kernel; the hand-written driver models (validated by result and call-count correspondence); the watchdog "
              "(CASE_TIMEOUT seconds, retried with 4x budget) for what 'hang' means on the implementation.")
RULE = ("cases of the streamed-operation harnesses restricted to streaming entry points, plus their adversarial generators (run >= chunk, "
        "chunk size 1, empty inputs); non-trivial = more than one driver iteration in the model; distinct = distinct case dict")
ASSUMPTIONS = ["a Python-level spin is interrupted by SIGALRM; a spin inside a compiled kernel is detected by the worker stall timeout"]
TRUSTED = ["Lean 4.33 kernel", "axioms propext/Classical.choice/Quot.sound only", "checks/harness/*.py"]


def gen_cases(tier, rng):
    per = {"quick": 1500, "thorough": 20000, "search": 8000}[tier]

    def keep(n, b, c):
        f = getattr(b, "is_streamed", None)
        return f(c) if f else True
    return meta.gen_cases(BASES, tier, rng, per, keep)


def impl(case):
    return meta.impl(case, "impl_counted")


to_model = meta.to_model
classify = meta.classify


def nontrivial(case, mo):
    try:
        return mo["ok"].get("calls", 2) > 1
    except Exception:
        return True


def compare(case, io, mo, mode):
    why = meta.compare(case, io, mo, mode)
    if why:
        return why
    if io.get("calls") is not None and "ok" in mo and "calls" in mo["ok"] and io["calls"] != mo["ok"]["calls"]:
        return f"kernel invocations: impl {io['calls']} model {mo['ok']['calls']}"
    return None


def check_spec(case, io, mode):
    if io.get("err") == "hang":
        return "did not finish within the watchdog budget (spins)"
    b = meta.base(case["_h"])
    if case["_h"] == "c12_copy":
        why = b.check_spec(case, io, mode)
        if why:
            return why
    bound = getattr(b, "step_bound", None)
    if bound and io.get("calls") is not None and io["calls"] > bound(case, io):
        return f"{io['calls']} kernel invocations exceed the linear bound {bound(case, io)}"
    return None


def select_for_mode(case, mode, tier):
    b = meta.base(case["_h"])
    sel = getattr(b, "select_for_mode", None)
    return sel(case, mode, "thorough") if sel else True
