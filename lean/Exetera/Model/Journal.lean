import Exetera.Model.Basic
/-!
  Model of snapshot journalling (exetera/core/operations.py 2442-2623, exetera/core/journal.py `journal_table`):

    ordered_generate_journalling_indices (counting pass + writing pass),
    compare_rows_for_journalling, compare_indexed_rows_for_journalling (accumulating `to_keep`),
    merge_journalled_entries, merge_indexed_journalled_entries_count, merge_indexed_journalled_entries,
    journal_table (sort old by (key, j_valid_from), new by key; compare every common field; merge every common field).

  Conventions
  * keys, numeric payloads and string bytes are `Int` (the kernels only compare and copy them); map entries are `Int`
    (`-1` = no row); offsets of an indexed string column are `Nat` and must be non-decreasing (the invariant of an
    IndexedStringField, C01) — on a decreasing pair the model stops with `other "offsets"`, a point no caller reaches.
  * a subscript by an `Int` follows Python/numba: a negative value wraps around once (`getI`).
  * buffers that a kernel fills front to back (`old_inds[joint]`, `dest[cur_dest]`, `dest_inds[cur_dest]`) are the list of
    values written so far; "write at the cursor, then advance" is `push` with the capacity check `cursor < len(buffer)`;
    the kernel's result is that list followed by the untouched remainder of the preallocated array (`-1`s / zeros).
    `dest_vals` is written by slice assignment at computed positions, so it is modelled as the whole preallocated list.
  * `for i in range(n)` is `forE`; `while` loops are `whileE` (fuel = the loop's variant); the run-skipping scan
    `while i+1 < len(old) and old[i+1] == old[i]: i += 1` is the structural recursion `skipRunFrom`.
  * numpy externals: `np.argsort(kind='stable')` is `argsortStable` (stable insertion sort of the row numbers), fancy
    indexing `a[index]` / `Field.apply_index` is `gatherE`, the (indices, values) layout of an indexed string field is `encode`.
-/
namespace Exetera.Journal

open Exetera

/-- `xs[k]` for a Python integer `k` (negative subscripts wrap around once) -/
def getI {α} (xs : List α) (k : Int) (site : String := "") : Except Err α :=
  if 0 ≤ k then getE xs k.toNat site
  else if k.natAbs ≤ xs.length then getE xs (xs.length - k.natAbs) site
  else .error (.oob site)

/-- `for i in range(n): s = body i s`, started at `i` -/
def forE {σ} (body : Nat → σ → Except Err σ) : Nat → Nat → σ → Except Err σ
  | 0, _, s => .ok s
  | n + 1, i, s =>
    match body i s with
    | .ok s' => forE body n (i + 1) s'
    | .error e => .error e

/-! ### ordered_generate_journalling_indices -/

/-- loop variables of either pass: `n` is `total` (counting pass); the writing pass's `joint` is `ob.length` -/
structure JS where
  i : Nat := 0
  j : Nat := 0
  n : Nat := 0
  ob : List Int := []
  nb : List Int := []
  deriving Repr, DecidableEq, Inhabited

/-- `while i+1 < len(old) and old[i+1] == old[i]: i += 1` (returns the final `i`) -/
def skipRunFrom (old : List Int) : Nat → Nat → Nat
  | 0, i => i
  | f + 1, i => if i + 1 < old.length && old[i + 1]? == old[i]? then skipRunFrom old f (i + 1) else i

def skipRun (old : List Int) (i : Nat) : Nat := skipRunFrom old (old.length - i) i

/-- counting pass (`w = none`): `total += 1`;
    writing pass (`w = some total`): `old_inds[joint] = a; new_inds[joint] = b; joint += 1` -/
def emit (w : Option Nat) (s : JS) (a b : Int) : Except Err JS :=
  match w with
  | none => .ok { s with n := s.n + 1 }
  | some cap =>
    if s.ob.length < cap then .ok { s with ob := s.ob ++ [a], nb := s.nb ++ [b] }
    else .error (.oob "old_inds[joint]")

/-- the key is only in `old` (also the body of the second loop): skip to the last row of the run, emit `(i, -1)` -/
def oldStep (w : Option Nat) (old : List Int) (s : JS) : Except Err JS :=
  let e := skipRun old s.i
  match emit w s (e : Int) (-1) with
  | .ok s' => .ok { s' with i := e + 1 }
  | .error er => .error er

/-- the key is only in `new` (also the body of the third loop): emit `(-1, j)` -/
def newStep (w : Option Nat) (s : JS) : Except Err JS :=
  match emit w s (-1) (s.j : Int) with
  | .ok s' => .ok { s' with j := s.j + 1 }
  | .error er => .error er

/-- the key is in both: skip to the last row of the run, emit `(i, j)` -/
def bothStep (w : Option Nat) (old : List Int) (s : JS) : Except Err JS :=
  let e := skipRun old s.i
  match emit w s (e : Int) (s.j : Int) with
  | .ok s' => .ok { s' with i := e + 1, j := s.j + 1 }
  | .error er => .error er

/-- body of the first loop -/
def mainBody (w : Option Nat) (old new : List Int) (s : JS) : Except Err JS :=
  match getE old s.i "old[i]", getE new s.j "new[j]" with
  | .ok a, .ok b =>
    if a < b then oldStep w old s
    else if a > b then newStep w s
    else bothStep w old s
  | .error e, _ => .error e
  | _, .error e => .error e

/-- one pass = the three consecutive `while` loops -/
def pass (w : Option Nat) (old new : List Int) : Except Err JS :=
  match whileE (fun s => s.i < old.length && s.j < new.length) (mainBody w old new) (old.length + new.length) {} with
  | .error e => .error e
  | .ok s1 =>
    match whileE (fun s => s.i < old.length) (oldStep w old) old.length s1 with
    | .error e => .error e
    | .ok s2 => whileE (fun s => s.j < new.length) (newStep w) new.length s2

/-- `ordered_generate_journalling_indices(old, new)` → `(old_inds, new_inds)` -/
def journalIndices (old new : List Int) : Except Err (List Int × List Int) :=
  match pass none old new with
  | .error e => .error e
  | .ok c =>
    match pass (some c.n) old new with
    | .error e => .error e
    | .ok r => .ok (r.ob ++ List.replicate (c.n - r.ob.length) (-1), r.nb ++ List.replicate (c.n - r.nb.length) (-1))

/-! ### compare_rows_for_journalling / compare_indexed_rows_for_journalling -/

/-- `to_keep[i] = v` -/
def setTk (tk : List Bool) (i : Nat) (v : Bool) : Except Err (List Bool) := setE tk i v "to_keep[i]"

/-- shared control flow of the two compare kernels; `differs a b` is the comparison of old row `a` with new row `b` -/
def compareBody (om nm : List Int) (differs : Int → Int → Except Err Bool) (i : Nat) (tk : List Bool) :
    Except Err (List Bool) := do
  let t ← getE tk i "to_keep[i]"
  if t == false then
    let o ← getE om i "old_map[i]"
    if o == -1 then setTk tk i true
    else
      let n ← getE nm i "new_map[i]"
      if n == -1 then setTk tk i false
      else
        let d ← differs o n
        setTk tk i d
  else pure tk

/-- `old_field[old_map[i]] != new_field[new_map[i]]` -/
def numDiffers (oldF newF : List Int) (o n : Int) : Except Err Bool := do
  let a ← getI oldF o "old_field[old_map[i]]"
  let b ← getI newF n "new_field[new_map[i]]"
  pure (a != b)

/-- `compare_rows_for_journalling(old_map, new_map, old_field, new_field, to_keep)` → the updated `to_keep` -/
def compareRows (om nm oldF newF : List Int) (tk : List Bool) : Except Err (List Bool) :=
  forE (compareBody om nm (numDiffers oldF newF)) om.length 0 tk

/-- checked `b - a` on offsets -/
def deltaE (a b : Nat) : Except Err Nat :=
  if a ≤ b then .ok (b - a) else .error (.other "offsets")

/-- `values[indices[r]:indices[r+1]]` for a Python integer row `r` -/
def rowBytes (inds : List Nat) (vals : List Int) (r : Int) (site : String) : Except Err (List Int) := do
  let a ← getI inds r site
  let b ← getI inds (r + 1) site
  pure (slice vals a b)

/-- `not np.array_equal(old_value, new_value)` -/
def strDiffers (oi : List Nat) (ov : List Int) (ni : List Nat) (nv : List Int) (o n : Int) : Except Err Bool := do
  let a ← rowBytes oi ov o "old_indices[old_map[i]]"
  let b ← rowBytes ni nv n "new_indices[new_map[i]]"
  pure (a != b)

/-- `compare_indexed_rows_for_journalling(...)` with its three `assert`s -/
def compareIndexedRows (om nm : List Int) (oi : List Nat) (ov : List Int) (ni : List Nat) (nv : List Int)
    (tk : List Bool) : Except Err (List Bool) :=
  if om.length != nm.length then .error (.other "AssertionError")
  else
    match oi.getLast?, ni.getLast? with
    | some lo, some ln =>
      if lo != ov.length then .error (.other "AssertionError")
      else if ln != nv.length then .error (.other "AssertionError")
      else forE (compareBody om nm (strDiffers oi ov ni nv)) om.length 0 tk
    | _, _ => .error (.oob "indices[-1]")

/-! ### merge_journalled_entries -/

structure MS where
  cur : Nat := 0
  buf : List Int := []
  deriving Repr, DecidableEq, Inhabited

/-- `dest[cur_dest] = v; cur_dest += 1` -/
def pushD (cap : Nat) (s : MS) (v : Int) : Except Err MS :=
  if s.buf.length < cap then .ok { s with buf := s.buf ++ [v] } else .error (.oob "dest[cur_dest]")

/-- body of `while cur_old <= old_map[i]` -/
def copyOldBody (cap : Nat) (oldSrc : List Int) (s : MS) : Except Err MS :=
  match getE oldSrc s.cur "old_src[cur_old]" with
  | .error e => .error e
  | .ok v =>
    match pushD cap s v with
    | .error e => .error e
    | .ok s' => .ok { s' with cur := s.cur + 1 }

def mergeBody (om nm : List Int) (tk : List Bool) (oldSrc newSrc : List Int) (cap : Nat) (i : Nat) (s : MS) :
    Except Err MS := do
  let o ← getE om i "old_map[i]"
  let s1 ← whileE (fun s => decide ((s.cur : Int) ≤ o)) (copyOldBody cap oldSrc) (o + 1 - (s.cur : Int)).toNat s
  let k ← getE tk i "to_keep[i]"
  if k then
    let n ← getE nm i "new_map[i]"
    let v ← getI newSrc n "new_src[new_map[i]]"
    pushD cap s1 v
  else pure s1

/-- `merge_journalled_entries(old_map, new_map, to_keep, old_src, new_src, dest)` with `len(dest) = cap`, `dest` zero-filled -/
def mergeEntries (om nm : List Int) (tk : List Bool) (oldSrc newSrc : List Int) (cap : Nat) : Except Err (List Int) :=
  match forE (mergeBody om nm tk oldSrc newSrc cap) om.length 0 {} with
  | .error e => .error e
  | .ok s => .ok (s.buf ++ List.replicate (cap - s.buf.length) 0)

/-! ### merge_indexed_journalled_entries_count -/

structure CS where
  cur : Nat := 0
  acc : Nat := 0
  deriving Repr, DecidableEq, Inhabited

def countOldBody (oi : List Nat) (s : CS) : Except Err CS :=
  match getE oi (s.cur + 1) "old_src_inds[cur_old+1]", getE oi s.cur "old_src_inds[cur_old]" with
  | .ok b, .ok a =>
    match deltaE a b with
    | .ok d => .ok { cur := s.cur + 1, acc := s.acc + d }
    | .error e => .error e
  | .error e, _ => .error e
  | _, .error e => .error e

def countBody (om nm : List Int) (tk : List Bool) (oi ni : List Nat) (i : Nat) (s : CS) : Except Err CS := do
  let o ← getE om i "old_map[i]"
  let s1 ← whileE (fun s => decide ((s.cur : Int) ≤ o)) (countOldBody oi) (o + 1 - (s.cur : Int)).toNat s
  let k ← getE tk i "to_keep[i]"
  if k then
    let n ← getE nm i "new_map[i]"
    let b ← getI ni (n + 1) "new_src_inds[new_map[i]+1]"
    let a ← getI ni n "new_src_inds[new_map[i]]"
    let d ← deltaE a b
    pure { s1 with acc := s1.acc + d }
  else pure s1

/-- `merge_indexed_journalled_entries_count(old_map, new_map, to_keep, old_src_inds, new_src_inds)` -/
def mergeIndexedCount (om nm : List Int) (tk : List Bool) (oi ni : List Nat) : Except Err Nat :=
  match forE (countBody om nm tk oi ni) om.length 0 {} with
  | .error e => .error e
  | .ok s => .ok s.acc

/-! ### merge_indexed_journalled_entries -/

structure IS where
  cur : Nat := 0
  acc : Nat := 0
  ib : List Nat := []          -- dest_inds written so far (cur_dest = ib.length)
  vals : List Int := []        -- the whole dest_vals array
  deriving Repr, DecidableEq, Inhabited

/-- `dest_inds[cur_dest] = v; cur_dest += 1` -/
def pushI (capI : Nat) (s : IS) (v : Nat) : Except Err IS :=
  if s.ib.length < capI then .ok { s with ib := s.ib ++ [v] } else .error (.oob "dest_inds[cur_dest]")

/-- `dst[lo:hi] = src` (both slices clamped as Python does; sizes must agree) -/
def setSliceE (dst : List Int) (lo hi : Nat) (src : List Int) : Except Err (List Int) :=
  let lo' := min lo dst.length
  let hi' := min hi dst.length
  if hi' - lo' == src.length then .ok (dst.take lo' ++ src ++ dst.drop (max lo' hi'))
  else .error (.valueError "slice assignment size")

/-- `ind_acc += ind_delta; dest_inds[cur_dest] = ind_acc; if ind_delta > 0: dest_vals[ind_acc-ind_delta:ind_acc] = src[a:b]` -/
def copyRow (capI : Nat) (s : IS) (a b : Nat) (src : List Int) : Except Err IS := do
  let d ← deltaE a b
  let acc := s.acc + d
  let s1 ← pushI capI s acc
  if d > 0 then
    let v ← setSliceE s1.vals (acc - d) acc (slice src a b)
    pure { s1 with acc := acc, vals := v }
  else pure { s1 with acc := acc }

def copyOldRowBody (capI : Nat) (oi : List Nat) (ov : List Int) (s : IS) : Except Err IS :=
  match getE oi (s.cur + 1) "old_src_inds[cur_old+1]", getE oi s.cur "old_src_inds[cur_old]" with
  | .ok b, .ok a =>
    match copyRow capI s a b ov with
    | .ok s' => .ok { s' with cur := s.cur + 1 }
    | .error e => .error e
  | .error e, _ => .error e
  | _, .error e => .error e

def mergeIndexedBody (om nm : List Int) (tk : List Bool) (oi : List Nat) (ov : List Int) (ni : List Nat) (nv : List Int)
    (capI : Nat) (i : Nat) (s : IS) : Except Err IS := do
  let o ← getE om i "old_map[i]"
  let s1 ← whileE (fun s => decide ((s.cur : Int) ≤ o)) (copyOldRowBody capI oi ov) (o + 1 - (s.cur : Int)).toNat s
  let k ← getE tk i "to_keep[i]"
  if k then
    let n ← getE nm i "new_map[i]"
    let b ← getI ni (n + 1) "new_src_inds[new_map[i]+1]"
    let a ← getI ni n "new_src_inds[new_map[i]]"
    copyRow capI s1 a b nv
  else pure s1

/-- `merge_indexed_journalled_entries(...)` with `len(dest_inds) = capI`, `len(dest_vals) = capV`, both zero-filled -/
def mergeIndexedEntries (om nm : List Int) (tk : List Bool) (oi : List Nat) (ov : List Int) (ni : List Nat) (nv : List Int)
    (capI capV : Nat) : Except Err (List Nat × List Int) :=
  if capI = 0 then .error (.oob "dest_inds[0]")
  else
    match forE (mergeIndexedBody om nm tk oi ov ni nv capI) om.length 0
        { cur := 0, acc := 0, ib := [0], vals := List.replicate capV 0 } with
    | .error e => .error e
    | .ok s => .ok (s.ib ++ List.replicate (capI - s.ib.length) 0, s.vals)

/-! ### journal_table -/

/-- stable insertion of an earlier row `r` (key `k`) into the sorted list of the later rows: before the first key `≥ k` -/
def insertStable (k : Int) (r : Nat) : List (Int × Nat) → List (Int × Nat)
  | [] => [(k, r)]
  | (k', r') :: rest => if k' < k then (k', r') :: insertStable k r rest else (k, r) :: (k', r') :: rest

/-- stable sort of `(key, row)` pairs by key (rows with equal keys keep their order) -/
def sortStable : List (Int × Nat) → List (Int × Nat)
  | [] => []
  | (k, r) :: rest => insertStable k r (sortStable rest)

/-- `np.argsort(xs, kind='stable')` -/
def argsortStable (xs : List Int) : List Nat := (sortStable (xs.zipIdx)).map (·.2)

/-- `xs[index]` (numpy fancy indexing with in-range non-negative row numbers; out of range is an IndexError) -/
def gatherE {α} (xs : List α) : List Nat → Except Err (List α)
  | [] => .ok []
  | r :: rs =>
    match getE xs r "a[index]", gatherE xs rs with
    | .ok x, .ok ys => .ok (x :: ys)
    | .error e, _ => .error e
    | _, .error e => .error e

/-- `session.dataset_sort_index((ids, valid_from))`: stable argsort by `valid_from`, then stable argsort by `ids` -/
def sortIndex2 (ids vf : List Int) : Except Err (List Nat) := do
  let acc := argsortStable vf
  let f ← gatherE ids acc
  gatherE acc (argsortStable f)

/-- offsets of an indexed string column, starting from `acc` -/
def offsetsFrom : Nat → List (List Int) → List Nat
  | acc, [] => [acc]
  | acc, s :: ss => acc :: offsetsFrom (acc + s.length) ss

/-- the (indices, values) layout of an indexed string column -/
def encode (ss : List (List Int)) : List Nat × List Int := (offsetsFrom 0 ss, ss.flatten)

/-- one compared field, old and new column, in the tables' physical row order -/
inductive Col where
  | num (o n : List Int)
  | str (o n : List (List Int))
  deriving Repr, Inhabited

/-- the same field after `session.apply_index(sorted_index, field)` -/
inductive SCol where
  | num (o n : List Int)
  | str (oi : List Nat) (ov : List Int) (ni : List Nat) (nv : List Int)
  deriving Repr, Inhabited

inductive OutCol where
  | num (d : List Int)
  | str (inds : List Nat) (vals : List Int)
  deriving Repr, DecidableEq, Inhabited

/-- the arrays the kernels see for a field: numeric data as is, an indexed string field as (indices, values) -/
def Col.enc : Col → SCol
  | .num o n => .num o n
  | .str o n => .str (encode o).1 (encode o).2 (encode n).1 (encode n).2

/-- both columns of a field permuted: `old_f[old_sorted_index]`, `new_f[new_sorted_index]` -/
def gatherCol (osi nsi : List Nat) : Col → Except Err Col
  | .num o n =>
    match gatherE o osi, gatherE n nsi with
    | .ok o', .ok n' => .ok (.num o' n')
    | .error e, _ => .error e
    | _, .error e => .error e
  | .str o n =>
    match gatherE o osi, gatherE n nsi with
    | .ok o', .ok n' => .ok (.str o' n')
    | .error e, _ => .error e
    | _, .error e => .error e

/-- `session.apply_index(old_sorted_index, old_f)`, `session.apply_index(new_sorted_index, new_f)` -/
def applyIndex (osi nsi : List Nat) (c : Col) : Except Err SCol :=
  match gatherCol osi nsi c with
  | .ok c' => .ok c'.enc
  | .error e => .error e

def applyIndexAll (osi nsi : List Nat) : List Col → Except Err (List SCol)
  | [] => .ok []
  | c :: cs =>
    match applyIndex osi nsi c, applyIndexAll osi nsi cs with
    | .ok c', .ok cs' => .ok (c' :: cs')
    | .error e, _ => .error e
    | _, .error e => .error e

def compareCol (om nm : List Int) (tk : List Bool) : SCol → Except Err (List Bool)
  | .num o n => compareRows om nm o n tk
  | .str oi ov ni nv => compareIndexedRows om nm oi ov ni nv tk

/-- the first `for k in common_keys` loop: every compared field updates `to_keep` -/
def compareCols (om nm : List Int) : List SCol → List Bool → Except Err (List Bool)
  | [], tk => .ok tk
  | c :: cs, tk =>
    match compareCol om nm tk c with
    | .ok tk' => compareCols om nm cs tk'
    | .error e => .error e

def mergeCol (om nm : List Int) (tk : List Bool) (mergedLen : Nat) : SCol → Except Err OutCol
  | .num o n =>
    match mergeEntries om nm tk o n mergedLen with
    | .ok d => .ok (.num d)
    | .error e => .error e
  | .str oi ov ni nv =>
    match mergeIndexedCount om nm tk oi ni with
    | .error e => .error e
    | .ok cnt =>
      match mergeIndexedEntries om nm tk oi ov ni nv (mergedLen + 1) cnt with
      | .ok (i, v) => .ok (.str i v)
      | .error e => .error e

/-- the second `for k in common_keys` loop -/
def mergeCols (om nm : List Int) (tk : List Bool) (mergedLen : Nat) : List SCol → Except Err (List OutCol)
  | [] => .ok []
  | c :: cs =>
    match mergeCol om nm tk mergedLen c, mergeCols om nm tk mergedLen cs with
    | .ok d, .ok ds => .ok (d :: ds)
    | .error e, _ => .error e
    | _, .error e => .error e

/-- `journal_table` after the two sorts: `ok`/`nk` are the sorted key columns, `cols` the compared fields in sorted order;
    `oldLen = len(old_ids.data)` -/
def journalSorted (ok nk : List Int) (cols : List SCol) (oldLen : Nat) : Except Err (List OutCol) :=
  match journalIndices ok nk with
  | .error e => .error e
  | .ok (om, nm) =>
    match compareCols om nm cols (List.replicate om.length false) with
    | .error e => .error e
    | .ok tk => mergeCols om nm tk (oldLen + tk.count true) cols

/-- `journal_table(session, schema, old_src, new_src, src_pk, result)`: the fields of `result`, in schema order -/
def journalTable (oldIds oldVf newIds : List Int) (cols : List Col) : Except Err (List OutCol) :=
  match sortIndex2 oldIds oldVf with
  | .error e => .error e
  | .ok osi =>
    let nsi := argsortStable newIds
    match gatherE oldIds osi, gatherE newIds nsi with
    | .ok ok, .ok nk =>
      match applyIndexAll osi nsi cols with
      | .error e => .error e
      | .ok scols => journalSorted ok nk scols oldIds.length
    | .error e, _ => .error e
    | _, .error e => .error e

end Exetera.Journal
