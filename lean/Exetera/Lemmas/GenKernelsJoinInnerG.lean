import Exetera.Gen.Kernels
import Exetera.Model.JoinFlat
import Exetera.Lemmas.While
import Exetera.Lemmas.GenKernels
import Exetera.Lemmas.GenKernelsJoin
import Exetera.Lemmas.GenKernelsJoinFlat
import Exetera.Lemmas.GenKernelsJoinGeneral
import Exetera.Lemmas.GenKernelsSpansIdxMinIndexed
/-!
  The TRANSLATED general `ordered_inner_map` (both key runs counted by `while` loops whose conditions subscript, the cartesian block
  written by two nested `for` loops) against `JoinFlat.orderedInnerMap true true` — transfer form by `whileE` simulation.
-/
namespace Exetera.GenK

open Exetera Exetera.PyRt Exetera.Gen.Kernels Exetera.Join Exetera.JoinFlat

namespace IMG

abbrev St := ordered_inner_map.St

/-- the right run: `while cur_j + 1 < len(right) and right[cur_j+1] == right[cur_j]: cur_j += 1` -/
theorem countL (xs : List Int) :
    ∀ (f F k c c' : Nat) (s : St), s.p0 = xs → s.v3 = (k : Int) →
      xs.length - (k + 1) ≤ f → xs.length - (k + 1) ≤ F → runCount xs xs.length f k c = .ok c' →
      c ≤ c' ∧ whileG ordered_inner_map.guardE_L2 ordered_inner_map.body_L2 F s
        = .ok { s with v3 := ((k + (c' - c) : Nat) : Int) } := by
  intro f
  induction f with
  | zero =>
    intro F k c c' s h0 hv3 hf _ h
    obtain ⟨q0, q1, q2, q3, w0, w1, w2, w3, w4, w5, w6⟩ := s
    simp only at h0 hv3
    subst h0 hv3
    simp only [runCount, Except.ok.injEq] at h
    subst h
    have hg : ordered_inner_map.guardE_L2 ⟨q0, q1, q2, q3, w0, w1, w2, (k : Int), w4, w5, w6⟩ = .ok false := by
      have : decide ((k : Int) + 1 < pyLen q0) = false := decide_eq_false (by simp only [pyLen]; omega)
      simp only [ordered_inner_map.guardE_L2, this, Bool.false_eq_true, if_false]
    refine ⟨Nat.le_refl _, ?_⟩
    simp only [Nat.sub_self, Nat.add_zero]
    cases F <;> simp [whileG, hg]
  | succ f ih =>
    intro F k c c' s h0 hv3 hf hF h
    obtain ⟨q0, q1, q2, q3, w0, w1, w2, w3, w4, w5, w6⟩ := s
    simp only at h0 hv3
    subst h0 hv3
    simp only [runCount] at h
    by_cases hk : k + 1 < q0.length
    · simp only [hk, if_true] at h
      have hlt : decide (((k + 1 : Nat) : Int) < pyLen q0) = true := decide_eq_true (by simp only [pyLen]; omega)
      have hc1 : ((k : Int) + 1) = ((k + 1 : Nat) : Int) := by omega
      cases ha : getE q0 (k + 1) "run[k+1]" with
      | error e => simp [ha] at h
      | ok a =>
        cases hb : getE q0 k "run[k]" with
        | error e => simp [ha, hb] at h
        | ok b =>
          simp only [ha, hb] at h
          by_cases hab : a = b
          · subst hab
            simp only [beq_self_eq_true, if_true] at h
            have hg : ordered_inner_map.guardE_L2 ⟨q0, q1, q2, q3, w0, w1, w2, (k : Int), w4, w5, w6⟩ = .ok true := by
              simp only [ordered_inner_map.guardE_L2, hc1, hlt, if_true, idxE_nat,
                Gen.getE_site "p0[v3 + 1]" ha, Gen.getE_site "p0[v3]" hb, bindE_ok, beq_self_eq_true]
            obtain ⟨F', rfl⟩ : ∃ F', F = F' + 1 := ⟨F - 1, by omega⟩
            have hbody : ordered_inner_map.body_L2 ⟨q0, q1, q2, q3, w0, w1, w2, (k : Int), w4, w5, w6⟩
                = .ok ⟨q0, q1, q2, q3, w0, w1, w2, ((k + 1 : Nat) : Int), w4, w5, w6⟩ := by
              simp only [ordered_inner_map.body_L2, hc1]
            obtain ⟨hle, hw⟩ := ih F' (k + 1) (c + 1) c' ⟨q0, q1, q2, q3, w0, w1, w2, ((k + 1 : Nat) : Int), w4, w5, w6⟩
              rfl rfl (by omega) (by omega) h
            refine ⟨by omega, ?_⟩
            simp only [whileG, hg, if_true, hbody]
            rw [hw]
            have : k + 1 + (c' - (c + 1)) = k + (c' - c) := by omega
            simp only [this]
          · have hne : (a == b) = false := by simp [hab]
            simp only [hne, Bool.false_eq_true, if_false, Except.ok.injEq] at h
            subst h
            have hg : ordered_inner_map.guardE_L2 ⟨q0, q1, q2, q3, w0, w1, w2, (k : Int), w4, w5, w6⟩ = .ok false := by
              simp only [ordered_inner_map.guardE_L2, hc1, hlt, if_true, idxE_nat,
                Gen.getE_site "p0[v3 + 1]" ha, Gen.getE_site "p0[v3]" hb, bindE_ok, hne]
            refine ⟨Nat.le_refl _, ?_⟩
            simp only [Nat.sub_self, Nat.add_zero]
            cases F <;> simp [whileG, hg]
    · simp only [hk, if_false, Except.ok.injEq] at h
      subst h
      have hg : ordered_inner_map.guardE_L2 ⟨q0, q1, q2, q3, w0, w1, w2, (k : Int), w4, w5, w6⟩ = .ok false := by
        have : decide ((k : Int) + 1 < pyLen q0) = false := decide_eq_false (by simp only [pyLen]; omega)
        simp only [ordered_inner_map.guardE_L2, this, Bool.false_eq_true, if_false]
      refine ⟨Nat.le_refl _, ?_⟩
      simp only [Nat.sub_self, Nat.add_zero]
      cases F <;> simp [whileG, hg]

/-- the right run: `while cur_j + 1 < len(right) and right[cur_j+1] == right[cur_j]: cur_j += 1` -/
theorem countR (xs : List Int) :
    ∀ (f F k c c' : Nat) (s : St), s.p1 = xs → s.v4 = (k : Int) →
      xs.length - (k + 1) ≤ f → xs.length - (k + 1) ≤ F → runCount xs xs.length f k c = .ok c' →
      c ≤ c' ∧ whileG ordered_inner_map.guardE_L3 ordered_inner_map.body_L3 F s
        = .ok { s with v4 := ((k + (c' - c) : Nat) : Int) } := by
  intro f
  induction f with
  | zero =>
    intro F k c c' s h0 hv3 hf _ h
    obtain ⟨q0, q1, q2, q3, w0, w1, w2, w3, w4, w5, w6⟩ := s
    simp only at h0 hv3
    subst h0 hv3
    simp only [runCount, Except.ok.injEq] at h
    subst h
    have hg : ordered_inner_map.guardE_L3 ⟨q0, q1, q2, q3, w0, w1, w2, w3, (k : Int), w5, w6⟩ = .ok false := by
      have : decide ((k : Int) + 1 < pyLen q1) = false := decide_eq_false (by simp only [pyLen]; omega)
      simp only [ordered_inner_map.guardE_L3, this, Bool.false_eq_true, if_false]
    refine ⟨Nat.le_refl _, ?_⟩
    simp only [Nat.sub_self, Nat.add_zero]
    cases F <;> simp [whileG, hg]
  | succ f ih =>
    intro F k c c' s h0 hv3 hf hF h
    obtain ⟨q0, q1, q2, q3, w0, w1, w2, w3, w4, w5, w6⟩ := s
    simp only at h0 hv3
    subst h0 hv3
    simp only [runCount] at h
    by_cases hk : k + 1 < q1.length
    · simp only [hk, if_true] at h
      have hlt : decide (((k + 1 : Nat) : Int) < pyLen q1) = true := decide_eq_true (by simp only [pyLen]; omega)
      have hc1 : ((k : Int) + 1) = ((k + 1 : Nat) : Int) := by omega
      cases ha : getE q1 (k + 1) "run[k+1]" with
      | error e => simp [ha] at h
      | ok a =>
        cases hb : getE q1 k "run[k]" with
        | error e => simp [ha, hb] at h
        | ok b =>
          simp only [ha, hb] at h
          by_cases hab : a = b
          · subst hab
            simp only [beq_self_eq_true, if_true] at h
            have hg : ordered_inner_map.guardE_L3 ⟨q0, q1, q2, q3, w0, w1, w2, w3, (k : Int), w5, w6⟩ = .ok true := by
              simp only [ordered_inner_map.guardE_L3, hc1, hlt, if_true, idxE_nat,
                Gen.getE_site "p1[v4 + 1]" ha, Gen.getE_site "p1[v4]" hb, bindE_ok, beq_self_eq_true]
            obtain ⟨F', rfl⟩ : ∃ F', F = F' + 1 := ⟨F - 1, by omega⟩
            have hbody : ordered_inner_map.body_L3 ⟨q0, q1, q2, q3, w0, w1, w2, w3, (k : Int), w5, w6⟩
                = .ok ⟨q0, q1, q2, q3, w0, w1, w2, w3, ((k + 1 : Nat) : Int), w5, w6⟩ := by
              simp only [ordered_inner_map.body_L3, hc1]
            obtain ⟨hle, hw⟩ := ih F' (k + 1) (c + 1) c' ⟨q0, q1, q2, q3, w0, w1, w2, w3, ((k + 1 : Nat) : Int), w5, w6⟩
              rfl rfl (by omega) (by omega) h
            refine ⟨by omega, ?_⟩
            simp only [whileG, hg, if_true, hbody]
            rw [hw]
            have : k + 1 + (c' - (c + 1)) = k + (c' - c) := by omega
            simp only [this]
          · have hne : (a == b) = false := by simp [hab]
            simp only [hne, Bool.false_eq_true, if_false, Except.ok.injEq] at h
            subst h
            have hg : ordered_inner_map.guardE_L3 ⟨q0, q1, q2, q3, w0, w1, w2, w3, (k : Int), w5, w6⟩ = .ok false := by
              simp only [ordered_inner_map.guardE_L3, hc1, hlt, if_true, idxE_nat,
                Gen.getE_site "p1[v4 + 1]" ha, Gen.getE_site "p1[v4]" hb, bindE_ok, hne]
            refine ⟨Nat.le_refl _, ?_⟩
            simp only [Nat.sub_self, Nat.add_zero]
            cases F <;> simp [whileG, hg]
    · simp only [hk, if_false, Except.ok.injEq] at h
      subst h
      have hg : ordered_inner_map.guardE_L3 ⟨q0, q1, q2, q3, w0, w1, w2, w3, (k : Int), w5, w6⟩ = .ok false := by
        have : decide ((k : Int) + 1 < pyLen q1) = false := decide_eq_false (by simp only [pyLen]; omega)
        simp only [ordered_inner_map.guardE_L3, this, Bool.false_eq_true, if_false]
      refine ⟨Nat.le_refl _, ?_⟩
      simp only [Nat.sub_self, Nat.add_zero]
      cases F <;> simp [whileG, hg]

/-- one row of the block: `for jj in range(j, cur_j + 1): left_to_inner[cur_m] = ii; right_to_inner[cur_m] = jj; cur_m += 1` -/
theorem write_sim (l2i r2i : List Int) (I : Int) :
    ∀ (m J M : Nat) (out2 out3 b2 b3 : List Int) (s : St), s.p2 = b2 → s.p3 = b3 → s.v5 = I → s.v2 = (M : Int) →
      b2.length = l2i.length → b3.length = r2i.length → out2.length = M → out3.length = M → b2.take M = out2 →
      b2.drop M = l2i.drop M → b3.take M = out3 → b3.drop M = r2i.drop M → M + m ≤ min l2i.length r2i.length →
      ∃ b2' b3' k', forRangeAux (fun _ => false) (fun k s => ordered_inner_map.body_L5 { s with v6 := k }) m (J : Int) s
          = .ok { s with p2 := b2', p3 := b3', v2 := ((M + m : Nat) : Int), v6 := k' } ∧
        b2'.length = l2i.length ∧ b3'.length = r2i.length ∧
        b2'.take (M + m) = out2 ++ List.replicate m I ∧ b2'.drop (M + m) = l2i.drop (M + m) ∧
        b3'.take (M + m) = out3 ++ (List.range' J m).map (fun (j : Nat) => (j : Int)) ∧ b3'.drop (M + m) = r2i.drop (M + m) := by
  intro m
  induction m with
  | zero =>
    intro J M out2 out3 b2 b3 s h2 h3 _ hv2 hl2 hl3 _ _ ht2 hd2 ht3 hd3 _
    refine ⟨b2, b3, s.v6, ?_, hl2, hl3, by simpa using ht2, by simpa using hd2, by simpa using ht3, by simpa using hd3⟩
    simp only [forRangeAux, Nat.add_zero, ← h2, ← h3, ← hv2]
  | succ m ih =>
    intro J M out2 out3 b2 b3 s h2 h3 hv5 hv2 hl2 hl3 ho2 ho3 ht2 hd2 ht3 hd3 hroom
    obtain ⟨q0, q1, q2, q3, w0, w1, w2, w3, w4, w5, w6⟩ := s
    simp only at h2 h3 hv5 hv2
    subst h2 h3 hv5 hv2
    have hc2 : M < l2i.length := by omega
    have hc3 : M < r2i.length := by omega
    obtain ⟨p1, p2, p3, p4⟩ := store_at w5 hl2 hc2 ho2 ht2 hd2
    obtain ⟨r1, r2, r3, r4⟩ := store_at (J : Int) hl3 hc3 ho3 ht3 hd3
    have e3 : ((J : Int) + 1) = ((J + 1 : Nat) : Int) := by omega
    have eM : ((M : Int) + 1) = ((M + 1 : Nat) : Int) := by omega
    obtain ⟨b2', b3', k', hrun, hl2', hl3', ht2', hd2', ht3', hd3'⟩ := ih (J + 1) (M + 1) (out2 ++ [w5]) (out3 ++ [(J : Int)])
      (q2.set M w5) (q3.set M (J : Int)) ⟨q0, q1, q2.set M w5, q3.set M (J : Int), w0, w1, ((M + 1 : Nat) : Int), w3, w4, w5, (J : Int)⟩
      rfl rfl rfl rfl p1 r1 p2 r2 p3 p4 r3 r4 (by omega)
    refine ⟨b2', b3', k', ?_, hl2', hl3', ?_, ?_, ?_, ?_⟩
    · rw [forRangeAux_succ, e3]
      generalize hL : (fun s' : St => if (fun _ : St => false) s' = true then Except.ok s' else
        forRangeAux (fun _ => false) (fun k s => ordered_inner_map.body_L5 { s with v6 := k }) m
          ((J + 1 : Nat) : Int) s') = L
      simp only [ordered_inner_map.body_L5, setIdxE_nat, setE, show M < q2.length by omega,
        show M < q3.length by omega, if_true, bindE_ok, eM]
      subst hL
      simp only [Bool.false_eq_true, if_false]
      rw [hrun]
      simp only [Nat.add_assoc, Nat.add_comm 1 m]
    · have : M + (m + 1) = M + 1 + m := by omega
      rw [this, ht2']
      simp [List.replicate_succ]
    · have : M + (m + 1) = M + 1 + m := by omega
      rw [this, hd2']
    · have : M + (m + 1) = M + 1 + m := by omega
      rw [this, ht3']
      simp [List.range'_succ]
    · have : M + (m + 1) = M + 1 + m := by omega
      rw [this, hd3']

/-- the block: `for ii in range(i, cur_i + 1): for jj in range(j, cur_j + 1): …` -/
theorem rows_sim (l2i r2i : List Int) (m J : Nat) (hm : 1 ≤ m) :
    ∀ (n I M : Nat) (out2 out3 b2 b3 : List Int) (s : St), s.p2 = b2 → s.p3 = b3 → s.v1 = (J : Int) →
      s.v4 = ((J + (m - 1) : Nat) : Int) → s.v2 = (M : Int) →
      b2.length = l2i.length → b3.length = r2i.length → out2.length = M → out3.length = M → b2.take M = out2 →
      b2.drop M = l2i.drop M → b3.take M = out3 → b3.drop M = r2i.drop M → M + n * m ≤ min l2i.length r2i.length →
      ∃ b2' b3' k5 k6, forRangeAux (fun _ => false) (fun k s => ordered_inner_map.body_L4 { s with v5 := k }) n (I : Int) s
          = .ok { s with p2 := b2', p3 := b3', v2 := ((M + n * m : Nat) : Int), v5 := k5, v6 := k6 } ∧
        b2'.length = l2i.length ∧ b3'.length = r2i.length ∧
        b2'.take (M + n * m) = out2 ++ blockL m I n ∧ b2'.drop (M + n * m) = l2i.drop (M + n * m) ∧
        b3'.take (M + n * m) = out3 ++ blockR J m n ∧ b3'.drop (M + n * m) = r2i.drop (M + n * m) := by
  intro n
  induction n with
  | zero =>
    intro I M out2 out3 b2 b3 s h2 h3 _ _ hv2 hl2 hl3 _ _ ht2 hd2 ht3 hd3 _
    refine ⟨b2, b3, s.v5, s.v6, ?_, hl2, hl3, by simpa [blockL] using ht2, by simpa using hd2, by simpa [blockR] using ht3,
      by simpa using hd3⟩
    simp only [forRangeAux, Nat.zero_mul, Nat.add_zero, ← h2, ← h3, ← hv2]
  | succ n ih =>
    intro I M out2 out3 b2 b3 s h2 h3 hv1 hv4 hv2 hl2 hl3 ho2 ho3 ht2 hd2 ht3 hd3 hroom
    obtain ⟨q0, q1, q2, q3, w0, w1, w2, w3, w4, w5, w6⟩ := s
    simp only at h2 h3 hv1 hv4 hv2
    subst h2 h3 hv1 hv4 hv2
    have hnm : (n + 1) * m = m + n * m := by rw [Nat.succ_mul, Nat.add_comm]
    have e3 : ((I : Int) + 1) = ((I + 1 : Nat) : Int) := by omega
    have hcnt : ((((J + (m - 1) : Nat) : Int) + 1) - (J : Int)).toNat = m := by omega
    obtain ⟨c2, c3, k6, hrow, hcl2, hcl3, hct2, hcd2, hct3, hcd3⟩ := write_sim l2i r2i (I : Int) m J M out2 out3 q2 q3
      ⟨q0, q1, q2, q3, w0, (J : Int), (M : Int), w3, ((J + (m - 1) : Nat) : Int), (I : Int), w6⟩ rfl rfl rfl rfl hl2 hl3 ho2 ho3
      ht2 hd2 ht3 hd3 (by rw [hnm] at hroom; omega)
    obtain ⟨b2', b3', k5, k6', hrun, hl2', hl3', ht2', hd2', ht3', hd3'⟩ := ih (I + 1) (M + m)
      (out2 ++ List.replicate m (I : Int)) (out3 ++ (List.range' J m).map (fun (j : Nat) => (j : Int))) c2 c3
      ⟨q0, q1, c2, c3, w0, (J : Int), ((M + m : Nat) : Int), w3, ((J + (m - 1) : Nat) : Int), (I : Int), k6⟩
      rfl rfl rfl rfl rfl hcl2 hcl3 (by simp [ho2]) (by simp [ho3]) hct2 hcd2 hct3 hcd3 (by rw [hnm] at hroom; omega)
    refine ⟨b2', b3', k5, k6', ?_, hl2', hl3', ?_, ?_, ?_, ?_⟩
    · rw [forRangeAux_succ, e3]
      generalize hL : (fun s' : St => if (fun _ : St => false) s' = true then Except.ok s' else
        forRangeAux (fun _ => false) (fun k s => ordered_inner_map.body_L4 { s with v5 := k }) n
          ((I + 1 : Nat) : Int) s') = L
      simp only [ordered_inner_map.body_L4, forRangeE, hcnt]
      rw [hrow]
      simp only [bindE_ok]
      subst hL
      simp only [Bool.false_eq_true, if_false]
      rw [hrun]
      have : M + m + n * m = M + (n + 1) * m := by rw [hnm]; omega
      simp only [this]
    · have : M + (n + 1) * m = M + m + n * m := by rw [hnm]; omega
      rw [this, ht2']
      simp [blockL]
    · have : M + (n + 1) * m = M + m + n * m := by rw [hnm]; omega
      rw [this, hd2']
    · have : M + (n + 1) * m = M + m + n * m := by rw [hnm]; omega
      rw [this, ht3']
      simp [blockR]
    · have : M + (n + 1) * m = M + m + n * m := by rw [hnm]; omega
      rw [this, hd3']

def R (left right l2i r2i : List Int) (s : St) (t : IS) : Prop :=
  ∃ b2 b3 c3 c4 k5 k6, s = ⟨left, right, b2, b3, (t.i : Int), (t.j : Int), (t.lo.length : Int), c3, c4, k5, k6⟩ ∧
    b2.length = l2i.length ∧ b3.length = r2i.length ∧ t.ro.length = t.lo.length ∧ b2.take t.lo.length = t.lo ∧
    b2.drop t.lo.length = l2i.drop t.lo.length ∧ b3.take t.lo.length = t.ro ∧ b3.drop t.lo.length = r2i.drop t.lo.length

theorem guard_eq (left right l2i r2i : List Int) (s : St) (t : IS) (h : R left right l2i r2i s t) :
    ordered_inner_map.guard_L1 s = innerGuard left right t := by
  obtain ⟨b2, b3, c3, c4, k5, k6, rfl, _⟩ := h
  simp only [ordered_inner_map.guard_L1, innerGuard, pyLen, Int.ofNat_lt]

theorem blockL_length (m : Nat) : ∀ (n I : Nat), (blockL m I n).length = n * m
  | 0, _ => by simp [blockL]
  | n + 1, I => by simp [blockL, blockL_length m n (I + 1), Nat.succ_mul, Nat.add_comm]

theorem blockR_length (J m : Nat) : ∀ n : Nat, (blockR J m n).length = n * m
  | 0 => by simp [blockR]
  | n + 1 => by simp [blockR, blockR_length J m n, Nat.succ_mul, Nat.add_comm]

theorem body_sim (left right l2i r2i : List Int) (F : Nat) (hF : left.length + right.length ≤ F) (s : St) (t t' : IS)
    (h : R left right l2i r2i s t) (hb : innerBody true true left right (min l2i.length r2i.length) t = .ok t') :
    ∃ s', ordered_inner_map.body_L1 F s = .ok s' ∧ R left right l2i r2i s' t' := by
  obtain ⟨b2, b3, c3, c4, k5, k6, rfl, hl2, hl3, hro, ht2, hd2, ht3, hd3⟩ := h
  simp only [innerBody, getE, runLen, if_true] at hb
  have e_i : (t.i : Int) + 1 = ((t.i + 1 : Nat) : Int) := by omega
  have e_j : (t.j : Int) + 1 = ((t.j + 1 : Nat) : Int) := by omega
  cases ha : left[t.i]? with
  | none => simp [ha] at hb
  | some a =>
    cases hbb : right[t.j]? with
    | none => simp [ha, hbb] at hb
    | some b =>
      simp only [ha, hbb] at hb
      simp only [ordered_inner_map.body_L1, idxE_nat, getE, ha, hbb, bindE_ok]
      by_cases hlt : a < b
      · simp only [hlt, if_true, decide_true, Except.ok.injEq] at hb ⊢
        subst hb
        exact ⟨_, by simp only [e_i], b2, b3, c3, c4, k5, k6, rfl, hl2, hl3, hro, ht2, hd2, ht3, hd3⟩
      · simp only [hlt, if_false, decide_false, Bool.false_eq_true] at hb ⊢
        by_cases hgt : a > b
        · simp only [hgt, if_true, decide_true, Except.ok.injEq] at hb ⊢
          subst hb
          exact ⟨_, by simp only [e_j], b2, b3, c3, c4, k5, k6, rfl, hl2, hl3, hro, ht2, hd2, ht3, hd3⟩
        · simp only [hgt, if_false, decide_false, Bool.false_eq_true] at hb ⊢
          cases hn : runCount left left.length left.length t.i 1 with
          | error e => simp [hn] at hb
          | ok n =>
            cases hm : runCount right right.length right.length t.j 1 with
            | error e => simp [hn, hm] at hb
            | ok m =>
              simp only [hn, hm] at hb
              split at hb
              · rename_i hcap
                simp only [Except.ok.injEq] at hb
                subst hb
                obtain ⟨hn1, hwL⟩ := countL left left.length F t.i 1 n
                  ⟨left, right, b2, b3, (t.i : Int), (t.j : Int), (t.lo.length : Int), (t.i : Int), c4, k5, k6⟩ rfl rfl
                  (by omega) (by omega) hn
                rw [hwL]
                simp only [bindE_ok]
                obtain ⟨hm1, hwR⟩ := countR right right.length F t.j 1 m
                  ⟨left, right, b2, b3, (t.i : Int), (t.j : Int), (t.lo.length : Int), ((t.i + (n - 1) : Nat) : Int), (t.j : Int), k5, k6⟩
                  rfl rfl (by omega) (by omega) hm
                rw [hwR]
                simp only [bindE_ok, forRangeE]
                have hcnt : ((((t.i + (n - 1) : Nat) : Int) + 1) - (t.i : Int)).toNat = n := by omega
                rw [hcnt]
                obtain ⟨b2', b3', k5', k6', hrun, hl2', hl3', ht2', hd2', ht3', hd3'⟩ := rows_sim l2i r2i m t.j hm1 n t.i
                  t.lo.length t.lo t.ro b2 b3
                  ⟨left, right, b2, b3, (t.i : Int), (t.j : Int), (t.lo.length : Int), ((t.i + (n - 1) : Nat) : Int),
                    ((t.j + (m - 1) : Nat) : Int), k5, k6⟩ rfl rfl rfl rfl rfl hl2 hl3 rfl hro ht2 hd2 ht3 hd3 hcap
                rw [hrun]
                simp only [bindE_ok]
                refine ⟨_, rfl, b2', b3', ((t.i + (n - 1) : Nat) : Int), ((t.j + (m - 1) : Nat) : Int), k5', k6', ?_, hl2', hl3',
                  ?_, ?_, ?_, ?_, ?_⟩
                · have e1 : (((t.i + (n - 1) : Nat) : Int) + 1) = ((t.i + n : Nat) : Int) := by omega
                  have e2 : (((t.j + (m - 1) : Nat) : Int) + 1) = ((t.j + m : Nat) : Int) := by omega
                  simp only [e1, e2, List.length_append, blockL_length]
                · simp [blockL_length, blockR_length, hro]
                · simp only [List.length_append, blockL_length]; exact ht2'
                · simp only [List.length_append, blockL_length]; exact hd2'
                · simp only [List.length_append, blockL_length]; exact ht3'
                · simp only [List.length_append, blockL_length]; exact hd3'
              · simp at hb

end IMG

/-- every `.ok` run of the model is a run of the translated kernel, for every fuel ≥ len(left) + len(right) -/
theorem inner_map_flat_ok (left right l2i r2i : List Int) (r : List Int × List Int) (fuel : Nat)
    (hf : left.length + right.length ≤ fuel) (h : orderedInnerMap true true left right l2i r2i = .ok r) :
    ordered_inner_map.run left right l2i r2i fuel = .ok r := by
  unfold orderedInnerMap at h
  cases h1 : whileE (innerGuard left right) (innerBody true true left right (min l2i.length r2i.length))
      (left.length + right.length) {} with
  | error e => rw [h1] at h; simp at h
  | ok t1 =>
    rw [h1] at h
    simp only [Except.ok.injEq] at h
    subst h
    have h1' := whileE_mono _ _ _ _ _ h1 fuel hf
    obtain ⟨s1, hw1, hR1⟩ := whileE_sim (IMG.R left right l2i r2i)
      ordered_inner_map.guard_L1 (ordered_inner_map.body_L1 fuel)
      (innerGuard left right) (innerBody true true left right (min l2i.length r2i.length))
      (IMG.guard_eq left right l2i r2i) (fun s t t' hR _ hb => IMG.body_sim left right l2i r2i fuel hf s t t' hR hb)
      fuel ⟨left, right, l2i, r2i, 0, 0, 0, 0, 0, 0, 0⟩ {} t1 ⟨l2i, r2i, 0, 0, 0, 0, rfl, rfl, rfl, rfl, rfl, rfl, rfl, rfl⟩ h1'
    obtain ⟨b2, b3, c3, c4, k5, k6, rfl, _, _, hro, ht2, hd2, ht3, hd3⟩ := hR1
    unfold ordered_inner_map.run
    have hw1' : whileE ordered_inner_map.guard_L1 (ordered_inner_map.body_L1 fuel) fuel
        ⟨left, right, l2i, r2i, 0, 0, 0, 0, 0, 0, 0⟩
        = .ok ⟨left, right, b2, b3, (t1.i : Int), (t1.j : Int), (t1.lo.length : Int), c3, c4, k5, k6⟩ := hw1
    simp only [hw1', bindE_ok]
    rw [← final_array rfl ht2 hd2]
    have h3 := final_array hro ht3 hd3 (buf := b3) (result := r2i)
    rw [← h3]

end Exetera.GenK
