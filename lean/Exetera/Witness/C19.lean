import Exetera.Model.JoinOld
import Exetera.Lemmas.JoinFlatDec
/-!
  Witnesses for C19.

  NC19d (open, modelled as found): `Session.ordered_merge_left/right/inner` reject an IndexedStringField payload
  (`val.array_from_parameter` hands `ops.map_valid` the pair `(indices, values)`; numba raises TypingError, interpreted
  code AttributeError), whereas `merge_left/right/inner` map indexed payloads through `safe_map_indexed_values`.
-/
namespace Exetera.Witness.C19
open Exetera Exetera.JoinOld

/-- the field form of `ordered_merge_left` with an indexed-string payload (`["a", "bb", ""]`) fails -/
theorem nc19d_indexed_payload_rejected :
    orderedMergeLeft (1 <<< 20) ⟨true, true, .none, false⟩ false true [1, 2, 2, 3] [2, 3, 5]
      [.indexed [0, 1, 3, 3] [97, 98, 98]] = .error (.other "TypingError") := by decide

/-- … while `merge_left` maps the same payload: rows `["", "a", "a", "bb"]` -/
theorem nc19d_merge_left_maps_indexed :
    mergeLeft Spec.leftJoin [1, 2, 2, 3] [2, 3, 5] [.indexed [0, 1, 3, 3] [97, 98, 98]] =
      .ok [.indexed [0, 0, 1, 2, 4] [97, 97, 98, 98]] := by decide

/-- the inner form fails in the same way -/
theorem nc19d_inner_indexed_payload_rejected :
    orderedMergeInner false true [1, 2, 2, 3] [2, 3, 5] [.numeric [1, 2, 3, 4]] .none
      [.indexed [0, 1, 3, 3] [97, 98, 98]] .none = .error (.other "TypingError") := by decide

end Exetera.Witness.C19
