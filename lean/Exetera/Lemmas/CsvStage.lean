import Exetera.Lemmas.CsvCell
/-! The staging buffers `column_inds` / `column_vals` / `column_offsets` and what the kernel keeps true about them (C05). -/
namespace Exetera.Csv
open Exetera Spec

/-- `column_offsets[c]` -/
def offAt (offs : List Nat) (c : Nat) : Nat := offs.getD c 0

/-- the shapes the driver guarantees: `ncols` index rows of `maxrow + 1` slots, `ncols + 1` non-decreasing offsets starting
    at 0, the last one within `column_vals` -/
structure Shape (ncols maxrow : Nat) (offs : List Nat) (inds : List (List Nat)) (vals : List Nat) : Prop where
  indsLen : inds.length = ncols
  rowLen : ∀ (c : Nat) (r : List Nat), inds[c]? = some r → r.length = maxrow + 1
  offsLen : offs.length = ncols + 1
  offs0 : offAt offs 0 = 0
  mono : ∀ c, c < ncols → offAt offs c ≤ offAt offs (c + 1)
  last : offAt offs ncols ≤ vals.length

theorem offs_get {offs : List Nat} {n c : Nat} (hl : offs.length = n + 1) (hc : c ≤ n) :
    offs[c]? = some (offAt offs c) := by
  have : c < offs.length := by omega
  simp [offAt, List.getD, List.getElem?_eq_getElem this]

theorem Shape.mono_le {ncols maxrow : Nat} {offs : List Nat} {inds : List (List Nat)} {vals : List Nat}
    (h : Shape ncols maxrow offs inds vals) : ∀ b a, a ≤ b → b ≤ ncols → offAt offs a ≤ offAt offs b := by
  intro b
  induction b with
  | zero => intro a ha _; have : a = 0 := by omega
            subst this; exact Nat.le_refl _
  | succ b ih =>
    intro a ha hb
    by_cases hab : a = b + 1
    · subst hab; exact Nat.le_refl _
    · exact Nat.le_trans (ih a (by omega) (by omega)) (h.mono b (by omega))

theorem get2_eq {inds : List (List Nat)} {c i x : Nat} {r : List Nat} (site : String) (hr : inds[c]? = some r)
    (hx : r[i]? = some x) : get2 inds c i site = .ok x := by
  simp [get2, hr, getE_eq_ok.mpr hx]

theorem set2_eq {inds : List (List Nat)} {c i : Nat} {r : List Nat} (v : Nat) (site : String) (hr : inds[c]? = some r)
    (hi : i < r.length) : set2 inds c i v site = .ok (inds.set c (r.set i v)) := by
  simp [set2, hr, hi]

/-- the end offset of the first `k` entries -/
def endOf (es : List Bytes) (k : Nat) : Nat := (es.take k).flatten.length

theorem endOf_all (es : List Bytes) : endOf es es.length = es.flatten.length := by simp [endOf]

theorem endOf_snoc_le {es : List Bytes} {v : Bytes} {k : Nat} (hk : k ≤ es.length) : endOf (es ++ [v]) k = endOf es k := by
  simp [endOf, List.take_append_of_le_length hk]

theorem endOf_snoc_last (es : List Bytes) (v : Bytes) :
    endOf (es ++ [v]) (es.length + 1) = es.flatten.length + v.length := by
  have : (es ++ [v]).take (es.length + 1) = es ++ [v] := by
    apply List.take_of_length_le; simp
  simp [endOf, this]

/-- column `c` of the staging buffers holds the entries `es`: `column_inds[c, k]` is the end offset of the first `k`
    entries (`k ≤ |es|`) and their bytes sit at `column_offsets[c]` in `column_vals` -/
def ColOK (offs : List Nat) (inds : List (List Nat)) (vals : List Nat) (c : Nat) (es : List Bytes) : Prop :=
  (∃ r, inds[c]? = some r ∧ ∀ k, k ≤ es.length → r[k]? = some (endOf es k)) ∧ At vals (offAt offs c) es.flatten

theorem At.append {vals : List Nat} {off : Nat} {x y : Bytes} (hx : At vals off x) (hy : At vals (off + x.length) y) :
    At vals off (x ++ y) := by
  intro k hk
  by_cases hkx : k < x.length
  · rw [hx k hkx, List.getElem?_append_left hkx]
  · have := hy (k - x.length) (by simp at hk; omega)
    rw [List.getElem?_append_right (by omega), ← this]
    congr 1; omega

theorem At.of_frame {vals vals' : List Nat} {off : Nat} {x : Bytes} (hx : At vals off x)
    (hf : ∀ i, off ≤ i → i < off + x.length → vals'[i]? = vals[i]?) : At vals' off x := by
  intro k hk
  rw [hf (off + k) (by omega) (by omega)]
  exact hx k hk

/-- a write elsewhere does not disturb a column -/
theorem ColOK.of_wrote {offs : List Nat} {inds : List (List Nat)} {vals vals' : List Nat} {c p : Nat} {es : List Bytes}
    {w : Bytes} (h : ColOK offs inds vals c es) (hw : Wrote vals vals' p w)
    (hdis : offAt offs c + es.flatten.length ≤ p ∨ p + w.length ≤ offAt offs c) : ColOK offs inds vals' c es :=
  ⟨h.1, h.2.of_frame (fun i h1 h2 => hw.frame i (by omega))⟩

/-- closing a cell of another column does not disturb a column -/
theorem ColOK.of_set_other {offs : List Nat} {inds : List (List Nat)} {vals : List Nat} {c j : Nat} {es : List Bytes}
    (r' : List Nat) (h : ColOK offs inds vals c es) (hne : j ≠ c) : ColOK offs (inds.set j r') vals c es := by
  obtain ⟨⟨r, hr, hk⟩, hat⟩ := h
  refine ⟨⟨r, ?_, hk⟩, hat⟩
  rw [List.getElem?_set_ne hne]
  exact hr

/-- the cell `v` written behind the entries of column `j` and its end offset stored: one more entry -/
theorem ColOK.snoc {offs : List Nat} {inds : List (List Nat)} {vals vals' : List Nat} {j : Nat} {es : List Bytes}
    {v : Bytes} {r : List Nat} (h : ColOK offs inds vals j es) (hr : inds[j]? = some r)
    (hlen : es.length + 1 < r.length)
    (hw : Wrote vals vals' (offAt offs j + es.flatten.length) v) :
    ColOK offs (inds.set j (r.set (es.length + 1) (es.flatten.length + v.length))) vals' j (es ++ [v]) := by
  obtain ⟨⟨r0, hr0, hk⟩, hat⟩ := h
  have : r0 = r := by rw [hr] at hr0; exact (Option.some.inj hr0).symm
  subst this
  have hj : j < inds.length := by
    rcases Nat.lt_or_ge j inds.length with h | h
    · exact h
    · rw [List.getElem?_eq_none h] at hr; cases hr
  refine ⟨⟨_, by rw [List.getElem?_set_self hj], ?_⟩, ?_⟩
  · intro k hkl
    simp at hkl
    by_cases hke : k = es.length + 1
    · subst hke
      rw [List.getElem?_set_self hlen, endOf_snoc_last]
    · rw [List.getElem?_set_ne (by omega), endOf_snoc_le (by omega)]
      exact hk k (by omega)
  · rw [List.flatten_append]
    apply At.append
    · exact hat.of_frame (fun i h1 h2 => hw.frame i (Or.inl (by omega)))
    · simpa using hw.at_

end Exetera.Csv
