import Exetera.Gen.OperatorTable
import Exetera.Gen.DtypeNames
/-!
  C13 — field operators. The dispatch is table shaped, so it is REGENERATED from `fields.py` on every run
  (`Gen/OperatorTable.lean`); this file gives the tables their meaning:

    cls.<dunder>(self, other)  →  FieldDataOps.<method>(session, a, b)  →  _binary_op/_unary_op/direct  →  symbol(x, y)

  numpy itself is an opaque parameter `np : String → List α → β` (the property's right-hand side *is* numpy).
-/
namespace Exetera.FieldOps
open Exetera

def lookupDunder (cls d : String) : Option (String × List Nat) :=
  (Gen.dunderTable.find? (fun r => r.1 == cls && r.2.1 == d)).map (fun r => (r.2.2.1, r.2.2.2))

def lookupMethod (m : String) : Option (String × String × List Nat) :=
  (Gen.methodTable.find? (fun r => r.1 == m)).map (fun r => r.2)

def lookupHelper (h : String) : Option (List Nat) :=
  (Gen.helperTable.find? (fun r => r.1 == h)).map (fun r => r.2)

/-- compose argument routings: `outer[k]` picks among the `inner` slots -/
def route (outer inner : List Nat) : Option (List Nat) := outer.mapM (fun k => inner[k]?)

/-- the numpy/operator symbol a dunder ends up applying, and for each argument of the symbol whether it receives
    `self` (0) or the other operand (1) -/
def resolve (cls d : String) : Option (String × List Nat) := do
  let (m, dOrd) ← lookupDunder cls d
  let (sym, via, mOrd) ← lookupMethod m
  let ord ← route mOrd dOrd
  if via == "direct" then pure (sym, ord)
  else
    let hOrd ← lookupHelper via
    let ord' ← route hOrd ord
    pure (sym, ord')

/-- the value a dunder computes, numpy opaque -/
def eval {α β} (np : String → List α → β) (cls d : String) (self other : α) : Option β :=
  (resolve cls d).map (fun r => np r.1 (r.2.map (fun k => if k == 0 then self else other)))

/-- what the property demands: dunder ↦ (symbol, argument routing) — forward form `sym(self, other)`,
    reflected form `sym(other, self)`, unary `sym(self)` -/
def spec : String → Option (String × List Nat)
  | "__add__" => some ("operator.add", [0, 1]) | "__radd__" => some ("operator.add", [1, 0])
  | "__sub__" => some ("operator.sub", [0, 1]) | "__rsub__" => some ("operator.sub", [1, 0])
  | "__mul__" => some ("operator.mul", [0, 1]) | "__rmul__" => some ("operator.mul", [1, 0])
  | "__truediv__" => some ("operator.truediv", [0, 1]) | "__rtruediv__" => some ("operator.truediv", [1, 0])
  | "__floordiv__" => some ("operator.floordiv", [0, 1]) | "__rfloordiv__" => some ("operator.floordiv", [1, 0])
  | "__mod__" => some ("operator.mod", [0, 1]) | "__rmod__" => some ("operator.mod", [1, 0])
  | "__divmod__" => some ("np.divmod", [0, 1]) | "__rdivmod__" => some ("np.divmod", [1, 0])
  | "__and__" => some ("operator.and_", [0, 1]) | "__rand__" => some ("operator.and_", [1, 0])
  | "__xor__" => some ("operator.xor", [0, 1]) | "__rxor__" => some ("operator.xor", [1, 0])
  | "__or__" => some ("operator.or_", [0, 1]) | "__ror__" => some ("operator.or_", [1, 0])
  | "__lt__" => some ("operator.lt", [0, 1]) | "__le__" => some ("operator.le", [0, 1])
  | "__eq__" => some ("operator.eq", [0, 1]) | "__ne__" => some ("operator.ne", [0, 1])
  | "__gt__" => some ("operator.gt", [0, 1]) | "__ge__" => some ("operator.ge", [0, 1])
  | "__invert__" => some ("operator.invert", [0]) | "logical_not" => some ("np.logical_not", [0])
  | _ => none

def arith10 : List String := ["__add__", "__radd__", "__sub__", "__rsub__", "__mul__", "__rmul__", "__truediv__", "__rtruediv__",
  "__floordiv__", "__rfloordiv__"]
def modDiv : List String := ["__mod__", "__rmod__", "__divmod__", "__rdivmod__"]
def bitwise : List String := ["__and__", "__rand__", "__xor__", "__rxor__", "__or__", "__ror__", "__invert__", "logical_not"]
def compare : List String := ["__lt__", "__le__", "__eq__", "__ne__", "__gt__", "__ge__"]

/-- the operators each field class supports (pinned: losing one is a finding, not a refactoring) -/
def supported : String → List String
  | "NumericMemField" | "NumericField" => arith10 ++ modDiv ++ bitwise ++ compare
  | "TimestampMemField" | "TimestampField" => arith10 ++ modDiv ++ compare
  | "CategoricalMemField" | "CategoricalField" => arith10 ++ compare
  | _ => []

def classes : List String := ["NumericMemField", "NumericField", "TimestampMemField", "TimestampField",
  "CategoricalMemField", "CategoricalField"]

def allPairs : List (String × String) := classes.flatMap (fun c => (supported c).map (fun d => (c, d)))

/-! `_binary_op`: unwrap `data[:]` of Field operands, apply, wrap the result in a NEW NumericMemField. The store maps
    field ids to their arrays; the result id is fresh, so no operand is written. -/
structure Store (α : Type) where
  cells : List (Nat × α)
  next : Nat

def Store.get? {α} (s : Store α) (id : Nat) : Option α := (s.cells.find? (fun c => c.1 == id)).map (·.2)

/-- an operand is a field (by id) or a raw array/scalar -/
inductive Operand (α : Type) where
  | field (id : Nat)
  | raw (a : α)

def Operand.data {α} (s : Store α) : Operand α → Option α
  | .field id => s.get? id
  | .raw a => some a

/-- `FieldDataOps._binary_op(session, first, second, function)` -/
def binaryOp {α} (s : Store α) (f : α → α → α) (first second : Operand α) : Option (Store α × Nat) := do
  let a ← first.data s
  let b ← second.data s
  pure ({ cells := (s.next, f a b) :: s.cells, next := s.next + 1 }, s.next)

/-! `dtype_to_str`: names the dtype of the result field (`NumericMemField(session, dtype_to_str(r.dtype))`). The table is
    REGENERATED from `fields.py` (`Gen/DtypeNames.lean`). A numpy dtype is identified by the way the source spells its type
    (`bool`, `np.int8`, …); that `r.dtype == np.int8` holds exactly for int8 arrays is numpy's behaviour (trusted). -/

/-- how the source spells the scalar type of the numpy dtype called `n` -/
def npSymbol (n : String) : String := if n == "bool" then "bool" else "np." ++ n

/-- `dtype_to_str(dtype)` for a numpy dtype spelled `ty`: the first matching row of the chain; `none` = the final `raise` -/
def dtypeToStr (ty : String) : Option String :=
  (Gen.dtypeToStrRows.find? (fun r => r.1 == ty)).map (·.2)

/-- the numeric dtypes a field operator can produce (numpy's bool / signed / unsigned / float results up to 64 bit) -/
def resultDtypes : List String :=
  ["bool", "int8", "int16", "int32", "int64", "uint8", "uint16", "uint32", "uint64", "float32", "float64"]

end Exetera.FieldOps
