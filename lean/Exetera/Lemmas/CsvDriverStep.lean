import Exetera.Lemmas.CsvImportAcc
import Exetera.Lemmas.CsvWindow
import Exetera.Lemmas.CsvDriver
/-! One iteration of `read_file_using_fast_csv_reader` on a fresh window whose kernel call fills no buffer (C05). -/
namespace Exetera.Csv
open Exetera Spec

/-- the driver between two windows: `D c` is what the destination field of column `c` holds so far -/
structure DInv (ncols maxrow : Nat) (offs : List Nat) (im : List Nat) (s : DS) (ci : Nat) (hh : Bool) (d : Nat)
    (D : Nat → List Bytes) : Prop where
  ci : s.ci = ci
  hh : s.hasHeader = hh
  rows : s.rows = (d : Int)
  offsEq : s.offs = offs
  indsFull : s.indsFull = false
  valsFull : s.valsFull = false
  stop : s.stop = false
  shape : Shape ncols maxrow offs s.inds s.vals
  zero : ∀ c, c < ncols → ∃ r, s.inds[c]? = some r ∧ r[0]? = some 0
  imps : s.imps = im.map (fun c => fieldOf' (D c))

theorem driverStep_fresh {file : Bytes} {w ncols maxrow : Nat} {offs im : List Nat} {s : DS} {ci d np n : Nat} {hh : Bool}
    {D E : Nat → List Bytes} {o : KOut} (hinv : DInv ncols maxrow offs im s ci hh d D)
    (hslice : ((slice file ci (ci + w)).length == 0) = false)
    (hker : fastCsvReader (readWindow file ci w) 0 s.inds s.vals offs hh = .ok o)
    (hok : KernelOK ncols maxrow offs o np n E) (hnp : np ≠ 0) (hlen : ∀ c, c < ncols → (E c).length = n)
    (him : ∀ c ∈ im, c < ncols) :
    ∃ s', driverStep file w ncols im s = .ok s' ∧
      DInv ncols maxrow offs im s' (ci + np) false (d + n) (fun c => D c ++ E c) := by
  have himp := importAll_acc (D := D) hok.cols hlen hok.shape.offsLen im him
  have hwr : o.written.toNat = n := by rw [hok.written]; simp
  have hwneg : ¬ o.written < 0 := by rw [hok.written]; omega
  have hnp0 : (o.nextPos == 0) = false := by rw [hok.nextPos]; exact beq_false_of_ne hnp
  have hstep : driverStep file w ncols im s = .ok
      { s with ci := s.ci + o.nextPos, hasHeader := false, rows := s.rows + o.written, inds := o.inds, vals := o.vals, offs := s.offs, indsFull := false, valsFull := false, content := readWindow file s.ci w, start := 0, imps := im.map (fun c => fieldOf' (D c ++ E c)), calls := s.calls ++ [o.written] } := by
    simp only [driverStep, hinv.indsFull, hinv.valsFull, Bool.not_false, Bool.and_self, if_true, hinv.ci, hslice,
      Bool.false_eq_true, if_false, hinv.offsEq, hinv.hh, hker, hwneg, hwr, hinv.imps, himp, hok.indsFull, hok.valsFull,
      hok.vfc, Option.isSome_none, Bool.and_false, Bool.or_self, hnp0, Bool.and_true]
  refine ⟨_, hstep, ?_⟩
  exact {
    ci := by simp [hinv.ci, hok.nextPos]
    hh := rfl
    rows := by simp [hinv.rows, hok.written]
    offsEq := hinv.offsEq
    indsFull := rfl
    valsFull := rfl
    stop := hinv.stop
    shape := hok.shape
    zero := by
      intro c hc
      obtain ⟨⟨r, hr, hk⟩, _⟩ := hok.cols c hc
      exact ⟨r, hr, by simpa [endOf] using hk 0 (Nat.zero_le _)⟩
    imps := rfl }

end Exetera.Csv
