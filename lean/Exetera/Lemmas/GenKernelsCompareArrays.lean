import Exetera.Gen.Kernels
import Exetera.Model.Unique
import Exetera.Lemmas.GenKernels
import Exetera.Lemmas.GenKernelsSpans
import Exetera.Lemmas.GenKernelsSpansIdxMinIndexed
/-!
  The TRANSLATED `compare_arrays` (`return` inside the `for` loop: the early-exit flag `ret` and the result slot `rv0`) against
  `Unique.compareArrays`, for byte arrays — every successful run of the model is a run of the translated kernel with the same
  result; since the model never fails (`C14.compare_arrays_is_lex`), this is the three-way lexicographic comparison on EVERY input.
-/
namespace Exetera.GenK

open Exetera Exetera.PyRt Exetera.Unique Exetera.Gen.Kernels

/-- a byte array as the kernel receives it -/
def ints8 (a : List UInt8) : List Int := a.map (fun x => ((x.toNat : Nat) : Int))

@[simp] theorem ints8_length (a : List UInt8) : (ints8 a).length = a.length := by simp [ints8]

theorem getE_ints8 (a : List UInt8) (i : Nat) (site : String) {x : UInt8} (h : a[i]? = some x) :
    getE (ints8 a) i site = .ok ((x.toNat : Nat) : Int) := by
  simp [getE, ints8, List.getElem?_map, h]

theorem getE_ints8_none (a : List UInt8) (i : Nat) (site : String) (h : a[i]? = none) :
    getE (ints8 a) i site = .error (.oob site) := by
  simp [getE, ints8, List.getElem?_map, h]

namespace CA

abbrev St := compare_arrays.St

abbrev loop1 (n : Nat) (k : Int) (s : St) : Except Err St :=
  forRangeAux (fun s => s.ret) (fun k s => compare_arrays.body_L1 { s with v0 := k }) n k s

theorem loop_sim (a b : List UInt8) :
    ∀ (n i : Nat) (s : St), s.p0 = ints8 a → s.p1 = ints8 b → s.ret = false →
      match compareLoop a b n i with
      | .ok none => ∃ k', loop1 n (i : Int) s = .ok { s with v0 := k' }
      | .ok (some r) => ∃ k', loop1 n (i : Int) s = .ok { s with v0 := k', ret := true, rv0 := r }
      | .error _ => True := by
  intro n
  induction n with
  | zero => intro i s _ _ _; exact ⟨s.v0, rfl⟩
  | succ n ih =>
    intro i s h0 h1 hr
    obtain ⟨q0, q1, w0, r0, r1⟩ := s
    simp only at h0 h1 hr
    subst h0 h1 hr
    have e3 : ((i : Int) + 1) = ((i + 1 : Nat) : Int) := by omega
    rw [loop1, forRangeAux_succ, e3]
    generalize hL : (fun s' : St => if (fun s : St => s.ret) s' = true then Except.ok s' else
      forRangeAux (fun s => s.ret) (fun k s => compare_arrays.body_L1 { s with v0 := k }) n ((i + 1 : Nat) : Int) s') = L
    simp only [compareLoop, compare_arrays.body_L1, idxE_nat]
    cases hx : a[i]? with
    | none => simp [getE, hx]
    | some x =>
      cases hy : b[i]? with
      | none => simp [getE, hx, hy]
      | some y =>
        have hxa : getE a i "compare_arrays:a[i]" = .ok x := by simp [getE, hx]
        have hyb : getE b i "compare_arrays:b[i]" = .ok y := by simp [getE, hy]
        simp only [getE_ints8 _ _ _ hx, getE_ints8 _ _ _ hy, hxa, hyb, bindE_ok, Int.ofNat_lt, gt_iff_lt, ← UInt8.lt_iff_toNat_lt]
        by_cases hlt : x < y
        · simp only [hlt, decide_true, if_true, bindE_ok]
          subst hL
          simp only [if_true]
          exact ⟨(i : Int), rfl⟩
        · by_cases hgt : y < x
          · simp only [hlt, hgt, decide_true, decide_false, Bool.false_eq_true, if_false, if_true, bindE_ok, idxE_nat,
              getE_ints8 _ _ _ hx, getE_ints8 _ _ _ hy, Int.ofNat_lt, ← UInt8.lt_iff_toNat_lt]
            subst hL
            simp only [if_true]
            exact ⟨(i : Int), rfl⟩
          · simp only [hlt, hgt, decide_false, Bool.false_eq_true, if_false, bindE_ok, idxE_nat,
              getE_ints8 _ _ _ hx, getE_ints8 _ _ _ hy, Int.ofNat_lt, ← UInt8.lt_iff_toNat_lt]
            subst hL
            simp only [Bool.false_eq_true, if_false]
            have := ih (i + 1) ⟨ints8 a, ints8 b, (i : Int), false, r1⟩ rfl rfl rfl
            simp only [loop1] at this
            exact this

end CA

/-- every successful run of the model is a run of the translated kernel with the same result -/
theorem compare_arrays_ok (a b : List UInt8) (r : Int) (h : compareArrays a b = .ok r) :
    compare_arrays.run (ints8 a) (ints8 b) = .ok r := by
  unfold compareArrays at h
  have hl := CA.loop_sim a b (min a.length b.length) 0 ⟨ints8 a, ints8 b, 0, false, 0⟩ rfl rfl rfl
  have hcnt : (min (pyLen (ints8 a)) (pyLen (ints8 b)) - 0).toNat = min a.length b.length := by
    simp only [pyLen, ints8_length]; omega
  have z : ((0 : Nat) : Int) = 0 := rfl
  unfold compare_arrays.run
  simp only [forRangeB, hcnt]
  cases hc : compareLoop a b (min a.length b.length) 0 with
  | error e => simp [hc] at h
  | ok o =>
    rw [hc] at hl
    cases o with
    | some r' =>
      simp only [hc, Except.ok.injEq] at h
      subst h
      refine Exists.elim hl ?_
      intro k' hrun
      simp only [CA.loop1, z] at hrun
      rw [hrun]
      simp only [bindE_ok, if_true]
    | none =>
      simp only [hc] at h
      refine Exists.elim hl ?_
      intro k' hrun
      simp only [CA.loop1, z] at hrun
      rw [hrun]
      simp only [bindE_ok, Bool.false_eq_true, if_false, pyLen, ints8_length, Int.ofNat_lt]
      by_cases h1 : a.length < b.length
      · simp only [h1, if_true, Except.ok.injEq] at h
        simp only [h1, decide_true, if_true, h]
      · simp only [h1, if_false] at h
        simp only [h1, decide_false, Bool.false_eq_true, if_false]
        by_cases h2 : b.length < a.length
        · simp only [h2, if_true, Except.ok.injEq] at h
          simp only [h2, decide_true, if_true, h]
        · simp only [h2, if_false, Except.ok.injEq] at h
          simp only [h2, decide_false, Bool.false_eq_true, if_false, h]

end Exetera.GenK
