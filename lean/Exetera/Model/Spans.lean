import Exetera.Model.Basic
/-!
  Model of the span machinery of exetera/core/operations.py (with the `fix:` patches D18, D19, NC08b, NC08c applied;
  the as-found behaviour of each repaired function is kept behind a `Variant` parameter so that a regression is
  recognised and the witness theorems in `Witness/C08.lean` stay checkable):

    get_spans_for_field, _get_spans_for_2_fields_by_spans, _get_spans_for_2_fields(_njit),
    _get_spans_for_multi_fields(_njit), _get_spans_for_index_string_field, every apply_spans_* kernel,
    Session.get_spans dispatch, Session._apply_spans_src length check, FieldDataOps.apply_spans_* guards.

  Conventions
  * span arrays are `List Nat` (the generators never produce negative entries); differences the code takes in signed
    arithmetic (`next - cur == 1`, `spans[i+1] - spans[i]`, `spans[1:] - 1`) are written so that they agree with `Int`.
  * value columns of numeric / fixed-string fields are `List Int` (the kernels only compare; a fixed-string column is
    order-isomorphic to its rank column, DESIGN 1.4).  `get_spans_for_field` is generic in the element type and takes
    the element comparison as a parameter (`np.not_equal`, `!=`, or `np.char.not_equal` as found).
  * indexed strings are `(indices : List Nat, values : List Nat)` (byte values).
  * every subscript of an `@exetera_njit` kernel is a `getE` (or a capacity check on the output buffer), so `= .ok _`
    theorems carry memory safety.  Loops that are plain scans are structural recursions on the remaining trip count
    (`k` below), the loop variable being passed along; this makes termination definitional.
-/
namespace Exetera.Spans

open Exetera

/-- as found in /repo vs with the `fix:` patch applied -/
inductive Variant where
  | asFound | repaired
  deriving Repr, DecidableEq, Inhabited

/-- dtype of a span array (the only place width matters: which of the two the entry points pick) -/
inductive IdxT where
  | i32 | i64
  deriving Repr, DecidableEq, Inhabited

def IdxT.name : IdxT → String
  | .i32 => "int32"
  | .i64 => "int64"

/-- `utils.INT64_INDEX_LENGTH = 2**31 - 1` (compared with the source by the harness op `int64_index_length`) -/
def INT64_INDEX_LENGTH : Nat := 2 ^ 31 - 1

/-- `v :: r` under `Except` -/
def consE {β} (v : β) : Except Err (List β) → Except Err (List β)
  | .ok l => .ok (v :: l)
  | .error e => .error e

@[simp] theorem consE_ok {β} (v : β) (l : List β) : consE v (.ok l) = .ok (v :: l) := rfl
@[simp] theorem consE_error {β} (v : β) (e : Err) : consE v (.error e : Except Err (List β)) = .error e := rfl

/-! ## get_spans_for_field (numpy level) -/

/-- `fn(ndarray[:-1], ndarray[1:])` -/
def adjacentNe {α} (ne : α → α → Bool) (xs : List α) : List Bool := List.zipWith ne xs.dropLast xs.tail

/-- `np.nonzero(results)[0]`, positions counted from `i` -/
def nonzeroFrom : Nat → List Bool → List Nat
  | _, [] => []
  | i, b :: bs => if b then i :: nonzeroFrom (i + 1) bs else nonzeroFrom (i + 1) bs

def nonzero (bs : List Bool) : List Nat := nonzeroFrom 0 bs

/-- `a[lo:hi] = vs` for `0 ≤ lo`, `0 ≤ hi` and `len(vs)` equal to the slice length -/
def setSlice {α} (a : List α) (lo hi : Nat) (vs : List α) : List α := a.take lo ++ vs ++ a.drop (max lo hi)

/-- `get_spans_for_field(ndarray)`: the value part. `ne` is the element comparison. -/
def getSpansForField {α} (ne : α → α → Bool) (xs : List α) : List Nat :=
  let n := xs.length
  let results := List.replicate (n + 1) false          -- np.zeros(len(ndarray) + 1, dtype=bool)
  let results := setSlice results 1 n (adjacentNe ne xs)   -- results[1:-1] = fn(ndarray[:-1], ndarray[1:])
  let results := results.set 0 true                    -- results[0] = True
  let results := results.set n true                    -- results[-1] = True
  nonzero results

/-- `if len(ndarray) < utils.INT64_INDEX_LENGTH: …astype('int32') else int64` -/
def spanDtypeField (thr n : Nat) : IdxT := if n < thr then .i32 else .i64

/-- `np.char.not_equal` on byte strings: compares after stripping trailing whitespace (as found, D19).
    whitespace = bytes.rstrip() default set: space, \t \n \v \f \r; numpy has already dropped trailing NULs. -/
def isWs (b : Nat) : Bool := b == 32 || (9 ≤ b && b ≤ 13)

def rstrip (s : List Nat) : List Nat := (s.reverse.dropWhile isWs).reverse

def charNe (a b : List Nat) : Bool := rstrip a != rstrip b

/-- the comparison `get_spans_for_field` applies to a fixed-string column -/
def fixedNe : Variant → List Nat → List Nat → Bool
  | .asFound => charNe
  | .repaired => fun a b => a != b

/-! ## _get_spans_for_2_fields_by_spans -/

/-- inner `while span1[j] < x: spans.append(span1[j]); j += 1` followed by `if span1[j] == x: j += 1`, on the
    suffix `span1[j:]`; returns the appended entries and the new suffix. Reading `span1[j]` past the end is the
    out-of-bounds point of the kernel. -/
def mergeAdvance (x : Nat) : List Nat → Except Err (List Nat × List Nat)
  | [] => .error (.oob "span1[j]")
  | y :: rest =>
    if y < x then
      match mergeAdvance x rest with
      | .ok (app, r) => .ok (y :: app, r)
      | .error e => .error e
    else if y == x then .ok ([], rest)
    else .ok ([], y :: rest)

/-- the `for i in range(len(span0))` loop on the suffixes `span0[i:]`, `span1[j:]`, then the trailing `extend` -/
def mergeLoop : List Nat → List Nat → Except Err (List Nat)
  | [], rest => .ok rest
  | x :: xs, [] => consE x (mergeLoop xs [])
  | x :: xs, y :: rest =>
    match mergeAdvance x (y :: rest) with
    | .error e => .error e
    | .ok (app, r) =>
      match mergeLoop xs r with
      | .ok t => .ok (app ++ x :: t)
      | .error e => .error e

/-- `_get_spans_for_2_fields_by_spans(span0, span1)` -/
def getSpansFor2FieldsBySpans (span0 span1 : List Nat) : Except Err (List Nat) := mergeLoop span0 span1

/-! ## _get_spans_for_2_fields / _get_spans_for_multi_fields -/

/-- the `for i in np.arange(1, n)` loop of `_get_spans_for_2_fields_njit` with `k` iterations left; `count` is the
    kernel's counter, `cap = len(spans)` the buffer size; ends with `spans[count + 1] = n`.
    Python's `or` short-circuits, so `ndarray1` is only read when `ndarray0` does not already differ. -/
def scan2 (a b : List Int) (n cap : Nat) : (k i count : Nat) → Except Err (List Nat)
  | 0, _, count => if count + 1 < cap then .ok [n] else .error (.oob "spans[count + 1]")
  | k + 1, i, count =>
    match getE a i "ndarray0[i]", getE a (i - 1) "ndarray0[i - 1]" with
    | .ok x, .ok x' =>
      if x != x' then
        if count + 1 < cap then consE i (scan2 a b n cap k (i + 1) (count + 1)) else .error (.oob "spans[count]")
      else
        match getE b i "ndarray1[i]", getE b (i - 1) "ndarray1[i - 1]" with
        | .ok y, .ok y' =>
          if y != y' then
            if count + 1 < cap then consE i (scan2 a b n cap k (i + 1) (count + 1)) else .error (.oob "spans[count]")
          else scan2 a b n cap k (i + 1) count
        | .error e, _ => .error e
        | _, .error e => .error e
    | .error e, _ => .error e
    | _, .error e => .error e

/-- `_get_spans_for_2_fields_njit(ndarray0, ndarray1, spans)` with `len(spans) = cap` -/
def getSpansFor2FieldsNjit (v : Variant) (a b : List Int) (cap : Nat) : Except Err (List Nat) :=
  if cap == 0 then .error (.oob "spans[0]")            -- spans[0] = 0
  else if v == .repaired && a.length == 0 then .ok [0]   -- fix NC08b: `return spans[:1]`
  else consE 0 (scan2 a b a.length cap (a.length - 1) 1 0)

/-- `_get_spans_for_2_fields(ndarray0, ndarray1)` -/
def getSpansFor2Fields (v : Variant) (a b : List Int) : Except Err (List Nat) :=
  getSpansFor2FieldsNjit v a b (a.length + 1)

def spanDtype2 (thr n0 n1 : Nat) : IdxT := if n0 > thr || n1 > thr then .i64 else .i32

/-- `for f_d in fields_data: if f_d[i] != f_d[i - 1]: not_equal = True; break` -/
def rowNe (i : Nat) : List (List Int) → Except Err Bool
  | [] => .ok false
  | f :: fs =>
    match getE f i "f_d[i]", getE f (i - 1) "f_d[i - 1]" with
    | .ok x, .ok x' => if x != x' then .ok true else rowNe i fs
    | .error e, _ => .error e
    | _, .error e => .error e

def scanMulti (fs : List (List Int)) (n cap : Nat) : (k i count : Nat) → Except Err (List Nat)
  | 0, _, count => if count + 1 < cap then .ok [n] else .error (.oob "spans[count + 1]")
  | k + 1, i, count =>
    match rowNe i fs with
    | .error e => .error e
    | .ok true =>
      if count + 1 < cap then consE i (scanMulti fs n cap k (i + 1) (count + 1)) else .error (.oob "spans[count]")
    | .ok false => scanMulti fs n cap k (i + 1) count

/-- `_get_spans_for_multi_fields_njit(fields_data, spans)` -/
def getSpansForMultiFieldsNjit (v : Variant) (fs : List (List Int)) (cap : Nat) : Except Err (List Nat) :=
  match fs with
  | [] => .error (.oob "fields_data[0]")
  | f0 :: _ =>
    if cap == 0 then .error (.oob "spans[0]")
    else if v == .repaired && f0.length == 0 then .ok [0]
    else consE 0 (scanMulti fs f0.length cap (f0.length - 1) 1 0)

/-- `_get_spans_for_multi_fields(fields_data)` -/
def getSpansForMultiFields (v : Variant) (fs : List (List Int)) : Except Err (List Nat) :=
  match fs with
  | [] => .error (.oob "fields_data[0]")
  | f0 :: _ => getSpansForMultiFieldsNjit v fs (f0.length + 1)

def spanDtypeMulti (thr n : Nat) : IdxT := if n > thr then .i64 else .i32

/-! ## _get_spans_for_index_string_field -/

/-- the `for i in range(1, len(indices) - 1)` loop, `k` iterations left; lists are appended to, slices clamp -/
def scanIndexed (indices values : List Nat) : (k i : Nat) → Except Err (List Nat)
  | 0, _ => .ok [indices.length - 1]            -- result.append(len(indices) - 1)
  | k + 1, i =>
    match getE indices (i - 1) "indices[i - 1]", getE indices i "indices[i]", getE indices (i + 1) "indices[i + 1]" with
    | .ok last, .ok current, .ok next =>
      if (next : Int) - current != (current : Int) - last then consE i (scanIndexed indices values k (i + 1))
      else if slice values last current != slice values current next then consE i (scanIndexed indices values k (i + 1))
      else scanIndexed indices values k (i + 1)
    | .error e, _, _ => .error e
    | _, .error e, _ => .error e
    | _, _, .error e => .error e

/-- `_get_spans_for_index_string_field(indices, values)`.
    As found (NC08c) there is no early return: an empty field yields `[0, len(indices) - 1]`, i.e. `[0, 0]` for
    `indices = [0]` and `[0, -1]` for `indices = []` (rendered `[0, 0]` here, `Nat` subtraction). -/
def getSpansForIndexStringField (v : Variant) (indices values : List Nat) : Except Err (List Nat) :=
  if v == .repaired && indices.length < 2 then .ok [0]
  else consE 0 (scanIndexed indices values (indices.length - 2) 1)

/-! ## apply_spans_* -/

/-- `dest = np.zeros(len(spans) - 1); for i in range(len(spans) - 1): cur, next = spans[i], spans[i+1]; dest[i] = f cur next`.
    `spans[i]`, `spans[i+1]`, `dest[i]` are in bounds by the loop range. -/
def forPairs {β} (f : Nat → Nat → Except Err β) : List Nat → Except Err (List β)
  | cur :: next :: rest =>
    match f cur next with
    | .error e => .error e
    | .ok v => consE v (forPairs f (next :: rest))
  | _ => .ok []

/-- `np.zeros(len(spans) - 1, …)` raises ValueError (negative dimension) for an empty span array -/
def forSpans {β} (f : Nat → Nat → Except Err β) (spans : List Nat) : Except Err (List β) :=
  if spans.isEmpty then .error (.valueError "negative dimensions are not allowed") else forPairs f spans

/-- `apply_spans_count` -/
def applySpansCount (spans : List Nat) : Except Err (List Int) :=
  forSpans (fun cur next => .ok ((next : Int) - cur)) spans

/-- `apply_spans_index_of_first`: `dest[:] = spans[:-1]` -/
def applySpansIndexOfFirst (spans : List Nat) : Except Err (List Int) :=
  forSpans (fun cur _ => .ok (cur : Int)) spans

/-- `apply_spans_index_of_last`: `dest[:] = spans[1:] - 1` -/
def applySpansIndexOfLast (spans : List Nat) : Except Err (List Int) :=
  forSpans (fun _ next => .ok ((next : Int) - 1)) spans

/-- `src_array[i]` for a possibly negative `i` (numpy wrap-around of `-1`) -/
def getWrapE {α} (src : List α) (i : Int) (site : String := "") : Except Err α :=
  if 0 ≤ i then getE src i.toNat site
  else if -(src.length : Int) ≤ i then getE src (i + src.length).toNat site
  else .error (.oob site)

/-- `apply_spans_first`: `dest[:] = src_array[spans[:-1]]` -/
def applySpansFirst (spans : List Nat) (src : List Int) : Except Err (List Int) :=
  forSpans (fun cur _ => getE src cur "src_array[spans[:-1]]") spans

/-- `apply_spans_last`: `dest[:] = src_array[spans[1:] - 1]` -/
def applySpansLast (spans : List Nat) (src : List Int) : Except Err (List Int) :=
  forSpans (fun _ next => getWrapE src ((next : Int) - 1) "src_array[spans[1:] - 1]") spans

/-- `for idx in range(idx, idx + k): if src_array[idx] > max_val: max_val = src_array[idx]` -/
def maxLoop (src : List Int) : (k idx : Nat) → Int → Except Err Int
  | 0, _, m => .ok m
  | k + 1, idx, m =>
    match getE src idx "src_array[idx]" with
    | .error e => .error e
    | .ok v => maxLoop src k (idx + 1) (if v > m then v else m)

def minLoop (src : List Int) : (k idx : Nat) → Int → Except Err Int
  | 0, _, m => .ok m
  | k + 1, idx, m =>
    match getE src idx "src_array[idx]" with
    | .error e => .error e
    | .ok v => minLoop src k (idx + 1) (if v < m then v else m)

/-- one span of `apply_spans_max` -/
def spanMax (src : List Int) (cur next : Nat) : Except Err Int :=
  match getE src cur "src_array[cur]" with
  | .error e => .error e
  | .ok v => if next == cur + 1 then .ok v else maxLoop src (next - (cur + 1)) (cur + 1) v

def spanMin (src : List Int) (cur next : Nat) : Except Err Int :=
  match getE src cur "src_array[cur]" with
  | .error e => .error e
  | .ok v => if next == cur + 1 then .ok v else minLoop src (next - (cur + 1)) (cur + 1) v

def applySpansMax (spans : List Nat) (src : List Int) : Except Err (List Int) := forSpans (spanMax src) spans
def applySpansMin (spans : List Nat) (src : List Int) : Except Err (List Int) := forSpans (spanMin src) spans

/-- `ndarray.argmin()` scan: position (counted from `i`) of the first minimum of `best :: rest` so far -/
def argminFrom : List Int → (i : Nat) → (best : Int) → (bestIdx : Nat) → Nat
  | [], _, _, bi => bi
  | x :: xs, i, best, bi => if x < best then argminFrom xs (i + 1) x i else argminFrom xs (i + 1) best bi

def argmaxFrom : List Int → (i : Nat) → (best : Int) → (bestIdx : Nat) → Nat
  | [], _, _, bi => bi
  | x :: xs, i, best, bi => if x > best then argmaxFrom xs (i + 1) x i else argmaxFrom xs (i + 1) best bi

/-- `a.argmin()`; ValueError on an empty array -/
def argmin : List Int → Except Err Nat
  | [] => .error (.valueError "attempt to get argmin of an empty sequence")
  | x :: xs => .ok (argminFrom xs 1 x 0)

def argmax : List Int → Except Err Nat
  | [] => .error (.valueError "attempt to get argmax of an empty sequence")
  | x :: xs => .ok (argmaxFrom xs 1 x 0)

/-- one span of `apply_spans_index_of_min`: `cur` if `next - cur == 1` else `cur + src_array[cur:next].argmin()`
    (the slice clamps, it never raises) -/
def spanIndexOfMin (src : List Int) (cur next : Nat) : Except Err Int :=
  if next == cur + 1 then .ok cur
  else match argmin (slice src cur next) with
    | .ok k => .ok ((cur + k : Nat) : Int)
    | .error e => .error e

def spanIndexOfMax (src : List Int) (cur next : Nat) : Except Err Int :=
  if next == cur + 1 then .ok cur
  else match argmax (slice src cur next) with
    | .ok k => .ok ((cur + k : Nat) : Int)
    | .error e => .error e

def applySpansIndexOfMin (spans : List Nat) (src : List Int) : Except Err (List Int) := forSpans (spanIndexOfMin src) spans
def applySpansIndexOfMax (spans : List Nat) (src : List Int) : Except Err (List Int) := forSpans (spanIndexOfMax src) spans

/-! ### indexed-string index_of_min / index_of_max -/

/-- outcome of the byte loop `for k in range(shortlen)` -/
inductive Cmp where
  | curLess | curGreater | notFound
  deriving Repr, DecidableEq, Inhabited

/-- `for k in range(k0, k0 + n): if values[curstart+k] < values[minstart+k]: …break elif >: …break` -/
def cmpLoop (values : List Nat) (curstart minstart : Nat) : (n k : Nat) → Except Err Cmp
  | 0, _ => .ok .notFound
  | n + 1, k =>
    match getE values (curstart + k) "src_values[curstart+k]", getE values (minstart + k) "src_values[minstart+k]" with
    | .ok c, .ok m => if c < m then .ok .curLess else if c > m then .ok .curGreater else cmpLoop values curstart minstart n (k + 1)
    | .error e, _ => .error e
    | _, .error e => .error e

/-- running state of the `for j in range(cur+1, next)` loop -/
structure MinSt where
  minind : Nat
  minstart : Nat
  minlen : Nat
  deriving Repr, DecidableEq, Inhabited

/-- `for j in range(j, j + n)` of `apply_spans_index_of_min_indexed`. As found (D18) `minlen` is never updated. -/
def minIdxLoop (v : Variant) (indices values : List Nat) : (n j : Nat) → MinSt → Except Err Nat
  | 0, _, st => .ok st.minind
  | n + 1, j, st =>
    match getE indices j "src_indices[j]", getE indices (j + 1) "src_indices[j+1]" with
    | .ok curstart, .ok curend =>
      let curlen := curend - curstart
      let shortlen := min curlen st.minlen
      let newlen := if v == .repaired then curlen else st.minlen
      match cmpLoop values curstart st.minstart shortlen 0 with
      | .error e => .error e
      | .ok .curLess => minIdxLoop v indices values n (j + 1) ⟨j, curstart, newlen⟩
      | .ok .curGreater => minIdxLoop v indices values n (j + 1) st
      | .ok .notFound =>
        if curlen < st.minlen then minIdxLoop v indices values n (j + 1) ⟨j, curstart, newlen⟩
        else minIdxLoop v indices values n (j + 1) st
    | .error e, _ => .error e
    | _, .error e => .error e

def maxIdxLoop (indices values : List Nat) : (n j : Nat) → MinSt → Except Err Nat
  | 0, _, st => .ok st.minind
  | n + 1, j, st =>
    match getE indices j "src_indices[j]", getE indices (j + 1) "src_indices[j+1]" with
    | .ok curstart, .ok curend =>
      let curlen := curend - curstart
      let shortlen := min curlen st.minlen
      match cmpLoop values curstart st.minstart shortlen 0 with
      | .error e => .error e
      | .ok .curGreater => maxIdxLoop indices values n (j + 1) ⟨j, curstart, curlen⟩
      | .ok .curLess => maxIdxLoop indices values n (j + 1) st
      | .ok .notFound =>
        if curlen > st.minlen then maxIdxLoop indices values n (j + 1) ⟨j, curstart, curlen⟩
        else maxIdxLoop indices values n (j + 1) st
    | .error e, _ => .error e
    | _, .error e => .error e

/-- one span of `apply_spans_index_of_min_indexed` -/
def spanIndexOfMinIndexed (v : Variant) (indices values : List Nat) (cur next : Nat) : Except Err Int :=
  if next == cur + 1 then .ok cur
  else
    match getE indices cur "src_indices[cur]", getE indices (cur + 1) "src_indices[cur+1]" with
    | .ok minstart, .ok minend =>
      match minIdxLoop v indices values (next - (cur + 1)) (cur + 1) ⟨cur, minstart, minend - minstart⟩ with
      | .ok r => .ok (r : Int)
      | .error e => .error e
    | .error e, _ => .error e
    | _, .error e => .error e

def spanIndexOfMaxIndexed (indices values : List Nat) (cur next : Nat) : Except Err Int :=
  if next == cur + 1 then .ok cur
  else
    match getE indices cur "src_indices[cur]", getE indices (cur + 1) "src_indices[cur+1]" with
    | .ok minstart, .ok minend =>
      match maxIdxLoop indices values (next - (cur + 1)) (cur + 1) ⟨cur, minstart, minend - minstart⟩ with
      | .ok r => .ok (r : Int)
      | .error e => .error e
    | .error e, _ => .error e
    | _, .error e => .error e

def applySpansIndexOfMinIndexed (v : Variant) (spans indices values : List Nat) : Except Err (List Int) :=
  forSpans (spanIndexOfMinIndexed v indices values) spans

def applySpansIndexOfMaxIndexed (spans indices values : List Nat) : Except Err (List Int) :=
  forSpans (spanIndexOfMaxIndexed indices values) spans

/-! ### `_filter` forms: write into caller-supplied `dest_array` / `filter_array` -/

/-- `for i in range(len(spans) - 1)` of the `*_filter` kernels: `next - cur == 0` writes `filter_array[i] = False`
    and leaves `dest_array[i]` alone; otherwise `filter_array[i] = True` is written first, then the value `g cur next`
    is computed (it may raise) and stored in `dest_array[i]`. -/
def filterLoop (g : Nat → Nat → Except Err Int) : List Nat → Nat → List Int → List Bool →
    Except Err (List Int × List Bool)
  | cur :: next :: rest, i, dest, filt =>
    if next == cur then
      match setE filt i false "filter_array[i]" with
      | .error e => .error e
      | .ok filt' => filterLoop g (next :: rest) (i + 1) dest filt'
    else
      match setE filt i true "filter_array[i]" with
      | .error e => .error e
      | .ok filt' =>
        match g cur next with
        | .error e => .error e
        | .ok v =>
          match setE dest i v "dest_array[i]" with
          | .error e => .error e
          | .ok dest' => filterLoop g (next :: rest) (i + 1) dest' filt'
  | _, _, dest, filt => .ok (dest, filt)

def applySpansIndexOfMinFilter (spans : List Nat) (src : List Int) (dest : List Int) (filt : List Bool) :=
  filterLoop (spanIndexOfMin src) spans 0 dest filt
def applySpansIndexOfMaxFilter (spans : List Nat) (src : List Int) (dest : List Int) (filt : List Bool) :=
  filterLoop (spanIndexOfMax src) spans 0 dest filt
def applySpansIndexOfFirstFilter (spans : List Nat) (dest : List Int) (filt : List Bool) :=
  filterLoop (fun cur _ => .ok (cur : Int)) spans 0 dest filt
def applySpansIndexOfLastFilter (spans : List Nat) (dest : List Int) (filt : List Bool) :=
  filterLoop (fun _ next => .ok ((next : Int) - 1)) spans 0 dest filt

/-! ## Session / Field level -/

/-- rows of an indexed string field: `values[indices[i]:indices[i+1]]` -/
def decodeRows (indices values : List Nat) : List (List Nat) :=
  List.zipWith (fun a b => slice values a b) indices.dropLast indices.tail

/-- a column handed to `Session.get_spans` -/
inductive Column where
  | numeric (xs : List Int)                       -- NumericField / numeric ndarray (also bool, timestamp, categorical)
  | fixed (xs : List (List Nat))                  -- FixedStringField / 'S' ndarray, rows as byte lists (NULs stripped)
  | indexed (indices values : List Nat)           -- IndexedStringField (Field entry point only)
  deriving Repr, Inhabited

/-- `Field.get_spans()` / `ops.get_spans_for_field(ndarray)` -/
def columnSpans (v : Variant) : Column → Except Err (List Nat)
  | .numeric xs => .ok (getSpansForField (fun a b => a != b) xs)
  | .fixed xs => .ok (getSpansForField (fixedNe v) xs)
  | .indexed i vs => getSpansForIndexStringField v i vs

/-- the loop `for f in fields[1:]: result = _get_spans_for_2_fields_by_spans(result, f.get_spans())` of
    `Session.get_spans(fields=…)` (after fix NC08d): the next column's span array is merged into the running one -/
def foldColumnSpans (v : Variant) : List Nat → List Column → Except Err (List Nat)
  | acc, [] => .ok acc
  | acc, c :: cs =>
    match columnSpans v c with
    | .ok s =>
      match getSpansFor2FieldsBySpans acc s with
      | .ok m => foldColumnSpans v m cs
      | .error e => .error e
    | .error e => .error e

/-- `Session.get_spans(fields=(f0, f1, …))` for Field arguments. As found only `fields[0]` and `fields[1]` were looked at
    and one entry raised IndexError (finding NC08d); repaired: the span arrays of all fields are merged, left to right. -/
def sessionGetSpansFields (v : Variant) : List Column → Except Err (List Nat)
  | [] => .error (.valueError "One of 'field' and 'fields' must be set")
  | c0 :: rest =>
    match v with
    | .asFound =>
      match rest with
      | [] => .error (.oob "fields[1]")
      | c1 :: _ =>
        match columnSpans v c0, columnSpans v c1 with
        | .ok s0, .ok s1 => getSpansFor2FieldsBySpans s0 s1
        | .error e, _ => .error e
        | _, .error e => .error e
    | .repaired =>
      match columnSpans v c0 with
      | .ok s0 => foldColumnSpans v s0 rest
      | .error e => .error e

/-- the same loop over ndarray arguments: `get_spans_for_field(a)` of each further array is merged in -/
def foldArraySpans : List Nat → List (List Int) → Except Err (List Nat)
  | acc, [] => .ok acc
  | acc, a :: as =>
    match getSpansFor2FieldsBySpans acc (getSpansForField (fun x y => x != y) a) with
    | .ok m => foldArraySpans m as
    | .error e => .error e

/-- `Session.get_spans(fields=(a0, a1, …))` for ndarray arguments (numeric or rank-coded fixed strings): exactly two arrays
    go through the two-array kernel; as found any other number behaved like NC08d, repaired they are folded -/
def sessionGetSpansArrays (v : Variant) : List (List Int) → Except Err (List Nat)
  | [] => .error (.valueError "One of 'field' and 'fields' must be set")
  | [a0, a1] => getSpansFor2Fields v a0 a1
  | a0 :: rest =>
    match v with
    | .asFound =>
      match rest with
      | [] => .error (.oob "fields[1]")
      | a1 :: _ => getSpansFor2Fields v a0 a1
    | .repaired => foldArraySpans (getSpansForField (fun x y => x != y) a0) rest

/-- `Session._apply_spans_src`: `if len(target) != spans[-1]: raise ValueError` before the kernel runs -/
def sessionApplySpansSrc (kernel : List Nat → List Int → Except Err (List Int)) (spans : List Nat) (target : List Int) :
    Except Err (List Int) :=
  match spans.getLast? with
  | none => .error (.oob "spans[-1]")
  | some l => if target.length != l then .error (.valueError "'target' length must equal spans[-1]") else kernel spans target

/-- `np.any(spans_[:-1] == spans_[1:])` -/
def hasEmptySpan : List Nat → Bool
  | a :: b :: rest => a == b || hasEmptySpan (b :: rest)
  | _ => false

/-- `FieldDataOps.apply_spans_*` on a non-indexed field -/
def fieldApplySpans (kernel : List Nat → List Int → Except Err (List Int)) (spans : List Nat) (src : List Int) :
    Except Err (List Int) :=
  if hasEmptySpan spans then .error (.valueError "cannot perform 'first' on spans with empty entries")
  else kernel spans src

/-- `FieldDataOps.apply_spans_*` on an indexed field: the row numbers handed to `apply_index_to_indexed_field` -/
def fieldApplySpansIndexed (kernel : List Nat → Except Err (List Int)) (spans : List Nat) : Except Err (List Int) :=
  if hasEmptySpan spans then .error (.valueError "cannot perform 'first' on spans with empty entries")
  else kernel spans

end Exetera.Spans
