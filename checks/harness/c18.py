"""C18 — CSV / pandas export writes exactly the selected rows and columns.
Correspondence: DataFrame.to_csv / DataFrame.to_pandas on real HDF5-backed (BytesIO) frames  vs  Exetera.Export.toCsv /
toPandas (Lean; the record writer is ExeTera's own `_csv_record` = Export.csvRecord with fixes/D30_NC18a, `csv.writer` =
Spec.Csv.renderRow in the as-found variant the driver reports next to it); dataframe._csv_record vs Export.csvRecord and
Python's csv.writer / csv.reader vs Spec.Csv.render / parse (exhaustively over short strings); the real importer on the
exported file vs Spec.Csv.parse .exetera.
Oracle for the property itself (check_spec): Python's csv.reader recovers header + [row i | i < n, filter i] from the file
(strings exactly, numeric literals by value), the re-imported columns equal the exported ones, the pandas columns equal
the filtered field data."""
import csv
import io
import itertools
import json
import os
import sys

PROPERTY = "C18"
LEVEL = "proof"
LEAN_MODULES = ["Exetera.Props.C18", "Exetera.Witness.C18"]
THEOREMS = []
EXHAUSTIVE = {"quick": True, "thorough": True}
CASE_TIMEOUT = 30
MODES = {"quick": ["jit"], "thorough": ["jit", "nojit"], "search": ["jit"]}
TECHNIQUE = ("Lean 4 theorems about the executable model of to_csv/to_pandas and about the CSV writer/reader specification "
             "(csv.writer is a specified parameter) + differential run of the real code, of Python's csv module and of the "
             "real importer against the compiled model")
LEVEL_TEXT = ("Proof for all frames, filters, column selections and every chunk_row_size >= 1: the model of to_csv writes "
              "writerow(header) followed by writerow of exactly the rows [i < n, filter i] in order, in exactly "
              "len(first column)//chunk_row_size + 1 loop iterations, with no out-of-range access (hence the file does not depend on "
              "chunk_row_size); with the record writer of fixes/D30_NC18a (the model of dataframe._csv_record) a standard reader and "
              "ExeTera's own reader dialect - every one of the four dialects - recover the header and every cell of every selected "
              "row exactly, whatever the cells hold, and the file equals the one csv.writer gives wherever no cell starts with a blank "
              "or holds a carriage return; for csv.writer itself (as found) the same holds when no cell holds a bare carriage return "
              "(standard reader) / up to unquoted leading blanks (ExeTera's reader); to_pandas (with fix NC18b) returns the selected columns restricted to exactly the rows to_csv "
              "writes, for every filter to_csv's validator accepts (boolean Field, boolean or integer array, of any length) and "
              "for a Python list; writing the rows of the pandas frame gives the file to_csv writes.")
LEVEL_NOTE = ("Trusted: Lean kernel; the hand-written model of dataframe.py:574-656 and the CSV writer/reader specification, tied by "
              "the differential run (real to_csv/to_pandas bytes and columns = model, csv.writer = Spec.Csv.render and csv.reader = "
              "Spec.Csv.parse exhaustively over short strings of {a,blank,comma,quote,LF,CR}, real importer = Spec.Csv.parse "
              ".exetera on the re-import cases); Python's str() of numbers (the decimal literal) is checked by value on every case "
              "but not modelled. Findings D30 (unquoted leading blanks are lost on re-import) and NC18a (a cell with a bare CR is "
              "written unquoted by csv.writer of Python < 3.13, so standard readers split the record) are repaired by "
              "fixes/D30_NC18a (to_csv formats its records itself and also quotes such cells); the driver reports the csv.writer "
              "variant next to the repaired one, so a tree without the fix is recognised (KNOWN-FINDING while the entries are "
              "open, VIOLATION once they are `fixed`). Fixed by the patches NC18c/d/e "
              "(locale encoding and newline translation, caller's column_filter mutated, same-named foreign filter field drops a "
              "column) and NC18b (to_pandas indexed the columns with the raw row_filter: a Field and a boolean filter of another "
              "length than the frame raised IndexError, an integer array was read as row numbers); the model carries to_pandas in "
              "both variants and the driver reports the as-found one next to the repaired one, so a tree without the fix is "
              "recognised (KNOWN-FINDING while the entry is open, VIOLATION once it is `fixed`).")
RULE = ("exhaustive: every (row count n <= N, chunk_row_size 1..n+2, row filter = none or every boolean vector of length 0..n+1) "
        "(quick N=5, thorough N=7), filter kind (ndarray / own field / memory field / other frame's field) and column selection "
        "(none / one / subset / reordered / duplicated / containing the filter column) rotating, cell contents rotating through a pool with "
        "separators, quotes, line feeds, carriage returns, blanks, multi-byte text and the extremes of every numeric dtype; every "
        "string of length <= L over {a,blank,comma,quote,LF,CR} through csv.writer/csv.reader vs the Lean writer/reader (quick L=6, "
        "thorough L=7); seeded random larger frames (n <= 60, chunk sizes around divisors of n and the default 1<<15) and a malformed stream "
        "(chunk_row_size <= 0, unknown/empty/tuple column filters, non-boolean filter fields, list filters, empty selections, "
        "columns of unequal length); to_pandas: every third exhaustive case and every fourth random case, the filter vector "
        "(every length 0..n+1) as Python list / bool ndarray / 0-1 integer ndarray or list of every dtype / memory Field / boolean "
        "column of the frame itself, random integer arrays with entries other than 0 and 1, malformed: str and non-boolean Field "
        "filters, unknown / empty selections, ragged columns, empty frame. Non-trivial = a successful export with at least 2 data rows and (a filter that drops a row or a "
        "chunk boundary inside the data, crs < n) / a to_pandas call with a filter / a render or parse batch; distinct = distinct case dict.")
ASSUMPTIONS = ["csv.reader is Spec.Csv.parse, dataframe._csv_record is Export.csvRecord and (as-found variant) "
               "csv.writer(delimiter=',', lineterminator='\\n') is Spec.Csv.renderRow (validated exhaustively over short strings on "
               "every run, not proved about CPython)",
               "Python str() of int/float/bool is a literal that float()/int() read back to the same value (checked on every case)",
               "h5py/HDF5 field storage returns what was written (C01); numpy boolean indexing; pandas.DataFrame(dict) keeps the arrays",
               "hand-written Lean model validated by this differential run, not verified against the Python text"]
TRUSTED = ["Lean 4.33 kernel", "axioms: propext, Classical.choice, Quot.sound only (audited per theorem)",
           "checks/harness/c18.py generators, oracle and comparison",
           "Lean model Exetera/Model/Export.lean mirrors dataframe.py to_csv/to_pandas by hand",
           "Exetera/Spec/CsvRender.lean stands for Python's csv module (the reader; the writer only in the as-found variant)"]
EXPLANATION = ""

INT_KINDS = ["int8", "uint8", "int16", "uint16", "int32", "uint32", "int64"]
FLOAT_KINDS = ["float32", "float64"]
NUM_POOL = {
    "int8": [0, 1, -1, 127, -128, 5], "uint8": [0, 255, 7, 128], "int16": [32767, -32768, 0, -3],
    "uint16": [65535, 0, 9], "int32": [2147483647, -2147483648, 0, 42], "uint32": [4294967295, 0, 11],
    "int64": [0, 9223372036854775807, -9223372036854775808, 9007199254740993, -17],
    "float32": ["0.1", "-0.0", "3.4028234663852886e+38", "1e-45", "nan", "inf", "-inf", "1.5", "16777217"],
    "float64": ["0.1", "1.7976931348623157e+308", "5e-324", "1e+22", "nan", "-inf", "123456789.125", "-0.0"],
    "bool": [True, False, True, True, False],
    "categorical": [0, 1, 1, 0], "timestamp": ["0.0", "1500000000.5", "-1.25"],
}
STR_POOL = ["a", "", "bc", "p,q", "\"", "r\"s", "l1\nl2", "é", "日本語", "y ", "it's", ",", "\"\"", "t\tu", "x y", "\n",
            " x", "  ", "cr\rx", " ,", "\r", "m ,\"\n\r", "\"q\"", "a,b\"c\"\n", "0", "-1.5"]
PLAIN_POOL = ["a", "", "bc", "p,q", "\"", "r\"s", "l1\nl2", "é", "日本語", "y ", "it's", ",", "\"\"", "t\tu", "x y", "\n"]
NAME_POOL = ["s", "n", "val1", "x y", "a,b", "q\"r", "é", " lead", "m\nl"]
SAFE_NAMES = ["s", "n", "v1", "w2", "k", "zz", "b", "c3"]
ALPHA = ["a", " ", ",", "\"", "\n", "\r"]


# ---------------------------------------------------------------------------------------------------------------
# helpers shared by generators, oracle and to_model (no exetera import)
# ---------------------------------------------------------------------------------------------------------------

def cell_text(kind, v):
    """the text to_csv hands to csv.writer for a value of a field of this kind: str(x.tolist())"""
    import numpy as np
    if kind == "str":
        return v
    if kind == "bool":
        return str(bool(v))
    if kind in INT_KINDS or kind == "categorical":
        return str(int(v))
    if kind == "float32":
        return str(float(np.float32(float(v))))
    return str(float(v))


def col_texts(col):
    return [cell_text(col["kind"], v) for v in col["data"]]


def keep(flt, i):
    return flt is None or (i < len(flt) and bool(flt[i]))


def filter_data(case):
    """(valid, bool list or None) of a to_csv row filter"""
    rf = case["rf"]
    k = rf["kind"]
    if k == "none":
        return True, None
    if k == "array":
        return True, list(rf["data"])
    if k == "int_array":
        return True, [x == 1 for x in rf["data"]]           # `filter_array[j] == True` on an integer entry
    if k == "field":
        if rf["src"] == "own":
            col = next((c for c in case["cols"] if c["name"] == rf["name"]), None)
            if col is None or col["kind"] != "bool":
                return False, None
            return True, [bool(x) for x in col["data"]]
        return True, list(rf["data"])
    return False, None


INT_DTYPES = ["int8", "uint8", "int32", "int64"]


def pd_filter_data(case):
    """(valid, bool list or None) of a to_pandas row filter under the semantics of to_csv: what validate_boolean_row_filter
    accepts (a Python list goes through np.asarray first), every entry read as `entry == True`"""
    rf = case["rf"]
    k = rf["kind"]
    if k == "none":
        return True, None
    if k in ("list", "array"):
        return True, [bool(x) for x in rf["data"]]
    if k in ("int_array", "int_list"):
        return True, [x == 1 for x in rf["data"]]
    if k == "field":
        if rf.get("src", "mem") == "own":
            col = next((c for c in case["cols"] if c["name"] == rf["name"]), None)
            if col is None or col["kind"] != "bool":
                return False, None
            return True, [bool(x) for x in col["data"]]
        return True, [bool(x) for x in rf["data"]]
    return False, None


def pd_filter_as_found(case, n):
    """what `field_arr[row_filter]` with the raw argument does to a column of n rows (the tree without fix NC18b):
    ("err", tag) or ("rows", [row numbers])"""
    rf = case["rf"]
    k = rf["kind"]
    if k == "none":
        return "rows", list(range(n))
    if k in ("field", "str"):
        return "err", "index_error"
    if k in ("list", "array"):
        d = rf["data"]
        if len(d) == 0:
            return "rows", []
        if len(d) != n:
            return "err", "index_error"
        return "rows", [i for i in range(n) if d[i]]
    d = rf["data"]
    if any(x < -n or x >= n for x in d):
        return "err", "index_error"
    return "rows", [x % n for x in d]


def selected_names(case, for_csv=True):
    """(valid, names) after column_filter validation (and, for to_csv, removal of the own filter column)"""
    keys = [c["name"] for c in case["cols"]]
    cf = case["cf"]
    k = cf["kind"]
    if k == "none":
        names = list(keys)
    elif k == "one":
        if cf["names"][0] not in keys:
            return False, None
        names = [cf["names"][0]]
    elif k == "many":
        if len(cf["names"]) == 0 or any(n not in keys for n in cf["names"]):
            return False, None
        names = list(cf["names"])
    else:
        return False, None
    if for_csv:
        rf = case["rf"]
        if rf["kind"] == "field" and rf["src"] == "own" and rf["name"] in names:
            names.remove(rf["name"])
    return True, names


def expected_csv(case):
    """None when the property demands nothing (invalid arguments, empty selection, ragged columns), else
    (names, kinds, rows of python values)"""
    if case["crs"] <= 0:
        return None
    okc, names = selected_names(case)
    okf, flt = filter_data(case)
    if not okc or not okf or not names:
        return None
    cols = [next(c for c in case["cols"] if c["name"] == n) for n in names]
    lens = {len(c["data"]) for c in cols}
    if len(lens) != 1:
        return None
    n = lens.pop()
    rows = [[c["data"][i] for c in cols] for i in range(n) if keep(flt, i)]
    return names, [c["kind"] for c in cols], rows


def value_matches(kind, lit, v):
    import numpy as np
    try:
        if kind == "str":
            return lit == v
        if kind == "bool":
            return lit in ("True", "False") and (lit == "True") == bool(v)
        if kind in INT_KINDS or kind == "categorical":
            return int(lit) == int(v) and lit.strip() == lit
        dt = np.float32 if kind == "float32" else np.float64
        a, b = dt(float(lit)), dt(float(v))
        if np.isnan(a) or np.isnan(b):
            return bool(np.isnan(a) and np.isnan(b))
        return bool(a == b) and bool(np.signbit(a) == np.signbit(b))
    except Exception:
        return False


def std_parse(text):
    return [list(r) for r in csv.reader(io.StringIO(text, newline=""))]


def py_render(rows):
    buf = io.StringIO(newline="")
    w = csv.writer(buf, delimiter=",", lineterminator="\n")
    for r in rows:
        w.writerow(r)
    return buf.getvalue()


def needs_quote(s):
    return any(ch in s for ch in ",\"\n")


# ---------------------------------------------------------------------------------------------------------------
# generators
# ---------------------------------------------------------------------------------------------------------------

LAYOUTS = [
    ["str", "int32"], ["int64", "str", "bool"], ["str"], ["float32", "str", "uint8"], ["str", "str", "float64"],
    ["int8", "int16", "uint16", "uint32"], ["bool", "str", "categorical"], ["timestamp", "str"], ["str", "int64", "float32", "bool"],
]


def make_cols(layout, n, k, names=None, pool=None):
    pool = pool or STR_POOL
    cols = []
    for ci, kind in enumerate(layout):
        name = (names or SAFE_NAMES)[ci]
        if kind == "str":
            data = [pool[(k * 7 + ci * 3 + i * (1 + k % 5)) % len(pool)] for i in range(n)]
        else:
            p = NUM_POOL[kind]
            data = [p[(k + ci + i) % len(p)] for i in range(n)]
        cols.append({"name": name, "kind": kind, "data": data})
    return cols


def reimportable(case, rows_written):
    okc, names = selected_names(case)
    if not okc or not names:
        return False
    for nme in names:
        c = next(c for c in case["cols"] if c["name"] == nme)
        if c["kind"] not in ("str", "bool", "float32", "float64", "int8", "uint8", "int16", "uint16", "int32", "uint32"):
            return False
        if nme not in SAFE_NAMES:
            return False
    if len(set(names)) != len(names):
        return False
    kinds = {next(c for c in case["cols"] if c["name"] == nme)["kind"] for nme in names}
    if rows_written == 0 and kinds != {"str"}:
        return False            # D27 (C06): zero rows with a numeric column raises in the importer
    return True


def add_filter_variants(base, n, fvec, k):
    """attach the row filter `fvec` (None or bool list) to the case in the kind chosen by k"""
    case = dict(base)
    if fvec is None:
        case["rf"] = {"kind": "none"}
        return case
    kind = k % 4
    if kind == 0:
        case["rf"] = {"kind": "array", "data": fvec}
    elif kind == 1:
        # own field: a bool column of the frame holding the filter (may be shorter / longer than the other columns)
        cols = [dict(c) for c in case["cols"]]
        cols.insert(k % (len(cols) + 1), {"name": "flt", "kind": "bool", "data": fvec})
        case["cols"] = cols
        case["rf"] = {"kind": "field", "src": "own", "name": "flt"}
    elif kind == 2:
        case["rf"] = {"kind": "field", "src": "mem", "data": fvec}
    else:
        # a field of another dataframe carrying the name of one of this frame's columns
        case["rf"] = {"kind": "field", "src": "other", "name": case["cols"][k % len(case["cols"])]["name"], "data": fvec}
    return case


def add_pd_filter(case, fvec, k):
    """attach the row filter `fvec` (None or bool list, of any length) to a to_pandas case in the shape chosen by k: Python list,
    bool ndarray, integer ndarray / list (0/1), memory Field, a boolean column of the frame itself (`df.to_pandas(row_filter=df['flt'])`)"""
    if fvec is None:
        case["rf"] = {"kind": "none"}
        return case
    shape = k % 7
    if shape in (0, 5):
        case["rf"] = {"kind": "list", "data": fvec}
    elif shape in (1, 6):
        case["rf"] = {"kind": "array", "data": fvec}
    elif shape == 2:
        case["rf"] = {"kind": "field", "src": "mem", "data": fvec}
    elif shape == 3:
        cols = [dict(c) for c in case["cols"]]
        cols.insert((k // 7) % (len(cols) + 1), {"name": "flt", "kind": "bool", "data": fvec})
        case["cols"] = cols
        case["rf"] = {"kind": "field", "src": "own", "name": "flt"}
    else:
        ints = (k // 7) % 3 != 0
        case["rf"] = {"kind": "int_array" if ints else "int_list", "dtype": INT_DTYPES[(k // 7) % len(INT_DTYPES)] if ints else None,
                      "data": [1 if b else 0 for b in fvec]}
    return case


def add_colfilter(case, k):
    keys = [c["name"] for c in case["cols"]]
    data_keys = [x for x in keys if x != "flt"] or keys
    v = k % 8
    if v in (0, 1):
        case["cf"] = {"kind": "none"}
    elif v == 2:
        case["cf"] = {"kind": "one", "names": [data_keys[k % len(data_keys)]]}
    elif v == 3:
        case["cf"] = {"kind": "many", "names": list(reversed(data_keys))}
    elif v == 4:
        case["cf"] = {"kind": "many", "names": data_keys[: 1 + k % len(data_keys)]}
    elif v == 5:
        case["cf"] = {"kind": "many", "names": data_keys + [data_keys[0]]}
    elif v == 6:
        case["cf"] = {"kind": "many", "names": keys}                                   # contains the filter column, if any
    else:
        case["cf"] = {"kind": "many", "names": (["flt"] if "flt" in keys else []) + data_keys[-1:] + (["flt"] if "flt" in keys else [])}
    return case


def count_written(case):
    e = expected_csv(case)
    return None if e is None else len(e[2])


def finish_case(case, k, reimport_every):
    w = count_written(case)
    case["reimport"] = bool(w is not None and k % reimport_every == 0 and reimportable(case, w))
    case["_n"] = k
    return case


def all_strings(maxlen):
    out = [""]
    for ln in range(1, maxlen + 1):
        out.extend("".join(t) for t in itertools.product(ALPHA, repeat=ln))
    return out


def gen_cases(tier, rng):
    from checks import corpus
    cases = list(corpus.load("C18"))
    quick = tier == "quick"
    N = 5 if quick else 7
    k = 0
    # ---- exhaustive: n x crs x filter vector, everything else rotating -----------------------------------------
    for n in range(N + 1):
        vecs = [None]
        for m in range(n + 2):
            vecs.extend([list(t) for t in itertools.product([True, False], repeat=m)])
        for crs in range(1, n + 3):
            for fvec in vecs:
                k += 1
                layout = LAYOUTS[k % len(LAYOUTS)]
                pool = STR_POOL if k % 3 else PLAIN_POOL
                base = {"op": "c18_to_csv", "cols": make_cols(layout, n, k, pool=pool), "crs": crs}
                case = add_colfilter(add_filter_variants(base, n, fvec, k // 3), k // 5)
                cases.append(finish_case(case, k, 4 if quick else 3))
                if k % 3 == 0:
                    # to_pandas under the filters of to_csv: fvec has every length 0..n+1 (shorter, equal, longer than the frame)
                    pc = {"op": "c18_to_pandas", "cols": make_cols(layout, n, k, pool=PLAIN_POOL), "_n": k}
                    add_pd_filter(pc, fvec, k // 3)
                    add_colfilter(pc, k // 7)
                    cases.append(pc)
    # special header names
    for i in range(len(NAME_POOL)):
        k += 1
        names = [NAME_POOL[(i + j) % len(NAME_POOL)] for j in range(3)]
        cases.append(finish_case({"op": "c18_to_csv", "cols": make_cols(["str", "int32", "str"], 3, k, names=names), "crs": 2,
                                  "rf": {"kind": "none"}, "cf": {"kind": "none"}}, k, 10 ** 9))
    # ---- csv.writer / csv.reader vs the Lean writer / reader, exhaustive over short strings ---------------------
    L = 6 if quick else 7
    strs = all_strings(L)
    B = 400
    for i in range(0, len(strs), B):
        cases.append({"op": "c18_parse", "texts": strs[i:i + B], "_n": i})
    short = all_strings(3 if quick else 4)
    rows = [[s] for s in short] + [[a, b] for a in all_strings(2) for b in all_strings(2)] + [[s, "", t] for s in all_strings(1) for t in all_strings(2)]
    rows += [[], [""], ["", ""], ["", "", ""]]
    for i in range(0, len(rows), B):
        cases.append({"op": "c18_render", "rows": rows[i:i + B], "_n": i})
    # ---- ExeTera's own record writer (fixes/D30_NC18a: dataframe._csv_record) vs Export.csvRecord, and both readers on its output
    for i in range(0, len(rows), B):
        cases.append({"op": "c18_record", "rows": rows[i:i + B], "_n": i})
    # ---- seeded random ------------------------------------------------------------------------------------------
    R = 1500 if quick else 25000
    for _ in range(R):
        k += 1
        n = rng.choice([0, 1, 2, 3, 5, 8, 12, 16, 24, 33, 60]) if rng.random() < 0.7 else rng.randrange(0, 61)
        layout = [rng.choice(["str", "str", "str"] + INT_KINDS + FLOAT_KINDS + ["bool", "categorical", "timestamp"])
                  for _ in range(rng.randrange(1, 6))]
        pool = STR_POOL if rng.random() < 0.35 else PLAIN_POOL
        cols = make_cols(layout, n, rng.randrange(10 ** 6), pool=pool)
        for c in cols:
            if c["kind"] == "str":
                c["data"] = [rng.choice(pool) if rng.random() < 0.8 else "".join(rng.choice(ALPHA + ["b", "é"]) for _ in range(rng.randrange(0, 7)))
                             for _ in range(n)]
                if pool is PLAIN_POOL:
                    c["data"] = [s.replace("\r", "").lstrip(" ") for s in c["data"]]
        divs = [d for d in range(1, n + 1) if n % d == 0] or [1]
        crs = rng.choice([rng.choice(divs), rng.choice(divs) + 1, max(1, rng.choice(divs) - 1), n + 1, max(1, n), 1, 1 << 15,
                          rng.randrange(1, n + 3)])
        r = rng.random()
        if r < 0.25:
            fvec = None
        else:
            m = rng.choice([n, n, n, max(0, n - 1), n + 1, rng.randrange(0, n + 3), 0])
            p = rng.choice([0.0, 0.2, 0.5, 0.8, 1.0])
            fvec = [rng.random() < p for _ in range(m)]
        base = {"op": "c18_to_csv", "cols": cols, "crs": crs}
        case = add_colfilter(add_filter_variants(base, n, fvec, rng.randrange(1000)), rng.randrange(1000))
        if case["rf"]["kind"] == "array" and rng.random() < 0.25:
            dt = rng.choice(INT_DTYPES)
            case["rf"] = {"kind": "int_array", "dtype": dt,
                          "data": [(1 if b else rng.choice([0, 0, 2, 3] + ([] if dt == "uint8" else [-1]))) for b in fvec]}
        # malformed stream
        m = rng.random()
        if m < 0.02:
            case["crs"] = rng.choice([0, -1, -5])
        elif m < 0.04:
            case["cf"] = rng.choice([{"kind": "many", "names": []}, {"kind": "many", "names": ["nope"]}, {"kind": "one", "names": ["nope"]},
                                     {"kind": "tuple", "names": [case["cols"][0]["name"]]}])
        elif m < 0.06:
            # a non-boolean numeric field is rejected with ValueError (fields without `_nformat` - indexed string, timestamp -
            # die with AttributeError inside the validator instead; not generated, noted in the report)
            numeric = [c["name"] for c in case["cols"] if c["kind"] in INT_KINDS + FLOAT_KINDS]
            case["rf"] = {"kind": "field", "src": "own", "name": numeric[0]} if numeric and rng.random() < 0.6 else \
                {"kind": "list", "data": [True, False]}
        elif m < 0.08:
            case["cols"] = [{"name": "flt", "kind": "bool", "data": [True] * n}]
            case["rf"] = {"kind": "field", "src": "own", "name": "flt"}
            case["cf"] = {"kind": "none"}
        elif m < 0.11 and n > 1:
            j = rng.randrange(len(case["cols"]))
            case["cols"][j]["data"] = case["cols"][j]["data"][: rng.randrange(0, n)]
        cases.append(finish_case(case, k, 5 if quick else 4))
        if _ % 4 == 0:
            pc = {"op": "c18_to_pandas", "cols": [dict(c) for c in cols], "_n": k}
            add_pd_filter(pc, fvec, rng.randrange(1000))
            if fvec is not None and rng.random() < 0.12:
                # integer arrays / lists with entries other than 0 and 1 (only `== True`, i.e. 1, selects), negative and large ones
                kind = rng.choice(["int_array", "int_array", "int_list"])
                pc["rf"] = {"kind": kind, "dtype": rng.choice(INT_DTYPES) if kind == "int_array" else None,
                            "data": [rng.choice([0, 1, 1, 1, 2, -1, 3, 100]) for _i in fvec]}
                if pc["rf"]["dtype"] == "uint8":
                    pc["rf"]["data"] = [abs(x) for x in pc["rf"]["data"]]
            add_colfilter(pc, rng.randrange(1000))
            if rng.random() < 0.04:
                # malformed: a str, a non-boolean field of the frame
                numeric = [c["name"] for c in pc["cols"] if c["kind"] in INT_KINDS + FLOAT_KINDS]
                pc["rf"] = {"kind": "field", "src": "own", "name": numeric[0]} if numeric and rng.random() < 0.6 else {"kind": "str"}
            if rng.random() < 0.05:
                pc["cf"] = rng.choice([{"kind": "many", "names": []}, {"kind": "many", "names": ["nope"]}, {"kind": "one", "names": ["nope"]}])
            if rng.random() < 0.05 and n > 1:
                pc["cols"][-1]["data"] = pc["cols"][-1]["data"][:n - 1]
            if rng.random() < 0.03:
                pc["cols"] = []
                if pc["rf"].get("src") == "own":
                    pc["rf"] = {"kind": "field", "src": "mem", "data": fvec or []}
            cases.append(pc)
    return cases


# ---------------------------------------------------------------------------------------------------------------
# the model's view of a case
# ---------------------------------------------------------------------------------------------------------------

def to_model(case):
    op = case["op"]
    if op in ("c18_render", "c18_parse", "c18_record"):
        return {k: v for k, v in case.items() if not k.startswith("_")}
    cols = [{"name": c["name"], "data": col_texts(c)} for c in case["cols"]]
    cf = case["cf"]
    mcf = {"kind": cf["kind"] if cf["kind"] in ("none", "one", "many") else "invalid", "names": cf.get("names", [])}
    rf = case["rf"]
    if op in ("c18_to_csv", "c18_to_csv_env"):
        if rf["kind"] in ("none", "array"):
            mrf = dict(rf)
        elif rf["kind"] == "int_array":
            mrf = {"kind": "int_array", "data": [int(x) for x in rf["data"]]}
        elif rf["kind"] == "field":
            if rf["src"] == "own":
                col = next(c for c in case["cols"] if c["name"] == rf["name"])
                isb = col["kind"] == "bool"
                mrf = {"kind": "field", "name": rf["name"], "own": True, "is_bool": isb,
                       "data": [bool(x) for x in col["data"]] if isb else []}
            elif rf["src"] == "other":
                mrf = {"kind": "field", "name": rf["name"], "own": False, "is_bool": True, "data": rf["data"]}
            else:
                mrf = {"kind": "field", "name": None, "own": False, "is_bool": True, "data": rf["data"]}
        else:
            mrf = {"kind": "invalid"}
        return {"op": "c18_to_csv", "cols": cols, "rf": mrf, "cf": mcf, "crs": case["crs"]}
    k = rf["kind"]
    if k in ("none", "list", "array"):
        mrf = {"kind": k, "data": [bool(x) for x in rf.get("data", [])]}
    elif k in ("int_array", "int_list"):
        mrf = {"kind": "int_array", "data": [int(x) for x in rf["data"]]}
    elif k == "field":
        if rf.get("src", "mem") == "own":
            col = next(c for c in case["cols"] if c["name"] == rf["name"])
            isb = col["kind"] == "bool"
            mrf = {"kind": "field", "is_bool": isb, "data": [bool(x) for x in col["data"]] if isb else []}
        else:
            mrf = {"kind": "field", "is_bool": True, "data": [bool(x) for x in rf["data"]]}
    else:
        mrf = {"kind": "invalid"}
    return {"op": "c18_to_pandas", "cols": cols, "rf": mrf, "cf": mcf}


# ---------------------------------------------------------------------------------------------------------------
# the real code
# ---------------------------------------------------------------------------------------------------------------
_S = {}


def _env():
    if _S.get("uses", 0) > 250:
        try:
            _S["s"].close()
        except Exception:
            pass
        _S.clear()
    if not _S:
        import numpy as np
        from exetera.core import fields
        from exetera.core.session import Session
        s = Session()
        ds = s.open_dataset(io.BytesIO(), "w", "ds")
        _S.update(np=np, fields=fields, s=s, ds=ds, k=0, uses=0)
    _S["uses"] += 1
    return _S


def np_array(np, kind, data):
    if kind in FLOAT_KINDS or kind == "timestamp":
        return np.array([float(x) for x in data], dtype="float64" if kind == "timestamp" else kind)
    if kind == "categorical":
        return np.array(data, dtype="int8")
    return np.array(data, dtype=kind)


def build_frame(e, cols):
    np = e["np"]
    e["k"] += 1
    df = e["ds"].create_dataframe(f"df{e['k']}")
    for c in cols:
        kind = c["kind"]
        if kind == "str":
            df.create_indexed_string(c["name"]).data.write(list(c["data"]))
        elif kind == "categorical":
            df.create_categorical(c["name"], "int8", {"a": 0, "b": 1}).data.write(np_array(np, kind, c["data"]))
        elif kind == "timestamp":
            df.create_timestamp(c["name"]).data.write(np_array(np, kind, c["data"]))
        else:
            df.create_numeric(c["name"], kind).data.write(np_array(np, kind, c["data"]))
    return df


def impl(case):
    op = case["op"]
    if op == "c18_render":
        return {"text": py_render(case["rows"])}
    if op == "c18_record":
        import warnings
        warnings.simplefilter("ignore")
        from exetera.core import dataframe as _dfm
        rec = getattr(_dfm, "_csv_record", None)
        if rec is None:
            return {"skip": "this tree writes its records with csv.writer (no dataframe._csv_record)"}
        return {"text": "".join(rec(r) for r in case["rows"])}
    if op == "c18_parse":
        out = []
        for t in case["texts"]:
            out.append({"std": std_parse(t),
                        "skip": [list(r) for r in csv.reader(io.StringIO(t, newline=""), skipinitialspace=True)]})
        return {"rows": out}
    if op == "c18_to_csv_env":
        import subprocess
        env = dict(os.environ)
        env.update(case["env"])
        c2 = dict(case)
        c2["op"] = "c18_to_csv"
        p = subprocess.run([sys.executable, os.path.abspath(__file__)], input=json.dumps(c2), stdout=subprocess.PIPE,
                           stderr=subprocess.DEVNULL, text=True, env=env, timeout=120)
        return json.loads(p.stdout.strip().split("\n")[-1])
    import warnings
    warnings.simplefilter("ignore")
    e = _env()
    np, fields, s = e["np"], e["fields"], e["s"]
    df = build_frame(e, case["cols"])
    try:
        rf, cf = case["rf"], case["cf"]
        if op == "c18_to_csv":
            return run_to_csv(e, df, case)
        # ---- to_pandas
        if rf["kind"] == "none":
            row_filter = None
        elif rf["kind"] == "list":
            row_filter = [bool(x) for x in rf["data"]]
        elif rf["kind"] == "array":
            row_filter = np.array(rf["data"], dtype=bool)
        elif rf["kind"] == "int_array":
            row_filter = np.array(rf["data"], dtype=rf["dtype"])
        elif rf["kind"] == "int_list":
            row_filter = [int(x) for x in rf["data"]]
        elif rf["kind"] == "str":
            row_filter = "flt"
        elif rf.get("src", "mem") == "own":
            row_filter = df[rf["name"]]
        else:
            row_filter = fields.NumericMemField(s, "bool")
            row_filter.data.write(np.array(rf["data"], dtype=bool))
        col_filter = None if cf["kind"] == "none" else (cf["names"][0] if cf["kind"] == "one" else list(cf["names"]))
        pdf = df.to_pandas(row_filter=row_filter, col_filter=col_filter)
        names = [str(c) for c in pdf.columns]
        kinds = {c["name"]: c["kind"] for c in case["cols"]}
        cols, dtypes = [], []
        for nme in pdf.columns:
            ser = pdf[nme]
            cols.append([cell_text(kinds[nme], v) for v in ser.tolist()])
            dtypes.append(str(ser.dtype))
        return {"names": names, "cols": cols, "dtypes": dtypes}
    finally:
        try:
            e["ds"].delete_dataframe(df)
        except Exception:
            pass


def run_to_csv(e, df, case):
    np, fields, s = e["np"], e["fields"], e["s"]
    rf, cf = case["rf"], case["cf"]
    other = None
    if rf["kind"] == "none":
        row_filter = None
    elif rf["kind"] == "array":
        row_filter = np.array(rf["data"], dtype=bool)
    elif rf["kind"] == "int_array":
        row_filter = np.array(rf["data"], dtype=rf["dtype"])
    elif rf["kind"] == "list":
        row_filter = [bool(x) for x in rf["data"]]
    elif rf["src"] == "own":
        row_filter = df[rf["name"]]
    elif rf["src"] == "mem":
        row_filter = fields.NumericMemField(s, "bool")
        row_filter.data.write(np.array(rf["data"], dtype=bool))
    else:
        e["k"] += 1
        other = e["ds"].create_dataframe(f"other{e['k']}")
        row_filter = other.create_numeric(rf["name"], "bool")
        row_filter.data.write(np.array(rf["data"], dtype=bool))
    if cf["kind"] == "none":
        col_filter = None
    elif cf["kind"] == "one":
        col_filter = cf["names"][0]
    elif cf["kind"] == "many":
        col_filter = list(cf["names"])
    else:
        col_filter = tuple(cf["names"])
    before = list(col_filter) if isinstance(col_filter, list) else None
    path = f"/tmp/c18_{os.getpid()}.csv"
    try:
        df.to_csv(path, row_filter=row_filter, column_filter=col_filter, chunk_row_size=case["crs"])
        raw = open(path, "rb").read()
        try:
            text = raw.decode("utf-8")
        except UnicodeDecodeError:
            text = "latin1:" + raw.decode("latin-1")
        out = {"text": text, "cf_same": before is None or before == col_filter}
        if case.get("reimport"):
            try:
                out["reimport"] = reimport(e, case, path)
            except Exception as ex:  # noqa
                if type(ex).__name__ == "CaseTimeout":
                    raise
                out["reimport"] = {"err": type(ex).__name__ + ": " + str(ex)[:120]}
        return out
    finally:
        if other is not None:
            try:
                e["ds"].delete_dataframe(other)
            except Exception:
                pass
        try:
            os.unlink(path)
        except OSError:
            pass


def reimport(e, case, path):
    """import the exported file with the matching schema through ExeTera's own importer; columns as cell texts"""
    from datetime import datetime, timezone
    from exetera.io import importer
    _, names = selected_names(case)
    kinds = {c["name"]: c["kind"] for c in case["cols"]}
    sch = {}
    for nme in names:
        sch[nme] = {"field_type": "string"} if kinds[nme] == "str" else {"field_type": "numeric", "value_type": kinds[nme]}
    schema = io.StringIO(json.dumps({"exetera": {"version": "1.0.0"},
                                     "schema": {"t": {"primary_keys": [names[0]], "fields": sch}}}))
    e["k"] += 1
    alias = f"imp{e['k']}"
    importer.import_with_schema(e["s"], io.BytesIO(), alias, schema, {"t": path}, False, {}, {},
                                str(datetime.now(timezone.utc)), chunk_row_size=1 << 14)
    # chunk_row_size 1<<14: the importer reads the file in blocks of 2*chunk_row_size*ncols bytes; one block holds every file
    # generated here. (Across blocks its blank skipping is not applied to a cell that starts a block - the reader's chunk
    # dependence belongs to C05 - so D30 is stated for the whole-file reader.)
    try:
        d2 = e["s"].get_dataset(alias)["t"]
        cols = []
        for nme in names:
            got = d2[nme].data[:]
            cols.append(list(got) if kinds[nme] == "str" else [cell_text(kinds[nme], v) for v in got.tolist()])
        return {"names": names, "cols": cols}
    finally:
        try:
            e["s"].close_dataset(alias)
        except Exception:
            pass


# ---------------------------------------------------------------------------------------------------------------
# the property's own oracle
# ---------------------------------------------------------------------------------------------------------------

def expected_pandas(case):
    keys = [c["name"] for c in case["cols"]]
    okc, names = selected_names(case, for_csv=False)
    if not okc or not names:
        return None
    cols = [next(c for c in case["cols"] if c["name"] == n) for n in names]
    lens = {len(c["data"]) for c in cols}
    if len(lens) != 1:
        return None
    n = lens.pop()
    okf, flt = pd_filter_data(case)          # "under the same filters": the filters of to_csv, with the meaning they have there
    if not okf:
        return None
    return pandas_cols(case, [i for i in range(n) if keep(flt, i)]) + (n,)


def pandas_cols(case, rows):
    """(names, kinds, columns as cell texts) of the selected columns restricted to the row numbers `rows`"""
    _, names = selected_names(case, for_csv=False)
    cols = [next(c for c in case["cols"] if c["name"] == n) for n in names]
    seen, onames, ocols, okinds = set(), [], [], []
    for c in cols:
        if c["name"] in seen:
            continue
        seen.add(c["name"])
        onames.append(c["name"])
        okinds.append(c["kind"])
        ocols.append([cell_text(c["kind"], c["data"][i]) for i in rows])
    return onames, okinds, ocols


def expected_reimport(case):
    names, kinds, rows = expected_csv(case)
    return [[cell_text(kinds[j], r[j]) for r in rows] for j in range(len(names))]


def check_spec(case, io_, mode):
    op = case["op"]
    if op == "c18_render":
        if "err" in io_:
            return f"csv.writer raised {io_['err']}"
        got = std_parse(io_["text"]) if not any("\r" in c for r in case["rows"] for c in r) else None
        want = [list(r) for r in case["rows"]]
        return None if got is None or got == want else "csv.reader does not recover what csv.writer wrote"
    if op == "c18_parse":
        return None
    if op == "c18_record":
        if "skip" in io_:
            return None
        if "err" in io_:
            return f"_csv_record raised {io_['err']}"
        want = [list(r) for r in case["rows"]]
        if std_parse(io_["text"]) != want:
            return "csv.reader does not recover what _csv_record wrote"
        if [list(r) for r in csv.reader(io.StringIO(io_["text"], newline=""), skipinitialspace=True)] != want:
            return "a reader that skips initial blanks does not recover what _csv_record wrote"
        return None
    if op in ("c18_to_csv", "c18_to_csv_env"):
        exp = expected_csv(case)
        if exp is None:
            return None
        if "err" in io_:
            return f"to_csv raised {io_['err']}: {io_.get('msg', '')}"
        names, kinds, rows = exp
        text = io_["text"]
        if text.startswith("latin1:"):
            return "the file is not UTF-8"
        got = std_parse(text)
        if not got or got[0] != names:
            return f"header: a standard parser reads {got[:1]} want {names}"
        body = got[1:]
        if len(body) != len(rows):
            return f"a standard parser reads {len(body)} data records, want {len(rows)} (n={len(rows)} selected rows)"
        for i, (g, w) in enumerate(zip(body, rows)):
            if len(g) != len(w) or not all(value_matches(kinds[j], g[j], w[j]) for j in range(len(w))):
                return f"record {i}: a standard parser reads {g} want {[cell_text(kinds[j], w[j]) for j in range(len(w))]}"
        if not io_.get("cf_same", True):
            return "to_csv modified the caller's column_filter list"
        if "reimport" in io_:
            ri = io_["reimport"]
            if "err" in ri:
                return f"re-import of the exported file raised {ri['err']}"
            want = expected_reimport(case)
            if ri["cols"] != want:
                return f"re-import differs: got {ri['cols']} want {want}"
        return None
    # to_pandas
    exp = expected_pandas(case)
    if exp is None:
        return None
    if "err" in io_:
        return f"to_pandas raised {io_['err']}: {io_.get('msg', '')}"
    onames, okinds, ocols, n = exp
    if io_["names"] != onames:
        return f"pandas columns {io_['names']} want {onames}"
    if io_["cols"] != ocols:
        return f"pandas data {io_['cols']} want {ocols}"
    for kd, dt in zip(okinds, io_["dtypes"]):
        wantdt = {"categorical": "int8", "timestamp": "float64"}.get(kd, kd)
        if kd != "str" and dt != wantdt:
            return f"pandas dtype {dt} want {wantdt}"
    return None


def match_finding(case, io_, mode):
    op = case["op"]
    if op == "c18_to_pandas":
        # NC18b exactly: a filter to_csv accepts that raw indexing treats differently - a Field, a boolean filter of another length
        # than the frame, an integer array (read as row numbers) - and the outcome is that of `field_arr[row_filter]`
        exp = expected_pandas(case)
        rf = case["rf"]
        if exp is None:
            return None
        n = exp[3]
        if not (rf["kind"] == "field" or rf["kind"] in ("int_array", "int_list") or
                (rf["kind"] in ("list", "array") and len(rf["data"]) != n and len(rf["data"]) > 0)):
            return None
        what, val = pd_filter_as_found(case, n)
        if what == "err":
            return "NC18b" if io_.get("err") == val else None
        if "err" in io_:
            return None
        return "NC18b" if io_["names"] == exp[0] and io_["cols"] == pandas_cols(case, val)[2] else None
    if op not in ("c18_to_csv", "c18_to_csv_env") or "err" in io_:
        return None
    exp = expected_csv(case)
    if exp is None:
        return None
    names, kinds, rows = exp
    texts = [names] + [[cell_text(kinds[j], r[j]) for j in range(len(r))] for r in rows]
    if std_parse(io_["text"]) != texts or not io_.get("cf_same", True):
        # NC18a exactly: the file is what csv.writer makes of the right rows, and some cell holds a CR and nothing that forces quotes
        cr = any("\r" in c and not needs_quote(c) for r in texts for c in r)
        if cr and io_["text"] == py_render(texts) and io_.get("cf_same", True):
            return "NC18a"
        return None
    ri = io_.get("reimport")
    if ri and "err" not in ri and ri["cols"] != expected_reimport(case):
        # D30 exactly: every differing cell is a string cell with leading blanks and nothing that forces quotes, read back without
        # (some of) them - the importer skips the blanks unless the cell happens to start one of its read blocks
        want = expected_reimport(case)
        if len(ri["cols"]) != len(want) or any(len(a) != len(b) for a, b in zip(ri["cols"], want)):
            return None
        for a, b in zip(ri["cols"], want):
            for x, y in zip(a, b):
                if x != y and not (y.startswith(" ") and not needs_quote(y) and x == y.lstrip(" ")):
                    return None
        return "D30"
    return None


# ---------------------------------------------------------------------------------------------------------------
# model vs implementation
# ---------------------------------------------------------------------------------------------------------------

def compare(case, io_, mo, mode):
    op = case["op"]
    if "bad" in mo:
        return f"driver rejected the case: {mo['bad']}"
    if op == "c18_parse":
        for t, a, b in zip(case["texts"], io_["rows"], mo["ok"]["rows"]):
            if a["std"] != b["std"]:
                return f"csv.reader({t!r}) = {a['std']} vs Spec.Csv.parse .std {b['std']}"
            if a["skip"] != b["skip"]:
                return f"csv.reader({t!r}, skipinitialspace) = {a['skip']} vs Spec.Csv.parse (skip, cr) {b['skip']}"
            if "\r" not in t and (b["exetera"] != b["skip"] or b["plain"] != b["std"]):
                return f"dialects differ on CR-free text {t!r}"
        return None
    if op == "c18_to_pandas":
        why = compare_pandas(io_, mo)
        af = mo.get("as_found")
        if why and af is not None and compare_pandas(io_, af) is None:
            if nc18b_open():
                return None     # DESIGN 1.3: a tree without fix NC18b matches the as-found variant; while the finding is open its
                #                 property failures are reported through check_spec / match_finding as KNOWN-FINDING
            why += "  [impl equals the AS-FOUND model variant: fix NC18b is not applied]"
        return why
    if op == "c18_record" and "skip" in io_:
        return None
    if op in ("c18_to_csv", "c18_to_csv_env"):
        why = compare_csv(io_, mo)
        af = mo.get("as_found")
        if why and af is not None and compare_csv(io_, af) is None:
            if finding_open("D30") or finding_open("NC18a"):
                return None     # DESIGN 1.3: a tree that writes its records with csv.writer matches the as-found variant; while the
                #                 findings are open its property failures are reported through check_spec / match_finding
            why += "  [impl equals the AS-FOUND model variant (csv.writer): fix D30_NC18a is not applied]"
        return why
    if "err" in io_ and "err" in mo:
        return None if io_["err"] == mo["err"] else f"errors differ: impl {io_['err']} ({io_.get('msg', '')[:80]}) model {mo['err']}"
    if "err" in io_ or "err" in mo:
        return f"impl={json.dumps(io_)[:200]} model={json.dumps(mo)[:200]}"
    m = mo["ok"]
    if op == "c18_render":
        return None if io_["text"] == m["text"] else f"csv.writer {io_['text']!r} vs Spec.Csv.render {m['text']!r}"
    if op == "c18_record":
        return None if io_["text"] == m["text"] else f"_csv_record {io_['text']!r} vs Export.csvRecord {m['text']!r}"
    return None


def compare_csv(io_, mo):
    if "err" in io_ and "err" in mo:
        return None if io_["err"] == mo["err"] else f"errors differ: impl {io_['err']} ({io_.get('msg', '')[:80]}) model {mo['err']}"
    if "err" in io_ or "err" in mo:
        return f"impl={json.dumps(io_)[:200]} model={json.dumps({k: v for k, v in mo.items() if k != 'as_found'})[:200]}"
    m = mo["ok"]
    if io_["text"] != m["text"]:
        return f"file {io_['text']!r} vs model {m['text']!r}"
    if std_parse(io_["text"]) != m["std"]:
        return f"csv.reader {std_parse(io_['text'])} vs Spec.Csv.parse .std {m['std']}"
    ri = io_.get("reimport")
    if ri is not None:
        if "err" in ri:
            return f"importer raised {ri['err']}; model parses {m['reimport']}"
        body = m["reimport"][1:]
        ncol = len(ri["cols"])
        mcols = [[r[j] if j < len(r) else None for r in body] for j in range(ncol)]
        if any(len(r) != ncol for r in body) or mcols != ri["cols"]:
            return f"importer read {ri['cols']} vs Spec.Csv.parse .exetera {body}"
    return None


def compare_pandas(io_, mo):
    if "err" in io_ and "err" in mo:
        return None if io_["err"] == mo["err"] else f"errors differ: impl {io_['err']} ({io_.get('msg', '')[:80]}) model {mo['err']}"
    if "err" in io_ or "err" in mo:
        return f"impl={json.dumps(io_)[:200]} model={json.dumps({k: v for k, v in mo.items() if k != 'as_found'})[:200]}"
    m = mo["ok"]
    if io_["names"] != m["names"] or io_["cols"] != m["cols"]:
        return f"pandas {io_['names']} {io_['cols']} vs model {m['names']} {m['cols']}"
    return None


_OPEN = {}


def finding_open(fid):
    if not _OPEN:
        from checks import lib
        _OPEN.update({f["id"]: f["status"] == "open" for f in lib.load_findings("C18")})
    return _OPEN.get(fid, False)


def nc18b_open():
    return finding_open("NC18b")


def nontrivial(case, mo):
    op = case["op"]
    if op in ("c18_render", "c18_parse", "c18_record"):
        return True
    if mo is None or "ok" not in mo:
        return False
    if op == "c18_to_pandas":
        return case["rf"]["kind"] != "none" and any(len(c) for c in mo["ok"]["cols"])
    exp = expected_csv(case)
    if exp is None:
        return False
    n = len(next(c for c in case["cols"] if c["name"] == exp[0][0])["data"])
    return n >= 2 and (len(exp[2]) < n or case["crs"] < n)


def classify(case, mo):
    op = case["op"]
    tags = [op]
    if op in ("c18_render", "c18_parse", "c18_record"):
        return tags
    if mo is not None and "err" in mo:
        tags.append("err:" + mo["err"])
        return tags
    tags.append("rf:" + case["rf"]["kind"] + (":" + case["rf"].get("src", "") if case["rf"]["kind"] == "field" else ""))
    tags.append("cf:" + case["cf"]["kind"])
    if op == "c18_to_pandas":
        exp = expected_pandas(case)
        okf, flt = pd_filter_data(case)
        if exp is not None and flt is not None:
            tags.append("pd-flt-shorter" if len(flt) < exp[3] else ("pd-flt-longer" if len(flt) > exp[3] else "pd-flt=n"))
    if op == "c18_to_csv":
        n = max([len(c["data"]) for c in case["cols"]] + [0])
        crs = case["crs"]
        tags.append("crs<=0" if crs <= 0 else "n=0" if n == 0 else ("crs>n" if crs > n else ("crs=n" if crs == n else ("crs|n" if n % crs == 0 else "crs∤n"))))
        okf, flt = filter_data(case)
        if flt is not None:
            tags.append("flt-shorter" if len(flt) < n else ("flt-longer" if len(flt) > n else "flt=n"))
        if case.get("reimport"):
            tags.append("reimport")
    return tags


def select_for_mode(case, mode, tier):
    return case["op"] in ("c18_to_csv", "c18_to_pandas") and case.get("_n", 0) % 6 == 0


if __name__ == "__main__":
    # child process of a `c18_to_csv_env` case: run one case under the environment given by the parent
    sys.path.insert(0, os.environ.get("EXETERA_REPO", "/repo"))
    sys.path.insert(0, os.path.dirname(os.path.dirname(os.path.dirname(os.path.abspath(__file__)))))
    c = json.loads(sys.stdin.read())
    try:
        res = impl(c)
    except BaseException as ex:  # noqa
        from checks.worker import classify as _cl
        res = {"err": _cl(ex), "msg": str(ex)[:200]}
    print(json.dumps(res))
