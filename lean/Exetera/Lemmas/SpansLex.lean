import Exetera.Lemmas.SpansApply
import Exetera.Lemmas.SpansScan
/-! Helper lemmas for C08, part 6: `lexLt` is a strict total order; the byte comparison loop of the indexed-string
    min/max kernels decides it. -/
namespace Exetera.Spans
open Exetera Exetera.Spec

/-! ### `lexLt` is a strict total order on byte strings -/

theorem lexLt_cons (a b : Nat) (as bs : List Nat) :
    lexLt (a :: as) (b :: bs) = true ↔ a < b ∨ (a = b ∧ lexLt as bs = true) := by
  simp [lexLt]

theorem lexLt_irrefl : ∀ a, lexLt a a = false
  | [] => rfl
  | a :: as => by
    have := lexLt_irrefl as
    cases h : lexLt (a :: as) (a :: as) with
    | false => rfl
    | true => rw [lexLt_cons] at h; rcases h with h | ⟨_, h⟩ <;> simp_all

theorem lexLt_trans : ∀ a b c, lexLt a b = true → lexLt b c = true → lexLt a c = true
  | [], [], _, h, _ => by simp [lexLt] at h
  | [], _ :: _, [], _, h => by simp [lexLt] at h
  | [], _ :: _, _ :: _, _, _ => by simp [lexLt]
  | _ :: _, [], _, h, _ => by simp [lexLt] at h
  | _ :: _, _ :: _, [], _, h => by simp [lexLt] at h
  | a :: as, b :: bs, c :: cs, h1, h2 => by
    rw [lexLt_cons] at h1 h2 ⊢
    rcases h1 with h1 | ⟨h1, h1'⟩ <;> rcases h2 with h2 | ⟨h2, h2'⟩
    · left; omega
    · left; omega
    · left; omega
    · right; exact ⟨by omega, lexLt_trans as bs cs h1' h2'⟩

theorem lexLt_total : ∀ a b, lexLt a b = true ∨ a = b ∨ lexLt b a = true
  | [], [] => Or.inr (Or.inl rfl)
  | [], _ :: _ => Or.inl (by simp [lexLt])
  | _ :: _, [] => Or.inr (Or.inr (by simp [lexLt]))
  | a :: as, b :: bs => by
    rw [lexLt_cons, lexLt_cons]
    rcases Nat.lt_trichotomy a b with h | h | h
    · exact Or.inl (Or.inl h)
    · rcases lexLt_total as bs with h' | h' | h'
      · exact Or.inl (Or.inr ⟨h, h'⟩)
      · exact Or.inr (Or.inl (by rw [h, h']))
      · exact Or.inr (Or.inr (Or.inr ⟨h.symm, h'⟩))
    · exact Or.inr (Or.inr (Or.inl h))

theorem lexLt_asymm {a b : List Nat} (h : lexLt a b = true) : lexLt b a = false := by
  cases h' : lexLt b a with
  | false => rfl
  | true => have := lexLt_trans a b a h h'; rw [lexLt_irrefl] at this; exact absurd this (by simp)

/-- `c < m` and `¬ s < m` give `¬ s < c` -/
theorem lexLt_not_below {c m s : List Nat} (hcm : lexLt c m = true) (hsm : lexLt s m = false) : lexLt s c = false := by
  cases h : lexLt s c with
  | false => rfl
  | true => have := lexLt_trans s c m h hcm; rw [hsm] at this; exact absurd this (by simp)

/-- `c < m` and `¬ s < m` give `c < s` -/
theorem lexLt_of_lt_of_not_lt {c m s : List Nat} (hcm : lexLt c m = true) (hsm : lexLt s m = false) : lexLt c s = true := by
  rcases lexLt_total c s with h | h | h
  · exact h
  · subst h; rw [hcm] at hsm; exact absurd hsm (by simp)
  · have := lexLt_trans s c m h hcm; rw [hsm] at this; exact absurd this (by simp)

/-! ### the byte comparison loop -/

/-- compare two byte strings position by position on their common length -/
def cmpPrefix : List Nat → List Nat → Cmp
  | c :: cs, m :: ms => if c < m then .curLess else if c > m then .curGreater else cmpPrefix cs ms
  | _, _ => .notFound

theorem cmpLoop_eq (values : List Nat) (cs ms : Nat) : ∀ n k, cs + k + n ≤ values.length → ms + k + n ≤ values.length →
    cmpLoop values cs ms n k =
      .ok (cmpPrefix (slice values (cs + k) (cs + k + n)) (slice values (ms + k) (ms + k + n)))
  | 0, k, _, _ => by simp [cmpLoop, slice_self, cmpPrefix]
  | n + 1, k, h1, h2 => by
    have hc : cs + k < values.length := by omega
    have hm : ms + k < values.length := by omega
    rw [cmpLoop, getE_of_lt _ hc, getE_of_lt _ hm]
    simp only []
    rw [slice_cons values (cs + k) _ hc (by omega), slice_cons values (ms + k) _ hm (by omega), cmpPrefix]
    split
    · rfl
    · split
      · rfl
      · rw [cmpLoop_eq values cs ms n (k + 1) (by omega) (by omega)]
        have e1 : cs + (k + 1) = cs + k + 1 := by omega
        have e2 : ms + (k + 1) = ms + k + 1 := by omega
        have e3 : cs + k + 1 + n = cs + k + (n + 1) := by omega
        have e4 : ms + k + 1 + n = ms + k + (n + 1) := by omega
        rw [e1, e2, e3, e4]

theorem cmpPrefix_take : ∀ (c m : List Nat),
    cmpPrefix (c.take (min c.length m.length)) (m.take (min c.length m.length)) = cmpPrefix c m
  | [], m => by simp [cmpPrefix]
  | _ :: _, [] => by simp [cmpPrefix]
  | c :: cs, m :: ms => by
    have : min (c :: cs).length (m :: ms).length = min cs.length ms.length + 1 := by simp
    rw [this, List.take_succ_cons, List.take_succ_cons, cmpPrefix, cmpPrefix, cmpPrefix_take cs ms]

/-- what the loop's verdict means for the lexicographic order -/
theorem lexLt_eq_cmpPrefix : ∀ (c m : List Nat),
    lexLt c m = match cmpPrefix c m with
      | .curLess => true
      | .curGreater => false
      | .notFound => decide (c.length < m.length)
  | [], [] => by simp [lexLt, cmpPrefix]
  | [], _ :: _ => by simp [lexLt, cmpPrefix]
  | _ :: _, [] => by simp [lexLt, cmpPrefix]
  | c :: cs, m :: ms => by
    have ih := lexLt_eq_cmpPrefix cs ms
    rw [cmpPrefix]
    by_cases h1 : c < m
    · simp [h1, lexLt]
    · by_cases h2 : c > m
      · have : ¬ c = m := by omega
        simp [h1, h2, lexLt, this]
      · have : c = m := by omega
        subst this
        simp only [Nat.lt_irrefl, if_false, lexLt, decide_false, beq_self_eq_true, Bool.true_and, Bool.false_or,
          gt_iff_lt, List.length_cons, Nat.add_lt_add_iff_right]
        exact ih

/-- the same verdict read from the other side (used by the max kernel) -/
theorem lexLt_eq_cmpPrefix' : ∀ (c m : List Nat),
    lexLt m c = match cmpPrefix c m with
      | .curLess => false
      | .curGreater => true
      | .notFound => decide (m.length < c.length)
  | [], [] => by simp [lexLt, cmpPrefix]
  | [], _ :: _ => by simp [lexLt, cmpPrefix]
  | _ :: _, [] => by simp [lexLt, cmpPrefix]
  | c :: cs, m :: ms => by
    have ih := lexLt_eq_cmpPrefix' cs ms
    rw [cmpPrefix]
    by_cases h1 : c < m
    · have : ¬ m < c := by omega
      have h3 : ¬ m = c := by omega
      simp [h1, lexLt, this, h3]
    · by_cases h2 : c > m
      · simp [h1, h2, lexLt]
      · have : c = m := by omega
        subst this
        simp only [Nat.lt_irrefl, if_false, lexLt, decide_false, beq_self_eq_true, Bool.true_and, Bool.false_or,
          gt_iff_lt, List.length_cons, Nat.add_lt_add_iff_right]
        exact ih

theorem slice_take {α} (src : List α) (a l s : Nat) (hs : s ≤ l) : (slice src a (a + l)).take s = slice src a (a + s) := by
  unfold slice
  rw [List.take_take]
  congr 1; omega

end Exetera.Spans
