import Exetera.Lemmas.CsvTail
import Exetera.Lemmas.CsvSpecLink
/-! A window that ends inside a cell (C05): nothing of the unfinished record is observable. -/
namespace Exetera.Csv
open Exetera Spec

/-- the loop has stopped at the end of the window, inside (or right before) record `k`: the resume position is still the end
    of the last complete record, no buffer is full, and the staging buffers still hold the complete records' entries `E` -/
structure WindowEnd (offs : List Nat) (maxrow ncols : Nat) (s' : KS) (k np : Nat) (E : Nat → List Bytes) : Prop where
  done : s'.done = true
  np : s'.nextPos = np
  hdr : s'.hdr = false
  row : s'.row = k
  indsFull : s'.indsFull = false
  valsFull : s'.valsFull = false
  vfc : s'.vfc = none
  shape : Shape ncols maxrow offs s'.inds s'.vals
  cols : ∀ c, c < ncols → ColOK offs s'.inds s'.vals c (E c)

theorem ColOK.of_append {offs : List Nat} {inds : List (List Nat)} {vals : List Nat} {c : Nat} {es t : List Bytes}
    (h : ColOK offs inds vals c (es ++ t)) : ColOK offs inds vals c es := by
  obtain ⟨⟨r, hr, hk⟩, hat⟩ := h
  refine ⟨⟨r, hr, ?_⟩, ?_⟩
  · intro k hkl
    have := hk k (by simp; omega)
    rw [this]
    simp [endOf, List.take_append_of_le_length hkl]
  · intro k hkl
    have hle : es.flatten.length ≤ (es ++ t).flatten.length := flatten_length_append_le es t
    have := hat k (by omega)
    rw [this, List.flatten_append, List.getElem?_append_left hkl]

/-- `E'` extends `E` by further entries in some columns (cells of the unfinished record) -/
def Ext (E E' : Nat → List Bytes) : Prop := ∀ c, ∃ t, E' c = E c ++ t

theorem Ext.refl (E : Nat → List Bytes) : Ext E E := fun _ => ⟨[], by simp⟩

theorem Ext.stage {E E' : Nat → List Bytes} (h : Ext E E') (j : Nat) (v : Bytes) : Ext E (stage false E' j v) := by
  intro c
  obtain ⟨t, ht⟩ := h c
  by_cases hc : c = j
  · subst hc
    exact ⟨t ++ [v], by simp [Csv.stage, upd, ht]⟩
  · exact ⟨t, by simp [Csv.stage, upd, hc, ht]⟩

/-- the run has reached the end of the window: wrap up -/
theorem windowEnd_of_run {src : Bytes} {offs : List Nat} {maxrow ncols : Nat} {s s' : KS} {A : Bytes} {j k np : Nat}
    {E E' : Nat → List Bytes} {w : Bytes} (hcs : CellStart src offs maxrow ncols s A j false k np E') (hext : Ext E E')
    (hend : s'.index = src.length) (hd : s'.done = (s'.index == src.length)) (heff : RunEff s s' w)
    (hcap : offAt offs j + (E' j).flatten.length + w.length ≤ offAt offs (j + 1)) :
    WindowEnd offs maxrow ncols s' k np E := by
  obtain ⟨hctx, hrun⟩ := heff
  obtain ⟨hnp1, hcol1, hh1, hrow1, hvfc1, hcst1, hics1, hif1, hvf1, hco1, hcc1, hinds1⟩ := ctx_eq hctx
  rw [hcs.hdr_] at hrun
  simp only [Bool.false_eq_true, if_false] at hrun
  obtain ⟨_, hw⟩ := hrun
  have hp : s.colOff + s.cstart + s.count = offAt offs j + (E' j).flatten.length := by
    rw [hcs.colOff, hcs.cstart rfl, hcs.count]; omega
  rw [hp] at hw
  have hsh := hcs.shape
  exact {
    done := by rw [hd, hend]; simp
    np := by rw [hnp1, hcs.np]
    hdr := by rw [hh1, hcs.hdr_]
    row := by rw [hrow1, hcs.row]
    indsFull := by rw [hif1, hcs.indsFull]
    valsFull := by rw [hvf1, hcs.valsFull]
    vfc := by rw [hvfc1, hcs.vfc]
    shape := by
      rw [hinds1]
      exact ⟨hsh.indsLen, hsh.rowLen, hsh.offsLen, hsh.offs0, hsh.mono, by rw [hw.len]; exact hsh.last⟩
    cols := by
      intro c hc
      rw [hinds1]
      have h0 := hcs.cols c hc
      have hdis : offAt offs c + (E' c).flatten.length ≤ offAt offs j + (E' j).flatten.length ∨
          offAt offs j + (E' j).flatten.length + w.length ≤ offAt offs c := by
        rcases Nat.lt_trichotomy c j with hlt | heq | hgt
        · left
          have := hcs.caps c hc
          have := hsh.mono_le j (c + 1) (by omega) (by have := hcs.jlt; omega)
          omega
        · left; subst heq; exact Nat.le_refl _
        · right
          have := hsh.mono_le c (j + 1) (by omega) (by omega)
          omega
      have h1 := h0.of_wrote hw hdis
      obtain ⟨t, ht⟩ := hext c
      rw [ht] at h1
      exact h1.of_append }

theorem runEff_skip_left {s s1 s2 : KS} {w : Bytes} (hctx : s1.ctx = s.ctx) (hcnt : s1.count = s.count)
    (hv : s1.vals = s.vals) (h : RunEff s1 s2 w) : RunEff s s2 w := by
  obtain ⟨_, _, hh1, _, _, hcs1, _, _, _, hco1, _, _⟩ := ctx_eq hctx
  obtain ⟨h1, h3⟩ := h
  refine ⟨by rw [h1, hctx], ?_⟩
  rw [hh1, hcnt, hv, hco1, hcs1] at h3
  exact h3

theorem runEff_skip_right {s s1 s2 : KS} {w : Bytes} (h : RunEff s s1 w) (hctx : s2.ctx = s1.ctx)
    (hcnt : s2.count = s1.count) (hv : s2.vals = s1.vals) : RunEff s s2 w := by
  obtain ⟨h1, h3⟩ := h
  refine ⟨by rw [hctx, h1], ?_⟩
  rw [hcnt, hv]
  exact h3

/-- the window ends exactly at a cell start (after a separator or line break and the blanks that follow it) -/
theorem cell_tail_none {src : Bytes} {offs : List Nat} {maxrow ncols : Nat} {s : KS} {j k np : Nat}
    {E E' : Nat → List Bytes} (hcs : CellStart src offs maxrow ncols s src j false k np E') (hext : Ext E E') :
    WindowEnd offs maxrow ncols s k np E :=
  windowEnd_of_run (w := []) hcs hext hcs.index hcs.done (runEff_nil s) (by simpa using hcs.caps j hcs.jlt)

/-- the window ends inside a bare cell -/
theorem cell_tail_bare {src : Bytes} {offs : List Nat} {maxrow ncols : Nat} {s : KS} {A w : Bytes} {j k np : Nat}
    {E E' : Nat → List Bytes} (hcs : CellStart src offs maxrow ncols s A j false k np E') (hext : Ext E E')
    (hsrc : src = A ++ w) (hplain : ∀ b ∈ w, b ≠ QUOTE ∧ b ≠ SEP ∧ b ≠ NL)
    (hcap : offAt offs j + (E' j).flatten.length + w.length < offAt offs (j + 1)) :
    ∃ n s', KSteps src offs maxrow n s s' ∧ WindowEnd offs maxrow ncols s' k np E := by
  obtain ⟨n, s', hsteps, hi, _, _, hd, heff⟩ :=
    run_plain_g (offs := offs) (maxrow := maxrow) w A [] s (by simpa using hsrc) hcs.index hcs.done hcs.indsFull
      hcs.valsFull hplain (cell_room hcs _ (fun _ => hcap))
  exact ⟨n, s', hsteps, windowEnd_of_run hcs hext (by rw [hi, hsrc]; simp) hd heff (by omega)⟩

/-- the window ends inside a quoted cell: after the opening quote and the content `u` so far, possibly right after the
    first quote of a doubled quote or after the closing quote (`tq = [QUOTE]`) -/
theorem cell_tail_quoted {src : Bytes} {offs : List Nat} {maxrow ncols : Nat} {s : KS} {A u tq : Bytes} {j k np : Nat}
    {E E' : Nat → List Bytes} (hcs : CellStart src offs maxrow ncols s A j false k np E') (hext : Ext E E')
    (hsrc : src = A ++ (QUOTE :: (escape u ++ tq))) (htq : tq = [] ∨ tq = [QUOTE])
    (hcap : offAt offs j + (E' j).flatten.length + u.length < offAt offs (j + 1)) :
    ∃ n s', KSteps src offs maxrow n s s' ∧ WindowEnd offs maxrow ncols s' k np E := by
  have hroom := cell_room hcs u.length (fun _ => hcap)
  have hc0 : src[s.index]? = some QUOTE := by rw [hsrc, hcs.index, getElem?_append_len0]; simp
  have hd0 : s.done = false := by rw [hcs.done, hcs.index, hsrc]; simp
  obtain ⟨s1, hstep1, hi1, he1, hc1, hd1, hctx1, hcnt1, hv1⟩ :=
    step_skip_any (offs := offs) (maxrow := maxrow) hc0
      (by rw [hcs.esc, hcs.cand, hcs.index, hcs.ics]; simpa using lex_open _ false) hcs.indsFull hcs.valsFull
  obtain ⟨_, _, _, _, _, _, _, hif1, hvf1, _, _, _⟩ := ctx_eq hctx1
  have hsrc1 : src = (A ++ [QUOTE]) ++ (escape u ++ tq) := by simp [hsrc]
  obtain ⟨n, s2, hsteps2, hi2, he2, hc2, hd2, heff2⟩ :=
    run_quoted_g (offs := offs) (maxrow := maxrow) u (A ++ [QUOTE]) tq s1 hsrc1 (by simp [hi1, hcs.index])
      (by rw [hd1, hi1]) (by rw [hif1, hcs.indsFull]) (by rw [hvf1, hcs.valsFull]) he1 hc1
      (room_of_ctx hctx1 hcnt1 hv1 hroom)
  have h12 := StepsN.trans (StepsN.one (g := kguard) (by simp [kguard, hd0]) hstep1) hsteps2
  have heff12 : RunEff s s2 u := runEff_skip_left hctx1 hcnt1 hv1 heff2
  rcases htq with h | h
  · subst h
    refine ⟨1 + n, s2, h12, windowEnd_of_run hcs hext ?_ hd2 heff12 (by omega)⟩
    rw [hi2, hsrc]; simp; omega
  · subst h
    obtain ⟨hctx2, _⟩ := heff2
    obtain ⟨_, _, _, _, _, _, _, hif2, hvf2, _, _, _⟩ := ctx_eq hctx2
    have hsrc2 : src = (A ++ [QUOTE] ++ escape u) ++ [QUOTE] := by simp [hsrc]
    have hi2' : s2.index = (A ++ [QUOTE] ++ escape u).length := by simp [hi2]; omega
    have hc3 : src[s2.index]? = some QUOTE := by rw [hsrc2, hi2', getElem?_append_len0]; simp
    have hnx3 : src[s2.index + 1]? = none := by
      rw [hsrc2, hi2']; apply List.getElem?_eq_none; simp; omega
    have hd20 : s2.done = false := by rw [hd2, hi2', hsrc2]; simp
    obtain ⟨s3, hstep3, hi3, _, _, hd3, hctx3, hcnt3, hv3⟩ :=
      step_skip_any (offs := offs) (maxrow := maxrow) hc3 (by rw [hnx3, he2, hc2]; exact lex_close_eof _)
        (by rw [hif2, hif1, hcs.indsFull]) (by rw [hvf2, hvf1, hcs.valsFull])
    refine ⟨1 + n + 1, s3, StepsN.trans h12 (StepsN.one (g := kguard) (by simp [kguard, hd20]) hstep3),
      windowEnd_of_run hcs hext ?_ (by rw [hd3, hi3]) (runEff_skip_right heff12 hctx3 hcnt3 hv3) (by omega)⟩
    rw [hi3, hi2', hsrc2]; simp; omega

end Exetera.Csv
