import Exetera.Lemmas.MapValidIndexed3
/-! Helper lemmas for C04, part 8: `safe_map_indexed_values`. Core Lean only. -/
namespace Exetera.MapValid

open Exetera Exetera.Spec

theorem take_succ_of_getElem? {α} (xs : List α) (i : Nat) (x : α) (h : xs[i]? = some x) :
    xs.take (i + 1) = xs.take i ++ [x] := by
  rw [List.take_add_one, h]; rfl

/-- the offsets `[k]`, `[k+1]` of a row of a well-formed field and its entry -/
theorem entry_read {β} (indices : List Int) (values : List β) (hok : IndexedOK indices values) (k : Int)
    (h0 : 0 ≤ k) (hk : k < (entries indices values).length) (s1 s2 : String) :
    ∃ a b, getI indices k s1 = .ok a ∧ getI indices (k + 1) s2 = .ok b ∧
      (entries indices values)[k.toNat]? = some (pySlice values a b) ∧ ((pySlice values a b).length : Int) = b - a := by
  have hw := winOK_of_indexedOK indices values hok
  rw [entries_length] at hk
  have h1 : k.toNat < indices.length := by omega
  have h2 : k.toNat + 1 < indices.length := by omega
  have ga : indices[k.toNat]? = some indices[k.toNat] := List.getElem?_eq_getElem h1
  have gb : indices[k.toNat + 1]? = some indices[k.toNat + 1] := List.getElem?_eq_getElem h2
  have hab := hw.mono _ _ _ _ (Nat.le_succ _) ga gb
  have ha0 := hw.nonneg _ _ ga
  have hbl := hw.le_len _ _ gb
  refine ⟨indices[k.toNat], indices[k.toNat + 1], getI_nonneg _ _ _ _ h0 ga, ?_, ?_, ?_⟩
  · apply getI_nonneg _ _ _ _ (by omega)
    have : (k + 1).toNat = k.toNat + 1 := by omega
    rw [this]; exact gb
  · rw [pySlice_nonneg values _ _ ha0 (by omega) hbl hab]
    exact entries_getElem? indices values k.toNat _ _ ga gb
  · rw [pySlice_nonneg values _ _ ha0 (by omega) hbl hab, slice_length_le _ _ _ (by omega)]
    omega

/-- a prefix never holds more bytes than the whole list: the fill position of the second pass stays inside `v_result` -/
theorem sumLen_take_le {β} (es : List (List β)) (i : Nat) : sumLen (es.take i) ≤ sumLen es := by
  have h := sumLen_append (es.take i) (es.drop i)
  rw [List.take_append_drop] at h
  have := sumLen_nonneg (es.drop i)
  omega

/-- `safe_map_indexed_values`: the destination is the stored form of the list of entries `es` in which row `i` is the
    source entry `map[i]` where the filter is set and `empty` elsewhere -/
theorem safeMapIndexedValues_spec {β} (indices : List Int) (values : List β) (m : List Int) (filt : List Bool)
    (empty : List β) (es : List (List β))
    (hok : IndexedOK indices values) (hlen : filt.length = m.length) (hesLen : es.length = m.length)
    (hr : ∀ (i : Nat) (k : Int), m[i]? = some k → filt[i]? = some true →
      0 ≤ k ∧ k < (entries indices values).length)
    (hes : ∀ (i : Nat) (k : Int) (b : Bool), m[i]? = some k → filt[i]? = some b →
      es[i]? = if b then (entries indices values)[k.toNat]? else some empty) :
    safeMapIndexedValues indices values m filt empty = .ok (encodeIndexed es) := by
  -- first pass: only reads
  -- first pass: only reads; its result is the number of bytes of `es`, the size `v_result` is allocated with
  have h1 := forE_rule (smivLenStep indices m filt empty.length) (fun i len => len = sumLen (es.take i)) m.length 0 0
    (by simp [sumLen])
    (by
      intro i len _ hi hlenI
      have hi' : i < m.length := by omega
      have hgm : m[i]? = some m[i] := List.getElem?_eq_getElem hi'
      have hgf : filt[i]? = some filt[i] := List.getElem?_eq_getElem (by omega)
      have hesi := hes i m[i] filt[i] hgm hgf
      cases hb : filt[i] with
      | false =>
        rw [hb] at hesi
        have ht := take_succ_of_getElem? es i empty (by simpa using hesi)
        refine ⟨_, by simp only [smivLenStep, hgf, hb]; rfl, ?_⟩
        simp only [ht, sumLen_append, hlenI, sumLen]; omega
      | true =>
        rw [hb] at hesi
        obtain ⟨h0, hk⟩ := hr i m[i] hgm (by rw [hgf, hb])
        obtain ⟨a, b, ga, gb, hent, hel⟩ := entry_read indices values hok m[i] h0 hk
          "data_indices[map_field[i]]" "data_indices[map_field[i]+1]"
        have ht := take_succ_of_getElem? es i (pySlice values a b) (by simpa [hent] using hesi)
        refine ⟨_, by simp only [smivLenStep, hgf, hb, hgm, ga, gb]; rfl, ?_⟩
        simp only [ht, sumLen_append, hlenI, sumLen, hel]; omega)
  obtain ⟨len, hpass1, hlen1⟩ := h1
  simp only [Nat.zero_add] at hlen1
  rw [← hesLen, List.take_length] at hlen1
  subst hlen1
  -- second pass
  have h2 := forE_rule (smivStep indices values m filt empty (m.length + 1) (sumLen es))
    (fun i s => s.offset = sumLen (es.take i) ∧ s.iRes = 0 :: runSums 0 (es.take i) ∧ s.vRes = (es.take i).flatten)
    m.length 0 ⟨0, [0], []⟩ ⟨by simp [sumLen], by simp [runSums], by simp⟩
    (by
      intro i s _ hi ⟨hoff, hiR, hvR⟩
      have hi' : i < m.length := by omega
      have hgm : m[i]? = some m[i] := List.getElem?_eq_getElem hi'
      have hgf : filt[i]? = some filt[i] := List.getElem?_eq_getElem (by omega)
      have hesi := hes i m[i] filt[i] hgm hgf
      cases hb : filt[i] with
      | false =>
        rw [hb] at hesi
        have ht := take_succ_of_getElem? es i empty (by simpa using hesi)
        have hcapI : ¬ m.length + 1 ≤ i + 1 := by omega
        have hfit : ¬ sumLen es < s.offset + (empty.length : Int) := by
          have := sumLen_take_le es (i + 1)
          simp only [ht, sumLen_append, sumLen] at this
          omega
        refine ⟨_, by simp only [smivStep, hgf, hb, hcapI, hfit, if_false, decide_false, Bool.and_false, Bool.false_eq_true]; rfl, ?_, ?_, ?_⟩
        · simp only [ht, sumLen_append, hoff, sumLen]; omega
        · simp only [ht, runSums_append, hiR, hoff, runSums, List.cons_append]; simp
        · simp only [ht, List.flatten_append, hvR]; simp
      | true =>
        rw [hb] at hesi
        obtain ⟨h0, hk⟩ := hr i m[i] hgm (by rw [hgf, hb])
        obtain ⟨a, b, ga, gb, hent, hel⟩ := entry_read indices values hok m[i] h0 hk
          "data_indices[map_field[i]]" "data_indices[map_field[i]+1]"
        have ht := take_succ_of_getElem? es i (pySlice values a b) (by simpa [hent] using hesi)
        have hcapI : ¬ m.length + 1 ≤ i + 1 := by omega
        have hfit : ¬ sumLen es < s.offset + (b - a) := by
          have := sumLen_take_le es (i + 1)
          simp only [ht, sumLen_append, sumLen] at this
          omega
        refine ⟨_, by simp only [smivStep, hgf, hb, hgm, ga, gb, hcapI, hfit, if_false]; rfl, ?_, ?_, ?_⟩
        · simp only [ht, sumLen_append, hoff, sumLen, hel]; omega
        · simp only [ht, runSums_append, hiR, hoff, runSums, List.cons_append, hel]; simp
        · simp only [ht, List.flatten_append, hvR]; simp)
  obtain ⟨s, hpass2, hoff, hiR, hvR⟩ := h2
  simp only [Nat.zero_add] at hoff hiR hvR
  rw [← hesLen, List.take_length] at hiR hvR
  simp only [safeMapIndexedValues, hpass1, hpass2, encodeIndexed, offsetsFrom_eq, hiR, hvR]

/-- with the filter "entry is not the marker" and no `empty_value`, `safe_map_indexed_values` is `mapIndexedSpec` -/
theorem safeMapIndexedValues_mapSpec {β} (indices : List Int) (values : List β) (m : List Int) (inv : Int)
    (hok : IndexedOK indices values) (hr : InRange (entries indices values).length m inv) :
    ∃ out, safeMapIndexedValues indices values m (m.map (fun k => k != inv)) [] = .ok out ∧
      mapIndexedSpec indices values inv m = some out := by
  obtain ⟨es, hspec⟩ : ∃ es, mapSpec (entries indices values) inv [] m = some es := by
    obtain ⟨out, _, h⟩ := safeMapValues_mapSpec (entries indices values) m inv (some []) [] hr
    exact ⟨out, h⟩
  refine ⟨encodeIndexed es, ?_, by simp [mapIndexedSpec, hspec]⟩
  apply safeMapIndexedValues_spec indices values m _ [] es hok (by simp) (mapSpec_length _ _ _ _ _ hspec)
  · intro i k hk hf
    simp only [List.getElem?_map, hk, Option.map_some, Option.some.injEq] at hf
    exact hr i k hk (by simpa using hf)
  · intro i k b hk hf
    simp only [List.getElem?_map, hk, Option.map_some, Option.some.injEq] at hf
    subst hf
    rw [mapSpec_getElem? _ _ _ _ _ hspec i k hk]
    by_cases hki : k = inv
    · simp [lookup, hki]
    · have := (hr i k hk hki).1
      simp [lookup, hki, this]

end Exetera.MapValid
