"""C10 — compiled kernels never touch memory outside their arrays.
The cases of every property that owns modelled kernels are re-run with bounds checking (NUMBA_BOUNDSCHECK=1) and in
interpreted mode (USE_NUMBA=false): an IndexError on a valid input is a violation; the model's `.error (oob …)` must
coincide with it (model checked accessors = the code's subscripts, tied by Gen/KernelShape)."""
from checks.harness import meta

PROPERTY = "C10"
LEVEL = "proof"
LEAN_MODULES = ["Exetera.Props.C10"]
BASES = ["c03", "c04", "c08", "c09", "c14", "c16", "c17", "c06", "c05"]
MODES = {"quick": ["bounds", "nojit"], "thorough": ["bounds", "nojit", "jit"], "search": ["bounds", "nojit"]}
EXHAUSTIVE = {"quick": False, "thorough": False}
TECHNIQUE = "Lean 4 refinement theorems with checked accessors (every `.ok` result is a memory-safety proof of the model) + regenerated kernel access-site table + bounds-checked and interpreted differential runs"
LEVEL_TEXT = ("Proof, for the model's access sets: each modelled kernel reads and writes arrays only through checked accessors, and the "
              "refinement theorems show `.ok` results for every valid input and every chunk size, so no access is out of range; the loop "
              "guards and subscripts of those kernels are regenerated from the source and proved equal to the set the model was written "
              "against. Partial by nature: what a stray write would do to the heap is not modelled.")
LEVEL_NOTE = ("Trusted: Lean kernel; tools/translate_kernels.py (AST extraction of guards and subscripts of the @exetera_njit functions); "
              "the hand-written models (validated by the differential runs under NUMBA_BOUNDSCHECK=1 and USE_NUMBA=false, where numba / "
              "numpy raise IndexError on any out-of-range scalar access); kernels not yet modelled are covered by those runs only.")
RULE = ("cases of the owning properties' generators (valid inputs only), a seeded sample per property, each executed under "
        "NUMBA_BOUNDSCHECK=1 and USE_NUMBA=false; non-trivial/distinct as defined by the owning harness")
ASSUMPTIONS = ["NUMBA_BOUNDSCHECK=1 makes numba raise IndexError on out-of-range indexing; interpreted numpy raises IndexError on "
               "out-of-range scalar indexing (negative indices wrap: the models use Nat indices, wrap is excluded separately)"]
TRUSTED = ["Lean 4.33 kernel", "axioms propext/Classical.choice/Quot.sound only", "tools/translate_kernels.py", "checks/harness/*.py"]


def gen_cases(tier, rng):
    per = {"quick": 400, "thorough": 6000, "search": 3000}[tier]

    def keep(n, b, c):
        sel = getattr(b, "select_for_mode", None)
        return sel(c, "nojit", "thorough") if sel else True

    def prefer(n, b, c):
        # cases built around a buffer boundary (flagged by the owning harness) are always included
        return bool(c.get("unsafe") or c.get("_why") or c.get("_boundary"))
    return meta.gen_cases(BASES, tier, rng, per, keep, prefer)


impl = meta.impl
to_model = meta.to_model
classify = meta.classify
nontrivial = meta.nontrivial


def compare(case, io, mo, mode):
    return meta.compare(case, io, mo, mode)


def check_spec(case, io, mode):
    if io.get("err") != "index_error":
        return None
    b = meta.base(case["_h"])
    if b.check_spec(case, io, mode) is None:
        return None     # the owning property's oracle accepts this raise: an invalid input rejected by an explicit check
    mf = getattr(b, "match_finding", None)
    if mf and mf(case, io, mode):
        return None     # counted under the owning property's open finding
    return f"IndexError under {mode} on a valid input: {io.get('msg', '')}"


def select_for_mode(case, mode, tier):
    return True
