import Exetera.Lemmas.JournalDefs
import Exetera.Lemmas.JournalSpec
import Exetera.Spec.JournalTable
import Exetera.Lemmas.JournalSortIndex
/-! C17, sorting part: `journal_table` on tables in physical order is `journalSorted` on the sorted tables, and the plan of the
    sorted tables read back through the two sorted indices is the physical plan `planPhys`. -/
namespace Exetera.Journal
open Exetera Exetera.Spec.Journal

/-! ### permuted columns -/

/-- both columns of a field permuted by the sorted indices -/
def permCol (osi nsi : List Nat) : Col → Col
  | .num o n => .num (osi.filterMap (o[·]?)) (nsi.filterMap (n[·]?))
  | .str o n => .str (osi.filterMap (o[·]?)) (nsi.filterMap (n[·]?))

theorem gatherCol_ok {osi nsi : List Nat} {lo ln : Nat} {c : Col} (hwf : c.WF lo ln)
    (ho : ∀ r, r ∈ osi → r < lo) (hn : ∀ j, j ∈ nsi → j < ln) : gatherCol osi nsi c = .ok (permCol osi nsi c) := by
  cases c with
  | num o n =>
    obtain ⟨h1, h2⟩ := hwf
    simp only [gatherCol, permCol, gatherE_ok (xs := o) (fun r hr => h1 ▸ ho r hr),
      gatherE_ok (xs := n) (fun r hr => h2 ▸ hn r hr)]
  | str o n =>
    obtain ⟨h1, h2⟩ := hwf
    simp only [gatherCol, permCol, gatherE_ok (xs := o) (fun r hr => h1 ▸ ho r hr),
      gatherE_ok (xs := n) (fun r hr => h2 ▸ hn r hr)]

theorem applyIndexAll_ok {osi nsi : List Nat} {lo ln : Nat} (ho : ∀ r, r ∈ osi → r < lo) (hn : ∀ j, j ∈ nsi → j < ln) :
    ∀ {cols : List Col}, (∀ c, c ∈ cols → c.WF lo ln) →
      applyIndexAll osi nsi cols = .ok ((cols.map (permCol osi nsi)).map Col.enc) := by
  intro cols
  induction cols with
  | nil => intro _; rfl
  | cons c cs ih =>
    intro h
    have ih' := ih (fun c' hc' => h c' (by simp [hc']))
    simp only [applyIndexAll, applyIndex, gatherCol_ok (h c (by simp)) ho hn, ih', List.map_cons]

theorem permCol_WF {osi nsi : List Nat} {lo ln : Nat} {c : Col} (hwf : c.WF lo ln)
    (ho : ∀ r, r ∈ osi → r < lo) (hn : ∀ j, j ∈ nsi → j < ln) : (permCol osi nsi c).WF osi.length nsi.length := by
  cases c with
  | num o n =>
    obtain ⟨h1, h2⟩ := hwf
    exact ⟨length_filterMap_all (fun r hr => by simp [List.getElem?_eq_getElem (h1 ▸ ho r hr : r < o.length)]),
      length_filterMap_all (fun r hr => by simp [List.getElem?_eq_getElem (h2 ▸ hn r hr : r < n.length)])⟩
  | str o n =>
    obtain ⟨h1, h2⟩ := hwf
    exact ⟨length_filterMap_all (fun r hr => by simp [List.getElem?_eq_getElem (h1 ▸ ho r hr : r < o.length)]),
      length_filterMap_all (fun r hr => by simp [List.getElem?_eq_getElem (h2 ▸ hn r hr : r < n.length)])⟩

/-! ### reading the permuted columns along a plan -/

/-- a source row of the sorted tables as a source row of the physical tables -/
def mapSrc (osi nsi : List Nat) : Src → Option Src
  | .old r => osi[r]?.map .old
  | .new j => nsi[j]?.map .new

theorem column_perm {α} {osi nsi : List Nat} {o n : List α} (ho : ∀ r, r ∈ osi → r < o.length)
    (hn : ∀ j, j ∈ nsi → j < n.length) (p : List Src) :
    column p (osi.filterMap (o[·]?)) (nsi.filterMap (n[·]?)) = column (p.filterMap (mapSrc osi nsi)) o n := by
  unfold column
  rw [List.filterMap_filterMap]
  congr 1
  funext s
  cases s with
  | old r =>
    simp only [pick, mapSrc]
    rw [getElem?_filterMap_all (fun r hr => by simp [List.getElem?_eq_getElem (ho r hr)])]
    cases osi[r]? <;> rfl
  | new j =>
    simp only [pick, mapSrc]
    rw [getElem?_filterMap_all (fun r hr => by simp [List.getElem?_eq_getElem (hn r hr)])]
    cases nsi[j]? <;> rfl

theorem out_perm {osi nsi : List Nat} {lo ln : Nat} {c : Col} (hwf : c.WF lo ln)
    (ho : ∀ r, r ∈ osi → r < lo) (hn : ∀ j, j ∈ nsi → j < ln) (p : List Src) :
    (permCol osi nsi c).out p = c.out (p.filterMap (mapSrc osi nsi)) := by
  cases c with
  | num o n =>
    obtain ⟨h1, h2⟩ := hwf
    simp only [permCol, Col.out, column_perm (o := o) (n := n) (fun r hr => h1 ▸ ho r hr) (fun r hr => h2 ▸ hn r hr)]
  | str o n =>
    obtain ⟨h1, h2⟩ := hwf
    simp only [permCol, Col.out, column_perm (o := o) (n := n) (fun r hr => h1 ▸ ho r hr) (fun r hr => h2 ▸ hn r hr)]

theorem differs_perm {osi nsi : List Nat} {lo ln : Nat} {c : Col} (hwf : c.WF lo ln)
    (ho : ∀ r, r ∈ osi → r < lo) (hn : ∀ j, j ∈ nsi → j < ln) {r j a b : Nat}
    (ha : osi[r]? = some a) (hb : nsi[j]? = some b) : (permCol osi nsi c).differs r j = c.differs a b := by
  cases c with
  | num o n =>
    obtain ⟨h1, h2⟩ := hwf
    simp only [permCol, Col.differs]
    rw [getElem?_filterMap_all (fun r hr => by simp [List.getElem?_eq_getElem (h1 ▸ ho r hr : r < o.length)]),
      getElem?_filterMap_all (fun r hr => by simp [List.getElem?_eq_getElem (h2 ▸ hn r hr : r < n.length)]), ha, hb]
    rfl
  | str o n =>
    obtain ⟨h1, h2⟩ := hwf
    simp only [permCol, Col.differs]
    rw [getElem?_filterMap_all (fun r hr => by simp [List.getElem?_eq_getElem (h1 ▸ ho r hr : r < o.length)]),
      getElem?_filterMap_all (fun r hr => by simp [List.getElem?_eq_getElem (h2 ▸ hn r hr : r < n.length)]), ha, hb]
    rfl

theorem differsAny_perm {osi nsi : List Nat} {lo ln : Nat} {cols : List Col} (hwf : ∀ c, c ∈ cols → c.WF lo ln)
    (ho : ∀ r, r ∈ osi → r < lo) (hn : ∀ j, j ∈ nsi → j < ln) {r j a b : Nat}
    (ha : osi[r]? = some a) (hb : nsi[j]? = some b) :
    differsAny (cols.map (permCol osi nsi)) r j = differsAny cols a b := by
  unfold differsAny
  rw [List.any_map]
  induction cols with
  | nil => rfl
  | cons c cs ih =>
    simp only [List.any_cons, Function.comp_def] at ih ⊢
    rw [differs_perm (hwf c (by simp)) ho hn ha hb, ih (fun c' hc' => hwf c' (by simp [hc']))]

theorem newPart_perm {osi nsi : List Nat} {d d' : Nat → Nat → Bool}
    (hd : ∀ r j a b, osi[r]? = some a → nsi[j]? = some b → d' r j = d a b) {j? r? : Option Nat}
    (hj : ∀ j, j? = some j → j < nsi.length) (hr : ∀ r, r? = some r → r < osi.length) :
    (newPart d' j? r?).filterMap (mapSrc osi nsi) = newPart d (j?.bind (nsi[·]?)) (r?.bind (osi[·]?)) := by
  cases j? with
  | none => rfl
  | some j =>
    have hj' := hj j rfl
    have hb : nsi[j]? = some nsi[j] := List.getElem?_eq_getElem hj'
    cases r? with
    | none =>
      simp [newPart, keepFlag, mapSrc, hb]
    | some r =>
      have hr' := hr r rfl
      have ha : osi[r]? = some osi[r] := List.getElem?_eq_getElem hr'
      simp only [newPart, keepFlag, Option.bind_some, ha, hb, hd r j _ _ ha hb]
      split <;> simp [mapSrc, hb]

/-! ### the plan of the sorted tables, read back -/

theorem plan_perm {oldIds oldVf newIds : List Int} (hvf : oldVf.length = oldIds.length) {d d' : Nat → Nat → Bool}
    (hd : ∀ r j a b, (oldIndex oldIds oldVf)[r]? = some a → (newIndex newIds)[j]? = some b → d' r j = d a b) :
    (plan ((oldIndex oldIds oldVf).map (keyAt oldIds)) ((newIndex newIds).map (keyAt newIds)) d').filterMap
        (mapSrc (oldIndex oldIds oldVf) (newIndex newIds)) = planPhys oldIds oldVf newIds d := by
  have hku : keyUnion ((oldIndex oldIds oldVf).map (keyAt oldIds)) ((newIndex newIds).map (keyAt newIds)) =
      keyUnion oldIds newIds := by
    apply sorted_ext (keyUnion_sorted _ _) (keyUnion_sorted _ _)
    intro x
    rw [mem_keyUnion, mem_keyUnion, mem_map_keyAt_of_perm (oldIndex_perm hvf), mem_map_keyAt_of_perm (newIndex_perm _)]
  unfold plan planPhys
  rw [hku, List.filterMap_flatMap]
  congr 1
  funext k
  have hpo : ∀ r, r ∈ positions k ((oldIndex oldIds oldVf).map (keyAt oldIds)) → r < (oldIndex oldIds oldVf).length :=
    fun r hr => by simpa using positions_lt hr
  have hpn : ∀ r, r ∈ positions k ((newIndex newIds).map (keyAt newIds)) → r < (newIndex newIds).length :=
    fun r hr => by simpa using positions_lt hr
  have hso : ∀ r, r ∈ positions k ((oldIndex oldIds oldVf).map (keyAt oldIds)) → ((oldIndex oldIds oldVf)[r]?).isSome :=
    fun r hr => by simp [List.getElem?_eq_getElem (hpo r hr)]
  have hsn : ∀ r, r ∈ positions k ((newIndex newIds).map (keyAt newIds)) → ((newIndex newIds)[r]?).isSome :=
    fun r hr => by simp [List.getElem?_eq_getElem (hpn r hr)]
  unfold block
  rw [List.filterMap_append, List.filterMap_map]
  have h1 : (positions k ((oldIndex oldIds oldVf).map (keyAt oldIds))).filterMap
      (mapSrc (oldIndex oldIds oldVf) (newIndex newIds) ∘ Src.old) = (history oldIds oldVf k).map .old := by
    rw [history_eq hvf, ← positions_map_back, List.map_filterMap]
    rfl
  rw [h1, newPart_perm hd (fun j hj => hpn j (List.mem_of_mem_head? hj)) (fun r hr => hpo r (List.mem_of_mem_getLast? hr)),
    ← head?_filterMap_all hsn, ← getLast?_filterMap_all hso, positions_map_back, positions_map_back, newIndex_filter,
    ← history_eq hvf]

/-! ### the theorem -/

theorem journalTable_of_sorted
    (hsorted : ∀ (ok nk : List Int) (cols : List Col), ok.Pairwise (· ≤ ·) → nk.Pairwise (· < ·) →
        (∀ c, c ∈ cols → c.WF ok.length nk.length) →
        journalSorted ok nk (cols.map Col.enc) ok.length = .ok (cols.map (Col.out (plan ok nk (differsAny cols)))))
    {oldIds oldVf newIds : List Int} {cols : List Col}
    (hvf : oldVf.length = oldIds.length) (hu : newIds.Nodup) (hwf : ∀ c, c ∈ cols → c.WF oldIds.length newIds.length) :
    journalTable oldIds oldVf newIds cols = .ok (cols.map (Col.out (planPhys oldIds oldVf newIds (differsAny cols)))) := by
  have ho : ∀ r, r ∈ oldIndex oldIds oldVf → r < oldIds.length := fun r hr => hvf ▸ mem_oldIndex.1 hr
  have hn : ∀ j, j ∈ newIndex newIds → j < newIds.length := fun j hj => mem_newIndex.1 hj
  have hlo : ((oldIndex oldIds oldVf).map (keyAt oldIds)).length = oldIds.length := by
    rw [List.length_map, length_oldIndex, hvf]
  have hln : ((newIndex newIds).map (keyAt newIds)).length = newIds.length := by
    rw [List.length_map, length_newIndex]
  have hwf' : ∀ c, c ∈ cols.map (permCol (oldIndex oldIds oldVf) (newIndex newIds)) →
      c.WF ((oldIndex oldIds oldVf).map (keyAt oldIds)).length ((newIndex newIds).map (keyAt newIds)).length := by
    intro c hc
    obtain ⟨c0, hc0, rfl⟩ := List.mem_map.1 hc
    simpa using permCol_WF (hwf c0 hc0) ho hn
  have hs := hsorted ((oldIndex oldIds oldVf).map (keyAt oldIds)) ((newIndex newIds).map (keyAt newIds)) _
    (sortRowsBy_sorted (keyAt oldIds) _) (newKeys_strict hu) hwf'
  unfold journalTable
  simp only [sortIndex2_ok hvf, argsortStable_eq]
  rw [← newIndex, gatherE_keys ho, gatherE_keys hn]
  simp only [applyIndexAll_ok ho hn hwf]
  rw [← hlo, hs, List.map_map]
  congr 1
  apply List.map_congr_left
  intro c hc
  simp only [Function.comp_def]
  rw [out_perm (hwf c hc) ho hn, plan_perm hvf]
  intro r j a b ha hb
  exact differsAny_perm hwf ho hn ha hb

/-- non-vacuity: both sides on a small table (two versions of key 1 out of time order, key 2, a new key 3) -/
example :
    journalTable [2, 1, 1] [1, 2, 1] [3, 1] [.num [20, 12, 11] [30, 13], .str [[5], [6, 7], []] [[8], [6, 7]]] =
      .ok ([Col.num [20, 12, 11] [30, 13], Col.str [[5], [6, 7], []] [[8], [6, 7]]].map
        (Col.out (planPhys [2, 1, 1] [1, 2, 1] [3, 1]
          (differsAny [.num [20, 12, 11] [30, 13], .str [[5], [6, 7], []] [[8], [6, 7]]])))) := by
  rfl

/-- the history of a key consists of rows of that key -/
theorem mem_history {ids vf : List Int} (hvf : vf.length = ids.length) {k : Int} {r : Nat} :
    r ∈ history ids vf k ↔ ids[r]? = some k := by
  rw [history_eq hvf, List.mem_filter, mem_oldIndex, hvf]
  constructor
  · rintro ⟨h1, h2⟩
    rw [getElem?_eq_keyAt h1]
    simpa using h2
  · intro h
    have h1 : r < ids.length := (List.getElem?_eq_some_iff.1 h).1
    rw [getElem?_eq_keyAt h1] at h
    exact ⟨h1, by simpa using h⟩

end Exetera.Journal
