/-!
  Specification of C01 (field storage round-trip).

  The content of a field is *the written sequence itself*: the concatenation of the parts, in order.
  For an indexed string field the stored representation is the concatenated bytes plus the running offsets
  `offsets xs = [0, |x₀|, |x₀|+|x₁|, …]` (one more than there are entries).
  A slice read `data[a:b]` is the list slice, an item read `data[i]` is the `i`-th entry.
-/
namespace Exetera.Spec

/-- running end offsets of the entries, starting after `acc` bytes -/
def offsetsFrom {β} (acc : Nat) : List (List β) → List Nat
  | [] => []
  | e :: es => (acc + e.length) :: offsetsFrom (acc + e.length) es

/-- the offsets array of an indexed string field holding the entries `xs` -/
def offsets {β} (xs : List (List β)) : List Nat := 0 :: offsetsFrom 0 xs

/-- the sequence written by a list of `write_part` calls -/
def written {α} (parts : List (List α)) : List α := parts.flatten

/-- Python `xs[a:b]` for `0 ≤ a`, `0 ≤ b` -/
def pySlice {α} (xs : List α) (a b : Nat) : List α := (xs.drop a).take (b - a)

end Exetera.Spec
