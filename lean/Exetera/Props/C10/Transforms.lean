import Exetera.Props.C06
import Exetera.Props.C10.Basic
import Exetera.Model.KernelSitesTransforms
import Exetera.Model.KernelPathsTransforms
/-!
# C10 — the compiled import transforms (owning property: C06)

Validity predicate throughout: the chunk handed to the importer holds `written_row_count` cells, consecutive inside the
column's own staging buffer — what `fast_csv_reader` delivers (C05) — and is a column of the staging arrays,
`col_idx < number of columns` — what `read_file_using_fast_csv_reader` passes (`Spec.Transforms.Encodes`, whose doc comment
quotes the caller). Under it the column subscript of `column_offsets[col_idx]` / `column_inds[col_idx, ·]` (`withCol`) is in
range like every other subscript. `numeric_bool_transform` additionally takes the sizes of its two result arrays; the
hypotheses `written_row_count ≤ len(elements), len(validity)` are what its only caller establishes
(`NumericImporter.import_part` allocates both with `written_row_count` elements). `transform_int` / `transform_float` run
`fixed_string_transform` and numpy's `astype` (numpy's bounds); timestamps are parsed in Python.
-/
namespace Exetera.Props.C10
open Exetera Exetera.Transforms

theorem access_sites_covered_transforms : ∀ k ∈ KernelSites.transformsSites, lookup k.1 = some k := by decide +kernel

/-- the PATH CONDITION of every subscript occurrence in these kernels (enclosing loop guards, `if` / `elif` tests, negated
    `else` branches and early exits), as regenerated from the current source (`Gen/KernelPaths.lean`), is exactly the one the
    model was written against (`Model/KernelPathsTransforms.lean`): dropping or changing a test that dominates a subscript breaks
    the build; and the table covers exactly the kernels of the site table -/
theorem access_paths_covered_transforms :
    (∀ k ∈ KernelPaths.transformsPaths, lookupPaths k.1 = some k) ∧
    KernelPaths.transformsPaths.map (·.1) = KernelSites.transformsSites.map (·.1) := by decide +kernel

example : KernelSites.transformsSites.length = 5 := by decide

/-- `categorical_transform` for any category table with distinct keys and any well-formed chunk -/
theorem no_oob_categorical_transform (cats : List (Bytes × Int)) (hnd : (cats.map (·.1)).Nodup) (c : Chunk)
    (cells : List Bytes) (h : Spec.Transforms.Encodes c cells) (site : String) :
    categoricalTransform (getByteMap cats) c ≠ .error (.oob site) :=
  ne_oob_of_ok (C06.categorical_exact_match cats hnd c cells h) site

/-- `CategoricalImporter` over any cutting of the column into chunks -/
theorem no_oob_categorical_import (cats : List (Bytes × Int)) (hnd : (cats.map (·.1)).Nodup) (chunks : List Chunk)
    (cellss : List (List Bytes)) (h : Spec.Transforms.EncodesAll chunks cellss) (data : List Int) (site : String) :
    categoricalImport cats chunks data ≠ .error (.oob site) :=
  ne_oob_of_ok (C06.categorical_import cats hnd chunks cellss h data) site

/-- `categorical_transform` with fix NC06d (it also returns the first row without a matching key): same subscripts, same
    bounds — whether or not every cell is a category -/
theorem no_oob_categorical_transform_checked (cats : List (Bytes × Int)) (hnd : (cats.map (·.1)).Nodup) (c : Chunk)
    (cells : List Bytes) (h : Spec.Transforms.Encodes c cells) (site : String) :
    categoricalTransformChecked (getByteMap cats) c ≠ .error (.oob site) :=
  ne_oob_of_ok (C06.categorical_transform_checked cats hnd c cells h).1 site

/-- `CategoricalImporter` with fix NC06d over any cutting of the column into chunks: it ends with the column or with the
    `ValueError` for a cell that is no category, never with an out-of-bounds access -/
theorem no_oob_categorical_import_checked (cats : List (Bytes × Int)) (hnd : (cats.map (·.1)).Nodup) (chunks : List Chunk)
    (cellss : List (List Bytes)) (h : Spec.Transforms.EncodesAll chunks cellss) (data : List Int) (site : String) :
    categoricalImportChecked cats chunks data ≠ .error (.oob site) := by
  rw [C06.categorical_import_checked cats hnd chunks cellss h data]
  cases Spec.Transforms.catColumn cats cellss.flatten with
  | none => intro hc; cases hc
  | some codes => intro hc; cases hc

example : categoricalImportChecked C06.demoCats [C06.demoChunk] [] ≠ .error (.oob "chunk[row_idx]") :=
  no_oob_categorical_import_checked C06.demoCats (by decide) _ _ (.cons C06.demo_encodes .nil) [] _

/-- `leaky_categorical_transform`: the free-text buffer (sized by the column's staging capacity) is never overrun,
    whatever the share of unmatched cells -/
theorem no_oob_leaky_categorical_transform (cats : List (Bytes × Int)) (hnd : (cats.map (·.1)).Nodup) (c : Chunk)
    (cells : List Bytes) (h : Spec.Transforms.Encodes c cells) (site : String) :
    leakyTransform (getByteMap cats) c ≠ .error (.oob site) := by
  obtain ⟨pad, hp⟩ := C06.leaky_transform_chunk cats hnd c cells h
  exact ne_oob_of_ok hp site

theorem no_oob_leaky_import (cats : List (Bytes × Int)) (hnd : (cats.map (·.1)).Nodup) (chunks : List Chunk)
    (cellss : List (List Bytes)) (h : Spec.Transforms.EncodesAll chunks cellss) (site : String) :
    leakyImport cats chunks LeakyState.init ≠ .error (.oob site) :=
  ne_oob_of_ok (C06.leaky_freetext cats hnd chunks cellss h) site

/-- `fixed_string_transform` for every string length `n` (0 included): the `rows * n` byte destination is never overrun -/
theorem no_oob_fixed_string_transform (c : Chunk) (n : Nat) (cells : List Bytes) (h : Spec.Transforms.Encodes c cells)
    (site : String) : fixedStringTransform c n ≠ .error (.oob site) :=
  ne_oob_of_ok (C06.fixed_truncates_to_n c n cells h) site

theorem no_oob_fixed_import (n : Nat) (chunks : List Chunk) (cellss : List (List Bytes))
    (h : Spec.Transforms.EncodesAll chunks cellss) (data : Bytes) (site : String) :
    fixedImport n chunks data ≠ .error (.oob site) :=
  ne_oob_of_ok (C06.fixed_import n chunks cellss h data) site

/-- `numeric_bool_transform` in every validation mode, writing into result arrays of `capE` / `capV` ≥ `written_row_count`
    elements: the run ends `.ok` or with the importer's `Exception` (strict / allow_empty rejecting a cell) — never out of
    bounds (the two blank-trimming loops stay inside the cell, `elements[row_idx]` / `validity[row_idx]` inside the arrays) -/
theorem no_oob_numeric_bool_transform (c : Chunk) (mode : Mode) (invalid : Bool) (capE capV : Nat) (cells : List Bytes)
    (h : Spec.Transforms.Encodes c cells) (hE : c.rows ≤ capE) (hV : c.rows ≤ capV) (site : String) :
    boolTransform c mode invalid capE capV ≠ .error (.oob site) := by
  rw [C06.bool_transform_spec c mode invalid capE capV cells h hE hV]
  split <;> (intro h'; cases h')

/-- conversely, a result array shorter than the row count IS an out-of-bounds write of the model (so the hypotheses above are
    needed, and the model's check is not vacuous): whatever the cells -/
theorem numeric_bool_transform_oob_of_short_elements (c : Chunk) (mode : Mode) (invalid : Bool) (capE capV : Nat)
    (cells : List Bytes) (h : Spec.Transforms.Encodes c cells) (hrows : 0 < c.rows) (hE : capE = 0) :
    boolTransform c mode invalid capE capV = .error (.oob "elements[row_idx]") := by
  obtain ⟨hr, ⟨s0, he, _⟩, hcol⟩ := h
  rw [boolTransform, Spec.Transforms.withCol_ok c _ _ _ hcol]
  cases cells with
  | nil => simp at hr; omega
  | cons cell rest =>
    rw [hr, List.length_cons, boolRows, boolCell_spec c 0 s0 cell rest he]
    simp [hE]

theorem no_oob_bool_import (mode : Mode) (invalid : Bool) (chunks : List Chunk) (cellss : List (List Bytes))
    (h : Spec.Transforms.EncodesAll chunks cellss) (st : List Bool × List Bool) (site : String) :
    boolImport mode invalid chunks st ≠ .error (.oob site) := by
  rw [C06.bool_import mode invalid chunks cellss h st]
  split <;> (intro h'; cases h')

/-- `transform_to_values` (the cells of a chunk as byte strings; used by the numeric and timestamp importers) -/
theorem no_oob_transform_to_values (c : Chunk) (cells : List Bytes) (h : Spec.Transforms.Encodes c cells) (site : String) :
    cellsE c ≠ .error (.oob site) :=
  ne_oob_of_ok (cellsE_spec c cells h) site

/-- non-vacuity: the demo chunk of `Props/C06.lean` (3 rows inside a shared buffer, column offset 2) -/
example : Spec.Transforms.Encodes C06.demoChunk [[97, 98], [], [97, 98, 99]] := C06.demo_encodes
example : fixedStringTransform C06.demoChunk 2 = .ok [97, 98, 0, 0, 97, 98] := by rfl
/-- the error branch is real: a row offset pointing past the staging buffer -/
example : fixedStringTransform { C06.demoChunk with inds := [0, 2, 2, 9, 9] } 8 = .error (.oob "column_vals[c]") := by rfl
/-- and so is the column-subscript branch: `col_idx` = number of columns -/
example : cellsE { C06.demoChunk with col := 2 } = .error (.oob "column_inds[col_idx,row_idx]") := by rfl
example : boolTransform C06.demoChunk .relaxed true 3 3 = .ok ([true, true, true], [false, false, false]) := by rfl

end Exetera.Props.C10
