"""C04 — mapping a column through a join map gives the mapped value or the empty value.
Correspondence: ops.ordered_map_valid_stream / ordered_map_valid_indexed_stream on memory fields, the helpers
next_map_subchunk / get_map_subchunks_based_on_index_lengths / get_valid_value_extents / calculate_chunk_decomposition and
the non-streaming safe_map_values / safe_map_indexed_values / map_valid   vs   Exetera.MapValid.* (Lean).
Oracle for the property itself: the Python rendering of Spec.mapSpec / Spec.mapIndexedSpec below."""
import itertools
import os

PROPERTY = "C04"
LEVEL = "proof"
LEAN_MODULES = ["Exetera.Props.C04"]
THEOREMS = []  # from checks/obligations/C04.json
EXHAUSTIVE = {"quick": True, "thorough": True}
MODES = {"quick": ["jit"], "thorough": ["jit", "nojit", "bounds"], "search": ["jit", "nojit"]}
CASE_TIMEOUT = 8
TECHNIQUE = ("Lean 4 theorems about an executable model of the mapping kernels and drivers (Model/MapValid.lean) + "
             "differential correspondence of the compiled model with the real ExeTera functions + Python rendering of the "
             "Spec as failing-input oracle")
LEVEL_TEXT = ("Kernel-checked Lean theorems, for all maps, sources, chunk sizes, value factors and marker values (no size "
              "bound): the model of ordered_map_valid_stream returns exactly Spec.mapSpec (source value at map[r], or the "
              "empty value at the marker), and the model of ordered_map_valid_indexed_stream returns exactly the stored "
              "form (offsets, bytes) of the mapped entries whenever the value buffer holds every mapped entry and "
              "otherwise ends with the ValueError of the D5 repair; both with no out-of-bounds access and within the "
              "stated fuel (termination), hence independently of the chunk size, of the value-buffer size and of which "
              "marker value encodes 'invalid'. The models of safe_map_values, map_valid and safe_map_indexed_values "
              "return the same mapped column (also for arbitrary filters / caller-supplied result arrays); the sub-chunk "
              "splitter partitions every map chunk and keeps each piece's index span below the chunk size for every "
              "marker. The model is tied to the code by differential execution on an exhaustive small scope and seeded "
              "random cases, for numeric, bool, float, fixed-string and indexed-string sources, JIT / interpreted / "
              "bounds-checked.")
LEVEL_NOTE = ("The theorems are about the Lean model with the fixes D5, D9, D10/D12, D11, NC04a applied (fixes/*.patch; on "
              "the unfixed tree the check reports the design-time witnesses as violations); that the model is the code is "
              "validated by the correspondence run, not proved. Every statement of the design entry is proved in full; no "
              "`_partial` theorem remains. Element values are abstract in the model (kernels only copy them): "
              "dtype-specific behaviour (choice of the empty value per dtype, numpy fixed-string assignment, utf-8 "
              "encoding of indexed strings) is exercised by the correspondence only. Indexed sources are assumed well "
              "formed (C01). Fixed-width integer wrap-around is not modelled (map entries and offsets are unbounded Int).")
RULE = ("exhaustive: every map of length <= L whose non-marker entries are non-decreasing row numbers of an n-row source, "
        "markers at every subset of positions (quick L=4,n=3; thorough L=6,n=4) x marker in {-1, INVALID_INDEX_32, "
        "INVALID_INDEX_64} x chunk sizes 1..L+2 (quick: without L+1) x source type in {int32,bool,float64,S3} and indexed strings with "
        "value_factor in {1,2,8}; the helper kernels on the same maps; plus seeded random maps (to 400 rows quick / 5000 "
        "thorough) with gaps larger than a chunk, whole-chunk marker stretches, leading/trailing/alternating markers, "
        "entries of length 0 and exactly chunksize*value_factor, and the non-streaming helpers with arbitrary filters. "
        "Non-trivial = the map has a valid and a marker entry, or spans more than one chunk (cs < len(map)); distinct = "
        "distinct case dicts.")
ASSUMPTIONS = ["numpy/numba copy element values unchanged; np.zeros of a dtype is that dtype's empty value (0, False, b'')",
               "MemoryFieldArray.write/write_part append (C01); IndexedStringMemField stores utf-8 bytes + offsets",
               "indexed sources are well formed (offsets start at 0, non-decreasing, end at len(values)) — C01",
               "hand-written Lean model validated by this differential run, not verified against the Python text"]
TRUSTED = ["Lean 4.33 kernel", "axioms: propext, Classical.choice, Quot.sound only (audited per theorem)",
           "checks/harness/c04.py generators, value encoding and comparison",
           "Lean model Exetera/Model/MapValid.lean mirrors operations.py (with fixes/*.patch applied) by hand"]
EXPLANATION = ""

INV32 = (1 << 31) - 1
INV64 = 1 << 62
MARKERS = [-1, INV32, INV64]
STYPES = ["int32", "bool", "float64", "S3"]


# ------------------------------------------------------------------------------------------------------------------
# value encoding: the model works on Int codes; 0 is the empty value of every type
# ------------------------------------------------------------------------------------------------------------------

def real_value(stype, v):
    if stype == "bool":
        return bool(v)
    if stype.startswith("S"):
        return b"" if v == 0 else str(v).encode()
    if stype.startswith("float"):
        return float(v)
    return int(v)


def canon_value(stype, x):
    """real value -> JSON-able canonical form (fixed strings stay strings so that b'0' and b'' differ)"""
    if stype.startswith("S"):
        return bytes(x).decode("latin-1")
    if stype == "bool":
        return int(bool(x))
    if stype.startswith("float"):
        f = float(x)
        return int(f) if f == int(f) else repr(f)
    return int(x)


def model_value(stype, v):
    """model Int code -> the canonical form of the real value it stands for"""
    if stype.startswith("S"):
        return "" if v == 0 else str(v)
    return int(v)


def mdtype_for(inv, k=0):
    if inv == INV64:
        return "int64"
    if inv == INV32:
        return "int32"
    return "int32" if k % 2 == 0 else "int64"


def offsets(entries):
    off, out = 0, [0]
    for e in entries:
        off += len(e.encode())
        out.append(off)
    return out


def flat_bytes(entries):
    return [b for e in entries for b in e.encode()]


# ------------------------------------------------------------------------------------------------------------------
# generators
# ------------------------------------------------------------------------------------------------------------------

def small_maps(L, n):
    """all maps of length <= L: markers (None) at every subset of positions, the rest non-decreasing over range(n)"""
    out = []
    for ln in range(L + 1):
        for k in range(ln + 1):
            for pos in itertools.combinations(range(ln), k):
                for vals in itertools.combinations_with_replacement(range(n), ln - k):
                    it = iter(vals)
                    out.append([None if i in pos else next(it) for i in range(ln)])
    return out


def inst(m, inv):
    return [inv if x is None else x for x in m]


SMALL_SRC = {  # n -> per type source columns (model codes); distinct non-empty values plus one empty-valued row
    "int32": [10, 0, 30, 40],
    "bool": [1, 0, 1, 1],
    "float64": [15, 25, 0, 45],
    "S3": [7, 123, 0, 45],
}
SMALL_ENTRIES = ["a", "", "bcd", "ef"]


def mk_stream(stype, src, m, inv, cs, k, **ann):
    c = {"op": "map_stream", "stype": stype, "src": src, "map": m, "inv": inv, "cs": cs, "mdtype": mdtype_for(inv, k),
         "_n": k}
    c.update(ann)
    return c


def eff_vf(case):
    """the value factor a case runs with: `"auto"` = the `value_factor=None` default of ordered_map_valid_indexed_stream (fix
    NC02c: at least 8, and large enough for the longest entry of the source — `MapValid.autoValueFactor 8` of the model)"""
    if case["vf"] != "auto":
        return case["vf"]
    longest = max([len(x.encode()) for x in case["entries"]] + [0])
    return max(8, -(-longest // max(case["cs"], 1)))


def auto_vf_cases():
    """value_factor left to the stream itself: sources whose longest entry sits in the last row of a sizing chunk
    (row ≡ cs-1 mod cs), in the last row of the column, in the first row, and nowhere (all short); every entry mapped"""
    out = []
    k = 880000
    for cs in (1, 2, 3, 4):
        for n in (cs, cs + 1, 2 * cs, 2 * cs + 1, 3 * cs):
            for pos in sorted({0, cs - 1, n - 1, min(2 * cs - 1, n - 1), n // 2}):
                if pos >= n:
                    continue
                k += 1
                entries = ["e%d" % i for i in range(n)]
                entries[pos] = "L" * (8 * cs + 5 + pos)          # longer than the floor buffer of 8 * cs bytes
                m = list(range(n)) + [pos]
                out.append(mk_indexed(entries, m, [-1, (1 << 31) - 1, 1 << 62][k % 3], cs, "auto", k, _auto=1))
    return out


def mk_indexed(entries, m, inv, cs, vf, k, **ann):
    c = {"op": "map_indexed_stream", "entries": entries, "map": m, "inv": inv, "cs": cs, "vf": vf,
         "mdtype": mdtype_for(inv, k), "_n": k}
    c.update(ann)
    return c


def gen_cases(tier, rng):
    from checks import corpus
    cases = list(corpus.load("C04")) + auto_vf_cases()
    L, n = (4, 3) if tier == "quick" else (6, 4)
    maps = small_maps(L, n)
    k = 0
    for m0 in maps:
        for inv in MARKERS:
            m = inst(m0, inv)
            for cs in range(1, L + 3):
                if tier == "quick" and cs == L + 1:
                    continue                # quick: chunk sizes 1..L and L+2 (one chunk with room to spare)
                for stype in STYPES:
                    if tier == "thorough" and len(m) == L and (k % 2) and stype in ("float64", "bool"):
                        k += 1
                        continue            # thin out the largest layer for the two least distinctive types
                    k += 1
                    cases.append(mk_stream(stype, SMALL_SRC[stype][:n], m, inv, cs, k))
                for vf in (1, 2, 8):
                    if tier == "quick" and cs > 3 and vf == 2:
                        continue            # quick: with cs > 3 the buffers 2*cs and 8*cs both hold every small entry
                    k += 1
                    cases.append(mk_indexed(SMALL_ENTRIES[:n], m, inv, cs, vf, k))
            # helper kernels, once per (map, marker)
            for cs in (1, 2, 3):
                k += 1
                cases.append({"op": "map_subchunks", "map": m, "inv": inv, "cs": cs, "mdtype": mdtype_for(inv, k), "_n": k})
            if inv == -1 or len(m) <= 3:
                for sm in range(len(m) + 1):
                    k += 1
                    cases.append({"op": "next_map_subchunk", "map": m, "sm": sm, "inv": inv, "cs": 2,
                                  "mdtype": mdtype_for(inv, k), "_n": k})
                for s in range(len(m)):
                    for e in range(s + 1, len(m) + 1):
                        k += 1
                        cases.append({"op": "extents", "map": m, "start": s, "end": e, "inv": inv,
                                      "mdtype": mdtype_for(inv, k), "_n": k})
        # non-streaming helpers on the same maps (marker -1 and INV64 alternate)
        inv = MARKERS[k % 3]
        m = inst(m0, inv)
        st = STYPES[k % 4]
        k += 1
        cases.append({"op": "safe_map_values", "stype": st, "src": SMALL_SRC[st][:n], "map": m, "inv": inv,
                      "filter": [x != inv for x in m], "empty": None, "mdtype": mdtype_for(inv, k), "_n": k})
        cases.append({"op": "map_valid", "stype": st, "src": SMALL_SRC[st][:n], "map": m, "inv": inv, "result": None,
                      "mdtype": mdtype_for(inv, k), "_n": k})
        cases.append({"op": "safe_map_indexed_values", "entries": SMALL_ENTRIES[:n], "map": m, "inv": inv,
                      "filter": [x != inv for x in m], "empty": None, "mdtype": mdtype_for(inv, k), "_n": k})
    cases.extend(random_cases(tier, rng))
    cases.extend(malformed_cases(tier, rng))
    return cases


def rand_map(rng, ln, nsrc, inv, cs):
    """valid entries non-decreasing over range(nsrc); markers leading / trailing / whole chunks / alternating / sparse"""
    style = rng.choice(["sparse", "dense", "alternating", "blocks", "none", "all", "edges"])
    m, cur = [], rng.randrange(0, max(1, min(nsrc, 3)))
    i = 0
    lead = rng.choice([0, 0, 1, cs - 1, cs, cs + 1, 2 * cs]) if style in ("edges", "blocks") else 0
    trail = rng.choice([0, 1, cs - 1, cs, cs + 1, 2 * cs]) if style in ("edges", "blocks") else 0
    while i < ln:
        if style == "all" or i < lead or i >= ln - trail:
            m.append(inv)
            i += 1
            continue
        if style == "alternating" and i % 2 == 1:
            m.append(inv)
            i += 1
            continue
        if style == "blocks" and rng.random() < 0.15:
            run = rng.choice([1, cs - 1, cs, cs + 1, 2 * cs + 1])
            for _ in range(max(1, run)):
                if i < ln:
                    m.append(inv)
                    i += 1
            continue
        if style == "sparse" and rng.random() < 0.2:
            m.append(inv)
            i += 1
            continue
        if style == "dense" and rng.random() < 0.7:
            m.append(inv)
            i += 1
            continue
        if nsrc == 0:
            m.append(inv)
            i += 1
            continue
        # advance the source position: repeats, unit steps, gaps around / beyond the chunk size
        step = rng.choice([0, 0, 1, 1, 1, 2, cs - 1, cs, cs + 1, 3 * cs])
        cur = min(nsrc - 1, cur + max(0, step))
        m.append(cur)
        i += 1
    return m


def rand_entries(rng, n, cap):
    out = []
    for _ in range(n):
        ln = rng.choice([0, 0, 1, 1, 2, 3, cap - 1, cap, cap, max(0, cap // 2)])
        ln = max(0, min(ln, 40))
        out.append("".join(rng.choice("abcdefghijklmnopqrstuvwxyz") for _ in range(ln)))
    return out


def random_cases(tier, rng):
    out = []
    nrand = 1500 if tier == "quick" else 12000
    big = 400 if tier == "quick" else 5000
    for t in range(nrand):
        cs = rng.choice([1, 2, 3, 4, 5, 7, 8, 16, 33, 64, 1 << 20])
        inv = rng.choice(MARKERS)
        huge = rng.random() < 0.03
        ln = rng.randrange(0, big) if huge else rng.randrange(0, 60)
        nsrc = rng.choice([0, 1, 2, 5, 17, 50, 200]) if not huge else rng.randrange(1, big)
        m = rand_map(rng, ln, nsrc, inv, min(cs, 64))
        kind = rng.random()
        if kind < 0.45:
            stype = rng.choice(STYPES)
            if stype == "bool":
                src = [rng.randrange(2) for _ in range(nsrc)]
            elif stype == "S3":
                src = [rng.choice([0, rng.randrange(1, 1000)]) if rng.random() < 0.2 else rng.randrange(1, 1000)
                       for _ in range(nsrc)]
            else:
                src = [rng.choice([0, rng.randrange(-50, 1000)]) if rng.random() < 0.1 else rng.randrange(-50, 1000)
                       for _ in range(nsrc)]
            out.append(mk_stream(stype, src, m, inv, cs, t, _rand=1))
        elif kind < 0.85:
            vf = rng.choice([1, 2, 3, 8])
            cap = min(cs, 64) * vf
            entries = rand_entries(rng, nsrc, min(cap, 24) if cs <= 64 else 24)
            out.append(mk_indexed(entries, m, inv, cs, vf, t, _rand=1))
        elif kind < 0.90:
            stype = rng.choice(STYPES)
            src = [rng.randrange(2) if stype == "bool" else rng.randrange(1, 1000) for _ in range(nsrc)]
            filt = [x != inv and rng.random() < 0.9 for x in m]
            empty = None if stype == "S3" or rng.random() < 0.5 else (rng.randrange(2) if stype == "bool" else rng.randrange(1, 99))
            out.append({"op": "safe_map_values", "stype": stype, "src": src, "map": m, "inv": inv, "filter": filt,
                        "empty": empty, "mdtype": mdtype_for(inv, t), "_n": t, "_rand": 1})
        elif kind < 0.95:
            stype = rng.choice(["int32", "float64", "bool"])
            src = [rng.randrange(2) if stype == "bool" else rng.randrange(1, 1000) for _ in range(nsrc)]
            res = None if rng.random() < 0.5 else [rng.randrange(2) if stype == "bool" else rng.randrange(1, 99) for _ in m]
            out.append({"op": "map_valid", "stype": stype, "src": src, "map": m, "inv": inv, "result": res,
                        "mdtype": mdtype_for(inv, t), "_n": t, "_rand": 1})
        else:
            entries = rand_entries(rng, nsrc, 6)
            filt = [x != inv and rng.random() < 0.9 for x in m]
            empty = None if rng.random() < 0.5 else [rng.randrange(97, 100) for _ in range(rng.randrange(0, 3))]
            out.append({"op": "safe_map_indexed_values", "entries": entries, "map": m, "inv": inv, "filter": filt,
                        "empty": empty, "mdtype": mdtype_for(inv, t), "_n": t, "_rand": 1})
    # value-chunk decomposition on random offset tables
    for t in range(200 if tier == "quick" else 2000):
        n = rng.randrange(1, 24)
        lens = [rng.choice([0, 1, 2, 3, 8, 20]) for _ in range(n)]
        idx = [0]
        for x in lens:
            idx.append(idx[-1] + x)
        s = rng.randrange(0, n)
        e = rng.randrange(s + 1, n + 1)
        out.append({"op": "decomposition", "indices": idx, "budget": rng.choice([0, 1, 2, 4, 8, 16, 64]), "start": s,
                    "end": e, "_n": t, "_rand": 1})
    return out


def malformed_cases(tier, rng):
    """inputs outside the property's regime: the error branches of model and code must coincide. Out-of-range reads are
    undefined under the unchecked JIT, so these cases always run the kernels interpreted (see `impl`)."""
    out = []
    n = 60 if tier == "quick" else 600
    for t in range(n):
        cs = rng.choice([1, 2, 3, 4, 8])
        inv = rng.choice(MARKERS)
        nsrc = rng.randrange(1, 6)
        ln = rng.randrange(1, 8)
        kind = t % 4
        if kind == 0:      # an index beyond the source
            m = sorted(rng.randrange(0, nsrc) for _ in range(ln))
            m[-1] = nsrc + rng.randrange(0, 2)
        elif kind == 1:    # non-monotone
            m = [rng.randrange(0, nsrc) for _ in range(ln)]
        elif kind == 2:    # an entry longer than the value buffer (D5): must be a ValueError, never a spin
            m = sorted(rng.randrange(0, nsrc) for _ in range(ln))
        else:              # markers of another convention present as "valid" negative entries
            m = [rng.choice([-1, rng.randrange(0, nsrc)]) for _ in range(ln)]
            inv = INV64
        for j in range(ln):
            if rng.random() < 0.2:
                m[j] = inv
        # a map that steps back (kind 1) is a VALID input since fix NC02a: the map of the side that does not drive an m:n
        # ordered join repeats a run of rows per duplicate key ([0,1,2,0,1,2]); next_map_subchunk ends a sub-chunk at every
        # step back, so the property's answer is required (and no access outside the source window: `_boundary` makes C10
        # always include these)
        tag = {"_stepback": 1, "_boundary": 1} if kind == 1 else {"_malformed": 1}
        if kind == 2:
            vf = rng.choice([1, 2])
            entries = rand_entries(rng, nsrc, 4)
            entries[rng.randrange(nsrc)] = "x" * (cs * vf + rng.randrange(1, 4))
            out.append(mk_indexed(entries, m, inv, cs, vf, t, **tag))
        elif t % 8 < 4:
            out.append(mk_stream("int32", [rng.randrange(1, 99) for _ in range(nsrc)], m, inv, cs, t, **tag))
        else:
            out.append(mk_indexed(rand_entries(rng, nsrc, 4), m, inv, cs, 8, t, **tag))
    return out


# ------------------------------------------------------------------------------------------------------------------
# what is sent to the Lean driver
# ------------------------------------------------------------------------------------------------------------------

def to_model(case):
    c = {k: v for k, v in case.items() if not k.startswith("_")}
    if "entries" in c:
        if c.get("vf") == "auto":
            c["vf"] = eff_vf(case)
        c["indices"] = offsets(c["entries"])
        c["values"] = flat_bytes(c["entries"])
        del c["entries"]
    return c


# ------------------------------------------------------------------------------------------------------------------
# implementation (runs in worker processes)
# ------------------------------------------------------------------------------------------------------------------
_S = {}
KERNELS = ["next_map_subchunk", "get_valid_value_extents", "ordered_map_valid_partial",
           "ordered_map_valid_indexed_partial", "safe_map_values", "safe_map_indexed_values", "map_valid"]


def _env():
    if not _S:
        import numpy as np
        from exetera.core import operations as ops, fields
        from exetera.core.session import Session
        _S.update(np=np, ops=ops, fields=fields, s=Session())
    return _S


class interpreted:
    """run the njit kernels of this property as plain Python (numba's .py_func) — used for malformed inputs only"""

    def __enter__(self):
        ops = _env()["ops"]
        self.saved = {}
        for k in KERNELS:
            f = getattr(ops, k)
            if hasattr(f, "py_func"):
                self.saved[k] = f
                setattr(ops, k, f.py_func)

    def __exit__(self, *a):
        ops = _env()["ops"]
        for k, f in self.saved.items():
            setattr(ops, k, f)


class StepBudgetExceeded(Exception):
    pass


class step_budget:
    """deterministic rendering of "spins forever" for the indexed stream: every call of the partial kernel consumes a map
    entry or moves to the next value sub-chunk, so a terminating run makes at most len(map) * (len(source) + 2) calls;
    the module attribute is wrapped from outside (no hook in /repo) and a run exceeding the budget is reported as hang"""

    def __init__(self, budget):
        self.budget = budget

    def __enter__(self):
        ops = _env()["ops"]
        cur = ops.ordered_map_valid_indexed_partial
        # a wrapper left behind by a case that was interrupted between __enter__ and __exit__ (the per-case alarm) must not be
        # wrapped again: its exhausted counter would turn every later case of this worker into a `hang`
        self.orig = getattr(cur, "_verif_orig", cur)
        state = {"n": 0}
        orig, budget = self.orig, self.budget

        def counted(*a):
            state["n"] += 1
            if state["n"] > budget:
                raise StepBudgetExceeded()
            return orig(*a)
        counted._verif_orig = orig
        ops.ordered_map_valid_indexed_partial = counted

    def __exit__(self, *a):
        _env()["ops"].ordered_map_valid_indexed_partial = self.orig


def src_array(e, stype, src):
    np = e["np"]
    return np.array([real_value(stype, v) for v in src], dtype=stype)


def src_field(e, stype, src):
    fields, s = e["fields"], e["s"]
    f = fields.FixedStringMemField(s, int(stype[1:])) if stype.startswith("S") else fields.NumericMemField(s, stype)
    if src:
        f.data.write(src_array(e, stype, src))
    return f


def map_array(e, case):
    return e["np"].array(case["map"], dtype=case.get("mdtype", "int64"))


def impl(case):
    try:
        return impl__(case)
    except StepBudgetExceeded:
        return {"err": "hang", "msg": "ordered_map_valid_indexed_partial called more often than any terminating run can"}


def impl__(case):
    if case.get("_malformed") and os.environ.get("USE_NUMBA", "").lower() != "false" \
            and not os.environ.get("NUMBA_BOUNDSCHECK"):
        _env()
        with interpreted():
            return impl_(case)
    return impl_(case)


def impl_(case):
    e = _env()
    np, ops, fields, s = e["np"], e["ops"], e["fields"], e["s"]
    op = case["op"]
    if op == "map_stream":
        st = case["stype"]
        src = src_field(e, st, case["src"])
        mf = fields.NumericMemField(s, case["mdtype"])
        if case["map"]:
            mf.data.write(map_array(e, case))
        dest = fields.FixedStringMemField(s, int(st[1:])) if st.startswith("S") else fields.NumericMemField(s, st)
        ops.ordered_map_valid_stream(src, mf, dest, case["inv"], case["cs"])
        d = dest.data[:]
        return {"data": [canon_value(st, x) for x in d.tolist()], "dtype": str(d.dtype) if len(d) else st}
    if op == "map_indexed_stream":
        src = fields.IndexedStringMemField(s)
        src.data.write(case["entries"])
        mf = fields.NumericMemField(s, case["mdtype"])
        if case["map"]:
            mf.data.write(map_array(e, case))
        dest = fields.IndexedStringMemField(s)
        with step_budget(len(case["map"]) * (len(case["entries"]) + 2) + 16):
            if case["vf"] == "auto":
                ops.ordered_map_valid_indexed_stream(src, mf, dest, case["inv"], case["cs"])
            else:
                ops.ordered_map_valid_indexed_stream(src, mf, dest, case["inv"], case["cs"], case["vf"])
        return {"indices": [int(x) for x in dest.indices[:].tolist()], "values": [int(x) for x in dest.values[:].tolist()]}
    if op == "next_map_subchunk":
        return {"r": int(ops.next_map_subchunk(map_array(e, case), case["sm"], case["inv"], case["cs"]))}
    if op == "map_subchunks":
        r = ops.get_map_subchunks_based_on_index_lengths(map_array(e, case), case["inv"], case["cs"])
        return {"r": [[int(a), int(b)] for a, b in r]}
    if op == "extents":
        a, b = ops.get_valid_value_extents(map_array(e, case), case["start"], case["end"], case["inv"])
        return {"r": [int(a), int(b)]}
    if op == "decomposition":
        r = []
        ops.calculate_chunk_decomposition(case["start"], case["end"], np.array(case["indices"], dtype=np.int64),
                                          case["budget"], r)
        return {"r": [[int(a), int(b)] for a, b in r]}
    if op == "safe_map_values":
        st = case["stype"]
        empty = None if case["empty"] is None else np.dtype(st).type(real_value(st, case["empty"]))
        r = ops.safe_map_values(src_array(e, st, case["src"]), map_array(e, case), np.array(case["filter"], dtype=bool),
                                empty)
        return {"data": [canon_value(st, x) for x in r.tolist()], "dtype": str(r.dtype)}
    if op == "map_valid":
        st = case["stype"]
        res = None if case["result"] is None else np.array([real_value(st, v) for v in case["result"]], dtype=st)
        r = ops.map_valid(src_array(e, st, case["src"]), map_array(e, case), res, case["inv"])
        return {"data": [canon_value(st, x) for x in r.tolist()], "dtype": str(r.dtype)}
    if op == "safe_map_indexed_values":
        idx = np.array(offsets(case["entries"]), dtype=np.int64)
        vals = np.array(flat_bytes(case["entries"]), dtype=np.uint8)
        empty = None if case["empty"] is None else np.array(case["empty"], dtype=np.uint8)
        i, v = ops.safe_map_indexed_values(idx, vals, map_array(e, case), np.array(case["filter"], dtype=bool), empty)
        return {"indices": [int(x) for x in i.tolist()], "values": [int(x) for x in v.tolist()]}
    raise ValueError("unknown op " + op)


# ------------------------------------------------------------------------------------------------------------------
# comparison with the model
# ------------------------------------------------------------------------------------------------------------------

def compare(case, io, mo, mode):
    if "err" in io or "err" in mo:
        a, b = io.get("err"), mo.get("err")
        return None if a == b else f"impl {'err=' + a if a else 'ok ' + repr(io)[:200]}  model {'err=' + b if b else 'ok ' + repr(mo)[:200]}"
    m = mo["ok"]
    op = case["op"]
    if op in ("map_stream", "safe_map_values", "map_valid"):
        exp = [model_value(case["stype"], v) for v in m]
        return None if io["data"] == exp else f"impl {io['data'][:40]}  model {exp[:40]}"
    if op in ("map_indexed_stream", "safe_map_indexed_values"):
        if io["indices"] != m["indices"] or io["values"] != m["values"]:
            return f"impl indices={io['indices'][:40]} values={io['values'][:60]}  model indices={m['indices'][:40]} values={m['values'][:60]}"
        return None
    return None if io["r"] == m else f"impl {io['r']}  model {m}"


# ------------------------------------------------------------------------------------------------------------------
# the property's oracle (Python rendering of Spec/MapValid.lean)
# ------------------------------------------------------------------------------------------------------------------

def in_regime(case, nsrc, need_monotone):
    """every valid entry names a source row. (`need_monotone` is kept for the call sites' documentation only: since fix NC02a
    the streamed mappers end a sub-chunk at every step back, and the property has no monotonicity premise, so a map that
    steps back is inside the regime.)"""
    m, inv = case["map"], case["inv"]
    valid = [x for x in m if x != inv]
    if any(x < 0 or x >= nsrc for x in valid):
        return False
    return True


def map_spec(src, m, inv, empty):
    return [empty if k == inv else src[k] for k in m]


def check_spec(case, io, mode):
    op = case["op"]
    if op == "map_stream":
        if not in_regime(case, len(case["src"]), True) or case["cs"] < 1:
            return None
        if "err" in io:
            return f"raised {io['err']} ({io.get('msg', '')}) instead of returning the mapped column"
        st = case["stype"]
        exp = map_spec([canon_value(st, real_value(st, v)) for v in case["src"]], case["map"], case["inv"],
                       canon_value(st, real_value(st, 0)))
        if io["data"] != exp:
            bad = next((r for r in range(min(len(exp), len(io["data"]))) if exp[r] != io["data"][r]), None)
            return (f"destination differs from the mapped column (len {len(io['data'])} vs {len(exp)}, first bad row {bad}): "
                    f"got {io['data'][:30]} expected {exp[:30]}")
        if exp and io.get("dtype") != st and not (st.startswith("S") and io.get("dtype", "").endswith(st)):
            return f"destination dtype {io.get('dtype')} != source dtype {st}"
        return None
    if op == "map_indexed_stream":
        ents = case["entries"]
        if not in_regime(case, len(ents), True) or case["cs"] < 1:
            return None
        cap = case["cs"] * eff_vf(case)
        if any(len(x.encode()) > cap for x in ents):
            # outside "value buffer can hold the longest entry": a clear error is fine, a spin is not
            if io.get("err") == "hang":
                return "did not terminate: an entry is longer than chunksize*value_factor"
            if "err" in io:
                return None if io["err"] == "value_error" else f"raised {io['err']} ({io.get('msg', '')})"
        if "err" in io:
            return f"raised {io['err']} ({io.get('msg', '')}) instead of returning the mapped column"
        exp = map_spec(ents, case["map"], case["inv"], "")
        if io["indices"] != offsets(exp) or io["values"] != flat_bytes(exp):
            return (f"destination differs from the mapped indexed column: got indices={io['indices'][:30]} "
                    f"values={bytes(io['values'][:60])!r} expected indices={offsets(exp)[:30]} "
                    f"values={bytes(flat_bytes(exp)[:60])!r}")
        return None
    if op in ("safe_map_values", "map_valid"):
        st = case["stype"]
        if not in_regime(case, len(case["src"]), False):
            return None
        if "err" in io:
            return f"raised {io['err']} ({io.get('msg', '')}) instead of returning the mapped column"
        src = [canon_value(st, real_value(st, v)) for v in case["src"]]
        zero = canon_value(st, real_value(st, 0))
        if op == "safe_map_values":
            e = zero if case["empty"] is None else canon_value(st, real_value(st, case["empty"]))
            exp = [src[k] if f else e for k, f in zip(case["map"], case["filter"])]
        else:
            base = [zero] * len(case["map"]) if case["result"] is None else \
                [canon_value(st, real_value(st, v)) for v in case["result"]]
            exp = [b if k == case["inv"] else src[k] for k, b in zip(case["map"], base)]
        return None if io["data"] == exp else f"got {io['data'][:30]} expected {exp[:30]}"
    if op == "safe_map_indexed_values":
        ents = case["entries"]
        if not in_regime(case, len(ents), False):
            return None
        if "err" in io:
            return f"raised {io['err']} ({io.get('msg', '')}) instead of returning the mapped column"
        e = bytes(case["empty"] or [])
        exp = [ents[k].encode() if f else e for k, f in zip(case["map"], case["filter"])]
        off, ix = 0, [0]
        for x in exp:
            off += len(x)
            ix.append(off)
        vals = [b for x in exp for b in x]
        if io["indices"] != ix or io["values"] != vals:
            return f"got indices={io['indices'][:30]} values={io['values'][:40]} expected indices={ix[:30]} values={vals[:40]}"
        return None
    return None          # helper kernels: the property does not speak about them, the correspondence does


def match_finding(case, io, mode):
    return None          # no open finding for C04: D5, D9, D10, D11, D12, NC04a are repaired (fixes/*.patch)


# ------------------------------------------------------------------------------------------------------------------
# coverage
# ------------------------------------------------------------------------------------------------------------------

def nontrivial(case, mo):
    m = case.get("map")
    if m is None:
        return True
    inv = case.get("inv")
    has_v = any(x != inv for x in m)
    has_i = any(x == inv for x in m)
    return (has_v and has_i) or ("cs" in case and case["cs"] < len(m))


def classify(case, mo):
    tags = [case["op"]]
    m, inv = case.get("map"), case.get("inv")
    if "stype" in case:
        tags.append("type:" + case["stype"])
    if case["op"] == "map_indexed_stream":
        tags.append("type:indexed")
    if m is not None:
        tags.append("marker:" + {-1: "-1", INV32: "INV32", INV64: "INV64"}.get(inv, "other"))
        if not m:
            tags.append("empty-map")
        if m and m[-1] == inv and any(x != inv for x in m):
            tags.append("trailing-invalid")
        if m and m[0] == inv and any(x != inv for x in m):
            tags.append("leading-invalid")
        cs = case.get("cs")
        if cs:
            if cs < len(m):
                tags.append("multi-chunk")
            valid = [x for x in m if x != inv]
            if any(b - a >= cs for a, b in zip(valid, valid[1:])):
                tags.append("gap>=cs")
            if any(all(x == inv for x in m[i:i + cs]) for i in range(0, len(m), cs)) and valid:
                tags.append("whole-chunk-invalid")
    if case.get("_malformed"):
        tags.append("malformed")
    if mo and "err" in mo:
        tags.append("model-err:" + mo["err"])
    return tags


def select_for_mode(case, mode, tier):
    if case.get("_malformed") or case.get("_corpus") or case.get("_stepback"):
        return True
    m = case.get("map") or []
    if case.get("_rand"):
        return len(m) <= 80 and case.get("_n", 0) % 3 == 0
    return case.get("_n", 0) % 4 == 0


# ------------------------------------------------------------------------------------------------------------------
# worker warm-up: import ExeTera and compile every kernel signature the cases use *before* the per-case alarm of
# checks/worker.py is armed (an alarm firing inside `import pandas` or a numba compilation leaves the process broken)
# ------------------------------------------------------------------------------------------------------------------

def _warm_up():
    _env()
    k = 0
    for inv in (-1,):                      # numba specialises on types only: every marker is a Python int (int64)
        for md in ("int32", "int64"):
            m = [0, inv, 1]
            for st in STYPES:
                for c in (mk_stream(st, SMALL_SRC[st][:3], m, inv, 2, k),
                          {"op": "safe_map_values", "stype": st, "src": SMALL_SRC[st][:3], "map": m, "inv": inv,
                           "filter": [True, False, True], "empty": None},
                          {"op": "safe_map_values", "stype": st, "src": SMALL_SRC[st][:3], "map": m, "inv": inv,
                           "filter": [True, False, True], "empty": None if st == "S3" else 1},
                          {"op": "map_valid", "stype": st, "src": SMALL_SRC[st][:3], "map": m, "inv": inv, "result": None},
                          {"op": "map_valid", "stype": st, "src": SMALL_SRC[st][:3], "map": m, "inv": inv,
                           "result": None if st == "S3" else [1, 1, 1]}):
                    c["mdtype"] = md
                    try:
                        impl_(c)
                    except Exception:   # noqa
                        pass
            for c in (mk_indexed(SMALL_ENTRIES[:3], m, inv, 2, 2, k),
                      {"op": "safe_map_indexed_values", "entries": SMALL_ENTRIES[:3], "map": m, "inv": inv,
                       "filter": [True, False, True], "empty": None},
                      {"op": "safe_map_indexed_values", "entries": SMALL_ENTRIES[:3], "map": m, "inv": inv,
                       "filter": [True, False, True], "empty": [97]},
                      {"op": "next_map_subchunk", "map": m, "sm": 0, "inv": inv, "cs": 2},
                      {"op": "map_subchunks", "map": m, "inv": inv, "cs": 2},
                      {"op": "extents", "map": m, "start": 0, "end": 3, "inv": inv}):
                c["mdtype"] = md
                try:
                    impl_(c)
                except Exception:   # noqa
                    pass


import sys  # noqa: E402
if sys.argv and sys.argv[0].endswith("worker.py"):
    try:
        _warm_up()
    except Exception:   # noqa
        pass


# the TRANSLATED kernels (Gen/Kernels.lean) are executed against the real kernels on cases derived from the ones above
from checks.harness import genkernels  # noqa: E402
genkernels.install(globals(), "C04")
