import Exetera.Gen.Kernels
import Exetera.Model.Join
import Exetera.Lemmas.GenKernels
import Exetera.Lemmas.GenKernelsJoin
import Exetera.Lemmas.GenKernelsJoinGeneral
import Exetera.Lemmas.GenKernelsJoinInnerUnique
/-!
  The TRANSLATED left-unique / right-unique LEFT join kernels against the guard/body models of `Model/Join.lean`:

    generate_ordered_map_to_left_left_unique_partial     ~  runPartial .leftLU   (both result buffers)
    generate_ordered_map_to_left_right_unique_partial    ~  runPartial .leftRU   (r_result only: the model's `lb` is not observed)

  Same simulation relation as for the other kernels (`buffer[:r]` = the model's list, capacities and loop variables equal);
  `whileE_sim` lifts the one-iteration lemmas.
-/
namespace Exetera.GenK

open Exetera Exetera.PyRt Exetera.Gen.Kernels Exetera.Join

/-! ### generate_ordered_map_to_left_left_unique_partial -/

namespace LLU

abbrev St := generate_ordered_map_to_left_left_unique_partial.St

abbrev mk (p : P) (l3 l4 : List Int) (i j r : Int) : St :=
  ⟨p.left, p.right, (p.jMax : Int), l3, l4, p.inv, (p.iOff : Int), (p.jOff : Int), i, j, r⟩

def R (p : P) (s : St) (k : K) : Prop :=
  ∃ l3 l4, s = mk p l3 l4 k.i k.j k.rb.length ∧ l3.length = p.cap ∧ l4.length = p.cap ∧ k.lb.length = k.rb.length ∧
    l3.take k.rb.length = k.lb ∧ l4.take k.rb.length = k.rb

theorem guard_eq (p : P) (s : St) (k : K) (h : R p s k) :
    generate_ordered_map_to_left_left_unique_partial.guard_L1 s = partialGuard .leftLU p k := by
  obtain ⟨l3, l4, rfl, h3l, _⟩ := h
  have h0 : generate_ordered_map_to_left_left_unique_partial.guard_L1 (mk p l3 l4 k.i k.j k.rb.length)
      = (decide ((k.i : Int) < (p.left.length : Int)) && (decide ((k.j : Int) < (p.jMax : Int)) &&
          decide ((k.rb.length : Int) < (l3.length : Int)))) := rfl
  rw [h0, h3l]
  simp only [partialGuard]
  rw [Bool.eq_iff_iff]
  simp only [Bool.and_eq_true, decide_eq_true_eq]
  have hr : k.r = k.rb.length := rfl
  omega

theorem body_sim (p : P) (s : St) (k k' : K) (h : R p s k) (hb : partialBody .leftLU p k = .ok k') :
    ∃ s', generate_ordered_map_to_left_left_unique_partial.body_L1 s = .ok s' ∧ R p s' k' := by
  obtain ⟨l3, l4, rfl, h3l, h4l, hll, ht3, ht4⟩ := h
  simp only [partialBody, uniqueBody, bind, Except.bind, pure, Except.pure, Variant.isLeft] at hb
  have e_i : (k.i : Int) + 1 = ((k.i + 1 : Nat) : Int) := by omega
  have e_j : (k.j : Int) + 1 = ((k.j + 1 : Nat) : Int) := by omega
  have e_r : (k.rb.length : Int) + 1 = ((k.rb.length + 1 : Nat) : Int) := by omega
  have e1 : (k.i : Int) + (p.iOff : Int) = ((k.i + p.iOff : Nat) : Int) := by omega
  have e2 : (k.j : Int) + (p.jOff : Int) = ((k.j + p.jOff : Nat) : Int) := by omega
  cases ha : getE p.left k.i "left[i]" with
  | error e => rw [ha] at hb; simp at hb
  | ok a =>
    rw [ha] at hb
    simp only [] at hb
    cases hbb : getE p.right k.j "right[j]" with
    | error e => rw [hbb] at hb; simp at hb
    | ok b =>
      rw [hbb] at hb
      simp only [] at hb
      have ha' : ∀ site, getE p.left k.i site = .ok a := fun site => Gen.getE_site site ha
      have hb' : ∀ site, getE p.right k.j site = .ok b := fun site => Gen.getE_site site hbb
      by_cases hlt : a < b
      · simp only [hlt, if_true] at hb
        cases hp : push p.cap k ((k.i + p.iOff : Nat) : Int) p.inv "result[r]" with
        | error e => rw [hp] at hb; simp at hb
        | ok k1 =>
          rw [hp] at hb
          simp only [Except.ok.injEq] at hb
          obtain ⟨hcap, hk1⟩ := push_inv hp
          subst hk1
          subst hb
          obtain ⟨q1, q2, q3, q4, q5⟩ := push_bufs ((k.i + p.iOff : Nat) : Int) p.inv h3l h4l hll ht3 ht4 hcap
          refine ⟨mk p (l3.set k.rb.length ((k.i + p.iOff : Nat) : Int)) (l4.set k.rb.length p.inv)
            ((k.i + 1 : Nat) : Int) k.j ((k.rb.length + 1 : Nat) : Int), ?_, _, _, ?_, q1, q2, q3, q4, q5⟩
          · simp only [generate_ordered_map_to_left_left_unique_partial.body_L1, idxE_nat, ha', hb', bindE_ok, hlt,
              decide_true, if_true, e1, setIdxE_nat, setE, show k.rb.length < l3.length by omega,
              show k.rb.length < l4.length by omega, e_i, e_r]
          · simp
      · simp only [hlt, if_false] at hb
        by_cases hgt : a > b
        · simp only [hgt, if_true, Except.ok.injEq] at hb
          subst hb
          refine ⟨mk p l3 l4 k.i ((k.j + 1 : Nat) : Int) k.rb.length, ?_, l3, l4, rfl, h3l, h4l, hll, ht3, ht4⟩
          simp only [generate_ordered_map_to_left_left_unique_partial.body_L1, idxE_nat, ha', hb', bindE_ok, hlt,
            decide_false, Bool.false_eq_true, if_false, hgt, decide_true, if_true, e_j]
        · simp only [hgt, if_false] at hb
          cases hp : push p.cap k ((k.i + p.iOff : Nat) : Int) ((k.j + p.jOff : Nat) : Int) "result[r]" with
          | error e => rw [hp] at hb; simp at hb
          | ok k1 =>
            rw [hp] at hb
            simp only [] at hb
            obtain ⟨hcap, hk1⟩ := push_inv hp
            subst hk1
            obtain ⟨q1, q2, q3, q4, q5⟩ := push_bufs ((k.i + p.iOff : Nat) : Int) ((k.j + p.jOff : Nat) : Int) h3l h4l hll ht3 ht4 hcap
            by_cases hend : k.j + 1 ≥ p.jMax
            · have hend' : decide (((k.j + 1 : Nat) : Int) ≥ (p.jMax : Int)) = true := by simp; omega
              simp only [hend, if_true, Except.ok.injEq] at hb
              subst hb
              refine ⟨mk p (l3.set k.rb.length ((k.i + p.iOff : Nat) : Int)) (l4.set k.rb.length ((k.j + p.jOff : Nat) : Int))
                ((k.i + 1 : Nat) : Int) ((k.j + 1 : Nat) : Int) ((k.rb.length + 1 : Nat) : Int), ?_, _, _, ?_, q1, q2, q3, q4, q5⟩
              · simp only [generate_ordered_map_to_left_left_unique_partial.body_L1, idxE_nat, ha', hb', bindE_ok, hlt,
                  decide_false, Bool.false_eq_true, if_false, hgt, e1, e2, setIdxE_nat, setE,
                  show k.rb.length < l3.length by omega, show k.rb.length < l4.length by omega, if_true, e_i, e_j, e_r, hend']
              · simp
            · have hend' : decide (((k.j + 1 : Nat) : Int) ≥ (p.jMax : Int)) = false := by simp; omega
              simp only [hend, if_false] at hb
              cases hb1 : getE p.right (k.j + 1) "right[j+1]" with
              | error e => rw [hb1] at hb; simp at hb
              | ok b1 =>
                rw [hb1] at hb
                simp only [] at hb
                have hb1' : ∀ site, getE p.right (k.j + 1) site = .ok b1 := fun site => Gen.getE_site site hb1
                by_cases hne : b1 = b
                · have hne' : (b1 != b) = false := by simp [hne]
                  simp only [hne', Bool.false_eq_true, if_false, Except.ok.injEq] at hb
                  subst hb
                  refine ⟨mk p (l3.set k.rb.length ((k.i + p.iOff : Nat) : Int)) (l4.set k.rb.length ((k.j + p.jOff : Nat) : Int))
                    k.i ((k.j + 1 : Nat) : Int) ((k.rb.length + 1 : Nat) : Int), ?_, _, _, ?_, q1, q2, q3, q4, q5⟩
                  · simp only [generate_ordered_map_to_left_left_unique_partial.body_L1, idxE_nat, ha', hb', bindE_ok, hlt,
                      decide_false, Bool.false_eq_true, if_false, hgt, e1, e2, setIdxE_nat, setE,
                      show k.rb.length < l3.length by omega, show k.rb.length < l4.length by omega, if_true, e_j, e_r, hend',
                      hb1', hne']
                  · simp
                · have hne' : (b1 != b) = true := by simp [hne]
                  simp only [hne', if_true, Except.ok.injEq] at hb
                  subst hb
                  refine ⟨mk p (l3.set k.rb.length ((k.i + p.iOff : Nat) : Int)) (l4.set k.rb.length ((k.j + p.jOff : Nat) : Int))
                    ((k.i + 1 : Nat) : Int) ((k.j + 1 : Nat) : Int) ((k.rb.length + 1 : Nat) : Int), ?_, _, _, ?_, q1, q2, q3, q4, q5⟩
                  · simp only [generate_ordered_map_to_left_left_unique_partial.body_L1, idxE_nat, ha', hb', bindE_ok, hlt,
                      decide_false, Bool.false_eq_true, if_false, hgt, e1, e2, setIdxE_nat, setE,
                      show k.rb.length < l3.length by omega, show k.rb.length < l4.length by omega, if_true, e_i, e_j, e_r, hend',
                      hb1', hne']
                  · simp

end LLU

/-- every `.ok` run of the model's left-join left-unique `_partial` kernel is a run of the translated kernel (same fuel) on buffers
    whose written prefixes are the model's lists -/
theorem left_left_unique_partial_ok (p : P) (k k' : K) (lbuf rbuf : List Int)
    (hl : lbuf.length = p.cap) (hr : rbuf.length = p.cap) (hlen : k.lb.length = k.rb.length)
    (h1 : lbuf.take k.rb.length = k.lb) (h2 : rbuf.take k.rb.length = k.rb)
    (h : runPartial .leftLU p k = .ok k') :
    ∃ lbuf' rbuf', generate_ordered_map_to_left_left_unique_partial.run p.left p.right p.jMax lbuf rbuf p.inv p.iOff p.jOff
        k.i k.j k.rb.length (partialFuel p) = .ok ((k'.i : Int), (k'.j : Int), (k'.rb.length : Int), lbuf', rbuf') ∧
      lbuf'.length = p.cap ∧ rbuf'.length = p.cap ∧ lbuf'.take k'.rb.length = k'.lb ∧ rbuf'.take k'.rb.length = k'.rb := by
  unfold runPartial at h
  obtain ⟨s', hw, hR⟩ := whileE_sim (LLU.R p) generate_ordered_map_to_left_left_unique_partial.guard_L1
    generate_ordered_map_to_left_left_unique_partial.body_L1 (partialGuard .leftLU p) (partialBody .leftLU p)
    (LLU.guard_eq p) (fun s t t' hR _ hb => LLU.body_sim p s t t' hR hb) (partialFuel p)
    (LLU.mk p lbuf rbuf k.i k.j k.rb.length) k k' ⟨lbuf, rbuf, rfl, hl, hr, hlen, h1, h2⟩ h
  obtain ⟨l3, l4, rfl, h3l, h4l, _, ht3, ht4⟩ := hR
  refine ⟨l3, l4, ?_, h3l, h4l, ht3, ht4⟩
  unfold generate_ordered_map_to_left_left_unique_partial.run
  have hw' : whileE generate_ordered_map_to_left_left_unique_partial.guard_L1
      generate_ordered_map_to_left_left_unique_partial.body_L1 (partialFuel p)
      (LLU.mk p lbuf rbuf k.i k.j k.rb.length) = .ok (LLU.mk p l3 l4 k'.i k'.j k'.rb.length) := hw
  simp only [LLU.mk] at hw'
  simp only [hw', bindE_ok]

/-! ### generate_ordered_map_to_left_right_unique_partial -/

namespace LRU

abbrev St := generate_ordered_map_to_left_right_unique_partial.St

abbrev mk (p : P) (l3 : List Int) (i j r : Int) : St :=
  ⟨p.left, (p.iMax : Int), p.right, l3, p.inv, (p.jOff : Int), i, j, r⟩

def R (p : P) (s : St) (k : K) : Prop :=
  ∃ l3, s = mk p l3 k.i k.j k.rb.length ∧ l3.length = p.cap ∧ l3.take k.rb.length = k.rb

theorem guard_eq (p : P) (s : St) (k : K) (h : R p s k) :
    generate_ordered_map_to_left_right_unique_partial.guard_L1 s = partialGuard .leftRU p k := by
  obtain ⟨l3, rfl, h3l, _⟩ := h
  have h0 : generate_ordered_map_to_left_right_unique_partial.guard_L1 (mk p l3 k.i k.j k.rb.length)
      = (decide ((k.i : Int) < (p.iMax : Int)) && (decide ((k.j : Int) < (p.right.length : Int)) &&
          decide ((k.rb.length : Int) < (l3.length : Int)))) := rfl
  rw [h0, h3l]
  simp only [partialGuard]
  rw [Bool.eq_iff_iff]
  simp only [Bool.and_eq_true, decide_eq_true_eq]
  have hr : k.r = k.rb.length := rfl
  omega

theorem push_buf {cap : Nat} {k : K} {l3 : List Int} (b : Int)
    (h3l : l3.length = cap) (ht3 : l3.take k.rb.length = k.rb) (hcap : k.rb.length < cap) :
    (l3.set k.rb.length b).length = cap ∧ (l3.set k.rb.length b).take (k.rb ++ [b]).length = k.rb ++ [b] := by
  refine ⟨by simpa using h3l, ?_⟩
  simp only [List.length_append, List.length_singleton]; rw [take_set_succ _ _ _ (by omega), ht3]

theorem body_sim (p : P) (s : St) (k k' : K) (h : R p s k) (hb : partialBody .leftRU p k = .ok k') :
    ∃ s', generate_ordered_map_to_left_right_unique_partial.body_L1 s = .ok s' ∧ R p s' k' := by
  obtain ⟨l3, rfl, h3l, ht3⟩ := h
  simp only [partialBody, uniqueBody, bind, Except.bind, pure, Except.pure, Variant.isLeft] at hb
  have e_i : (k.i : Int) + 1 = ((k.i + 1 : Nat) : Int) := by omega
  have e_j : (k.j : Int) + 1 = ((k.j + 1 : Nat) : Int) := by omega
  have e_r : (k.rb.length : Int) + 1 = ((k.rb.length + 1 : Nat) : Int) := by omega
  have e2 : (k.j : Int) + (p.jOff : Int) = ((k.j + p.jOff : Nat) : Int) := by omega
  cases ha : getE p.left k.i "left[i]" with
  | error e => rw [ha] at hb; simp at hb
  | ok a =>
    rw [ha] at hb
    simp only [] at hb
    cases hbb : getE p.right k.j "right[j]" with
    | error e => rw [hbb] at hb; simp at hb
    | ok b =>
      rw [hbb] at hb
      simp only [] at hb
      have ha' : ∀ site, getE p.left k.i site = .ok a := fun site => Gen.getE_site site ha
      have hb' : ∀ site, getE p.right k.j site = .ok b := fun site => Gen.getE_site site hbb
      by_cases hlt : a < b
      · simp only [hlt, if_true] at hb
        cases hp : push p.cap k ((k.i + p.iOff : Nat) : Int) p.inv "result[r]" with
        | error e => rw [hp] at hb; simp at hb
        | ok k1 =>
          rw [hp] at hb
          simp only [Except.ok.injEq] at hb
          obtain ⟨hcap, hk1⟩ := push_inv hp
          subst hk1
          subst hb
          obtain ⟨q1, q2⟩ := push_buf p.inv h3l ht3 hcap
          refine ⟨mk p (l3.set k.rb.length p.inv) ((k.i + 1 : Nat) : Int) k.j ((k.rb.length + 1 : Nat) : Int), ?_, _, ?_, q1, q2⟩
          · simp only [generate_ordered_map_to_left_right_unique_partial.body_L1, idxE_nat, ha', hb', bindE_ok, hlt,
              decide_true, if_true, setIdxE_nat, setE, show k.rb.length < l3.length by omega, e_i, e_r]
          · simp
      · simp only [hlt, if_false] at hb
        by_cases hgt : a > b
        · simp only [hgt, if_true, Except.ok.injEq] at hb
          subst hb
          refine ⟨mk p l3 k.i ((k.j + 1 : Nat) : Int) k.rb.length, ?_, l3, rfl, h3l, ht3⟩
          simp only [generate_ordered_map_to_left_right_unique_partial.body_L1, idxE_nat, ha', hb', bindE_ok, hlt,
            decide_false, Bool.false_eq_true, if_false, hgt, decide_true, if_true, e_j]
        · simp only [hgt, if_false] at hb
          cases hp : push p.cap k ((k.i + p.iOff : Nat) : Int) ((k.j + p.jOff : Nat) : Int) "result[r]" with
          | error e => rw [hp] at hb; simp at hb
          | ok k1 =>
            rw [hp] at hb
            simp only [] at hb
            obtain ⟨hcap, hk1⟩ := push_inv hp
            subst hk1
            obtain ⟨q1, q2⟩ := push_buf ((k.j + p.jOff : Nat) : Int) h3l ht3 hcap
            by_cases hend : k.i + 1 ≥ p.iMax
            · have hend' : decide (((k.i + 1 : Nat) : Int) ≥ (p.iMax : Int)) = true := by simp; omega
              simp only [hend, if_true, Except.ok.injEq] at hb
              subst hb
              refine ⟨mk p (l3.set k.rb.length ((k.j + p.jOff : Nat) : Int))
                ((k.i + 1 : Nat) : Int) ((k.j + 1 : Nat) : Int) ((k.rb.length + 1 : Nat) : Int), ?_, _, ?_, q1, q2⟩
              · simp only [generate_ordered_map_to_left_right_unique_partial.body_L1, idxE_nat, ha', hb', bindE_ok, hlt,
                  decide_false, Bool.false_eq_true, if_false, hgt, e2, setIdxE_nat, setE,
                  show k.rb.length < l3.length by omega, if_true, e_i, e_j, e_r, hend']
              · simp
            · have hend' : decide (((k.i + 1 : Nat) : Int) ≥ (p.iMax : Int)) = false := by simp; omega
              simp only [hend, if_false] at hb
              cases ha1 : getE p.left (k.i + 1) "left[i+1]" with
              | error e => rw [ha1] at hb; simp at hb
              | ok a1 =>
                rw [ha1] at hb
                simp only [] at hb
                have ha1' : ∀ site, getE p.left (k.i + 1) site = .ok a1 := fun site => Gen.getE_site site ha1
                by_cases hne : a1 = a
                · have hne' : (a1 != a) = false := by simp [hne]
                  simp only [hne', Bool.false_eq_true, if_false, Except.ok.injEq] at hb
                  subst hb
                  refine ⟨mk p (l3.set k.rb.length ((k.j + p.jOff : Nat) : Int))
                    ((k.i + 1 : Nat) : Int) k.j ((k.rb.length + 1 : Nat) : Int), ?_, _, ?_, q1, q2⟩
                  · simp only [generate_ordered_map_to_left_right_unique_partial.body_L1, idxE_nat, ha', hb', bindE_ok, hlt,
                      decide_false, Bool.false_eq_true, if_false, hgt, e2, setIdxE_nat, setE,
                      show k.rb.length < l3.length by omega, if_true, e_i, e_r, hend', ha1', hne']
                  · simp
                · have hne' : (a1 != a) = true := by simp [hne]
                  simp only [hne', if_true, Except.ok.injEq] at hb
                  subst hb
                  refine ⟨mk p (l3.set k.rb.length ((k.j + p.jOff : Nat) : Int))
                    ((k.i + 1 : Nat) : Int) ((k.j + 1 : Nat) : Int) ((k.rb.length + 1 : Nat) : Int), ?_, _, ?_, q1, q2⟩
                  · simp only [generate_ordered_map_to_left_right_unique_partial.body_L1, idxE_nat, ha', hb', bindE_ok, hlt,
                      decide_false, Bool.false_eq_true, if_false, hgt, e2, setIdxE_nat, setE,
                      show k.rb.length < l3.length by omega, if_true, e_i, e_j, e_r, hend', ha1', hne']
                  · simp

end LRU

/-- every `.ok` run of the model's left-join right-unique `_partial` kernel is a run of the translated kernel (same fuel) on a
    buffer whose written prefix is the model's `rb` (the kernel has no `l_result`) -/
theorem left_right_unique_partial_ok (p : P) (k k' : K) (rbuf : List Int)
    (hr : rbuf.length = p.cap) (h2 : rbuf.take k.rb.length = k.rb) (h : runPartial .leftRU p k = .ok k') :
    ∃ rbuf', generate_ordered_map_to_left_right_unique_partial.run p.left p.iMax p.right rbuf p.inv p.jOff
        k.i k.j k.rb.length (partialFuel p) = .ok ((k'.i : Int), (k'.j : Int), (k'.rb.length : Int), rbuf') ∧
      rbuf'.length = p.cap ∧ rbuf'.take k'.rb.length = k'.rb := by
  unfold runPartial at h
  obtain ⟨s', hw, hR⟩ := whileE_sim (LRU.R p) generate_ordered_map_to_left_right_unique_partial.guard_L1
    generate_ordered_map_to_left_right_unique_partial.body_L1 (partialGuard .leftRU p) (partialBody .leftRU p)
    (LRU.guard_eq p) (fun s t t' hR _ hb => LRU.body_sim p s t t' hR hb) (partialFuel p)
    (LRU.mk p rbuf k.i k.j k.rb.length) k k' ⟨rbuf, rfl, hr, h2⟩ h
  obtain ⟨l3, rfl, h3l, ht3⟩ := hR
  refine ⟨l3, ?_, h3l, ht3⟩
  unfold generate_ordered_map_to_left_right_unique_partial.run
  have hw' : whileE generate_ordered_map_to_left_right_unique_partial.guard_L1
      generate_ordered_map_to_left_right_unique_partial.body_L1 (partialFuel p)
      (LRU.mk p rbuf k.i k.j k.rb.length) = .ok (LRU.mk p l3 k'.i k'.j k'.rb.length) := hw
  simp only [LRU.mk] at hw'
  simp only [hw', bindE_ok]

end Exetera.GenK
