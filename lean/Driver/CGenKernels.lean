import Driver.Util
import Exetera.Gen.Kernels
/-!
  Driver op `gen_kernel`: runs a TRANSLATED kernel (`Gen/Kernels.lean`, regenerated from operations.py on every run) so that
  the harness can execute it against the real compiled kernel (checks/harness/genkernels.py).

    {"op":"gen_kernel","kernel":"apply_spans_first","args":[{"arr":[0,2,3]},{"arr":[7,8,9]},{"none":true}],"fuel":100}

  Arguments: {"int":n} {"bool":b} {"arr":[ints]} {"barr":[bools]} {"arr2":[[ints],…]} {"str":"…"} {"none":true}.  A subscript that was negative is reported
  as the error tag `negative_index` (the translated kernels treat it as an error branch, Python wraps around); an
  IndexError the kernel raises itself (`raise IndexError(...)`) carries `"raised": true` — unlike an out-of-range
  subscript it is defined behaviour of the compiled code too.
-/
open Lean Exetera Exetera.PyRt
namespace Driver.CGenKernels

def decodeVal (j : Json) : Except String Val :=
  match j.getObjVal? "int" with
  | .ok v => (fromJson? v : Except String Int).map Val.int
  | .error _ =>
  match j.getObjVal? "bool" with
  | .ok v => (fromJson? v : Except String Bool).map Val.bool
  | .error _ =>
  match j.getObjVal? "arr" with
  | .ok v => (fromJson? v : Except String (List Int)).map Val.arr
  | .error _ =>
  match j.getObjVal? "barr" with
  | .ok v => (fromJson? v : Except String (List Bool)).map Val.barr
  | .error _ =>
  match j.getObjVal? "arr2" with
  | .ok v => (fromJson? v : Except String (List (List Int))).map Val.arr2
  | .error _ =>
  match j.getObjVal? "str" with
  | .ok v => (fromJson? v : Except String String).map Val.str
  | .error _ =>
  match j.getObjVal? "none" with
  | .ok _ => .ok Val.none
  | .error _ => .error "bad argument"

partial def encodeVal : Val → Json
  | .none => Json.null
  | .int i => Json.num (JsonNumber.fromInt i)
  | .bool b => Json.bool b
  | .arr a => Driver.ints a
  | .barr a => Json.arr (a.map Json.bool).toArray
  | .arr2 a => Json.arr (a.map Driver.ints).toArray
  | .tup vs => Json.arr (vs.map encodeVal).toArray
  | .str s => Json.str s

def errOut : Err → Json
  | .oob site =>
    if site.startsWith "neg:" then Json.mkObj [("err", Json.str "negative_index")]
    else if site.startsWith "raise" then Json.mkObj [("err", Json.str "index_error"), ("raised", Json.bool true)]
    else Json.mkObj [("err", Json.str "index_error")]
  | e => Driver.errJson e

def handle : Driver.Handler := fun op j =>
  match op with
  | "gen_kernel" => some do
    let name ← Driver.get? String j "kernel"
    let argsJ ← Driver.get? (List Json) j "args"
    let args ← argsJ.mapM decodeVal
    let fuel := (Driver.get? Nat j "fuel").toOption.getD 0
    match Exetera.Gen.Kernels.dispatch name args fuel with
    | none => throw s!"kernel {name} is not translated (or was called with arguments of the wrong shape)"
    | some (.ok v) => pure (Driver.okJson (encodeVal v))
    | some (.error e) => pure (errOut e)
  | "gen_kernels_translated" => some (pure (Driver.okJson (toJson Exetera.Gen.Kernels.translated)))
  | _ => none

end Driver.CGenKernels
