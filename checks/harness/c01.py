"""C01 — field storage round-trip: what is written is what is read, now and after reopen.

Correspondence: the real field classes (memory-backed and HDF5-in-BytesIO, any chunk size, any partition into write_part
calls, in-session reads through the writeable and the read-only reader, and again after close + reopen) versus the Lean
model `Exetera.IndexedWriter.writeField / getSlice / getAll / getItem` and `Exetera.Storage.writeParts / storeKeyValues /
readDtype / reopenClass`.
Oracle for the property itself (check_spec): the written sequence — Python rendering of Spec/Storage.lean."""
import itertools
import os

PROPERTY = "C01"
LEVEL = "proof"
LEAN_MODULES = ["Exetera.Props.C01", "Exetera.Witness.C01"]
THEOREMS = []  # checks/obligations/C01.json
EXHAUSTIVE = {"quick": True, "thorough": True}
MODES = {"quick": ["jit"], "thorough": ["jit"], "search": ["jit"]}   # no @njit code on this path: one mode
CASE_TIMEOUT = 30
LEANCHECKER = True
RULE = ("indexed strings — exhaustive: every sequence over the alphabet {'', 'a', 'é' (2 bytes), 'xyz'} of length <= n "
        "(quick n=3, thorough n=5) x every composition of it into write_part calls (plus variants with empty parts "
        "inserted, and the single write() call) x chunk sizes 1,2,3,4,5,1<<20 x {memory, HDF5-in-BytesIO}; every case is "
        "read through data[:], every data[a:b] with 0<=a<=b<=n (+ out-of-range ones), every data[i], ~20 items with negative "
        "indices, None / negative / out-of-range bounds, steps 2,3,-1,-2 and 0, empty results (+ random ones; each int also as "
        "np.int64), indices[:], values[:], len(), with the writeable and the read-only reader, and again after close() + "
        "open_dataset(...,'r') on the same bytes; readers exhaustive: fields of 0..4 (thorough 6) rows of every kind x both "
        "backings read with EVERY slice whose start, stop are None or in [-n-2, n+2] and step in {None,1,2,3,-1,-2,-3,0} and "
        "every int in [-n-2, n+1]; the Lean spec of Python indexing (Spec/PySlice.lean) against Python's own list indexing on "
        "the same exhaustive scope plus random bounds up to +-2^63; plus seeded random sequences (quick <=60, thorough <=2000 entries) with 1-4 byte UTF-8 characters and entry "
        "lengths c-1,c,c+1 around the chunk size, random partitions with empty parts; histories of 2-4 write_part...complete "
        "rounds on one field with the same writer object, a new one, or after close + reopen 'r+'. Plain fields — numeric x "
        "{bool,int8..int64,uint8..uint64,float32,float64}, fixed strings, categorical (key stored and read back), "
        "timestamp: every composition of sequences of extreme values up to length 3 (thorough 4) x both backends, plus random. "
        "Non-trivial = a staging-buffer flush happened inside write_part (bytes or entries >= chunk size) or the partition "
        "has >= 2 parts or an empty part; distinct = distinct canonical case.")
ASSUMPTIONS = ["Python's slice.indices / range / list indexing are as rendered in Spec/PySlice.lean (compared with Python itself on every "
               "run, op c01_pyslice); numpy's and h5py's __getitem__ on a one-dimensional array follow them for every item they "
               "accept (compared on every plain-field case)",
               "h5py/HDF5 store and return arrays, attributes and variable-length strings faithfully, also across close/reopen "
               "(exercised by every HDF5 case, not proved)",
               "Python's UTF-8 codec: s.encode() / bytes.decode() are inverse on valid strings (entries are modelled as their bytes)",
               "numpy casting of ill-typed input is not modelled: parts are written with the field's own dtype",
               "offsets are unbounded naturals in the model: int64 wrap-around after 2^63 stored bytes is out of scope",
               "numpy basic slicing / h5py slicing of a one-dimensional array equals list slicing (compared on every case)",
               "hand-written Lean model validated by this differential run, not verified against the Python text"]
TRUSTED = ["Lean 4.33 kernel", "axioms: propext, Classical.choice, Quot.sound only (audited per theorem)",
           "checks/harness/c01.py generators, canonicalisation and comparison",
           "Lean models Exetera/Model/IndexedWriter.lean, Exetera/Model/Storage.lean and Exetera/Model/Reader.lean mirror "
           "fields.py / data_writer.py by hand"]
LEVEL_TEXT = ("Kernel-checked for all inputs: the indexed-string writer (write_part/complete with its two staging buffers, "
              "any chunk size >= 1, any partition, memory or HDF5 append) stores exactly the concatenated bytes and the "
              "running offsets, without an out-of-bounds buffer access; partition, chunk-size and backend independence; the "
              "offsets invariants; both indexed readers return xs[a:b] / xs[i] for every 0<=a<=b<=n / i<n, and — against a Lean "
              "rendering of Python's slice.indices / range / list indexing — exactly xs[start:stop:step] for EVERY combination of "
              "None, negative, out-of-range bounds and steps of either sign (ValueError for step 0) and xs[i] for every "
              "-n<=i<n; plain fields store the concatenation of their parts and answer every item as numpy does on either "
              "backing; categorical key values, the dtype of an empty read and the reopen class dispatch. Model tied to the "
              "code by differential execution incl. close/reopen.")
LEVEL_NOTE = ("Theorems are about the model with the six fix: patches applied (D1, D2, D32, NC01a, NC01b, NC01c; as-found variants "
              "kept with Witness theorems and _partial theorems: the indexed readers as found are right only for non-negative, "
              "ordered, unit-step slices and non-negative ints, an h5py dataset refuses negative steps). HDF5 persistence, the "
              "UTF-8 codec, numpy casting and numpy's / h5py's own indexing of a plain array are assumptions, exercised but not "
              "proved. Out of range ints raise ValueError (a list raises IndexError); a never-written memory array answers "
              "every item, ints included, with an empty array; items other than int / numpy integer / slice are not modelled.")
TECHNIQUE = ("Lean 4 theorems (invariant over bytes, entries, parts) about an executable model of the field arrays + "
             "differential correspondence with the real classes on exhaustive small partitions x chunk sizes x backends and "
             "seeded random cases, including reopen")
EXPLANATION = ""

ALPHABET = ["", "a", "é", "xyz"]
INT_RANGE = {"int8": (-2**7, 2**7 - 1), "int16": (-2**15, 2**15 - 1), "int32": (-2**31, 2**31 - 1), "int64": (-2**63, 2**63 - 1),
             "uint8": (0, 2**8 - 1), "uint16": (0, 2**16 - 1), "uint32": (0, 2**32 - 1), "uint64": (0, 2**64 - 1)}
NUMERIC = ["bool"] + list(INT_RANGE) + ["float32", "float64"]
F32 = [0x00000000, 0x80000000, 0x3f800000, 0x7f7fffff, 0x00000001, 0x7f800000, 0xff800000, 0x7fc00000, 0xc0490fdb]
F64 = [0x0, 0x8000000000000000, 0x3ff0000000000000, 0x7fefffffffffffff, 0x1, 0x7ff0000000000000, 0xfff0000000000000,
       0x7ff8000000000000, 0x41d954fc40000000]


def compositions(seq):
    """all ways to cut seq into consecutive non-empty parts (2^(n-1)); the empty sequence has the composition []"""
    n = len(seq)
    if n == 0:
        return [[]]
    out = []
    for cuts in itertools.product([0, 1], repeat=n - 1):
        parts, cur = [], [seq[0]]
        for k, c in enumerate(cuts):
            if c:
                parts.append(cur)
                cur = []
            cur.append(seq[k + 1])
        parts.append(cur)
        out.append(parts)
    return out


def with_empty_parts(parts):
    """a few variants of a partition with empty write_part calls inserted"""
    outs = [[[]] + parts, parts + [[]]]
    if len(parts) >= 2:
        outs.append(parts[:1] + [[]] + parts[1:])
    if not parts:
        outs.append([[], []])
    return outs


def general_reads(n, rng=None):
    """items outside the non-negative unit-step shape: negative indices, None / negative / out-of-range bounds, steps"""
    slices = [[None, -1], [-1, None], [-2, None], [None, None, 2], [None, None, -1], [1, None, 2], [None, None, -2],
              [-1, 0, -1], [n - 1, None, -1], [None, -n - 1], [n, 0, -1], [-n, None], [2, 1], [-n - 2, 2], [1, -1],
              [None, None, 0], [0, n, 1], [-1, -n - 1, -1], [None, None, 3]]
    items = [-1, -n, -n - 1]
    if rng and n:
        for _ in range(2):
            slices.append([rng.choice([None, rng.randrange(-n - 2, n + 3)]), rng.choice([None, rng.randrange(-n - 2, n + 3)]),
                           rng.choice([None, 1, 2, 3, -1, -2, -3, rng.randrange(1, n + 2), -rng.randrange(1, n + 2)])])
        items += [-rng.randrange(1, n + 1)]
    out = []
    for sl in slices:
        if sl not in out:
            out.append(sl)
    # a rotating window of the fixed shapes per case (every shape is read on every field of the exhaustive reader cases)
    _ROT[0] += 1
    k = _ROT[0]
    fixed = [out[(k * 3 + j) % 19] for j in range(3)] if len(out) >= 19 else out
    return [x for i, x in enumerate(out) if x in fixed or i >= 19], sorted(set([items[k % 3]] + items[3:]))


_ROT = [0]


def all_reads(n, steps=(None, 1, 2, 3, -1, -2, -3, 0)):
    """every slice with start, stop in {None} + [-n-2, n+2] and the given steps; every int in [-n-2, n+1]"""
    bounds = [None] + list(range(-n - 2, n + 3))
    return [[a, b, st] for a in bounds for b in bounds for st in steps], list(range(-n - 2, n + 2))


def reads_for(n, rng=None, extra_oob=True):
    if n <= 6:
        slices = [[a, b] for a in range(n + 1) for b in range(a, n + 1)]
        items = list(range(n))
    else:
        pts = sorted({0, 1, n // 2, n - 1, n} | ({rng.randrange(n + 1) for _ in range(6)} if rng else set()))
        slices = [[a, b] for a in pts for b in pts if a <= b][:24]
        items = sorted({0, n - 1, n // 2} | ({rng.randrange(n) for _ in range(6)} if rng else set()))
    if extra_oob:   # outside the property's quantifier: compared with the model only
        slices += [[0, n + 1], [n, n + 2], [n + 1, n + 1], [n + 2, n + 3]]
        items += [n, n + 1]
    gs, gi = general_reads(n, rng)
    return slices + [x for x in gs if x not in slices], items + [i for i in gi if i not in items]


def mk_indexed(c, h5, parts, rng=None, write=False, tag=None, rounds=None, rewrap=False, reads=None):
    """parts: one write_part call each, then complete(). rounds (optional): a history of several such rounds; then
    `parts` is their concatenation (what the field must hold) and `rewrap` says how the writer object is obtained for
    every round after the first: False = the same object, True = a new WriteableIndexedFieldArray / field.writeable(),
    "reopen" (HDF5) = close the dataset and reopen the same bytes 'r+'."""
    if rounds is not None:
        parts = [p for r in rounds for p in r]
    n = sum(len(p) for p in parts)
    slices, items = reads if reads else reads_for(n, rng)
    case = {"op": "c01_indexed", "c": c, "h5": h5, "parts": parts, "slices": slices, "items": items}
    if reads or (_ROT[0] % 4 == 0):
        case["np_items"] = True          # the int items are read a second time as numpy integers
    if rounds is not None:
        case["rounds"] = rounds
        case["rewrap"] = rewrap
    if write:
        case["write"] = True
    if tag:
        case["_tag"] = tag
    return case


def mk_plain(kind, dtype, h5, parts, rng=None, strlen=0, key=None, write=False, tag=None, reads=None):
    n = sum(len(p) for p in parts)
    slices, items = reads if reads else reads_for(n, rng)
    case = {"op": "c01_plain", "kind": kind, "dtype": dtype, "h5": h5, "parts": parts, "slices": slices, "items": items,
            "strlen": strlen}
    if kind == "fixed":
        case["nformat"] = "S%d" % strlen
    elif kind == "timestamp":
        case["nformat"] = "float64"
    else:
        case["nformat"] = dtype
    if key is not None:
        case["key_names"] = [k for k, _ in key]
        case["key_values"] = [v for _, v in key]
    if write:
        case["write"] = True
    if tag:
        case["_tag"] = tag
    return case


def extreme_values(kind, dtype, strlen):
    if kind == "fixed":
        vals = [b"", b"a", b"\xff" * strlen, b"a\x00b"[:strlen], b"zz"[:strlen]]
        return sorted({int.from_bytes(v.ljust(strlen, b"\0"), "big") for v in vals})
    if kind == "timestamp" or dtype == "float64":
        return F64
    if dtype == "float32":
        return F32
    if dtype == "bool":
        return [0, 1]
    lo, hi = INT_RANGE[dtype]
    return sorted({lo, hi, 0, 1, min(hi, 127), max(lo, -1)})


def plain_kinds():
    ks = [("numeric", d, 0) for d in NUMERIC]
    ks += [("fixed", "bytes8", 1), ("fixed", "bytes24", 3)]
    ks += [("categorical", d, 0) for d in ("int8", "int32", "uint8", "int64")]
    ks += [("timestamp", "float64", 0)]
    return ks


def key_for(dtype, vals):
    """a categorical key that covers the values (key values need not be small: D32)"""
    ks = sorted(set(vals)) or [0]
    lo, hi = INT_RANGE[dtype]
    if hi not in ks:
        ks.append(hi)
    return [("k%d" % i, v) for i, v in enumerate(ks)]


def gen_cases(tier, rng):
    from checks import corpus
    cases = list(corpus.load("C01"))
    quick = tier == "quick"
    _ROT[0] = 0
    # ---- readers: every int / slice item (None, negative, out-of-range bounds, steps of either sign, step 0) on small
    #      fields of every kind and both backings; and the Lean SPEC of Python indexing against Python itself -------
    rmax = 4 if quick else 6
    rseq = ["a", "", "é", "xyz", "bc", "d"]
    rkinds = [("numeric", "int32", 0), ("numeric", "float64", 0), ("numeric", "bool", 0), ("numeric", "uint64", 0),
              ("fixed", "bytes24", 3), ("categorical", "int8", 0), ("timestamp", "float64", 0)]
    for n in range(rmax + 1):
        reads = all_reads(n) if (n <= 3 or not quick) else all_reads(n, steps=(None, 2, -1, -2))
        for h5 in (False, True):
            for c in ((2,) if h5 else (2, 50)):
                cases.append(mk_indexed(c, h5, [rseq[:1], rseq[1:n]] if n else [], reads=reads, tag="readers"))
            for kind, dtype, strlen in rkinds:
                vals = extreme_values(kind, dtype, strlen)
                seq = [vals[(2 * i + 1) % len(vals)] for i in range(n)]
                key = key_for(dtype, seq) if kind == "categorical" else None
                cases.append(mk_plain(kind, dtype, h5, [seq[:1], seq[1:]] if n else [], strlen=strlen, key=key, reads=reads,
                                      tag="readers"))
    for n in range(0, 6 if quick else 9):
        sl, it = all_reads(n, steps=(None, 1, 2, 3, 4, -1, -2, -3, -4, 0))
        cases.append({"op": "c01_pyslice", "xs": list(range(10, 10 + n)), "slices": sl, "items": it})
    for t in range(20 if quick else 200):
        n = rng.randrange(0, 30)
        big = [None, 0, 1, -1, n, -n, n + 1, -n - 1, 10**12, -10**12, 2**63, -2**63 - 1]
        pickb = lambda: rng.choice(big + [rng.randrange(-n - 3, n + 4)])   # noqa
        sl = [[pickb(), pickb(), rng.choice([None, 1, -1, 2, -2, 7, -7, 10**12, -10**12, rng.randrange(-n - 2, n + 3)])]
              for _ in range(60)]
        cases.append({"op": "c01_pyslice", "xs": [rng.randrange(-5, 6) for _ in range(n)], "slices": sl,
                      "items": [rng.randrange(-n - 3, n + 3) for _ in range(10)] + [10**12, -10**12]})
    # ---- indexed strings: exhaustive small scope ---------------------------------------------------------------
    nmax = 3 if quick else 5
    chunks = [1, 2, 3, 4, 50] if quick else [1, 2, 3, 4, 5, 50]     # 50 > every byte/entry count of this scope: no flush
    k = 0
    for n in range(nmax + 1):
        for seq in itertools.product(ALPHABET, repeat=n):
            seq = list(seq)
            comps = compositions(seq)
            for ci, parts in enumerate(comps):
                variants = [(parts, False)]
                if len(parts) == 1:
                    variants.append((parts, True))                       # the single write() call
                if n <= 3 and (ci == 0 or ci == len(comps) - 1):
                    variants += [(p, False) for p in with_empty_parts(parts)]
                for pv, wr in variants:
                    for c in chunks:
                        k += 1
                        if n >= 4 and c in (4, 5) and (k % 3):
                            continue                                      # thin out the largest scope
                        for h5 in (False, True):
                            if h5 and ((n >= 4 and k % 4) or (quick and n == 3 and k % 5)):
                                continue
                            cases.append(mk_indexed(c, h5, pv, write=wr))
    # histories: two or three write…complete rounds on the same field, same or new writer object, or reopened 'r+'
    k = 0
    for n in range(0, 4):
        for seq in itertools.product(ALPHABET[1:] if n == 3 else ALPHABET, repeat=n):
            seq = list(seq)
            for cut in range(n + 1):
                rounds2 = [[seq[:cut]] if cut else [], [seq[cut:]] if cut < n else [[]]]
                for c in ([1, 2, 3, 50] if quick else [1, 2, 3, 4, 50]):
                    for h5, rewrap in ((False, False), (False, True), (True, False), (True, True), (True, "reopen")):
                        k += 1
                        if quick and n >= 2 and k % 3:
                            continue
                        cases.append(mk_indexed(c, h5, None, rounds=rounds2, rewrap=rewrap))
    for t in range(40 if quick else 600):
        c = rng.choice([1, 2, 3, 4, 5, 7, 16])
        rounds = [rand_partition(rng, [rand_string(rng, c) for _ in range(rng.randrange(0, 8))]) for _ in range(rng.randrange(1, 5))]
        h5 = bool(t % 2)
        cases.append(mk_indexed(c, h5, None, rng, rounds=rounds, rewrap=rng.choice([False, True, "reopen"] if h5 else [False, True])))
    # the default chunk size 1<<20 (8 MB staging buffers per field: only a few cases)
    for t in range(12 if quick else 150):
        n = rng.randrange(0, 6)
        seq = [rng.choice(ALPHABET) for _ in range(n)]
        cases.append(mk_indexed(1 << 20, bool(t % 2), rand_partition(rng, seq), rng))
    # ---- indexed strings: seeded random ------------------------------------------------------------------------
    nrand = 250 if quick else 5000
    for t in range(nrand):
        c = rng.choice([1, 2, 3, 4, 5, 6, 7, 8, 9, 16, 64, 1000])
        big = (not quick) and t % 50 == 0
        n = rng.randrange(0, 2000 if big else (60 if quick else 200))
        seq = [rand_string(rng, c) for _ in range(n)]
        parts = rand_partition(rng, seq)
        cases.append(mk_indexed(c, bool(t % 3 == 0) if not big else bool(t % 100 == 0), parts, rng))
    # ---- plain fields: exhaustive small scope ------------------------------------------------------------------
    pmax = 3 if quick else 4
    for kind, dtype, strlen in plain_kinds():
        vals = extreme_values(kind, dtype, strlen)
        seqs = [[]]
        for n in range(1, pmax + 1):
            # sequences: sliding windows over the extreme values (order and duplicates matter, not the full product)
            for st in range(len(vals)):
                seqs.append([vals[(st + j * (1 + n % 2)) % len(vals)] for j in range(n)])
        for seq in seqs:
            comps = compositions(seq)
            for ci, parts in enumerate(comps):
                variants = [(parts, False)]
                if len(parts) == 1:
                    variants.append((parts, True))
                if ci == 0 or ci == len(comps) - 1:
                    variants += [(p, False) for p in with_empty_parts(parts)]
                for pv, wr in variants:
                    k += 1
                    for h5 in (False, True):
                        if h5 and quick and len(seq) >= 2 and k % 4:
                            continue
                        key = key_for(dtype, seq) if kind == "categorical" else None
                        cases.append(mk_plain(kind, dtype, h5, pv, strlen=strlen, key=key, write=wr))
    # ---- plain fields: random ----------------------------------------------------------------------------------
    for t in range(120 if quick else 2500):
        kind, dtype, strlen = rng.choice(plain_kinds())
        n = rng.randrange(0, 40 if quick else 300)
        seq = [rand_value(rng, kind, dtype, strlen) for _ in range(n)]
        parts = rand_partition(rng, seq)
        key = key_for(dtype, seq) if kind == "categorical" else None
        cases.append(mk_plain(kind, dtype, bool(t % 2), parts, rng, strlen=strlen, key=key))
    # ---- reopen dispatch: every constructor --------------------------------------------------------------------
    for kind, dtype, strlen in plain_kinds() + [("indexed", "", 0), ("fixed", "bytes80", 10)]:
        cases.append({"op": "c01_dispatch", "kind": kind, "dtype": dtype, "strlen": strlen,
                      "nformat": dtype if kind in ("numeric", "categorical") else ""})
    # ---- malformed stream: error branches (outside the property's quantifier; model vs code only) --------------
    for h5 in (False, True):
        cases.append(mk_indexed(0, h5, [["a"]], tag="malformed:c=0"))
        cases.append(mk_indexed(0, h5, [[""]], tag="malformed:c=0"))
        cases.append(mk_indexed(0, h5, [], tag="malformed:c=0"))
        cases.append(mk_plain("categorical", "int8", h5, [[1]], key=[("a", 1), ("b", 1000)], tag="malformed:key-overflow"))
        cases.append(mk_plain("categorical", "uint8", h5, [[1]], key=[("a", -1)], tag="malformed:key-overflow"))
    # a cleared field refilled: before the parts of the case are written, the same rows are written (twice, in parts), and the
    # field is cleared — `f.data.clear()`; what is read afterwards must be exactly what was written after the clear
    k = 0
    for c in cases:
        if c.get("op") in ("c01_plain", "c01_indexed") and "rounds" not in c and not c.get("write") and len(c.get("parts", [])) >= 2:
            k += 1
            if k % 3 == 0:
                c["_prior"] = True
    return cases


def rand_string(rng, c):
    chars = ["a", "b", "z", " ", "é", "ß", "€", "中", "\U0001f600", "\U00010348"]
    L = rng.choice([0, 0, 1, 1, 2, 3, max(0, c - 1), c, c + 1, 2 * c, 2 * c + 1]) if c < 100 else rng.choice([0, 1, 2, 3, 5, 17])
    L = min(L, 40)
    if rng.random() < 0.5:
        return "".join(rng.choice(chars[:4]) for _ in range(L))
    return "".join(rng.choice(chars) for _ in range(L))


def rand_partition(rng, seq):
    parts, i = [], 0
    if rng.random() < 0.15:
        return [seq]
    while i < len(seq):
        step = rng.choice([0, 1, 1, 2, 3, 5, 8, 13, 50])
        parts.append(seq[i:i + step])
        i += step
    if rng.random() < 0.3:
        parts.append([])
    return parts


def rand_value(rng, kind, dtype, strlen):
    if kind == "fixed":
        L = rng.randrange(0, strlen + 1)
        return int.from_bytes(bytes(rng.randrange(1, 256) for _ in range(L)).ljust(strlen, b"\0"), "big")
    if kind == "timestamp" or dtype == "float64":
        return rng.choice(F64 + [rng.getrandbits(64)])
    if dtype == "float32":
        return rng.choice(F32 + [rng.getrandbits(32)])
    if dtype == "bool":
        return rng.randrange(2)
    lo, hi = INT_RANGE[dtype]
    if kind == "categorical":
        return rng.choice([lo, hi, 0, 1, 2, 3])
    return rng.choice([lo, hi, 0, 1, rng.randrange(lo, hi + 1)])


# ------------------------------------------------------------------------------------------------------------------
# implementation (runs in worker processes)
# ------------------------------------------------------------------------------------------------------------------
_S = {}


def _env():
    if not _S:
        import io
        import numpy as np
        from exetera.core import fields
        from exetera.core.session import Session
        from checks.worker import classify
        _S.update(np=np, io=io, fields=fields, Session=Session, s=Session(), classify=classify)
    return _S


def _try(e, f):
    try:
        return f()
    except Exception as ex:  # noqa
        return {"err": e["classify"](ex)}


def _hexs(xs):
    return [None if x is None else x.encode().hex() for x in xs]


def _sl(x):
    return slice(*x)


def _hexr(r):
    return _hexs(r) if isinstance(r, list) else (None if r is None else r.encode().hex())


def _indexed_reads(e, data, case):
    np = e["np"]
    return {"all": _try(e, lambda: _hexs(data[:])),
            "slices": [_try(e, lambda x=x: _hexs(data[_sl(x)])) for x in case["slices"]],
            "items": [_try(e, lambda i=i: _hexr(data[i])) for i in case["items"]],
            # the same rows named by numpy integers (what `for i in np.arange(n)` hands over)
            "items_np": [_try(e, lambda i=i: _hexr(data[np.int64(i)])) for i in case["items"] if abs(i) < 2**62]
            if case.get("np_items") else None}


def _open_h5(e):
    bio = e["io"].BytesIO()
    s = e["s"]
    ds = s.open_dataset(bio, "w", "d")
    return bio, ds, ds.create_dataframe("df")


def _reopen(e, bio):
    s = e["s"]
    s.close_dataset("d")
    ds = s.open_dataset(e["io"].BytesIO(bio.getvalue()), "r", "d")
    return ds


def impl(case):
    e = _env()
    try:
        return {"c01_indexed": impl_indexed, "c01_plain": impl_plain, "c01_dispatch": impl_dispatch,
                "c01_pyslice": impl_pyslice}[case["op"]](e, case)
    finally:
        e["s"].close_dataset("d")


def impl_indexed(e, case):
    np, fields, s = e["np"], e["fields"], e["s"]
    h5 = case["h5"]
    if h5:
        bio, ds, df = _open_h5(e)
        f = df.create_indexed_string("f", chunksize=case["c"])
    else:
        f = fields.IndexedStringMemField(s, chunksize=case["c"])
    obs = None
    if h5:
        # a second field object on the same group, obtained and read while the column is still empty (what another part of a
        # script holds while this one writes); it must see what was written, like any other reader in the session
        obs = s.get(df._h5group["f"])
        _ = (len(obs), obs.data[:], obs.indices[:], obs.values[:])
    if "rounds" in case:
        data = f.data
        for ri, rnd in enumerate(case["rounds"]):
            if ri and case["rewrap"] == "reopen":
                s.close_dataset("d")
                bio = e["io"].BytesIO(bio.getvalue())
                ds = s.open_dataset(bio, "r+", "d")
                df = ds["df"]
                f = df["f"]
                data = f.data
            elif ri and case["rewrap"]:
                if h5:
                    f = f.writeable()
                    data = f.data
                else:
                    data = fields.WriteableIndexedFieldArray(case["c"], f.indices, f.values)
            for p in rnd:
                data.write_part(p)
            data.complete()
        if not h5:
            f._data_wrapper = data          # read through the writer that wrote last
    elif case.get("write"):
        f.data.write(case["parts"][0])
    else:
        if case.get("_prior"):
            for rep in range(2):
                for p in case["parts"]:
                    f.data.write_part(list(reversed(p)))
            f.data.complete()
            f.data.clear()
            if obs is not None:
                # the second field object is obtained (and read) while the column is empty, as in every other case: an object
                # held since BEFORE another object's clear() keeps the unlinked datasets (clear() re-creates them) — an
                # observation recorded in DESIGN 7, outside what the property states (it speaks of writes, not of clear())
                obs = s.get(df._h5group["f"])
                _ = (len(obs), obs.data[:], obs.indices[:], obs.values[:])
        for p in case["parts"]:
            f.data.write_part(p)
        f.data.complete()

    def snapshot(fld, grp):
        ix, vs = fld.indices[:], fld.values[:]
        out = {"indices": [int(x) for x in ix], "values": bytes(bytearray(vs.tolist())).hex(), "len": len(fld),
               "dtype_i": str(ix.dtype), "dtype_v": str(vs.dtype), "cls": type(fld).__name__,
               "w": _indexed_reads(e, fld.data, case) if isinstance(fld.data, fields.WriteableIndexedFieldArray) else None}
        if grp is not None:
            ro = fields.IndexedStringField(s, grp, None, write_enabled=False)
            assert isinstance(ro.data, fields.ReadOnlyIndexedFieldArray)
            out["ro"] = _indexed_reads(e, ro.data, case)
            out["ro_len"] = len(ro)
        return out

    out = snapshot(f, df._h5group["f"] if h5 else None)
    # fill levels of the staging buffers after complete(): internal state, compared only while the attributes exist
    out["staged"] = [int(getattr(f.data, "_value_index", 0)), int(getattr(f.data, "_index_index", 0))]
    if obs is not None and not ("rounds" in case and case.get("rewrap") == "reopen"):
        out["obs"] = snapshot(obs, None)
    if h5:
        ds2 = _reopen(e, bio)
        f2 = ds2["df"]["f"]
        out["re"] = snapshot(f2, ds2["df"]._h5group["f"])
    return out


def _decode(np, case, ints):
    kind, dtype = case["kind"], case["dtype"]
    if kind == "fixed":
        L = case["strlen"]
        return np.frombuffer(b"".join(int(v).to_bytes(L, "big") for v in ints), dtype="S%d" % L).copy() if ints \
            else np.zeros(0, dtype="S%d" % L)
    if kind == "timestamp" or dtype == "float64":
        return np.array(ints, dtype="uint64").view("float64")
    if dtype == "float32":
        return np.array(ints, dtype="uint32").view("float32")
    if dtype == "bool":
        return np.array(ints, dtype="uint8").astype("bool")
    return np.array(ints, dtype=dtype)


def _encode(np, case, arr):
    kind = case["kind"]
    arr = np.asarray(arr)
    if arr.ndim == 0:
        arr = arr.reshape(1)
    if kind == "fixed" or arr.dtype.kind == "S":
        L = arr.dtype.itemsize
        raw = arr.tobytes()
        return [int.from_bytes(raw[i * L:(i + 1) * L], "big") for i in range(len(arr))]
    if arr.dtype == np.float64:
        return [int(x) for x in arr.view("uint64")]
    if arr.dtype == np.float32:
        return [int(x) for x in arr.view("uint32")]
    return [int(x) for x in arr]


def _enc_item(np, case, x):
    if isinstance(x, np.ndarray) and x.ndim >= 1:     # MemoryFieldArray on a never-written array: an empty array for ANY item
        return _encode(np, case, x)
    if case["kind"] == "fixed":                       # a numpy bytes scalar comes back without its trailing NULs
        return int.from_bytes(bytes(x).ljust(case["strlen"], b"\0"), "big")
    return _encode(np, case, x)[0]


def _plain_reads(e, case, data):
    np = e["np"]
    enc = lambda a: _encode(np, case, a)   # noqa
    whole = data[:]
    return {"data": enc(whole), "len": len(data), "dtype": whole.dtype.name,
            "slices": [_try(e, lambda x=x: enc(data[_sl(x)])) for x in case["slices"]],
            "items": [_try(e, lambda i=i: _enc_item(np, case, data[i])) for i in case["items"]]}


def _keys(fld):
    ks = fld.keys
    return {"key_values": [int(k) for k in ks.keys()],
            "key_names": [v.decode() if isinstance(v, bytes) else str(v) for v in ks.values()]}


def impl_plain(e, case):
    np, fields, s = e["np"], e["fields"], e["s"]
    kind, h5, nf = case["kind"], case["h5"], case["nformat"]
    key = dict(zip(case.get("key_names", []), case.get("key_values", [])))
    if h5:
        bio, ds, df = _open_h5(e)
        f = {"numeric": lambda: df.create_numeric("f", nf), "fixed": lambda: df.create_fixed_string("f", case["strlen"]),
             "categorical": lambda: df.create_categorical("f", nf, key), "timestamp": lambda: df.create_timestamp("f")}[kind]()
    else:
        f = {"numeric": lambda: fields.NumericMemField(s, nf), "fixed": lambda: fields.FixedStringMemField(s, case["strlen"]),
             "categorical": lambda: fields.CategoricalMemField(s, nf, key), "timestamp": lambda: fields.TimestampMemField(s)}[kind]()
    obs = None
    if h5:
        obs = s.get(df._h5group["f"])        # a second field object on the same group, read while the column is empty
        _ = (len(obs), obs.data[:])
    if case.get("write"):
        f.data.write(_decode(np, case, case["parts"][0]))
    else:
        if case.get("_prior"):
            for rep in range(2):
                for p in case["parts"]:
                    f.data.write_part(_decode(np, case, p)[::-1])
            f.data.complete()
            f.data.clear()
            if obs is not None:
                obs = s.get(df._h5group["f"])        # see impl_indexed
                _ = (len(obs), obs.data[:])
        for p in case["parts"]:
            f.data.write_part(_decode(np, case, p))
        f.data.complete()
    out = _plain_reads(e, case, f.data)
    out["len"] = len(f)
    out["cls"] = type(f).__name__
    if obs is not None:
        o2 = _plain_reads(e, case, obs.data)
        o2["len"] = len(obs)
        o2["cls"] = type(obs).__name__
        if kind == "categorical":
            o2.update(_keys(obs))
        else:
            o2["key_values"] = []
        out["obs"] = o2
    if kind == "categorical":
        out.update(_keys(f))
        if h5:
            out["key_dtype"] = df._h5group["f"]["key_values"].dtype.name
    else:
        out["key_values"] = []
    if h5:
        ds2 = _reopen(e, bio)
        f2 = ds2["df"]["f"]
        re_ = _plain_reads(e, case, f2.data)
        re_["len"] = len(f2)
        re_["cls"] = type(f2).__name__
        if kind == "categorical":
            re_.update(_keys(f2))
        else:
            re_["key_values"] = []
        out["re"] = re_
    return out


def impl_pyslice(e, case):
    """Python's own list indexing: what Spec/PySlice.lean must say"""
    xs = case["xs"]
    return {"slices": [_try(e, lambda x=x: xs[_sl(x)]) for x in case["slices"]],
            "items": [_try(e, lambda i=i: xs[i]) for i in case["items"]]}


def impl_dispatch(e, case):
    bio, ds, df = _open_h5(e)
    kind, nf = case["kind"], case["nformat"]
    f = {"indexed": lambda: df.create_indexed_string("f"), "numeric": lambda: df.create_numeric("f", nf),
         "fixed": lambda: df.create_fixed_string("f", case["strlen"]),
         "categorical": lambda: df.create_categorical("f", nf, {"a": 1}),
         "timestamp": lambda: df.create_timestamp("f")}[kind]()
    attr = df._h5group["f"].attrs["fieldtype"]
    created = type(f).__name__
    ds2 = _reopen(e, bio)
    f2 = ds2["df"]["f"]
    out = {"attr": str(attr), "cls": type(f2).__name__, "created": created}
    g = ds2["df"]._h5group["f"]
    if kind in ("numeric", "categorical"):
        out["nformat"] = str(g.attrs["nformat"])
    if kind == "fixed":
        out["strlen"] = int(g.attrs["strlen"])
    return out


# ------------------------------------------------------------------------------------------------------------------
# model side
# ------------------------------------------------------------------------------------------------------------------

def to_model(case):
    m = {k: v for k, v in case.items() if not k.startswith("_") and k not in ("write", "key_names", "nformat", "np_items")}
    if "rewrap" in m:
        m["rewrap"] = bool(m["rewrap"])          # "reopen" is a new writer object on the persisted arrays
    if os.environ.get("VERIF_C01_READER") == "asFound":
        m["reader"] = "asFound"                  # validate the as-found reader model against a tree without NC01b / NC01c
    return m


def _norm_err(x):
    """the model renders OverflowError as other:overflow_error (shared Err enum has no such tag)"""
    if isinstance(x, dict) and x.get("err") == "other:overflow_error":
        return {"err": "overflow_error"}
    return x


def compare(case, io, mo, mode):
    mo = _norm_err(mo)
    if "err" in io or "err" in mo:
        a, b = io.get("err"), mo.get("err")
        return None if a == b else f"impl err={a} ({io.get('msg', '')}) model err={b}"
    m = mo["ok"]
    op = case["op"]
    if op == "c01_pyslice":
        for k in ("slices", "items"):
            for it, a, b in zip(case[k], io[k], m[k]):
                if a != b:
                    return f"Lean spec of Python indexing differs from Python: xs={case['xs']} item={it}: python={a} spec={b}"
        return None
    if op == "c01_dispatch":
        for k in ("attr", "cls", "created"):
            if io[k] != m[k]:
                return f"dispatch {k}: impl={io[k]} model={m[k]}"
        return None
    if op == "c01_indexed":
        for snap, where in ((io, "session"), (io.get("re"), "reopened"), (io.get("obs"), "second handle")):
            if snap is None:
                continue
            for k in ("indices", "values", "len"):
                if snap[k] != m[k]:
                    return f"{where} {k}: impl={snap[k]} model={m[k]}"
            for rd in ("w", "ro"):
                if snap.get(rd) is None:
                    continue
                for k in ("all", "slices", "items"):
                    if snap[rd][k] != m[rd][k]:
                        bad = [(it, a, b) for it, a, b in zip(case.get(k, [None]), snap[rd][k], m[rd][k]) if a != b] \
                            if k != "all" else [("[:]", snap[rd][k], m[rd][k])]
                        return f"{where} {rd}.{k}: first of {len(bad)} differing reads: item={bad[0][0]} impl={bad[0][1]} model={bad[0][2]}"
                small = [x for i, x in zip(case["items"], m[rd]["items"]) if abs(i) < 2**62]
                if os.environ.get("VERIF_C01_READER") == "asFound":
                    small = [None] * len(small)      # as found a numpy integer is neither slice nor int: the method returns None
                if snap[rd].get("items_np") is not None and snap[rd]["items_np"] != small:
                    return f"{where} {rd}: data[np.int64(i)] = {snap[rd]['items_np']} but data[i] (model) = {small}"
        if io["staged"] != m["staged"]:
            return f"staging fill levels after complete: impl={io['staged']} model={m['staged']}"
        return None
    for snap, where in ((io, "session"), (io.get("re"), "reopened"), (io.get("obs"), "second handle")):
        if snap is None:
            continue
        for k in ("data", "len", "dtype", "slices", "items", "key_values"):
            if snap[k] != m[k]:
                if k in ("slices", "items"):
                    bad = [(it, a, b) for it, a, b in zip(case[k], snap[k], m[k]) if a != b]
                    return f"{where} {k}: first of {len(bad)} differing reads: item={bad[0][0]} impl={bad[0][1]} model={bad[0][2]}"
                return f"{where} {k}: impl={snap[k]} model={m[k]}"
    return None


# ------------------------------------------------------------------------------------------------------------------
# the property's oracle (Python rendering of Spec/Storage.lean): the written sequence itself
# ------------------------------------------------------------------------------------------------------------------

def in_scope(case):
    """is the case inside the property's quantifier? (chunk sizes >= 1, representable key)"""
    return not str(case.get("_tag", "")).startswith("malformed")


def slice_in_range(x, n):
    """the property's 'in-range slice': every bound that is given names a position of the rows (-n <= bound <= n), the step
    is not 0. (Python also accepts bounds beyond the rows and clamps them: compared with the model only.)"""
    st = x[2] if len(x) > 2 else None
    return st != 0 and all(b is None or -n <= b <= n for b in x[:2])


def _check_reads(rd, flat, case, where):
    n = len(flat)
    if rd["all"] != flat:
        return f"{where} data[:] = {rd['all']} but the written sequence is {flat}"
    for x, got in zip(case["slices"], rd["slices"]):
        if slice_in_range(x, n) and got != flat[_sl(x)]:
            return f"{where} data[{':'.join('' if b is None else str(b) for b in x)}] = {got} expected {flat[_sl(x)]}"
    for i, got in zip(case["items"], rd["items"]):
        if -n <= i < n and got != flat[i]:
            return f"{where} data[{i}] = {got} expected {flat[i]}"
    for i, got in zip([i for i in case["items"] if abs(i) < 2**62], rd.get("items_np") or []):
        if -n <= i < n and got != flat[i]:
            return f"{where} data[np.int64({i})] = {got} expected {flat[i]}"
    return None


def _failing_reads(rd, flat, case):
    """the items of a reader snapshot on which the property's oracle fails"""
    n = len(flat)
    bad = [("slice", x) for x, got in zip(case["slices"], rd["slices"]) if slice_in_range(x, n) and got != flat[_sl(x)]]
    bad += [("int", i) for i, got in zip(case["items"], rd["items"]) if -n <= i < n and got != flat[i]]
    bad += [("npint", i) for i, got in zip([i for i in case["items"] if abs(i) < 2**62], rd.get("items_np") or [])
            if -n <= i < n and got != flat[i]]
    return bad


def check_spec(case, io, mode):
    if not in_scope(case):
        return None
    op = case["op"]
    if op == "c01_pyslice":
        return None                     # about the Lean spec, not about ExeTera
    if "err" in io:
        return f"raised {io['err']} ({io.get('msg', '')}) instead of storing the sequence"
    if op == "c01_dispatch":
        if io["cls"] != io["created"]:
            return f"a field created as {io['created']} reopens as {io['cls']} (fieldtype attribute {io['attr']!r})"
        if "nformat" in io and io["nformat"] != case["nformat"]:
            return f"nformat attribute reads back as {io['nformat']}"
        if "strlen" in io and io["strlen"] != case["strlen"]:
            return f"strlen attribute reads back as {io['strlen']}"
        return None
    if op == "c01_indexed":
        flat = [s.encode().hex() for p in case["parts"] for s in p]
        nbytes = sum(len(x) // 2 for x in flat)
        for snap, where in ((io, "in session"), (io.get("re"), "after reopen"),
                            (io.get("obs"), "through a second field object held since before the write")):
            if snap is None:
                continue
            ix = snap["indices"]
            if not ix or ix[0] != 0:
                return f"{where}: offsets {ix[:5]} do not start at 0"
            if any(x > y for x, y in zip(ix, ix[1:])):
                return f"{where}: offsets decrease: {ix}"
            if ix[-1] != len(snap["values"]) // 2 or ix[-1] != nbytes:
                return f"{where}: last offset {ix[-1]} != stored bytes {len(snap['values']) // 2} (written {nbytes})"
            if len(ix) != len(flat) + 1:
                return f"{where}: {len(ix)} offsets for {len(flat)} entries"
            if snap["len"] != len(flat):
                return f"{where}: len() = {snap['len']} for {len(flat)} entries"
            if snap["cls"] != ("IndexedStringField" if case["h5"] else "IndexedStringMemField"):
                return f"{where}: field class {snap['cls']}"
            for rd in ("w", "ro"):
                if snap.get(rd) is not None:
                    why = _check_reads(snap[rd], flat, case, f"{where} [{'writeable' if rd == 'w' else 'read-only'} reader]")
                    if why:
                        return why
        return None
    # plain fields
    flat = [v for p in case["parts"] for v in p]
    for snap, where in ((io, "in session"), (io.get("re"), "after reopen"),
                        (io.get("obs"), "through a second field object held since before the write")):
        if snap is None:
            continue
        why = _check_reads({"all": snap["data"], "slices": snap["slices"], "items": snap["items"]}, flat, case, where)
        if why:
            return why
        if snap["len"] != len(flat):
            return f"{where}: len() = {snap['len']} for {len(flat)} values"
        if snap["dtype"] != case["dtype"]:
            return f"{where}: data[:] has dtype {snap['dtype']}, the field is {case['dtype']}"
        if case["kind"] == "categorical":
            if snap["key_values"] != case["key_values"] or snap["key_names"] != case["key_names"]:
                return (f"{where}: key reads back as {list(zip(snap['key_names'], snap['key_values']))}, written "
                        f"{list(zip(case['key_names'], case['key_values']))}")
    return None


def _nc01b_shape(kind, x):
    """item shapes the indexed readers mishandled before NC01b: a negative (or numpy) int; a slice with a negative bound, a step
    other than None / 1, or start > stop"""
    if kind == "npint":
        return True
    if kind == "int":
        return x < 0
    st = x[2] if len(x) > 2 else None
    a, b = x[0], x[1]
    return st not in (None, 1) or (a is not None and a < 0) or (b is not None and b < 0) or \
        (a is not None and b is not None and a > b)


def match_finding(case, io, mode):
    """narrow matchers for the defects of DESIGN.md section 4 / 7 (only relevant while the fix: patch is not applied)"""
    op = case["op"]
    if op == "c01_indexed" and not any(case["parts"]) and "err" not in io and io["indices"] == []:
        return "D2"
    if op == "c01_indexed" and "err" not in io:
        flat = [s.encode().hex() for p in case["parts"] for s in p]
        bad = []
        for snap in (io, io.get("re"), io.get("obs")):
            for rd in ("w", "ro"):
                if snap is not None and snap.get(rd) is not None and snap[rd]["all"] == flat:
                    bad += _failing_reads(snap[rd], flat, case)
        if bad and all(_nc01b_shape(k, x) for k, x in bad):
            return "NC01b"
    if op == "c01_plain" and "err" not in io and case["h5"]:
        flat = [v for p in case["parts"] for v in p]
        bad = []
        for snap in (io, io.get("re"), io.get("obs")):
            if snap is not None and snap["data"] == flat:
                bad += _failing_reads({"slices": snap["slices"], "items": snap["items"]}, flat, case)
        if bad and all(k == "slice" and len(x) > 2 and x[2] is not None and x[2] < 0 for k, x in bad) and all(
                got == {"err": "value_error"} for snap in (io, io.get("re"), io.get("obs")) if snap is not None
                for x, got in zip(case["slices"], snap["slices"]) if ("slice", x) in bad):
            return "NC01c"
    if op == "c01_plain":
        parts = case["parts"]
        if not case["h5"] and io.get("err") == "value_error" and any(
                len(p) == 0 and any(len(q) for q in parts[:i]) for i, p in enumerate(parts)):
            return "D1"
        if case["kind"] == "categorical" and case["h5"] and io.get("err") == "overflow_error" and any(
                not -128 <= v <= 127 for v in case["key_values"]):
            return "D32"
        if not case["h5"] and not parts and "err" not in io and io["dtype"] == "uint8" and case["dtype"] != "uint8":
            return "NC01a"
    return None


def nontrivial(case, mo):
    if case["op"] in ("c01_dispatch", "c01_pyslice"):
        return True
    if str(case.get("_tag", "")) == "readers":
        return True
    parts = case["parts"]
    if len(parts) >= 2 or any(len(p) == 0 for p in parts) or "rounds" in case:
        return True
    if case["op"] == "c01_indexed":
        c = case["c"]
        flat = [s for p in parts for s in p]
        return c >= 1 and (len(flat) >= c or sum(len(s.encode()) for s in flat) >= c)
    return bool(parts)


def classify(case, mo):
    op = case["op"]
    tags = [op + (":h5" if case.get("h5") else ":mem" if "h5" in case else "")]
    if op in ("c01_dispatch", "c01_pyslice"):
        return tags
    parts = case["parts"]
    flat = [s for p in parts for s in p]
    n = len(flat)
    if str(case.get("_tag", "")) == "readers":
        tags.append("readers-exhaustive")
    for x in case["slices"]:
        st = x[2] if len(x) > 2 else None
        if st is not None and st < 0:
            tags.append("read:negative-step")
        elif st not in (None, 1):
            tags.append("read:step" if st else "read:step-0")
        if any(b is not None and b < 0 for b in x[:2]):
            tags.append("read:negative-bound")
        if any(b is None for b in x[:2]):
            tags.append("read:None-bound")
        if slice_in_range(x, n) and len(range(*_sl(x).indices(n))) == 0:
            tags.append("read:empty-result")
    if any(i < 0 for i in case["items"]):
        tags.append("read:negative-index")
    tags = sorted(set(tags), key=tags.index)
    if not flat:
        tags.append("empty-sequence")
    if any(len(p) == 0 for p in parts):
        tags.append("empty-part")
    if case.get("write"):
        tags.append("write()")
    if "rounds" in case:
        tags.append("rounds:" + {False: "same-writer", True: "new-writer", "reopen": "reopen-r+"}[case["rewrap"]])
    if op == "c01_indexed":
        c = case["c"]
        nb = sum(len(s.encode()) for s in flat)
        if c >= 1:
            if nb >= c:
                tags.append("value-buffer-flush")
            if len(flat) >= c:
                tags.append("index-buffer-flush")
            if nb and nb % c == 0:
                tags.append("value-flush-exact")
            if flat and len(flat) % c == 0:
                tags.append("index-flush-exact")
        if any(len(s.encode()) > len(s) for s in flat):
            tags.append("multibyte")
        if "" in flat:
            tags.append("empty-string")
    else:
        tags.append(case["kind"] + ":" + case["dtype"])
    if str(case.get("_tag", "")).startswith("malformed"):
        tags.append("malformed")
    if mo and "err" in mo:
        tags.append("model-err:" + mo["err"])
    return tags


def select_for_mode(case, mode, tier):
    return False
