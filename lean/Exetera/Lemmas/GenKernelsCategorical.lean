import Exetera.Gen.Kernels
import Exetera.Model.Transforms
import Exetera.Lemmas.GenKernels
import Exetera.Lemmas.GenKernelsSpans
import Exetera.Lemmas.GenKernelsSpansIdxMinIndexed
/-!
  The TRANSLATED `categorical_transform` (three nested `for` loops: rows with `break`, keys with `continue`, bytes with `break`;
  2-D subscripts `column_inds[i_c, row_idx]`) against `Transforms.categoricalTransform` — transfer form: every `.ok` run of the
  model is a run of the translated kernel on a zero-filled `chunk` with the same final `chunk`.

  The model's `Chunk` carries the column's own row of `column_inds` and its own entry of `column_offsets`; the kernel receives the
  whole staging arrays: the hypothesis `Staged` says that row / entry `col` of the arrays passed are the chunk's.
-/
namespace Exetera.GenK

open Exetera Exetera.PyRt Exetera.Transforms Exetera.Gen.Kernels

/-- the staging arrays passed to a kernel hold the chunk's column at subscript `c.col` -/
structure Staged (c : Chunk) (cinds : List (List Int)) (coffs : List Int) : Prop where
  hinds : cinds[c.col]? = some (ints c.inds)
  hoff : coffs[c.col]? = some (c.off : Int)

namespace Cat

abbrev St := categorical_transform.St

abbrev loop3 (n : Nat) (k : Int) (s : St) : Except Err St :=
  forRangeAux (fun s => s.brk3) (fun k s => categorical_transform.body_L3 { s with v8 := k }) n k s

abbrev loop2 (n : Nat) (k : Int) (s : St) : Except Err St :=
  forRangeAux (fun _ => false) (fun k s => categorical_transform.body_L2 { s with v5 := k }) n k s

abbrev loop1 (n : Nat) (k : Int) (s : St) : Except Err St :=
  forRangeAux (fun s => s.brk1) (fun k s => categorical_transform.body_L1 { s with v1 := k }) n k s

/-- the byte loop `for j in range(key_len)` against `keyEq` (successful runs) -/
theorem key_sim (vals keys index : List Nat) (i lo P : Nat) (hlo : index[i]? = some lo) :
    ∀ (n j : Nat) (s : St), s.p3 = ints vals → s.p5 = ints keys → s.p6 = ints index → s.v5 = (i : Int) →
      s.v0 + s.v2 = (P : Int) → s.brk3 = false →
      match keyEq vals keys n (P + j) (lo + j) with
      | .ok true => ∃ k' e', loop3 n (j : Int) s = .ok { s with v8 := k', v9 := e' }
      | .ok false => ∃ k' e', loop3 n (j : Int) s = .ok { s with v7 := -1, brk3 := true, v8 := k', v9 := e' }
      | .error _ => True := by
  intro n
  induction n with
  | zero => intro j s _ _ _ _ _ _; exact ⟨s.v8, s.v9, rfl⟩
  | succ n ih =>
    intro j s h3 h5 h6 hv5 hP hb
    obtain ⟨q0, q1, q2, q3, q4, q5, q6, q7, w0, w1, w2, w3, w4, w5, w6, w7, w8, w9, b1, b3⟩ := s
    simp only at h3 h5 h6 hv5 hP hb
    subst h3 h5 h6 hv5 hb
    have e1 : ((P : Int) + (j : Int)) = ((P + j : Nat) : Int) := by omega
    have e2 : ((lo : Int) + (j : Int)) = ((lo + j : Nat) : Int) := by omega
    have e3 : ((j : Int) + 1) = ((j + 1 : Nat) : Int) := by omega
    have ih' := ih (j + 1) ⟨q0, q1, q2, ints vals, q4, ints keys, ints index, q7, w0, w1, w2, w3, w4, (i : Int), w6, w7, (j : Int),
      (lo : Int), b1, false⟩ rfl rfl rfl rfl hP rfl
    simp only [loop3] at ih'
    rw [loop3, forRangeAux_succ, e3]
    generalize hL : (fun s' : St => if s'.brk3 = true then Except.ok s' else
      forRangeAux (fun s => s.brk3) (fun k s => categorical_transform.body_L3 { s with v8 := k }) n
        ((j + 1 : Nat) : Int) s') = L
    simp only [keyEq, categorical_transform.body_L3, hP, e1, e2, idxE_nat, getE_ints _ _ _ hlo, bindE_ok]
    cases ha : vals[P + j]? with
    | none => simp [getE, ha]
    | some a =>
      cases hb' : keys[lo + j]? with
      | none => simp [getE, ha, hb']
      | some b =>
        simp only [getE, List.getElem?_map, ha, hb', Option.map_some, bindE_ok, Int.ofNat_eq_natCast]
        by_cases hab : a = b
        · subst hab
          simp only [bne_self_eq_false, Bool.false_eq_true, if_false, bindE_ok]
          subst hL
          simp only [Bool.false_eq_true, if_false, Nat.add_assoc]
          exact ih'
        · have hne : ((a : Int) != (b : Int)) = true := by simp; omega
          have hne' : (a != b) = true := by simp [hab]
          simp only [hne, hne', if_true, bindE_ok]
          subst hL
          exact ⟨(j : Int), (lo : Int), by simp⟩

/-- what the key loop has stored into `chunk[row]` so far -/
def applyAcc (chunk : List Int) (row : Nat) : Option Int → List Int
  | none => chunk
  | some v => chunk.set row v

theorem applyAcc_set (chunk : List Int) (row : Nat) (acc : Option Int) (v : Int) :
    (applyAcc chunk row acc).set row v = applyAcc chunk row (some v) := by
  cases acc <;> simp [applyAcc]

theorem applyAcc_length (chunk : List Int) (row : Nat) (acc : Option Int) : (applyAcc chunk row acc).length = chunk.length := by
  cases acc <;> simp [applyAcc]

/-- the key loop `for i in range(len(cat_index) - 1)` against `scanKeys` (successful runs) -/
theorem scan_sim (bm : ByteMap) (vals : List Nat) (P : Nat) (keyLen : Int) (chunk : List Int) (row : Nat)
    (hrow : row < chunk.length) :
    ∀ (n i : Nat) (acc : Option Int) (s : St), s.p0 = applyAcc chunk row acc → s.p3 = ints vals → s.p5 = ints bm.keys →
      s.p6 = ints bm.index → s.p7 = bm.values → s.v0 + s.v2 = (P : Int) → s.v1 = (row : Int) → s.v4 = keyLen → s.brk3 = false →
      match scanKeys bm vals P keyLen n i acc with
      | .ok acc' => ∃ s', loop2 n (i : Int) s = .ok s' ∧ s'.p0 = applyAcc chunk row acc' ∧ s'.p1 = s.p1 ∧ s'.p2 = s.p2 ∧
          s'.p3 = s.p3 ∧ s'.p4 = s.p4 ∧ s'.p5 = s.p5 ∧ s'.p6 = s.p6 ∧ s'.p7 = s.p7 ∧ s'.v0 = s.v0 ∧ s'.brk1 = s.brk1 ∧
          s'.brk3 = false
      | .error _ => True := by
  intro n
  induction n with
  | zero =>
    intro i acc s h0 _ _ _ _ _ _ _ hb
    exact ⟨s, rfl, h0, rfl, rfl, rfl, rfl, rfl, rfl, rfl, rfl, rfl, hb⟩
  | succ n ih =>
    intro i acc s h0 h3 h5 h6 h7 hP hv1 hv4 hb
    obtain ⟨q0, q1, q2, q3, q4, q5, q6, q7, w0, w1, w2, w3, w4, w5, w6, w7, w8, w9, b1, b3⟩ := s
    simp only at h0 h3 h5 h6 h7 hP hv1 hv4 hb
    subst h0 h3 h5 h6 h7 hv1 hv4 hb
    have e3 : ((i : Int) + 1) = ((i + 1 : Nat) : Int) := by omega
    rw [loop2, forRangeAux_succ, e3]
    generalize hL : (fun s' : St => if (fun _ : St => false) s' = true then Except.ok s' else
      forRangeAux (fun _ => false) (fun k s => categorical_transform.body_L2 { s with v5 := k }) n
        ((i + 1 : Nat) : Int) s') = L
    simp only [scanKeys, categorical_transform.body_L2, e3, idxE_nat]
    cases hhi : bm.index[i + 1]? with
    | none => simp [getE, hhi]
    | some hi =>
      cases hlo : bm.index[i]? with
      | none => simp [getE, hhi, hlo]
      | some lo =>
        simp only [getE, List.getElem?_map, hhi, hlo, Option.map_some, bindE_ok, Int.ofNat_eq_natCast]
        by_cases hk : w4 = (hi : Int) - (lo : Int)
        · have hk' : (w4 != (hi : Int) - (lo : Int)) = false := by simp [hk]
          simp only [hk', Bool.false_eq_true, if_false]
          have hto : (w4 - 0).toNat = w4.toNat := by omega
          simp only [forRangeB, hto]
          have hkey := key_sim vals bm.keys bm.index i lo P hlo w4.toNat 0
            ⟨applyAcc chunk row acc, q1, q2, ints vals, q4, ints bm.keys, ints bm.index, bm.values, w0, (row : Int), w2, w3, w4,
              (i : Int), (hi : Int) - (lo : Int), (i : Int), w8, w9, b1, false⟩ rfl rfl rfl rfl hP rfl
          have z : ((0 : Nat) : Int) = 0 := rfl
          simp only [loop3, z, Nat.add_zero] at hkey
          cases hke : keyEq vals bm.keys w4.toNat P lo with
          | error e => simp
          | ok r =>
            rw [hke] at hkey
            cases r with
            | false =>
              obtain ⟨k', e', he⟩ := hkey
              have hne : (((-1 : Int)) != -1) = false := by simp
              simp only [he, bindE_ok, hne, Bool.false_eq_true, if_false]
              subst hL
              simp only [Bool.false_eq_true, if_false]
              have := ih (i + 1) acc
                ⟨applyAcc chunk row acc, q1, q2, ints vals, q4, ints bm.keys, ints bm.index, bm.values, w0, (row : Int), w2, w3, w4,
                  (i : Int), (hi : Int) - (lo : Int), -1, k', e', b1, false⟩ rfl rfl rfl rfl rfl hP rfl rfl rfl
              simp only [loop2] at this
              exact this
            | true =>
              obtain ⟨k', e', he⟩ := hkey
              have hne : (((i : Int)) != -1) = true := by simp
              simp only [he, bindE_ok, hne, if_true, idxE_nat]
              cases hv : bm.values[i]? with
              | none => simp
              | some v =>
                have hlen : row < (applyAcc chunk row acc).length := by rw [applyAcc_length]; exact hrow
                simp only [getE, hv, bindE_ok, setIdxE_nat, setE, hlen, if_true, applyAcc_set]
                subst hL
                simp only [Bool.false_eq_true, if_false]
                have := ih (i + 1) (some v)
                  ⟨applyAcc chunk row (some v), q1, q2, ints vals, q4, ints bm.keys, ints bm.index, bm.values, w0, (row : Int), w2,
                    w3, w4, (i : Int), (hi : Int) - (lo : Int), (i : Int), k', e', b1, false⟩ rfl rfl rfl rfl rfl hP rfl rfl rfl
                simp only [loop2] at this
                exact this
        · have hk' : (w4 != (hi : Int) - (lo : Int)) = true := by simp [hk]
          simp only [hk', if_true, bindE_ok]
          subst hL
          simp only [Bool.false_eq_true, if_false]
          have := ih (i + 1) acc
            ⟨applyAcc chunk row acc, q1, q2, ints vals, q4, ints bm.keys, ints bm.index, bm.values, w0, (row : Int), w2, w3, w4,
              (i : Int), (hi : Int) - (lo : Int), w7, w8, w9, b1, false⟩ rfl rfl rfl rfl rfl hP rfl rfl rfl
          simp only [loop2] at this
          exact this

/-- the row loop `for row_idx in range(len(column_inds[i_c]) - 1)` with its `break` against `catRows` (successful runs) -/
theorem rows_sim (bm : ByteMap) (c : Chunk) (cinds : List (List Int)) (hinds : cinds[c.col]? = some (ints c.inds)) :
    ∀ (n i : Nat) (chunk : List Int) (s : St), s.p0 = chunk → s.p1 = (c.col : Int) → s.p2 = cinds → s.p3 = ints c.vals →
      s.p5 = ints bm.keys → s.p6 = ints bm.index → s.p7 = bm.values → s.v0 = (c.off : Int) → s.brk1 = false →
      s.brk3 = false →
      match catRows bm c n i chunk with
      | .ok chunk' => ∃ s', loop1 n (i : Int) s = .ok s' ∧ s'.p0 = chunk'
      | .error _ => True := by
  intro n
  induction n with
  | zero => intro i chunk s h0 _ _ _ _ _ _ _ _ _; exact ⟨s, rfl, h0⟩
  | succ n ih =>
    intro i chunk s h0 h1 h2 h3 h5 h6 h7 hv0 hb1 hb3
    obtain ⟨q0, q1, q2, q3, q4, q5, q6, q7, w0, w1, w2, w3, w4, w5, w6, w7, w8, w9, b1, b3⟩ := s
    simp only at h0 h1 h2 h3 h5 h6 h7 hv0 hb1 hb3
    subst h0 h1 h2 h3 h5 h6 h7 hv0 hb1 hb3
    have e3 : ((i : Int) + 1) = ((i + 1 : Nat) : Int) := by omega
    rw [loop1, forRangeAux_succ, e3]
    generalize hL : (fun s' : St => if (fun s : St => s.brk1) s' = true then Except.ok s' else
      forRangeAux (fun s => s.brk1) (fun k s => categorical_transform.body_L1 { s with v1 := k }) n
        ((i + 1 : Nat) : Int) s') = L
    simp only [catRows, categorical_transform.body_L1, pyLen]
    by_cases hge : i ≥ q0.length
    · have hd : decide ((i : Int) ≥ (q0.length : Int)) = true := decide_eq_true (by omega)
      have hge' : q0.length ≤ i := hge
      simp only [ge_iff_le, Int.ofNat_le, hge', decide_true, if_true, bindE_ok]
      subst hL
      simp only [if_true]
      exact ⟨_, rfl, by rfl⟩
    · have hd : decide ((i : Int) ≥ (q0.length : Int)) = false := decide_eq_false (by omega)
      have hge' : ¬ q0.length ≤ i := hge
      simp only [ge_iff_le, Int.ofNat_le, hge', decide_false, Bool.false_eq_true, if_false, bindE_ok, matchRow, idxE_nat, getE, hinds]
      cases hs0 : c.inds[i]? with
      | none => simp
      | some s0 =>
        cases he0 : c.inds[i + 1]? with
        | none => simp
        | some e0 =>
          simp only [List.getElem?_map, hs0, e3, idxE_nat, getE, he0, Option.map_some, bindE_ok, Int.ofNat_eq_natCast, forRangeE]
          have hto : ((((ints bm.index).length : Nat) : Int) - 1 - 0).toNat = bm.index.length - 1 := by simp
          rw [hto]
          have hsc := scan_sim bm c.vals (c.off + s0) ((e0 : Int) - (s0 : Int)) q0 i (by omega) (bm.index.length - 1) 0 none
            ⟨q0, (c.col : Int), q2, ints c.vals, q4, ints bm.keys, ints bm.index, bm.values, (c.off : Int), (i : Int), (s0 : Int),
              (e0 : Int), (e0 : Int) - (s0 : Int), w5, w6, w7, w8, w9, false, false⟩ rfl rfl rfl rfl rfl (by simp) rfl rfl rfl
          have z : ((0 : Nat) : Int) = 0 := rfl
          simp only [loop2, z] at hsc
          cases hscan : scanKeys bm c.vals (c.off + s0) ((e0 : Int) - (s0 : Int)) (bm.index.length - 1) 0 none with
          | error e => simp
          | ok r =>
            rw [hscan] at hsc
            obtain ⟨s', hrun, hp0, hp1, hp2, hp3, hp4, hp5, hp6, hp7, hv0', hbk1, hbk3⟩ := hsc
            try simp only at hp1 hp2 hp3 hp4 hp5 hp6 hp7 hv0' hbk1
            simp only [hrun]
            subst hL
            simp only [bindE_ok, hbk1, Bool.false_eq_true, if_false]
            cases r with
            | none =>
              simp only [applyAcc] at hp0
              have := ih (i + 1) q0 s' hp0 hp1 hp2 hp3 hp5 hp6 hp7 hv0' hbk1 hbk3
              simp only [loop1] at this
              exact this
            | some v =>
              simp only [applyAcc] at hp0
              have hlt : i < q0.length := by omega
              simp only [setE, hlt, if_true]
              have := ih (i + 1) (q0.set i v) s' hp0 hp1 hp2 hp3 hp5 hp6 hp7 hv0' hbk1 hbk3
              simp only [loop1] at this
              exact this

end Cat

/-- every `.ok` run of the model is a run of the translated kernel on the staging arrays that hold the chunk's column, started on a
    zero-filled `chunk` of `written_row_count` entries, with the same final `chunk` -/
theorem categorical_transform_ok (bm : ByteMap) (c : Chunk) (cinds : List (List Int)) (coffs : List Int)
    (hst : Staged c cinds coffs) (r : List Int) (h : categoricalTransform bm c = .ok r) :
    categorical_transform.run (List.replicate c.rows 0) (c.col : Int) cinds (ints c.vals) coffs (ints bm.keys) (ints bm.index)
      bm.values = .ok r := by
  unfold categoricalTransform withCol at h
  split at h
  · simp at h
  · split at h
    · simp at h
    · have hrows := Cat.rows_sim bm c cinds hst.hinds (c.inds.length - 1) 0 (List.replicate c.rows 0)
        ⟨List.replicate c.rows 0, (c.col : Int), cinds, ints c.vals, coffs, ints bm.keys, ints bm.index, bm.values, (c.off : Int),
          0, 0, 0, 0, 0, 0, 0, 0, 0, false, false⟩ rfl rfl rfl rfl rfl rfl rfl rfl rfl rfl
      rw [h] at hrows
      obtain ⟨s', hrun, hp0⟩ := hrows
      have z : ((0 : Nat) : Int) = 0 := rfl
      simp only [Cat.loop1, z] at hrun
      unfold categorical_transform.run
      have hto : (pyLen (ints c.inds) - 1 - 0).toNat = c.inds.length - 1 := by simp [pyLen]
      simp only [idxE_nat, getE, hst.hoff, hst.hinds, bindE_ok, forRangeB, hto, hrun, hp0]

end Exetera.GenK
