import Exetera.Model.IndexedWriter
import Exetera.Spec.PySlice
/-!
  `field.data[item]` for EVERY item that is a Python `int` (positive or negative) or a `slice` with any combination of
  `None` / negative / out-of-range start, stop and step (exetera/core/fields.py):

    * `ReadOnlyIndexedFieldArray.__getitem__` / `WriteableIndexedFieldArray.__getitem__`  (indexed strings)
    * `ReadOnlyFieldArray.__getitem__` / `WriteableFieldArray.__getitem__`                (an h5py dataset)
    * `MemoryFieldArray.__getitem__`                                                      (a numpy array, `None` until written)

  `Variant.asFound` is the code before the patches NC01b / NC01c of /verif/fixes:
    indexed readers — `start = item.start if item.start is not None else 0`, `stop = item.stop if … else len(indices) - 1`,
    `step` read and never used, then `self._indices[start:stop + 1]`: a negative bound is resolved by numpy / h5py against the
    OFFSETS array (one longer than the rows), so `data[-2:]` is the last row only and `data[:-1]` is empty (writeable) or an
    IndexError (read-only); every step is ignored (`data[::2]`, `data[::-1]` return all rows in order, `data[::0]` too);
    an `int` item is only checked against the upper end, `self._indices[item:item + 2]` with a negative item is the empty
    window (`data[-1]`: "not enough values to unpack") or the window of a different row (`data[-n]` is row 1, `data[-n-1]`
    row 0);
    h5py datasets — a negative step is refused (`ValueError: Step must be >= 1`).
  `Variant.repaired` is the code with the patches: the item is normalised first with Python's own `slice.indices(len(self))`
  / the `-n ≤ i < n` wrap, a stepped slice reads the block between its first and last row once and picks from it, an h5py
  dataset is read ascending and reversed.

  numpy / h5py basic slicing of the one-dimensional offsets array with arbitrary Python ints is `npSlice` / `npIndex`
  (clamp / wrap against the array's own length); numpy's `__getitem__` on a whole plain array is taken to BE Python's list
  semantics (`Spec.pySliceG` / `Spec.pyIndex`; assumption, compared on every case).
-/
namespace Exetera.Reader

open Exetera Exetera.Storage Exetera.IndexedWriter

/-- the `item` of `data[item]` -/
inductive Item where
  | int (i : Int)
  | slice (start stop step : Option Int)
  deriving Repr, DecidableEq, Inhabited

/-- position a Python int names in a basic slice of an array of length `n`: negative counts from the end, clamped to `[0, n]` -/
def clampIdx (n : Nat) (i : Int) : Nat := if i < 0 then (i + (n : Int)).toNat else min i.toNat n

/-- numpy / h5py `arr[a:b]` (no step) for arbitrary Python ints -/
def npSlice {α} (xs : List α) (a b : Int) : List α := slice xs (clampIdx xs.length a) (clampIdx xs.length b)

/-- numpy / h5py `arr[i]` for a Python int: negative wraps once, IndexError outside `-n ≤ i < n` -/
def npIndex {α} (xs : List α) (i : Int) (site : String) : Except Err α :=
  if i < -(xs.length : Int) ∨ (xs.length : Int) ≤ i then .error (.oob site)
  else getE xs (if i < 0 then i + (xs.length : Int) else i).toNat site

/-! ### indexed strings, as found -/

/-- the `isinstance(item, slice)` branch as found (`writeable = true`: `WriteableIndexedFieldArray`); `step` is not a parameter
    because the code never looks at it -/
def getSliceAsFound (writeable : Bool) (indices : List Nat) (values : Bytes) (start stop : Option Int) :
    Except Err (List (Option Bytes)) :=
  let a : Int := match start with                                 -- item.start if item.start is not None else 0
    | some s => s
    | none => 0
  let b : Int := match stop with                                  -- item.stop if … else len(self._indices) - 1
    | some s => s
    | none => (indices.length : Int) - 1
  let index := npSlice indices a (b + 1)                          -- self._indices[start:stop + 1]
  if writeable && index.length == 0 then .ok []
  else
    match getE index 0 "index[0]" with
    | .error e => .error e
    | .ok first =>
      match getE index (index.length - 1) "index[-1]" with
      | .error e => .error e
      | .ok last =>
        let bytestr := slice values first last                    -- self._values[index[0]:index[-1]]
        let nres := index.length - 1                              -- results = [None] * (len(index) - 1)
        match npIndex indices a "indices[start]" with            -- startindex = self._indices[start]
        | .error e => .error e
        | .ok startindex =>
          let rmax := if writeable then min nres (b - a).toNat else nres   -- range(min(len(results), stop - start))
          match cutFrom index bytestr startindex 0 rmax with
          | .error e => .error e
          | .ok rs => .ok (rs.map some ++ List.replicate (nres - rmax) none)

/-- the `isinstance(item, int)` branch as found (both readers) -/
def getIntAsFound (indices : List Nat) (values : Bytes) (i : Int) : Except Err Bytes :=
  if i ≥ (indices.length : Int) - 1 then .error (.valueError "Index is out of range")
  else
    match npSlice indices i (i + 2) with                          -- start, stop = self._indices[item:item + 2]
    | [start, stop] => if start == stop then .ok [] else .ok (slice values start stop)
    | _ => .error (.valueError "not enough values to unpack")

/-! ### indexed strings, repaired -/

/-- `[block[r - first] for r in rows]` -/
def pick {β} (block : List β) (first : Int) : List Int → Except Err (List β)
  | [] => .ok []
  | r :: rs =>
    if r - first < 0 then .error (.other "negative-subscript-not-modelled")
    else
      match getE block (r - first).toNat "block[r - first]" with
      | .error e => .error e
      | .ok x =>
        match pick block first rs with
        | .error e => .error e
        | .ok ys => .ok (x :: ys)

/-- the slice branch once `rows.step == 1`: `start, stop = rows.start, max(rows.start, rows.stop)`, then the old body -/
def readUnit (writeable : Bool) (indices : List Nat) (values : Bytes) (a b : Int) : Except Err (List (Option Bytes)) :=
  getSlice writeable indices values a.toNat (max a b).toNat

/-- the slice branch with the patch: `rows = range(*item.indices(len(self)))` -/
def getSliceRepaired (writeable : Bool) (indices : List Nat) (values : Bytes) (start stop step : Option Int) :
    Except Err (List (Option Bytes)) :=
  match Spec.sliceIndices (fieldLen indices) start stop step with
  | .error e => .error e                                           -- ValueError: slice step cannot be zero
  | .ok (a, b, st) =>
    if st != 1 then
      let rows := Spec.pyRange a b st
      match rows.head?, rows.getLast? with
      | some r0, some rl =>
        let first := min r0 rl
        -- block = self[first:max(rows[0], rows[-1]) + 1]   (the same method again, with step None)
        match Spec.sliceIndices (fieldLen indices) (some first) (some (max r0 rl + 1)) none with
        | .error e => .error e
        | .ok (a', b', _) =>
          match readUnit writeable indices values a' b' with
          | .error e => .error e
          | .ok block => pick block first rows
      | _, _ => .ok []                                             -- len(rows) == 0
    else readUnit writeable indices values a b

/-- the int branch with the patch -/
def getIntRepaired (indices : List Nat) (values : Bytes) (i : Int) : Except Err Bytes :=
  let n : Int := (fieldLen indices : Nat)
  if i < -n ∨ n ≤ i then .error (.valueError "Index is out of range")
  else getItem indices values (if i < 0 then i + n else i).toNat

/-- what `data[item]` returns: one entry or a list with possibly unfilled (`None`) places -/
inductive Read where
  | entry (b : Bytes)
  | rows (rs : List (Option Bytes))
  deriving Repr, DecidableEq

/-- `data[item]` on an indexed string field, either reader, either variant -/
def getIndexed (v : Variant) (writeable : Bool) (indices : List Nat) (values : Bytes) : Item → Except Err Read
  | .int i =>
    match (match v with
      | .asFound => getIntAsFound indices values i
      | .repaired => getIntRepaired indices values i) with
    | .ok b => .ok (.entry b)
    | .error e => .error e
  | .slice start stop step =>
    match (match v with
      | .asFound => getSliceAsFound writeable indices values start stop
      | .repaired => getSliceRepaired writeable indices values start stop step) with
    | .ok rs => .ok (.rows rs)
    | .error e => .error e

/-! ### plain fields (numeric, fixed string, categorical, timestamp) -/

/-- what `data[item]` returns for a plain array -/
inductive PRead (α : Type) where
  | scalar (x : α)
  | array (xs : List α)
  deriving Repr, DecidableEq

/-- numpy's `arr[item]` on a one-dimensional array = Python's list semantics (assumption, compared on every case);
    h5py agrees for every item it accepts -/
def numpyGet {α} (xs : List α) : Item → Except Err (PRead α)
  | .int i =>
    match Spec.pyIndex xs i with
    | .ok x => .ok (.scalar x)
    | .error e => .error e
  | .slice start stop step =>
    match Spec.pySliceG xs start stop step with
    | .ok ys => .ok (.array ys)
    | .error e => .error e

/-- `ReadOnlyFieldArray / WriteableFieldArray.__getitem__` on the HDF5 dataset `xs` -/
def h5Get {α} (v : Variant) (xs : List α) : Item → Except Err (PRead α)
  | .slice start stop (some st) =>
    if st < 0 then
      match v with
      | .asFound => .error (.valueError "Step must be >= 1")      -- h5py refuses
      | .repaired =>
        -- rows = range(*item.indices(len(ds))); ds[rows[-1]:rows[0] + 1:-rows.step][::-1]
        match Spec.sliceIndices xs.length start stop (some st) with
        | .error e => .error e
        | .ok (a, b, s) =>
          let rows := Spec.pyRange a b s
          match rows.head?, rows.getLast? with
          | some r0, some rl =>
            match Spec.pySliceG xs (some rl) (some (r0 + 1)) (some (-s)) with
            | .ok ys => .ok (.array ys.reverse)
            | .error e => .error e
          | _, _ => .ok (.array [])                                -- ds[0:0]
    else numpyGet xs (.slice start stop (some st))
  | item => numpyGet xs item

/-- `field.data[item]` of a plain field on either backing -/
def plainGet {α} (v : Variant) : Arr α → Item → Except Err (PRead α)
  | .mem none, _ => .ok (.array [])                                -- `np.zeros(0, dtype)` whatever the item is
  | .mem (some xs), item => numpyGet xs item
  | .h5 xs, item => h5Get v xs item

end Exetera.Reader
