import Exetera.Model.Basic
import Exetera.Gen.Constants
/-!
  Model of `exetera/processing/date_time_helpers.py` (with the fixes D31, NC20b, NC20c applied) over exact integer
  arithmetic.

  * timestamps (`float64` POSIX seconds in the code) are `Int` seconds: the correspondence only runs timestamps on the
    integer-second grid, where `np.floor((t - o) / 86400.0)` is exact (|t|,|o| < 2^52: the quotient is either an integer or
    at least 1/86400 away from one, more than half an ulp of any quotient below 2^37);
  * `datetime` values are `Int` seconds since `datetime.min` = 0001-01-01T00:00:00 (so the representable range is
    `0 … DT_MAX`); `timedelta(days=x)`/`timedelta(weeks=x)` is `x·86400` / `x·7·86400` seconds and raises `OverflowError`
    when it is longer than 999999999 days;
  * an `int8`/`bool` filter is the list of its element values; `astype(bool)` is `· != 0`; a filter / `in_range` array whose
    length differs from the row count is an error (`ValueError` from `&`, `IndexError` from mask indexing) — numpy's
    broadcasting of length-1 arrays and its acceptance of an empty mask are not modelled (never generated);
  * numpy indexing: boolean-mask selection (`maskSel`), integer fancy indexing with negative wrap-around (`fancyGet`), Python
    slice assignment (`sliceAssign`), each with its error point.
-/
namespace Exetera.Dates
open Exetera

/-! ### get_periods -/

/-- seconds from `datetime.min` to 9999-12-31T23:59:59, the last representable whole second -/
def DT_MAX : Int := 315537897599
/-- `timedelta.max.days` -/
def TD_MAX_DAYS : Nat := 999999999
/-- Python's `OverflowError` -/
def overflow : Err := .other "overflow_error"

/-- the keys of `period_map`, as a number of days -/
def unitDays (period : String) : Option Int :=
  if period == "day" || period == "days" then some 1
  else if period == "week" || period == "weeks" then some 7
  else none

/-- loop state of the stepping loop: the list `dates` and its last element `dates[-1]` -/
structure PState where
  dates : List Int
  last : Int
  deriving Repr, DecidableEq

/-- `end_date - dates[-1] >= tdelta` (forwards) / `end_date - dates[-1] <= tdelta` (backwards) -/
def pGuard (end_ step : Int) (s : PState) : Bool :=
  if 0 < step then decide (step ≤ end_ - s.last) else decide (end_ - s.last ≤ step)

/-- `dates.append(dates[-1] + tdelta)`; `datetime + timedelta` raises `OverflowError` outside year 1…9999 -/
def pBody (step : Int) (s : PState) : Except Err PState :=
  let nxt := s.last + step
  if 0 ≤ nxt ∧ nxt ≤ DT_MAX then .ok ⟨s.dates ++ [nxt], nxt⟩ else .error overflow

/-- `get_periods(start_date, end_date, period, delta)` -/
def getPeriods (start end_ : Int) (period : String) (delta : Int) : Except Err (List Int) :=
  match unitDays period with
  | none => .error (.valueError "'period': must be one of day, days, week, weeks")
  | some u =>
    if delta = 0 then .error (.valueError "'delta' cannot be 0")
    else if delta < 0 ∧ start < end_ then
      .error (.valueError "'start_date' must be greater than 'end_date' if 'delta' is negative")
    else if 0 < delta ∧ end_ < start then
      .error (.valueError "'start_date' must be less than 'end_date' if 'delta' is positive")
    else if TD_MAX_DAYS < (delta * u).natAbs then .error overflow
    else
      let step := delta * u * 86400
      match whileE (pGuard end_ step) (pBody step) ((end_ - start).natAbs / step.natAbs) ⟨[start], start⟩ with
      | .ok s => .ok s.dates
      | .error e => .error e

/-! ### get_days -/

structure DaysOut where
  days : List Int
  inRange : Option (List Bool)
  deriving Repr, DecidableEq

/-- `np.floor((t - min_date) / SECONDS_PER_DAY)` on the integer grid (`/` on `Int` rounds towards −∞ for a positive divisor) -/
def floorDays (o t : Int) : Int := (t - o) / Gen.SECONDS_PER_DAY

/-- `np.min(xs)`; `ValueError` on an empty array -/
def minE : List Int → Except Err Int
  | [] => .error (.valueError "zero-size array to reduction operation minimum which has no identity")
  | x :: xs => .ok (xs.foldl min x)

/-- `date_field[mask]` for a boolean mask of the same length -/
def maskSel : List Int → List Bool → List Int
  | t :: ts, b :: bs => if b then t :: maskSel ts bs else maskSel ts bs
  | _, _ => []

/-- `in_range & cmp` for two arrays (no broadcasting of unequal lengths) -/
def andRange (inr cmp : List Bool) : Except Err (List Bool) :=
  if inr.length = cmp.length then .ok (List.zipWith (· && ·) inr cmp)
  else .error (.valueError "operands could not be broadcast together")

/-- the `start_date` stage: origin and flags after it -/
def startStage (ts : List Int) (mask : Option (List Bool)) (inr0 : List Bool) (start : Option Int) :
    Except Err (Int × List Bool) :=
  match start with
  | some s =>
    match andRange inr0 (ts.map (fun t => decide (s ≤ t))) with
    | .ok r => .ok (s, r)
    | .error e => .error e
  | none =>
    match mask with
    | none =>
      match minE ts with
      | .ok o => .ok (o, inr0)
      | .error e => .error e
    | some m =>
      if m.length = ts.length then
        match minE (maskSel ts m) with
        | .ok o => .ok (o, inr0)
        | .error e => .error e
      else .error (.oob "boolean index did not match indexed array")

/-- the `end_date` stage -/
def endStage (ts : List Int) (inr : List Bool) (end_ : Option Int) : Except Err (List Bool) :=
  match end_ with
  | some e => andRange inr (ts.map (fun t => decide (t < e)))
  | none => .ok inr

/-- `get_days(date_field, date_filter, start_date, end_date)`; the filter is given by its element values -/
def getDays (ts : List Int) (filt : Option (List Int)) (start end_ : Option Int) : Except Err DaysOut :=
  match filt, start, end_ with
  | none, none, none =>
    match minE ts with
    | .ok o => .ok ⟨ts.map (floorDays o), none⟩
    | .error e => .error e
  | _, _, _ =>
    let mask : Option (List Bool) := filt.map (fun f => f.map (fun v => v != 0))
    let inr0 : List Bool := match mask with
      | none => List.replicate ts.length true
      | some m => m
    match startStage ts mask inr0 start with
    | .error e => .error e
    | .ok (o, inr1) =>
      match endStage ts inr1 end_ with
      | .error e => .error e
      | .ok inr2 => .ok ⟨ts.map (floorDays o), some inr2⟩

/-! ### generate_period_offset_map -/

/-- `[(p - periods[0]).days for p in periods]` (`timedelta.days` is the floor of the difference in days) -/
def periodDeltas : List Int → List Int
  | [] => []
  | p0 :: ps => (p0 :: ps).map (fun p => (p - p0) / 86400)

/-- a Python slice bound normalised against length `n` -/
def normIdx (n : Nat) (a : Int) : Nat := if a < 0 then (a + n).toNat else min a.toNat n

/-- `buf[a:b] = v` -/
def sliceAssign (buf : List Int) (a b : Int) (v : Int) : List Int :=
  let lo := normIdx buf.length a
  let hi := normIdx buf.length b
  buf.mapIdx (fun k x => if lo ≤ k ∧ k < hi then v else x)

/-- `for i_p in range(len(period_deltas)-1): period_per_day[period_deltas[i_p]:period_deltas[i_p+1]] = i_p` -/
def fillLoop : List Int → Nat → List Int → List Int
  | a :: b :: rest, i, buf => fillLoop (b :: rest) (i + 1) (sliceAssign buf a b i)
  | _, _, buf => buf

/-- `generate_period_offset_map(periods)` -/
def offsetMap (ps : List Int) : Except Err (List Int) :=
  let ds := periodDeltas ps
  match ds.getLast? with
  | none => .error (.oob "period_deltas[-1]")
  | some last =>
    if last < 0 then .error (.valueError "negative dimensions are not allowed")
    else .ok (fillLoop ds 0 (List.replicate last.toNat 0))

/-! ### get_period_offsets -/

/-- numpy integer indexing `xs[d]`: negative indices count from the end, anything else out of bounds is an `IndexError` -/
def fancyGet (xs : List Int) (d : Int) : Except Err Int :=
  if 0 ≤ d then getE xs d.toNat "periods_by_day[days]"
  else if -(xs.length : Int) ≤ d then getE xs (d + xs.length).toNat "periods_by_day[days]"
  else .error (.oob "periods_by_day[days]")

/-- `periods_by_day[days]` -/
def lookupAll (pbd : List Int) : List Int → Except Err (List Int)
  | [] => .ok []
  | d :: ds =>
    match fancyGet pbd d with
    | .error e => .error e
    | .ok v =>
      match lookupAll pbd ds with
      | .error e => .error e
      | .ok vs => .ok (v :: vs)

/-- `periods = full(-1); periods[in_range] = periods_by_day[days[in_range]]` -/
def lookupMasked (pbd : List Int) : List Int → List Bool → Except Err (List Int)
  | [], [] => .ok []
  | d :: ds, b :: bs =>
    match (if b then fancyGet pbd d else .ok (-1)) with
    | .error e => .error e
    | .ok v =>
      match lookupMasked pbd ds bs with
      | .error e => .error e
      | .ok vs => .ok (v :: vs)
  | _, _ => .error (.oob "boolean index did not match indexed array")

/-- `get_period_offsets(periods_by_day, days, in_range)`; `in_range` is given by its element values -/
def getPeriodOffsets (pbd days : List Int) (inr : Option (List Int)) : Except Err (List Int) :=
  match inr with
  | none => lookupAll pbd days
  | some f => lookupMasked pbd days (f.map (fun v => v != 0))

/-! ### the documented pipeline -/

/-- for ascending period boundaries `ps`: `days, in_range = get_days(ts, filter, ps[0], ps[-1])`;
    `get_period_offsets(generate_period_offset_map(ps), days, in_range)`, all on one time axis -/
def bucket (ts : List Int) (filt : Option (List Int)) (ps : List Int) : Except Err (List Int) :=
  match offsetMap ps with
  | .error e => .error e
  | .ok m =>
    match getDays ts filt ps.head? ps.getLast? with
    | .error e => .error e
    | .ok out =>
      getPeriodOffsets m out.days (out.inRange.map (fun fl => fl.map (fun b => if b then 1 else 0)))

/-- `periods = get_periods(start, end, period, delta)` (reversed into ascending order when generated backwards, as
    tests/test_date_time_helpers.py does), then `bucket` -/
def pipeline (ts : List Int) (filt : Option (List Int)) (start end_ : Int) (period : String) (delta : Int) :
    Except Err (List Int) :=
  match getPeriods start end_ period delta with
  | .error e => .error e
  | .ok ps0 => bucket ts filt (if delta < 0 then ps0.reverse else ps0)

end Exetera.Dates
