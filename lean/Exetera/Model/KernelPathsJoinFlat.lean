/-!
  C10 — path conditions of the array subscripts of the legacy (flat and `_old` streamed) join helpers that `Model/JoinFlat.lean` and `Model/JoinOld.lean` model (owning property C19), frozen from the source the model
  was written against. `Props/C10/JoinFlat.lean` (`access_paths_covered_join_flat`) proves that the table regenerated from the CURRENT
  source (`Gen/KernelPaths.lean`) is this one: a test that dominates a subscript cannot be dropped, weakened or moved in the
  source without breaking the build.

  Each entry is (site, path condition): the tests passed on the way to that occurrence of the subscript, outermost first —
  `for …` / `while …` = an enclosing loop guard (the same strings as in `KernelSitesJoinFlat`), a bare test = the `if` / `elif`
  branch taken or an `and` operand to the left of the subscript, `not (…)` = an `else` branch, the code after an early exit
  `if …: break | continue | return | raise`, or an `or` operand to the left. A condition is the text of a test that held
  when it was passed (a syntactic path, not an invariant). A site reached on several paths has one entry per path.
  Regenerate with `python3 tools/translate_kernels.py --paths /repo <kernel> …`.

  Which conjunct of the path condition the model's checked accessor relies on (accessor names as in `KernelSitesJoinFlat`):
  * `generate_ordered_map_to_left_right_unique` / `…_both_unique`: `result[i]` = the capacity check `s.i < cap` of `leftBody` /
    `leftTailBody`: relies on the early exit `if len(first) != len(result): raise ValueError` (entry
    `not (len(first) != len(result))`, first on every path) together with `i < len(first)` of the loop guard; `first[i + 1]`
    relies on the early exit `if i + 1 >= len(first): break` (entry `not (i + 1 >= len(first))`), mirrored in `leftBody`.
  * `ordered_inner_map_result_size`, `ordered_inner_map`, `ordered_inner_map_left_unique`: `left[cur_i + 1]`,
    `right[cur_j + 1]` (`left[i + 1]`, `right[j + 1]` in the size kernel) = `Join.runCount`: rely on the operands
    `cur_i + 1 < len(left)` / `cur_j + 1 < len(right)` to the left of the read in the run `while`; `left_to_inner[cur_m]`,
    `right_to_inner[cur_m]` = the block capacity check of `innerBody`: no test bounds `cur_m` (the maps are allocated
    with the size the size kernel returns: `no_oob_inner_maps`).
  * `generate_ordered_map_to_left_right_unique_partial_old`: `left_to_right[i]` = the capacity check `s.i < cap` of
    `partialOldBody`: the guard bounds `i` by `len(left)` only, no test compares it with `len(left_to_right)` (discharged
    from the driver's allocation in `no_oob_streamed_old_left_map`).
  * `ordered_map_valid_partial_old`: `data_field[val - d]` = `MapValid.getI` is reached only on `val != invalid` and after the
    early exit `if val >= d + len(data_field): …` (entry `not (val >= d + len(data_field))`) — the upper bound of the
    computed subscript; `result[i]` = the capacity check `acc.length < cap`.
  * `chunks`: no subscript.
-/
namespace Exetera.KernelPaths

/-- the legacy join helpers (C19): path condition of every subscript occurrence -/
def joinFlatPaths : List (String × List (String × List String)) := [
  ("chunks", []),
  ("ordered_map_valid_partial_old", [
    ("R data_field[val - d]", ["while True", "val != invalid", "not (val >= d + len(data_field))"]),
    ("R map_field[i]", ["while True"]),
    ("W result[i]", ["while True", "val != invalid", "not (val >= d + len(data_field))"])]),
  ("generate_ordered_map_to_left_right_unique_partial_old", [
    ("R left[i]", ["while i < len(left) and j < len(right)"]),
    ("R left[i]", ["while i < len(left) and j < len(right)", "not (left[i] < right[j])"]),
    ("R right[j]", ["while i < len(left) and j < len(right)"]),
    ("R right[j]", ["while i < len(left) and j < len(right)", "not (left[i] < right[j])"]),
    ("W left_to_right[i]", ["while i < len(left) and j < len(right)", "left[i] < right[j]"]),
    ("W left_to_right[i]", ["while i < len(left) and j < len(right)", "not (left[i] < right[j])", "not (left[i] > right[j])"])]),
  ("generate_ordered_map_to_left_right_unique", [
    ("R first[i + 1]", ["not (len(first) != len(result))", "while i < len(first) and j < len(second)", "not (first[i] < second[j])", "not (first[i] > second[j])", "not (i + 1 >= len(first))"]),
    ("R first[i]", ["not (len(first) != len(result))", "while i < len(first) and j < len(second)"]),
    ("R first[i]", ["not (len(first) != len(result))", "while i < len(first) and j < len(second)", "not (first[i] < second[j])"]),
    ("R first[i]", ["not (len(first) != len(result))", "while i < len(first) and j < len(second)", "not (first[i] < second[j])", "not (first[i] > second[j])", "not (i + 1 >= len(first))"]),
    ("R second[j]", ["not (len(first) != len(result))", "while i < len(first) and j < len(second)"]),
    ("R second[j]", ["not (len(first) != len(result))", "while i < len(first) and j < len(second)", "not (first[i] < second[j])"]),
    ("W result[i]", ["not (len(first) != len(result))", "while i < len(first)"]),
    ("W result[i]", ["not (len(first) != len(result))", "while i < len(first) and j < len(second)", "first[i] < second[j]"]),
    ("W result[i]", ["not (len(first) != len(result))", "while i < len(first) and j < len(second)", "not (first[i] < second[j])", "not (first[i] > second[j])"])]),
  ("generate_ordered_map_to_left_both_unique", [
    ("R first[i]", ["not (len(first) != len(result))", "while i < len(first) and j < len(second)"]),
    ("R first[i]", ["not (len(first) != len(result))", "while i < len(first) and j < len(second)", "not (first[i] < second[j])"]),
    ("R second[j]", ["not (len(first) != len(result))", "while i < len(first) and j < len(second)"]),
    ("R second[j]", ["not (len(first) != len(result))", "while i < len(first) and j < len(second)", "not (first[i] < second[j])"]),
    ("W result[i]", ["not (len(first) != len(result))", "while i < len(first)"]),
    ("W result[i]", ["not (len(first) != len(result))", "while i < len(first) and j < len(second)", "first[i] < second[j]"]),
    ("W result[i]", ["not (len(first) != len(result))", "while i < len(first) and j < len(second)", "not (first[i] < second[j])", "not (first[i] > second[j])"])]),
  ("ordered_inner_map_result_size", [
    ("R left[i + 1]", ["while i < len(left) and j < len(right)", "not (left[i] < right[j])", "not (left[i] > right[j])", "i + 1 < len(left)"]),
    ("R left[i]", ["while i < len(left) and j < len(right)"]),
    ("R left[i]", ["while i < len(left) and j < len(right)", "not (left[i] < right[j])"]),
    ("R left[i]", ["while i < len(left) and j < len(right)", "not (left[i] < right[j])", "not (left[i] > right[j])", "i + 1 < len(left)"]),
    ("R right[j + 1]", ["while i < len(left) and j < len(right)", "not (left[i] < right[j])", "not (left[i] > right[j])", "j + 1 < len(right)"]),
    ("R right[j]", ["while i < len(left) and j < len(right)"]),
    ("R right[j]", ["while i < len(left) and j < len(right)", "not (left[i] < right[j])"]),
    ("R right[j]", ["while i < len(left) and j < len(right)", "not (left[i] < right[j])", "not (left[i] > right[j])", "j + 1 < len(right)"])]),
  ("ordered_inner_map_both_unique", [
    ("R left[i]", ["while i < len(left) and j < len(right)"]),
    ("R left[i]", ["while i < len(left) and j < len(right)", "not (left[i] < right[j])"]),
    ("R right[j]", ["while i < len(left) and j < len(right)"]),
    ("R right[j]", ["while i < len(left) and j < len(right)", "not (left[i] < right[j])"]),
    ("W left_to_inner[cur_m]", ["while i < len(left) and j < len(right)", "not (left[i] < right[j])", "not (left[i] > right[j])"]),
    ("W right_to_inner[cur_m]", ["while i < len(left) and j < len(right)", "not (left[i] < right[j])", "not (left[i] > right[j])"])]),
  ("ordered_inner_map_left_unique", [
    ("R left[i]", ["while i < len(left) and j < len(right)"]),
    ("R left[i]", ["while i < len(left) and j < len(right)", "not (left[i] < right[j])"]),
    ("R right[cur_j + 1]", ["while i < len(left) and j < len(right)", "not (left[i] < right[j])", "not (left[i] > right[j])", "cur_j + 1 < len(right)"]),
    ("R right[cur_j]", ["while i < len(left) and j < len(right)", "not (left[i] < right[j])", "not (left[i] > right[j])", "cur_j + 1 < len(right)"]),
    ("R right[j]", ["while i < len(left) and j < len(right)"]),
    ("R right[j]", ["while i < len(left) and j < len(right)", "not (left[i] < right[j])"]),
    ("W left_to_inner[cur_m]", ["while i < len(left) and j < len(right)", "not (left[i] < right[j])", "not (left[i] > right[j])", "for jj in range(j, cur_j + 1)"]),
    ("W right_to_inner[cur_m]", ["while i < len(left) and j < len(right)", "not (left[i] < right[j])", "not (left[i] > right[j])", "for jj in range(j, cur_j + 1)"])]),
  ("ordered_inner_map", [
    ("R left[cur_i + 1]", ["while i < len(left) and j < len(right)", "not (left[i] < right[j])", "not (left[i] > right[j])", "cur_i + 1 < len(left)"]),
    ("R left[cur_i]", ["while i < len(left) and j < len(right)", "not (left[i] < right[j])", "not (left[i] > right[j])", "cur_i + 1 < len(left)"]),
    ("R left[i]", ["while i < len(left) and j < len(right)"]),
    ("R left[i]", ["while i < len(left) and j < len(right)", "not (left[i] < right[j])"]),
    ("R right[cur_j + 1]", ["while i < len(left) and j < len(right)", "not (left[i] < right[j])", "not (left[i] > right[j])", "cur_j + 1 < len(right)"]),
    ("R right[cur_j]", ["while i < len(left) and j < len(right)", "not (left[i] < right[j])", "not (left[i] > right[j])", "cur_j + 1 < len(right)"]),
    ("R right[j]", ["while i < len(left) and j < len(right)"]),
    ("R right[j]", ["while i < len(left) and j < len(right)", "not (left[i] < right[j])"]),
    ("W left_to_inner[cur_m]", ["while i < len(left) and j < len(right)", "not (left[i] < right[j])", "not (left[i] > right[j])", "for ii in range(i, cur_i + 1)", "for jj in range(j, cur_j + 1)"]),
    ("W right_to_inner[cur_m]", ["while i < len(left) and j < len(right)", "not (left[i] < right[j])", "not (left[i] > right[j])", "for ii in range(i, cur_i + 1)", "for jj in range(j, cur_j + 1)"])])
]

end Exetera.KernelPaths
