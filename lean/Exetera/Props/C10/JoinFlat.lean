import Exetera.Props.C19
import Exetera.Props.C10.Basic
import Exetera.Model.KernelSitesJoinFlat
import Exetera.Model.KernelPathsJoinFlat
/-!
# C10 — the legacy join helpers behind `Session.ordered_merge_*` (owning property: C19)

Covered by theorems: the six flat kernels, the two legacy streamed drivers
(`generate_ordered_map_to_left_right_unique_streamed_old` + `…_partial_old`, `ordered_map_valid_stream_old` +
`ordered_map_valid_partial_old`, over `chunks`) for every chunk size ≥ 1, `Session.ordered_merge_left / right` in every
covered form of the call (`FormOK`: arrays / Fields / zero-initialised array sinks / streamed), the map computation of
`Session.ordered_merge_inner`, `Session.join`. Not covered (as in C19): indexed-string payloads (open finding NC19d).
-/
namespace Exetera.Props.C10
open Exetera Exetera.Spec Exetera.Join Exetera.JoinFlat Exetera.JoinOld

theorem access_sites_covered_join_flat : ∀ k ∈ KernelSites.joinFlatSites, lookup k.1 = some k := by decide +kernel

/-- the PATH CONDITION of every subscript occurrence in these kernels (enclosing loop guards, `if` / `elif` tests, negated
    `else` branches and early exits), as regenerated from the current source (`Gen/KernelPaths.lean`), is exactly the one the
    model was written against (`Model/KernelPathsJoinFlat.lean`): dropping or changing a test that dominates a subscript breaks
    the build; and the table covers exactly the kernels of the site table -/
theorem access_paths_covered_join_flat :
    (∀ k ∈ KernelPaths.joinFlatPaths, lookupPaths k.1 = some k) ∧
    KernelPaths.joinFlatPaths.map (·.1) = KernelSites.joinFlatSites.map (·.1) := by decide +kernel

example : KernelSites.joinFlatSites.length = 9 := by decide

/-- `generate_ordered_map_to_left_right_unique`: sorted left keys, duplicate-free right keys, `result` of the left length -/
theorem no_oob_left_right_unique_flat {L R : List Int} (result : List Int) (inv : Int) (hL : Sorted L)
    (hR : R.Pairwise (· < ·)) (hres : result.length = L.length) (site : String) :
    generateLeft false L R result inv ≠ .error (.oob site) := by
  obtain ⟨u, h⟩ := C19.left_right_unique_flat_eq result inv hL hR hres
  exact ne_oob_of_ok h site

/-- `generate_ordered_map_to_left_both_unique` -/
theorem no_oob_left_both_unique_flat {L R : List Int} (result : List Int) (inv : Int) (hL : L.Pairwise (· < ·))
    (hR : R.Pairwise (· < ·)) (hres : result.length = L.length) (site : String) :
    generateLeft true L R result inv ≠ .error (.oob site) := by
  obtain ⟨u, h⟩ := C19.left_both_unique_flat_eq result inv hL hR hres
  exact ne_oob_of_ok h site

/-- `ordered_inner_map` on sorted keys and result arrays with room for the relational inner join — the size that
    `ordered_inner_map_result_size` returns (`no_oob_inner_result_size`): never overrun, whatever the duplication -/
theorem no_oob_inner_map_flat {L R : List Int} (l2i r2i : List Int) (hL : Sorted L) (hR : Sorted R)
    (hl : (innerJoin L R).length ≤ l2i.length) (hr : (innerJoin L R).length ≤ r2i.length) (site : String) :
    orderedInnerMap true true L R l2i r2i ≠ .error (.oob site) :=
  ne_oob_of_ok (C19.inner_map_flat_eq l2i r2i hL hR hl hr) site

/-- `ordered_inner_map_left_unique` -/
theorem no_oob_inner_map_left_unique_flat {L R : List Int} (l2i r2i : List Int) (hL : L.Pairwise (· < ·)) (hR : Sorted R)
    (hl : (innerJoin L R).length ≤ l2i.length) (hr : (innerJoin L R).length ≤ r2i.length) (site : String) :
    orderedInnerMap false true L R l2i r2i ≠ .error (.oob site) :=
  ne_oob_of_ok (C19.inner_map_left_unique_flat_eq l2i r2i hL hR hl hr) site

/-- `ordered_inner_map_both_unique` -/
theorem no_oob_inner_map_both_unique_flat {L R : List Int} (l2i r2i : List Int) (hL : L.Pairwise (· < ·))
    (hR : R.Pairwise (· < ·)) (hl : (innerJoin L R).length ≤ l2i.length) (hr : (innerJoin L R).length ≤ r2i.length)
    (site : String) : orderedInnerMap false false L R l2i r2i ≠ .error (.oob site) :=
  ne_oob_of_ok (C19.inner_map_both_unique_flat_eq l2i r2i hL hR hl hr) site

/-- `ordered_inner_map_result_size` on sorted keys -/
theorem no_oob_inner_result_size {L R : List Int} (hL : Sorted L) (hR : Sorted R) (site : String) :
    innerResultSize L R ≠ .error (.oob site) :=
  ne_oob_of_ok (C19.inner_result_size_eq hL hR) site

/-- the three uniqueness-flag combinations of `Session.ordered_merge_inner`'s map computation (size kernel, allocation,
    map kernel) -/
theorem no_oob_inner_maps (lu ru : Bool) {L R : List Int} (hL : Sorted L) (hR : Sorted R)
    (hlu : lu = true → L.Pairwise (· < ·)) (hru : ru = true → R.Pairwise (· < ·)) (site : String) :
    innerMaps lu ru L R ≠ .error (.oob site) :=
  ne_oob_of_ok (C19.inner_lists_exactly_pairs lu ru hL hR hlu hru) site

/-- `generate_ordered_map_to_left_right_unique_streamed_old` (driver + `…_partial_old` kernel, re-slicing views over
    `chunks`): sorted left keys, duplicate-free right keys, every chunk size ≥ 1 — the chunk-sized scratch array
    `left_to_right` is never overrun -/
theorem no_oob_streamed_old_left_map {L R : List Int} (inv : Int) {cs : Nat} (hcs : 1 ≤ cs) (hL : Sorted L)
    (hR : R.Pairwise (· < ·)) (site : String) : streamedOld L R inv cs ≠ .error (.oob site) := by
  obtain ⟨u, u', h, _⟩ := C19.streamed_old_left_map_eq_flat inv hcs hL hR
  exact ne_oob_of_ok h site

/-- `ordered_map_valid_stream_old` (driver + `ordered_map_valid_partial_old` kernel): every in-range map whose valid
    entries do not decrease, a marker that is not a row number of the source, every chunk size ≥ 1 -/
theorem no_oob_streamed_old_map_valid (xs : List Int) (m : List Int) (inv : Int) {cs : Nat} (hcs : 1 ≤ cs)
    (hr : InRange xs.length m inv) (hmono : ValidMonotone m inv) (hinv : inv < 0 ∨ (xs.length : Int) ≤ inv)
    (site : String) : mapValidStreamOld xs m inv cs 0 ≠ .error (.oob site) :=
  ne_oob_of_exists (C19.streamed_old_map_valid_eq_flat xs m inv hcs hr hmono hinv).2 site

/-- `Session.ordered_merge_left` in every covered form of the call (`FormOK`: no sinks, Field sinks, zero-initialised
    ndarray sinks of the left length; streamed — all Fields and a map field — for every chunk size ≥ 1 when
    `len(right) ≤ INVALID_INDEX`): flat or streamed left-map kernel, then `map_valid` / the streamed mapper per payload -/
theorem no_oob_ordered_merge_left (lu : Bool) {L R : List Int} (xss : List (List Int))
    (hL : Sorted L) (hR : R.Pairwise (· < ·)) (hlu : lu = true → L.Pairwise (· < ·))
    (hne : xss ≠ []) (hlen : ∀ xs ∈ xss, xs.length = R.length) (cs : Nat) (c : Cfg)
    (hf : FormOK cs c L.length xss.length R.length) (site : String) :
    orderedMergeLeft cs c lu true L R (xss.map .numeric) ≠ .error (.oob site) := by
  obtain ⟨cols, _, h⟩ := orderedMergeLeft_any lu xss hL hR hlu hne hlen
  obtain ⟨o, ho, _⟩ := h cs c hf
  exact ne_oob_of_ok ho site

/-- `Session.ordered_merge_right`: the same with the sides swapped -/
theorem no_oob_ordered_merge_right (ru : Bool) {L R : List Int} (xss : List (List Int))
    (hL : L.Pairwise (· < ·)) (hR : Sorted R) (hru : ru = true → R.Pairwise (· < ·))
    (hne : xss ≠ []) (hlen : ∀ xs ∈ xss, xs.length = L.length) (cs : Nat) (c : Cfg)
    (hf : FormOK cs c R.length xss.length L.length) (site : String) :
    orderedMergeRight cs c true ru L R (xss.map .numeric) ≠ .error (.oob site) := by
  obtain ⟨o₁, o₂, h, _⟩ := C19.forms_agree_right cs cs c c ru xss hf hf hL hR hru hne hlen
  exact ne_oob_of_ok h site

/-- `Session.join`: one value per run of the foreign key, keys row numbers of the destination (or markers), one run per
    key — the scatter into the destination stays in range -/
theorem no_oob_session_join (destLen : Nat) (fkey values : List Int) (hlen : (runKeys fkey).length = values.length)
    (hnd : (runKeys fkey).Nodup) (hr : ∀ k ∈ fkey, k < INVALID_INDEX → 0 ≤ k ∧ k < destLen) (site : String) :
    JoinOld.join destLen fkey values ≠ .error (.oob site) :=
  ne_oob_of_exists (C19.join_correct destLen fkey values hlen hnd hr) site

example : FormOK 2 ⟨true, true, .fields, true⟩ 8 1 5 ∧ streamable ⟨true, true, .fields, true⟩ = true := by
  refine ⟨⟨Or.inr (Or.inl rfl), fun _ => ⟨by decide, by decide⟩⟩, rfl⟩
example : streamedOld [1, 2, 2, 3, 5, 5, 6, 9] [2, 3, 4, 5, 9] (-1) 1 =
    .ok (true, encR (-1) (leftJoin [1, 2, 2, 3, 5, 5, 6, 9] [2, 3, 4, 5, 9])) := by decide
example : Sorted [1, 2, 2, 3, 5, 5, 6, 9] ∧ ([2, 3, 4, 5, 9] : List Int).Pairwise (· < ·) := by simp [Sorted]
example : generateLeft false [1, 2, 2, 3, 5, 5, 6, 9] [2, 3, 4, 5, 9] (List.replicate 8 0) (-1) =
    .ok (true, encR (-1) (leftJoin [1, 2, 2, 3, 5, 5, 6, 9] [2, 3, 4, 5, 9])) := by decide
/-- the error branch is real: result arrays with room for 5 of the 6 joined rows -/
example : orderedInnerMap true true [1, 1, 2, 4, 4, 5] [1, 2, 2, 4, 6] (List.replicate 5 0) (List.replicate 6 0) =
    .error (.oob "left_to_inner[cur_m]") := by decide

end Exetera.Props.C10
