/-!
  C10 — access sites of the compiled import transforms that `Model/Transforms.lean` models (owning property C06),
  frozen from the source the model was written against. `Props/C10/Transforms.lean` proves that the shapes regenerated
  from the CURRENT source (`Gen/KernelShape.lean`) are these.

  A model `Chunk` is ONE column's view of the reader's staging buffers: `inds = column_inds[col_idx, :]`,
  `off = column_offsets[col_idx]`, `vals = column_vals` (flat, all columns), together with the column subscript itself
  (`col = col_idx`) and the number of columns of the staging arrays (`ncols = column_inds.shape[0] =
  len(column_offsets) - 1`).

  Model ↔ site map:
  * all five kernels: the column subscript — `column_offsets[i_c]` / `column_offsets[col_idx]`, `column_inds[i_c]` and the
    FIRST dimension of `column_inds[c, r]` — = `withCol` (`.oob "column_offsets[col_idx]"` when `ncols < col`, else
    `.oob "column_inds[…]"` when `ncols ≤ col` and the kernel gets to subscript `column_inds`: always in the two
    categorical kernels, which evaluate `len(column_inds[i_c])` before the row loop; when `written_row_count > 0` in the
    others). `col_idx` is a parameter no kernel assigns, so the first such subscript fails exactly when any later one would:
    the check is made once per call. In range under `Spec.Transforms.Encodes.col` (`col_idx < number of columns`: the
    importer is called with an element of `index_map`, see there). `column_inds[c, r]`, `column_inds[c, r + 1]` (second
    dimension) = the two `getE c.inds` of `matchRow` / `cellsFrom` / `fixedRows` / `boolCell`; `column_vals[…]` scalar reads = `getE c.vals`
    (`keyEq`, `copyBytes`, `skipLead`, `skipTrail`); `column_vals[a:b]` slices = `sliceE` (the model insists that the
    slice lies inside the buffer: stricter than numpy's clamping).
  * `categorical_transform` / `leaky_categorical_transform`: `cat_index[i]`, `cat_index[i + 1]`, `cat_values[index]` =
    `getE` in `scanKeys`; `cat_keys[entry_start + j]` = `getE` in `keyEq`; `chunk[row_idx]` = `setE` in `catRows` (and `catRowsChecked`, the kernel with fix NC06d: same subscripts) /
    `leakyRows`, dominated by `if row_idx >= chunk.shape[0]: break` (mirrored: `i ≥ chunk.length`);
    `freetext_indices[row_idx]` = `getE`, `freetext_indices[row_idx + 1]` = `setE` in `leakyRows`;
    `freetext_values[a:b] = …` = `sliceAssign` (destination range checked).
  * `numeric_bool_transform`: `val[0]` … `val[4]` under `actual_length == k` = `rowAccepts` over the regenerated literal
    table `Gen.boolLiterals` (`row.1 == val.length` is the length test); the `non_parsable` slice is only read into
    the exception arguments (a slice never raises; not modelled). `elements[row_idx]`, `validity[row_idx]` = the capacity
    checks `capE ≤ i` / `capV ≤ i` of `boolRows` (`capE = len(elements)`, `capV = len(validity)` are parameters of
    `boolTransform`; the only caller, `NumericImporter.import_part`, allocates both with `written_row_count` elements —
    `boolImport` passes `c.rows`), made before the validation mode is looked at, as in the kernel.
  * `fixed_string_transform`: `column_vals[c]` = `getE`, `memory[a]` = `setE` in `copyBytes`.
  * `transform_to_values`: `cellsFrom`.

  No subscript of these five kernels is left unchecked by the model.
  `chunk.shape[0]` and `Union[str, StringIO]`-style entries are attribute / annotation subscripts, not array accesses.
-/
namespace Exetera.KernelSites

/-- the import transforms (C06) -/
def transformsSites : List (String × List String × List String) := [
  ("categorical_transform",
    ["for i in range(len(cat_index) - 1)", "for j in range(key_len)", "for row_idx in range(len(column_inds[i_c]) - 1)"],
    ["R cat_index[i + 1]", "R cat_index[i]", "R cat_keys[int(entry_start + j)]", "R cat_values[index]", "R chunk.shape[0]", "R column_inds[i_c, row_idx + 1]", "R column_inds[i_c, row_idx]", "R column_inds[i_c]", "R column_offsets[i_c]", "R column_vals[int(col_offset + key_start + j)]", "W chunk[row_idx]"]),
  ("leaky_categorical_transform",
    ["for i in range(len(cat_index) - 1)", "for j in range(key_len)", "for row_idx in range(len(column_inds[i_c]) - 1)"],
    ["R cat_index[i + 1]", "R cat_index[i]", "R cat_keys[entry_start + j]", "R cat_values[index]", "R chunk.shape[0]", "R column_inds[i_c, row_idx + 1]", "R column_inds[i_c, row_idx]", "R column_inds[i_c]", "R column_offsets[i_c]", "R column_vals[col_offset + key_start + j]", "R column_vals[col_offset + key_start:col_offset + key_end]", "R freetext_indices[row_idx + 1]", "R freetext_indices[row_idx]", "W chunk[row_idx]", "W freetext_indices[row_idx + 1]", "W freetext_values[freetext_indices[row_idx]:freetext_indices[row_idx + 1]]"]),
  ("numeric_bool_transform",
    ["for row_idx in range(written_row_count)", "while byte_end_idx >= 0 and column_vals[col_offset + row_start_idx + byte_end_idx] == 32", "while byte_start_idx < length and column_vals[col_offset + row_start_idx + byte_start_idx] == 32"],
    ["R column_inds[col_idx, row_idx + 1]", "R column_inds[col_idx, row_idx]", "R column_offsets[col_idx]", "R column_vals[col_offset + row_start_idx + byte_end_idx]", "R column_vals[col_offset + row_start_idx + byte_start_idx:col_offset + row_start_idx + byte_start_idx + actual_length]", "R column_vals[col_offset + row_start_idx + byte_start_idx]", "R column_vals[col_offset + row_start_idx:col_offset + row_end_idx]", "R val[0]", "R val[1]", "R val[2]", "R val[3]", "R val[4]", "W elements[row_idx]", "W validity[row_idx]"]),
  ("transform_to_values",
    ["for row_idx in range(written_row_count)"],
    ["R column_inds[col_idx, row_idx + 1]", "R column_inds[col_idx, row_idx]", "R column_offsets[col_idx]", "R column_vals[start_idx:end_idx]"]),
  ("fixed_string_transform",
    ["for c in range(start_idx, end_idx)", "for i in range(written_row_count)"],
    ["R column_inds[col_idx, i + 1]", "R column_inds[col_idx, i]", "R column_offsets[col_idx]", "R column_vals[c]", "W memory[a]"])
]


end Exetera.KernelSites
