import Exetera.Model.Unique
/-! Sorting facts used by the post-processing of `unique_for_indexed_string`, for any total, transitive, antisymmetric
    `le` (core `List.mergeSort` only; no Mathlib). -/
namespace Exetera.Unique
open Exetera Exetera.Spec

section generic
variable {α : Type} [BEq α] [LawfulBEq α] (le : α → α → Bool)

/-- the three order axioms -/
structure IsOrder : Prop where
  trans : ∀ a b c, le a b = true → le b c = true → le a c = true
  total : ∀ a b, (le a b || le b a) = true
  antisymm : ∀ a b, le a b = true → le b a = true → a = b

variable {le}

omit [BEq α] [LawfulBEq α] in
/-- two `le`-ascending duplicate-free lists with the same members are equal -/
theorem eq_of_sorted_of_mem_iff (ho : IsOrder le) {l₁ l₂ : List α}
    (h₁ : l₁.Pairwise (fun a b => le a b = true)) (h₂ : l₂.Pairwise (fun a b => le a b = true))
    (n₁ : l₁.Nodup) (n₂ : l₂.Nodup) (hm : ∀ a, a ∈ l₁ ↔ a ∈ l₂) : l₁ = l₂ :=
  List.Perm.eq_of_pairwise (le := fun a b => le a b = true) (fun a b _ _ hab hba => ho.antisymm a b hab hba) h₁ h₂
    ((List.perm_ext_iff_of_nodup n₁ n₂).mpr hm)

omit [BEq α] [LawfulBEq α] in
theorem mergeSort_sorted (ho : IsOrder le) (xs : List α) : (xs.mergeSort le).Pairwise (fun a b => le a b = true) :=
  List.pairwise_mergeSort ho.trans ho.total xs

/-- **argsort**: for distinct keys, sorting the (key, position) pairs by key lists, for every sorted key, its position -/
theorem argsort_eq (ho : IsOrder le) (xs : List α) (hn : xs.Nodup) :
    ((xs.zipIdx.mergeSort (fun a b => le a.1 b.1)).map (·.2)) = (xs.mergeSort le).map (fun x => xs.idxOf x) := by
  have hperm := List.mergeSort_perm xs.zipIdx (fun a b => le a.1 b.1)
  have hsorted : (xs.zipIdx.mergeSort (fun a b => le a.1 b.1)).Pairwise (fun a b => le a.1 b.1 = true) :=
    List.pairwise_mergeSort (fun a b c => ho.trans a.1 b.1 c.1) (fun a b => ho.total a.1 b.1) _
  have hfs : ((xs.zipIdx.mergeSort (fun a b => le a.1 b.1)).map (·.1)).Pairwise (fun a b => le a b = true) :=
    List.pairwise_map.mpr hsorted
  have hfp : ((xs.zipIdx.mergeSort (fun a b => le a.1 b.1)).map (·.1)).Perm xs := by
    have := hperm.map (·.1)
    rwa [List.zipIdx_map_fst] at this
  have heq : (xs.zipIdx.mergeSort (fun a b => le a.1 b.1)).map (·.1) = xs.mergeSort le :=
    List.Perm.eq_of_pairwise (le := fun a b => le a b = true) (fun a b _ _ hab hba => ho.antisymm a b hab hba)
      hfs (mergeSort_sorted ho xs) (hfp.trans (List.mergeSort_perm xs le).symm)
  rw [← heq, List.map_map]
  apply List.map_congr_left
  intro ⟨x, j⟩ hmem
  have hz := List.mem_zipIdx (hperm.mem_iff.mp hmem)
  obtain ⟨_, hj, hx⟩ := hz
  simp only [Nat.sub_zero, Nat.zero_add] at hj hx
  simp only [Function.comp]
  rw [hx]
  exact (hn.idxOf_getElem j hj).symm

/-! ### the Spec's `uniques` -/

theorem mem_insertU (x y : α) (l : List α) : y ∈ insertU le x l ↔ y = x ∨ y ∈ l := by
  induction l with
  | nil => simp [insertU]
  | cons z zs ih =>
    simp only [insertU]
    split
    · rename_i h; have h := eq_of_beq h; subst h; simp
    · split
      · simp
      · simp only [List.mem_cons, ih]
        constructor
        · rintro (h | h | h) <;> simp [h]
        · rintro (h | h | h) <;> simp [h]

/-- strictly ascending -/
def StrictSorted (le : α → α → Bool) (l : List α) : Prop := l.Pairwise (fun a b => le a b = true ∧ a ≠ b)

theorem insertU_strict (ho : IsOrder le) (x : α) (l : List α) (h : StrictSorted le l) : StrictSorted le (insertU le x l) := by
  induction l with
  | nil => simp [insertU, StrictSorted]
  | cons z zs ih =>
    have hz := List.pairwise_cons.mp h
    simp only [insertU]
    split
    · exact h
    · rename_i hxz
      have hxz : x ≠ z := by simpa using hxz
      split
      · rename_i hle
        refine List.pairwise_cons.mpr ⟨?_, h⟩
        intro b hb
        rcases List.mem_cons.mp hb with rfl | hb
        · exact ⟨hle, hxz⟩
        · have := hz.1 b hb
          refine ⟨ho.trans _ _ _ hle this.1, ?_⟩
          intro e; subst e
          exact hxz (ho.antisymm _ _ hle this.1)
      · rename_i hle
        have hzx : le z x = true := by
          have := ho.total x z
          simp only [Bool.or_eq_true] at this
          rcases this with h' | h'
          · exact absurd h' hle
          · exact h'
        refine List.pairwise_cons.mpr ⟨?_, ih hz.2⟩
        intro b hb
        rcases (mem_insertU x b zs).mp hb with rfl | hb
        · exact ⟨hzx, fun e => hxz e.symm⟩
        · exact hz.1 b hb

theorem uniques_strict (ho : IsOrder le) (col : List α) : StrictSorted le (uniques le col) := by
  induction col with
  | nil => simp [uniques, StrictSorted]
  | cons x xs ih => exact insertU_strict ho x _ ih

theorem mem_uniques (col : List α) (x : α) : x ∈ uniques le col ↔ x ∈ col := by
  induction col with
  | nil => simp [uniques]
  | cons y ys ih =>
    have : uniques le (y :: ys) = insertU le y (uniques le ys) := rfl
    rw [this, mem_insertU, ih]; simp

theorem uniques_sorted (ho : IsOrder le) (col : List α) : (uniques le col).Pairwise (fun a b => le a b = true) :=
  (uniques_strict ho col).imp (fun h => h.1)

theorem uniques_nodup (ho : IsOrder le) (col : List α) : (uniques le col).Nodup :=
  List.nodup_iff_pairwise_ne.mpr ((uniques_strict ho col).imp (fun h => h.2))

/-- sorting the distinct values of a column (in any order) gives the Spec's `uniques` -/
theorem mergeSort_eq_uniques (ho : IsOrder le) (col d : List α) (hd : d.Nodup) (hm : ∀ x, x ∈ d ↔ x ∈ col) :
    d.mergeSort le = uniques le col := by
  have hp := List.mergeSort_perm d le
  exact eq_of_sorted_of_mem_iff ho (mergeSort_sorted ho d) (uniques_sorted ho col) (hp.nodup_iff.mpr hd)
    (uniques_nodup ho col) (fun a => by rw [hp.mem_iff, hm, mem_uniques])

/-! ### positions -/

theorem map_idxOf_self (d : List α) (hd : d.Nodup) : d.map (fun x => d.idxOf x) = List.range d.length := by
  apply List.ext_getElem
  · simp
  · intro i h1 h2
    simp only [List.getElem_map, List.getElem_range]
    exact hd.idxOf_getElem i (by simpa using h1)

/-- `idxOf` commutes with a map that is injective on the values involved -/
theorem idxOf_map_of_inj {β : Type} [BEq β] [LawfulBEq β] (f : α → β) (x : α) : ∀ (l : List α),
    (∀ y ∈ l, f y = f x → y = x) → (l.map f).idxOf (f x) = l.idxOf x := by
  intro l
  induction l with
  | nil => intro _; simp
  | cons y ys ih =>
    intro h
    have hy := h y (List.mem_cons_self)
    have ih' := ih (fun z hz => h z (List.mem_cons_of_mem _ hz))
    simp only [List.map_cons, List.idxOf_cons]
    by_cases e : y = x
    · subst e; simp
    · have h1 : (f y == f x) = false := by simpa using fun e' => e (hy e')
      have h2 : (y == x) = false := by simpa using e
      simp [h1, h2, ih']

end generic

/-! ### the integer argsort of a permutation is its inverse -/

theorem natLe_isOrder : IsOrder (fun (a b : Nat) => decide (a ≤ b)) :=
  ⟨by intro a b c; simp only [decide_eq_true_eq]; omega, by intro a b; simp only [Bool.or_eq_true, decide_eq_true_eq]; omega,
   by intro a b; simp only [decide_eq_true_eq]; omega⟩

theorem npArgsortNat_perm (perm : List Nat) (hp : perm.Perm (List.range perm.length)) :
    npArgsortNat perm = (List.range perm.length).map (fun d => perm.idxOf d) := by
  have hn : perm.Nodup := hp.nodup_iff.mpr List.nodup_range
  unfold npArgsortNat
  rw [argsort_eq natLe_isOrder perm hn]
  congr 1
  have hs := mergeSort_sorted natLe_isOrder perm
  have hr : (List.range perm.length).Pairwise (fun a b => decide (a ≤ b) = true) :=
    List.pairwise_lt_range.imp (fun h => by simp only [decide_eq_true_eq]; omega)
  exact List.Perm.eq_of_pairwise (le := fun a b => decide (a ≤ b) = true)
    (fun a b _ _ hab hba => natLe_isOrder.antisymm a b hab hba) hs hr ((List.mergeSort_perm perm _).trans hp)

/-! ### fancy indexing -/

theorem gather_map {β : Type} (xs : List Nat) (site : String) (g h : β → Nat) : ∀ (l : List β),
    (∀ a ∈ l, xs[g a]? = some (h a)) → gather xs site (l.map g) = .ok (l.map h) := by
  intro l
  induction l with
  | nil => intro _; rfl
  | cons a as ih =>
    intro hh
    have ha := hh a (List.mem_cons_self)
    simp only [List.map_cons, gather, getE_eq_ok.mpr ha, ih (fun b hb => hh b (List.mem_cons_of_mem _ hb))]

/-! ### trailing U+0000 -/

/-- the hypothesis that excludes finding NC14a: no stored string ends with a zero byte (U+0000) -/
def NoTrailingNul (col : List Bytes) : Prop := ∀ x ∈ col, x.getLast? ≠ some 0

theorem stripNul_eq {x : Bytes} (h : x.getLast? ≠ some 0) : stripNul x = x := by
  rcases List.eq_nil_or_concat x with rfl | ⟨ys, z, rfl⟩
  · rfl
  · have hz : z ≠ 0 := by
      intro e; apply h; simp [e]
    simp [stripNul, hz]

theorem map_stripNul_eq {d : List Bytes} (h : ∀ x ∈ d, x.getLast? ≠ some 0) : d.map stripNul = d := by
  conv => rhs; rw [← List.map_id d]
  exact List.map_congr_left (fun x hx => stripNul_eq (h x hx))

end Exetera.Unique
