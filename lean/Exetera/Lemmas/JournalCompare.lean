import Exetera.Lemmas.JournalFor
/-! `compare_rows_for_journalling` / `compare_indexed_rows_for_journalling`: one call ORs, slot by slot, the column's verdict
    into `to_keep`. -/
namespace Exetera.Journal
open Exetera

/-- the verdict of one compared column on a slot with map entries `o`, `n`; `d` = the two cells differ -/
def slotKeep (o n : Int) (d : Bool) : Bool := if o == -1 then true else if n == -1 then false else d

theorem setTk_ok {tk : List Bool} {i : Nat} (v : Bool) (h : i < tk.length) : setTk tk i v = .ok (tk.set i v) := by
  simp [setTk, setE, h]

theorem compare_loop {om nm : List Int} {tk : List Bool} {differs : Int → Int → Except Err Bool} (D : Nat → Bool)
    (hl1 : nm.length = om.length) (hl2 : tk.length = om.length)
    (hD : ∀ i (h : i < om.length), om[i] ≠ -1 → nm[i] ≠ -1 → differs om[i] nm[i] = .ok (D i)) :
    ∃ R, forE (compareBody om nm differs) om.length 0 tk = .ok R ∧ R.length = om.length ∧
      ∀ i (h : i < om.length), R[i]? = some (tk[i] || slotKeep om[i] nm[i] (D i)) := by
  obtain ⟨R, hR, hlen, hdone, -⟩ := forE_rule (compareBody om nm differs)
    (fun i R => R.length = om.length ∧
      (∀ t (h : t < om.length), t < i → R[t]? = some (tk[t] || slotKeep om[t] nm[t] (D t))) ∧
      (∀ t (h : t < om.length), i ≤ t → R[t]? = some tk[t]))
    om.length 0 tk
    (by
      intro i R _ hi ⟨hlen, hdone, htodo⟩
      have hi : i < om.length := by omega
      have hRi : R[i]? = some tk[i] := htodo i hi (Nat.le_refl _)
      have hgR : getE R i "to_keep[i]" = .ok tk[i] := by rw [getE_eq_ok]; exact hRi
      have hgo : getE om i "old_map[i]" = .ok om[i] := getE_of_lt _ hi
      have hgn : getE nm i "new_map[i]" = .ok nm[i] := getE_of_lt _ (by omega)
      have hiR : i < R.length := by omega
      -- the three clauses of the invariant after writing `v` at `i`
      have key : ∀ v : Bool, v = (tk[i] || slotKeep om[i] nm[i] (D i)) →
          (R.set i v).length = om.length ∧
          (∀ t (h : t < om.length), t < i + 1 → (R.set i v)[t]? = some (tk[t] || slotKeep om[t] nm[t] (D t))) ∧
          (∀ t (h : t < om.length), i + 1 ≤ t → (R.set i v)[t]? = some tk[t]) := by
        intro v hv
        refine ⟨by simp [hlen], ?_, ?_⟩
        · intro t ht hti
          by_cases e : t = i
          · subst e; rw [List.getElem?_set_self hiR, hv]
          · rw [List.getElem?_set_ne (by omega)]; exact hdone t ht (by omega)
        · intro t ht hti
          rw [List.getElem?_set_ne (by omega)]; exact htodo t ht (by omega)
      cases htk : tk[i] with
      | true =>
        refine ⟨R, by simp [compareBody, hgR, htk, bind, Except.bind, pure, Except.pure], hlen, ?_, ?_⟩
        · intro t ht hti
          by_cases e : t = i
          · subst e; rw [hRi, htk]; simp
          · exact hdone t ht (by omega)
        · intro t ht hti; exact htodo t ht (by omega)
      | false =>
        by_cases ho : om[i] = -1
        · refine ⟨R.set i true, ?_, key true (by simp [slotKeep, ho])⟩
          simp [compareBody, hgR, htk, hgo, ho, bind, Except.bind, setTk_ok _ hiR]
        · by_cases hn : nm[i] = -1
          · refine ⟨R.set i false, ?_, key false (by simp [slotKeep, ho, hn, htk])⟩
            simp [compareBody, hgR, htk, hgo, ho, hgn, hn, bind, Except.bind, setTk_ok _ hiR]
          · refine ⟨R.set i (D i), ?_, key (D i) (by simp [slotKeep, ho, hn, htk])⟩
            simp [compareBody, hgR, htk, hgo, ho, hgn, hn, hD i hi ho hn, bind, Except.bind, setTk_ok _ hiR])
    ⟨hl2, by intro t _ h; omega, by intro t ht _; exact List.getElem?_eq_getElem (by omega)⟩
  refine ⟨R, hR, hlen, ?_⟩
  intro i hi
  exact hdone i hi (by omega)

end Exetera.Journal
