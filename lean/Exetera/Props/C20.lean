import Exetera.Lemmas.DatesDays
/-!
# C20 — date helpers bucket timestamps into the day and the period that contain them

All theorems are about `Exetera.Dates.*` (lean/Exetera/Model/Dates.lean), the model the correspondence driver executes
(`Driver/C20.lean`), over exact integer seconds, for all inputs (no size bounds). The vocabulary (`IsDayOf`, `IsOrigin`,
`inRangeFlag`, `boundaries`, `InPeriod`) is in lean/Exetera/Spec/Dates.lean. An `.ok` result means: no numpy/datetime error
point of the code is reached (no IndexError, ValueError, OverflowError) and the stepping loop terminated.
-/
namespace Exetera.Props.C20
open Exetera Exetera.Dates Exetera.Spec.Dates

/-! ## get_days -/

/-- `get_days_floor` + `origin_is_min_unfiltered`: whatever `get_days` returns, there is an origin `o` — the explicit
    `start_date`, else the least timestamp among the rows passing the filter — such that every row's day number `d` satisfies
    `o + 86400·d ≤ t < o + 86400·(d+1)`. -/
theorem get_days_floor {ts : List Int} {filt : Option (List Int)} {start end_ : Option Int} {out : DaysOut}
    (h : getDays ts filt start end_ = .ok out) :
    ∃ o, IsOrigin ts filt start o ∧ out.days.length = ts.length ∧
      ∀ (i : Nat) (t : Int), ts[i]? = some t → ∃ d, out.days[i]? = some d ∧ IsDayOf o t d := by
  obtain ⟨o, ho, hd, _, _⟩ := getDays_spec h
  refine ⟨o, ho, by simp [hd], ?_⟩
  intro i t ht
  exact ⟨floorDays o t, by simp [hd, ht], floorDays_isDayOf o t⟩

example : getDays [172805, 5, 518405] (some [0, 0, 2]) none none = .ok ⟨[-4, -6, 0], some [false, false, true]⟩ := by rfl

/-- the day number is unique: `IsDayOf o t` determines `d`. -/
theorem day_unique {o t d d' : Int} (h : IsDayOf o t d) (h' : IsDayOf o t d') : d = d' := isDayOf_unique h h'

example : IsDayOf 5 172805 2 := by unfold IsDayOf; omega

/-- `in_range_iff`: the flag of a row is true iff the row passes the filter (`bool`, or `int8` non-zero) and its timestamp lies
    in `[start, end)` (each bound only if given); no flags are returned exactly when neither filter nor bounds were given. -/
theorem in_range_iff {ts : List Int} {filt : Option (List Int)} {start end_ : Option Int} {out : DaysOut}
    (h : getDays ts filt start end_ = .ok out) :
    ((filt = none ∧ start = none ∧ end_ = none) → out.inRange = none) ∧
    (¬(filt = none ∧ start = none ∧ end_ = none) → ∃ fl, out.inRange = some fl ∧ fl.length = ts.length ∧
      ∀ (i : Nat) (t : Int), ts[i]? = some t → fl[i]? = some (inRangeFlag filt start end_ i t)) := by
  obtain ⟨_, _, _, h1, h2⟩ := getDays_spec h
  exact ⟨h1, h2⟩

example : getDays [172805, 5, 518405] (some [2, 0, 1]) (some 6) (some 518405) =
    .ok ⟨[1, -1, 5], some [true, false, false]⟩ := by rfl

/-- `get_days` is total where the property is defined: if the filter (when given) has one element per row and an origin exists
    (a `start_date`, or at least one row passing the filter), the call returns. -/
theorem get_days_ok {ts : List Int} {filt : Option (List Int)} (start end_ : Option Int)
    (hlen : ∀ f, filt = some f → f.length = ts.length)
    (horg : start = none → ∃ i, i < ts.length ∧ passes filt i = true) :
    ∃ out, getDays ts filt start end_ = .ok out :=
  getDays_ok_of_origin start end_ hlen horg

example : ∃ i, i < [172805, 5, 518405].length ∧ passes (some [0, 0, 2]) i = true := ⟨2, by decide, by decide⟩

/-- … and the origin hypothesis is exactly what is needed: without a `start_date` and without a passing row the call raises
    numpy's `ValueError` (empty minimum). -/
theorem get_days_no_origin {ts : List Int} {filt : Option (List Int)} (end_ : Option Int)
    (hlen : ∀ f, filt = some f → f.length = ts.length)
    (hno : ¬ ∃ i, i < ts.length ∧ passes filt i = true) :
    ∃ msg, getDays ts filt none end_ = .error (.valueError msg) :=
  ⟨_, getDays_error_of_no_origin end_ hlen hno⟩

example : ¬ ∃ i, i < [5, 7].length ∧ passes (some [0, 0]) i = true := by decide

/-- an `.ok` result implies the filter had one element per row (a mismatch is an error, never a silent truncation). -/
theorem get_days_ok_lengths {ts : List Int} {filt : Option (List Int)} {start end_ : Option Int} {out : DaysOut}
    (h : getDays ts filt start end_ = .ok out) : ∀ f, filt = some f → f.length = ts.length :=
  getDays_ok_len h

example : getDays [5, 7, 9] (some [1, 0]) (some 0) none = .error (.valueError "operands could not be broadcast together") := by
  rfl

end Exetera.Props.C20
