"""Base harness of C12 for the legacy column mapper `ops.ordered_map_valid_stream_old` (behind the streamed form of
Session.ordered_merge_left/right): the real function on memory fields vs Exetera.JoinOld.mapValidStreamOldR (Lean, NC12a repaired;
the as-found variant mapValidStreamOld is reported next to it). Calls of `ordered_map_valid_partial_old` are counted by wrapping the
module attribute from outside; a run making more calls than any terminating run can (|map| + |data| + 2) is the enum `hang`
(deterministic rendering of "spins"). Valid in-range maps are always generated; maps with an entry that is not a row of the source
(the NC12a shape) come from corpus/C12/*.json only — see fixes/NC12a_*.  Routed through checks/harness/c12.py (`_h = "c12_legacy"`)."""
from checks import corpus

PROPERTY = "C12"
_S = {}


class StepBudgetExceeded(Exception):
    pass


def _env():
    if not _S:
        import numpy as np
        from exetera.core import operations as ops, fields
        from exetera.core.session import Session
        _S.update(np=np, ops=ops, fields=fields, s=Session(), orig=ops.ordered_map_valid_partial_old)
    return _S


def mk(src, m, inv, cs, **kw):
    c = {"op": "legacy_map_stream", "src": src, "map": m, "inv": inv, "cs": cs, "dtype": "int64"}
    c.update(kw)
    return c


def gen_cases(tier, rng):
    out = [c for c in corpus.load("C12") if c.get("op") == "legacy_map_stream"]
    # small fixed scope: ordered in-range maps with markers, every chunk size 1..5
    src = [11, 14, 17, 20, 23]
    for m in ([], [0], [-1], [-1, 0, 0, 1, 3, 3, -1, 4], [0, 1, 2, 3, 4], [4, 4, 4], [-1, -1, -1, 2], [0, -1, 4, -1]):
        for cs in range(1, 6):
            out.append(mk(src, m, -1, cs))
    out.append(mk([], [-1, -1], -1, 2))
    nrand = {"quick": 120, "thorough": 3000, "search": 800}[tier]
    for _ in range(nrand):
        n = rng.choice([1, 2, 3, 8, 33, rng.randrange(1, 120)])
        ln = rng.choice([0, 1, 2, 9, 40, rng.randrange(0, 150)])
        inv = rng.choice([-1, 1 << 62])
        ks = sorted(rng.randrange(0, n) for _ in range(ln))
        m = [inv if rng.random() < 0.25 else k for k in ks]
        cs = rng.choice([1, 2, 3, 7, max(1, n - 1), n, n + 1, max(1, ln), rng.randrange(1, 60)])
        out.append(mk([rng.randrange(-500, 500) for _ in range(n)], m, inv, cs))
    return out


def impl(case):
    e = _env()
    np, ops, fields, s = e["np"], e["ops"], e["fields"], e["s"]
    dt = case.get("dtype", "int64")
    src = fields.NumericMemField(s, dt)
    if case["src"]:
        src.data.write(np.array(case["src"], dtype=dt))
    m = fields.NumericMemField(s, "int64")
    if case["map"]:
        m.data.write(np.array(case["map"], dtype=np.int64))
    out = fields.NumericMemField(s, dt)
    state = {"n": 0}
    budget = len(case["map"]) + len(case["src"]) + 2
    orig = e["orig"]

    def counted(*a):
        state["n"] += 1
        if state["n"] > budget:
            raise StepBudgetExceeded()
        return orig(*a)
    ops.ordered_map_valid_partial_old = counted
    try:
        ops.ordered_map_valid_stream_old(src, m, out, invalid=case["inv"], chunksize=case["cs"])
    except StepBudgetExceeded:
        return {"err": "hang", "calls": state["n"]}
    finally:
        ops.ordered_map_valid_partial_old = orig
    return {"data": [int(x) for x in out.data[:].tolist()], "calls": state["n"]}


impl_counted = impl


def is_streamed(case):
    return True


def step_bound(case, io):
    # theorem legacy_map_stream_never_spins: every call consumes a map entry or moves to the next data chunk
    return len(case["map"]) + len(case["src"]) + 1


def compare(case, io, mo, mode):
    def same(m):
        if "err" in io:
            return "err" in m and m["err"] == io["err"]
        return "ok" in m and m["ok"] == io["data"]
    if same(mo):
        return None
    af = mo.get("as_found")
    if af is not None and same(af):
        return None          # the code before fix NC12a: accepted as the as-found variant, reported by check_spec
    return f"impl {io} model {mo}"


def unmapped_row(case):
    return any(k != case["inv"] and k >= len(case["src"]) for k in case["map"])


def check_spec(case, io, mode):
    if io.get("err") == "hang":
        return "ordered_map_valid_stream_old re-calls its partial kernel without progress (spins)"
    if "err" in io:
        return None if unmapped_row(case) or any(k != case["inv"] and k < 0 for k in case["map"]) else f"raised {io['err']}"
    exp = [0 if k == case["inv"] else case["src"][k] for k in case["map"]]
    ordered = all(a <= b for a, b in zip([k for k in case["map"] if k != case["inv"]], [k for k in case["map"] if k != case["inv"]][1:]))
    if ordered and not unmapped_row(case) and io["data"] != exp:
        return f"destination {io['data']} differs from the mapped column {exp}"
    return None


def match_finding(case, io, mode):
    if io.get("err") == "hang" and unmapped_row(case):
        return "NC12a"
    return None


def nontrivial(case, mo):
    return len(case["map"]) > case["cs"] or len(case["src"]) > case["cs"]


def classify(case, mo):
    tags = ["legacy_map_stream"]
    if unmapped_row(case):
        tags.append("unmapped-row")
    if len(case["map"]) > case["cs"]:
        tags.append("multi-chunk")
    if len(case["src"]) > case["cs"]:
        tags.append("multi-data-chunk")
    if not case["map"]:
        tags.append("empty")
    return tags


def warm_up():
    """compile ordered_map_valid_partial_old for the signatures the cases use, outside the per-case alarm"""
    for c in (mk([1, 2, 3], [0, -1, 2], -1, 2), mk([], [-1], -1, 1)):
        try:
            impl(c)
        except Exception:   # noqa
            pass
