import Exetera.Model.Unique
/-! `compare_arrays` is the three-way lexicographic comparison `lexCmp`; `lexCmp` is a total order on byte strings. -/
namespace Exetera.Unique
open Exetera Exetera.Spec

/-! ### facts about `lexCmp` -/

theorem lexCmp_range (a b : Bytes) : lexCmp a b = -1 ∨ lexCmp a b = 0 ∨ lexCmp a b = 1 := by
  fun_induction lexCmp a b <;> simp_all

theorem lexCmp_self (a : Bytes) : lexCmp a a = 0 := by
  induction a with
  | nil => rfl
  | cons x xs ih => simp [lexCmp, ih, UInt8.lt_irrefl]

theorem lexCmp_eq_zero {a b : Bytes} : lexCmp a b = 0 ↔ a = b := by
  constructor
  · intro h
    fun_induction lexCmp a b with
    | case1 => rfl
    | case2 => simp at h
    | case3 => simp at h
    | case4 => simp at h
    | case5 => simp at h
    | case6 x xs y ys h1 h2 ih =>
      have : x = y := by
        have := UInt8.le_antisymm (UInt8.not_lt.mp h2) (UInt8.not_lt.mp h1)
        exact this
      rw [this, ih h]
  · intro h; subst h; exact lexCmp_self a

theorem lexCmp_swap (a b : Bytes) : lexCmp b a = - lexCmp a b := by
  fun_induction lexCmp a b with
  | case1 => rfl
  | case2 => simp [lexCmp]
  | case3 => simp [lexCmp]
  | case4 x xs y ys h =>
    have : ¬ y < x := UInt8.lt_asymm h
    simp [lexCmp, h, this]
  | case5 x xs y ys h1 h2 => simp [lexCmp, h2]
  | case6 x xs y ys h1 h2 ih => simp [lexCmp, h1, h2, ih]


theorem lexCmp_le_trans : ∀ (a b c : Bytes), lexCmp a b ≤ 0 → lexCmp b c ≤ 0 → lexCmp a c ≤ 0 := by
  intro a
  induction a with
  | nil => intro b c _ _; cases c <;> simp [lexCmp]
  | cons x xs ih =>
    intro b c h1 h2
    cases b with
    | nil => simp [lexCmp] at h1
    | cons y ys =>
      cases c with
      | nil => simp [lexCmp] at h2
      | cons z zs =>
        simp only [lexCmp] at h1 h2 ⊢
        have hxy := @UInt8.lt_iff_toNat_lt x y
        have hyx := @UInt8.lt_iff_toNat_lt y x
        have hyz := @UInt8.lt_iff_toNat_lt y z
        have hzy := @UInt8.lt_iff_toNat_lt z y
        have hxz := @UInt8.lt_iff_toNat_lt x z
        have hzx := @UInt8.lt_iff_toNat_lt z x
        by_cases c1 : x < y
        · have : x < z ∨ ¬ (x < z) := Classical.em _
          by_cases c2 : y < z
          · have : x < z := by rw [hxz]; rw [hxy] at c1; rw [hyz] at c2; omega
            simp [this]
          · by_cases c3 : z < y
            · simp [c2, c3] at h2
            · have : y = z := UInt8.le_antisymm (UInt8.not_lt.mp c3) (UInt8.not_lt.mp c2)
              subst this
              simp [c1]
        · by_cases c1' : y < x
          · simp [c1, c1'] at h1
          · have : x = y := UInt8.le_antisymm (UInt8.not_lt.mp c1') (UInt8.not_lt.mp c1)
            subst this
            simp only [c1, if_false] at h1
            by_cases c2 : x < z
            · simp [c2]
            · by_cases c3 : z < x
              · simp [c2, c3] at h2
              · simp only [c2, c3, if_false] at h2 ⊢
                exact ih ys zs h1 h2

/-! ### `bytesLe` is a total, transitive, antisymmetric order -/

theorem bytesLe_iff {a b : Bytes} : bytesLe a b = true ↔ lexCmp a b ≤ 0 := by simp [bytesLe]

theorem bytesLe_trans (a b c : Bytes) : bytesLe a b = true → bytesLe b c = true → bytesLe a c = true := by
  simp only [bytesLe_iff]; exact lexCmp_le_trans a b c

theorem bytesLe_total (a b : Bytes) : (bytesLe a b || bytesLe b a) = true := by
  simp only [Bool.or_eq_true, bytesLe_iff]
  have := lexCmp_swap a b
  omega

theorem bytesLe_antisymm {a b : Bytes} : bytesLe a b = true → bytesLe b a = true → a = b := by
  simp only [bytesLe_iff]
  intro h1 h2
  have := lexCmp_swap a b
  exact lexCmp_eq_zero.mp (by omega)

theorem bytesLe_refl (a : Bytes) : bytesLe a a = true := by simp [bytesLe_iff, lexCmp_self]

/-- `v > t` and `u ≤ t` give `v > u` -/
theorem lexCmp_gt_of_gt_of_le {v t u : Bytes} (h : lexCmp v t = 1) (hu : bytesLe u t = true) : lexCmp v u = 1 := by
  rcases lexCmp_range v u with h' | h' | h'
  · have := lexCmp_le_trans v u t (by omega) (bytesLe_iff.mp hu); omega
  · have := lexCmp_le_trans v u t (by omega) (bytesLe_iff.mp hu); omega
  · exact h'

/-- `v < t` and `t ≤ u` give `v < u` -/
theorem lexCmp_lt_of_lt_of_le {v t u : Bytes} (h : lexCmp v t = -1) (hu : bytesLe t u = true) : lexCmp v u = -1 := by
  have hs := lexCmp_swap v u
  have hs' := lexCmp_swap v t
  rcases lexCmp_range v u with h' | h' | h'
  · exact h'
  · have := lexCmp_le_trans t u v (bytesLe_iff.mp hu) (by omega); omega
  · have := lexCmp_le_trans t u v (bytesLe_iff.mp hu) (by omega); omega

/-! ### `compare_arrays` -/

/-- what the index loop of `compare_arrays` computes on the two suffixes it still has to look at -/
def loopRes : Bytes → Bytes → Nat → Option Int
  | _, _, 0 => none
  | x :: xs, y :: ys, k + 1 => if x < y then some (-1) else if x > y then some 1 else loopRes xs ys k
  | _, _, _ + 1 => none

theorem compareLoop_eq (a b : Bytes) : ∀ (k i : Nat), i + k ≤ a.length → i + k ≤ b.length →
    compareLoop a b k i = .ok (loopRes (a.drop i) (b.drop i) k) := by
  intro k
  induction k with
  | zero => intro i _ _; simp [compareLoop, loopRes]
  | succ k ih =>
    intro i ha hb
    have hia : i < a.length := by omega
    have hib : i < b.length := by omega
    rw [compareLoop, getE_of_lt _ hia, getE_of_lt _ hib]
    rw [List.drop_eq_getElem_cons hia, List.drop_eq_getElem_cons hib]
    simp only [loopRes]
    split
    · rfl
    · split
      · rfl
      · exact ih (i + 1) (by omega) (by omega)

theorem loopRes_min (a b : Bytes) :
    (match loopRes a b (min a.length b.length) with
     | some r => r
     | none => if a.length < b.length then -1 else if b.length < a.length then 1 else 0) = lexCmp a b := by
  fun_induction lexCmp a b with
  | case1 => simp [loopRes]
  | case2 => simp [loopRes]
  | case3 => simp [loopRes]
  | case4 x xs y ys h => simp [loopRes, h, Nat.succ_min_succ]
  | case5 x xs y ys h1 h2 => simp [loopRes, h1, h2, Nat.succ_min_succ]
  | case6 x xs y ys h1 h2 ih =>
    simp only [List.length_cons, Nat.succ_min_succ, loopRes, h1, h2, if_false, Nat.add_lt_add_iff_right]
    exact ih

/-- **compare_arrays_is_lex**: `compare_arrays(a, b)` never reads out of bounds and returns `lexCmp a b` -/
theorem compareArrays_eq (a b : Bytes) : compareArrays a b = .ok (lexCmp a b) := by
  unfold compareArrays
  rw [compareLoop_eq a b _ 0 (by omega) (by omega)]
  simp only [List.drop_zero]
  have := loopRes_min a b
  split at this <;> simp_all <;> (repeat' split) <;> simp_all

end Exetera.Unique
