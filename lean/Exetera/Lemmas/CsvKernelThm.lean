import Exetera.Lemmas.CsvKernel
/-! `fast_csv_reader` on a window that holds (an optional header line and) complete records (C05). -/
namespace Exetera.Csv
open Exetera Spec

/-- the result of a kernel call: resume position, number of complete records, no buffer full, and column `c` of the staging
    buffers holds the entries `E c` -/
structure KernelOK (ncols maxrow : Nat) (offs : List Nat) (o : KOut) (np n : Nat) (E : Nat → List Bytes) : Prop where
  nextPos : o.nextPos = np
  written : o.written = (n : Int)
  indsFull : o.indsFull = false
  valsFull : o.valsFull = false
  vfc : o.vfc = none
  shape : Shape ncols maxrow offs o.inds o.vals
  cols : ∀ c, c < ncols → ColOK offs o.inds o.vals c (E c)

theorem stageRow_true (E : Nat → List Bytes) (cs : List Cell) : ∀ j, stageRow true E j cs = E := by
  induction cs with
  | nil => intro j; rfl
  | cons c cs ih => intro j; simp [stageRow, stage, ih]

theorem rowCap_true (offs : List Nat) (E : Nat → List Bytes) (cs : List Cell) : ∀ j, RowCap offs true E j cs := by
  induction cs with
  | nil => intro j; trivial
  | cons c cs ih => intro j; exact ⟨fun h => (by cases h), (by simpa [stage] using ih (j + 1))⟩

theorem leadWs_renderCells_lt (cs : List Cell) (hne : cs ≠ []) (X : Bytes) :
    leadWs (renderCells cs ++ X) < (renderCells cs ++ X).length := by
  cases cs with
  | nil => exact absurd rfl hne
  | cons c cs =>
    cases cs with
    | nil =>
      have h := congrArg List.length (lead_split c NL X (Or.inr rfl))
      have : renderCells [c] ++ X = renderCell c ++ NL :: X := by simp [renderCells]
      rw [this]
      simp only [List.length_append, List.length_cons] at h ⊢
      unfold leadWs
      show (List.takeWhile isWs _).length < _
      omega
    | cons d ds =>
      have h := congrArg List.length (lead_split c SEP (renderCells (d :: ds) ++ X) (Or.inl rfl))
      have : renderCells (c :: d :: ds) ++ X = renderCell c ++ SEP :: (renderCells (d :: ds) ++ X) := by
        simp [renderCells]
      rw [this]
      simp only [List.length_append, List.length_cons] at h ⊢
      unfold leadWs
      show (List.takeWhile isWs _).length < _
      omega

theorem kernel_records {src : Bytes} {offs : List Nat} {maxrow ncols : Nat} {inds : List (List Nat)} {vals : List Nat}
    (hh : Bool) (hrow : List Cell) (rows : List (List Cell)) (pre : Bytes)
    (hsrc : src = pre ++ ((if hh then renderCells hrow else []) ++ render rows))
    (hhdr : hh = true → hrow.length = ncols ∧ ∀ c ∈ hrow, c.WF)
    (htab : ∀ r ∈ rows, r.length = ncols ∧ ∀ c ∈ r, c.WF) (hnc : 0 < ncols)
    (hsh : Shape ncols maxrow offs inds vals) (hmax : 0 < maxrow)
    (hz : ∀ c, c < ncols → ∃ r, inds[c]? = some r ∧ r[0]? = some 0)
    (hcap : RowsCap offs (fun _ => []) rows) (hrows : rows.length < maxrow) (hne : hh = true ∨ rows ≠ []) :
    ∃ o, fastCsvReader src pre.length inds vals offs hh = .ok o ∧
      KernelOK ncols maxrow offs o src.length rows.length (stageRows (fun _ => []) rows) := by
  -- the text is not empty and does not consist of blanks only
  have hlead : pre.length + leadWs ((if hh then renderCells hrow else []) ++ render rows) < src.length := by
    rw [hsrc, List.length_append]
    apply Nat.add_lt_add_left
    cases hh with
    | true =>
      have hne' : hrow ≠ [] := by
        intro h; have := (hhdr rfl).1; rw [h] at this; simp at this; omega
      simpa using leadWs_renderCells_lt hrow hne' (render rows)
    | false =>
      rcases hne with h | h
      · cases h
      · cases rows with
        | nil => exact absurd rfl h
        | cons r rs =>
          have hr := (htab r (by simp)).1
          have hne' : r ≠ [] := by intro h'; rw [h'] at hr; simp at hr; omega
          have := leadWs_renderCells_lt r hne' (render rs)
          simpa [render] using this
  -- the loop runs from the entry state to the end of the window
  obtain ⟨n, s', hsteps, hfin⟩ : ∃ n s', KSteps src offs maxrow n
      (initKS pre.length (pre.length + leadWs ((if hh then renderCells hrow else []) ++ render rows)) hh 0 (offAt offs 1)
        inds vals) s' ∧
      CellStart src offs maxrow ncols s' src 0 false rows.length src.length (stageRows (fun _ => []) rows) := by
    have hinit := init_cellStart (src := src) pre ((if hh then renderCells hrow else []) ++ render rows) hh hsh hnc hmax hz
      hlead
    cases hh with
    | true =>
      obtain ⟨hlen, hwf⟩ := hhdr rfl
      have hne' : hrow ≠ [] := by intro h; rw [h] at hlen; simp at hlen; omega
      simp only [if_true] at hinit hsrc
      obtain ⟨n1, s1, hsteps1, hcs1⟩ :=
        row_cells (offs := offs) (maxrow := maxrow) hrow pre (render rows) _ 0 true 0 pre.length (fun _ => []) hne' hwf
          (by omega) hsrc hinit (rowCap_true _ _ _ _) (fun h => by cases h)
      simp only [if_true, stageRow_true] at hcs1
      have hsrc1 : src = (pre ++ renderCells hrow) ++ (render rows ++ []) := by rw [hsrc]; simp
      obtain ⟨n2, s2, hsteps2, hcs2⟩ :=
        rows_run (offs := offs) (maxrow := maxrow) hnc rows (pre ++ renderCells hrow) [] s1 0
          (pre ++ renderCells hrow).length (fun _ => []) htab hsrc1 (by simpa using hcs1) hcap (by omega)
      refine ⟨n1 + n2, s2, StepsN.trans hsteps1 hsteps2, ?_⟩
      have hA : pre ++ renderCells hrow ++ render rows ++ List.takeWhile isWs [] = src := by rw [hsrc]; simp
      have hnp : (if rows = [] then (pre ++ renderCells hrow).length else (pre ++ renderCells hrow ++ render rows).length) =
          src.length := by
        split
        · rename_i h; rw [hsrc, h]; simp [render]
        · rw [hsrc]; simp
      rw [hA, hnp] at hcs2
      simpa using hcs2
    | false =>
      simp only [Bool.false_eq_true, if_false, List.nil_append] at hinit hsrc
      have hsrc1 : src = pre ++ (render rows ++ []) := by rw [hsrc]; simp
      obtain ⟨n2, s2, hsteps2, hcs2⟩ :=
        rows_run (offs := offs) (maxrow := maxrow) hnc rows pre [] _ 0 pre.length (fun _ => []) htab hsrc1
          (by simpa using hinit) hcap (by omega)
      refine ⟨n2, s2, hsteps2, ?_⟩
      have hrne : rows ≠ [] := by
        rcases hne with h | h
        · cases h
        · exact h
      have hA : pre ++ render rows ++ List.takeWhile isWs [] = src := by rw [hsrc]; simp
      rw [hA] at hcs2
      simp only [hrne, if_false] at hcs2
      rw [show pre ++ render rows = src from by rw [hsrc]] at hcs2
      simpa using hcs2
  -- the call itself
  have hdone : kguard s' = false := by
    have := hfin.done
    simp [kguard, this, hfin.index]
  have hn : n ≤ src.length + 1 := by
    have := stepsN_index hsteps
    have h2 := hfin.index
    omega
  have hloop := whileE_of_stepsN hsteps hdone (src.length + 1) hn
  obtain ⟨r0, hr0, hr00⟩ := hz 0 hnc
  have hr0len := hsh.rowLen 0 r0 hr0
  have hg0 : getE inds 0 "column_inds.shape" = .ok r0 := getE_eq_ok.mpr hr0
  have hg1 : getE offs 1 "column_offsets[1]" = .ok (offAt offs 1) :=
    getE_eq_ok.mpr (offs_get hsh.offsLen (by omega))
  have hcs0 : (if hh = true then (Except.ok 0 : Except Err Nat) else get2 inds 0 0 "column_inds[col_index,row_index]") =
      .ok 0 := by
    cases hh
    · simpa using get2_eq _ hr0 hr00
    · rfl
  have hmr : r0.length - 1 = maxrow := by omega
  have hskip : skipFrom src pre.length = pre.length + leadWs ((if hh then renderCells hrow else []) ++ render rows) := by
    rw [hsrc]; exact skipFrom_at _ _
  have hneq : (pre.length + leadWs ((if hh then renderCells hrow else []) ++ render rows) == src.length) = false := by
    simp; omega
  refine ⟨s'.out, ?_, ?_⟩
  · simp only [fastCsvReader, hg0, hcs0, hg1, hmr, hskip, hneq, hloop]
    rfl
  · exact {
      nextPos := hfin.np
      written := by simp [KS.out, hfin.hdr_, hfin.row]
      indsFull := hfin.indsFull
      valsFull := hfin.valsFull
      vfc := hfin.vfc
      shape := hfin.shape
      cols := hfin.cols }

end Exetera.Csv
