import Exetera.Spec.Join
/-!
  Specification of C02: the relational join of two frames on their key columns, as a list (read as a multiset) of
  result rows `(left row number | none, right row number | none)`; `none` stands for "this side is unmatched: its columns
  hold the empty value". Keys are `Int` (the order embedding of the key tuples).
-/
namespace Exetera.Spec

/-- one row of a join result -/
abbrev JoinRow := Option Nat × Option Nat

/-- left join: every left row with each equal-keyed right row, or once alone -/
def leftRel (l r : List Int) : List JoinRow := (leftJoin l r).map (fun p => (some p.1, p.2))

/-- right rows that have no equal-keyed left row -/
def unmatchedRight (l r : List Int) : List JoinRow :=
  (leftJoin r l).filterMap (fun p => match p.2 with | none => some (none, some p.1) | some _ => none)

/-- the relational join of key columns `l` and `r`:
    inner = the equal-keyed pairs; left = every left row, matched or alone; right = the mirror image of left;
    outer = the left join plus the right rows that match nothing -/
def relJoin (how : String) (l r : List Int) : List JoinRow :=
  if how = "left" then leftRel l r
  else if how = "inner" then (innerJoin l r).map (fun p => (some p.1, some p.2))
  else if how = "right" then (leftRel r l).map (fun p => (p.2, p.1))
  else if how = "outer" then leftRel l r ++ unmatchedRight l r
  else []

/-- the column one side contributes to the result: for each result row the source value at that row number, or the
    type's empty value where the side is unmatched; `none` if a row number lies outside the source -/
def selectCells {α} (src : List α) (empty : α) : List (Option Nat) → Option (List α)
  | [] => some []
  | none :: rest => (selectCells src empty rest).map (empty :: ·)
  | some i :: rest =>
    match src[i]?, selectCells src empty rest with
    | some v, some vs => some (v :: vs)
    | _, _ => none

/-- the key of a result row (taken from whichever side is present) -/
def rowKey (l r : List Int) (p : JoinRow) : Option Int :=
  match p.1, p.2 with
  | some i, _ => l[i]?
  | none, some j => r[j]?
  | none, none => none

end Exetera.Spec
