/-!
  C10 — the access sites of the compiled join kernels that `Model/Join.lean` models: loop guards and array subscripts
  (R read / W write), frozen from the source the model was written against. `Props/C10.lean` proves that the shapes
  regenerated from the CURRENT source (`Gen/KernelShape.lean`) are these — so a dropped guard conjunct or a new
  subscript in the source breaks the build instead of going unmodelled.

  Model ↔ site map: `left[i]`, `right[j]` = the two `getE` of `generalBody`/`uniqueBody`; `left[i_+1]`, `left[i_]`,
  `right[j_+1]`, `right[j_]` = `runCount`; `right[j+1]` / `left[i+1]` = the look-ahead `getE` of `uniqueBody`;
  `l_result[r]`, `r_result[r]` = `push` (capacity check `r < cap`).
-/
namespace Exetera.KernelSites

/-- the join kernels -/
def joinSites : List (String × List String × List String) := [
  ("generate_ordered_map_to_left_remaining",
    ["while i < i_max and r < len(l_result)"],
    ["W l_result[r]", "W r_result[r]"]),
  ("generate_ordered_map_to_left_partial",
    ["while i < i_max and j < j_max and (r < len(l_result))", "while i_ + 1 < i_max and left[i_ + 1] == left[i_]", "while j_ + 1 < j_max and right[j_ + 1] == right[j_]"],
    ["R left[i]", "R left[i_ + 1]", "R left[i_]", "R right[j]", "R right[j_ + 1]", "R right[j_]", "W l_result[r]", "W r_result[r]"]),
  ("generate_ordered_map_to_left_left_unique_partial",
    ["while i < len(left) and j < j_max and (r < len(l_result))"],
    ["R left[i]", "R right[j + 1]", "R right[j]", "W l_result[r]", "W r_result[r]"]),
  ("generate_ordered_map_to_left_right_unique_partial",
    ["while i < i_max and j < len(right) and (r < len(r_result))"],
    ["R left[i + 1]", "R left[i]", "R right[j]", "W r_result[r]"]),
  ("generate_ordered_map_to_left_both_unique_partial",
    ["while i < i_max and j < j_max and (r < r_max)"],
    ["R left[i]", "R right[j]", "W r_result[r]"]),
  ("generate_ordered_map_to_left_right_unique_remaining",
    ["while i < i_max and r < len(r_result)"],
    ["W r_result[r]"]),
  ("generate_ordered_map_to_inner_partial",
    ["while i < i_max and j < j_max and (r < len(l_result))", "while i_ + 1 < i_max and left[i_ + 1] == left[i_]", "while j_ + 1 < j_max and right[j_ + 1] == right[j_]"],
    ["R left[i]", "R left[i_ + 1]", "R left[i_]", "R right[j]", "R right[j_ + 1]", "R right[j_]", "W l_result[r]", "W r_result[r]"]),
  ("generate_ordered_map_to_inner_left_unique_partial",
    ["while i < i_max and j < j_max and (r < len(l_result))"],
    ["R left[i]", "R right[j + 1]", "R right[j]", "W l_result[r]", "W r_result[r]"]),
  ("generate_ordered_map_to_inner_right_unique_partial",
    ["while i < i_max and j < j_max and (r < len(l_result))"],
    ["R left[i + 1]", "R left[i]", "R right[j]", "W l_result[r]", "W r_result[r]"]),
  ("generate_ordered_map_to_inner_both_unique_partial",
    ["while i < i_max and j < j_max and (r < len(l_result))"],
    ["R left[i]", "R right[j]", "W l_result[r]", "W r_result[r]"])
]

end Exetera.KernelSites
