"""C11 — results identical with and without the JIT. Two-mode differential execution of the owning properties' cases
(JIT in-process vs USE_NUMBA=false), both also compared with the mode-independent Lean model; Lean range lemmas exclude the
one divergence the model can express (fixed-width wrap)."""
from checks.harness import meta

PROPERTY = "C11"
LEVEL = "other"
LEAN_MODULES = ["Exetera.Props.C11", "Exetera.Props.C11Ranges"]
BASES = ["c03", "c04", "c08", "c09", "c14", "c16", "c17", "c06", "c05", "c01", "c07", "c11x"]   # c11x: mode-differential-only cases (floats with NaN, dtype bounds)
MODES = {"quick": ["jit", "nojit"], "thorough": ["jit", "nojit"], "search": ["jit", "nojit"]}
MODE_DIFF_IS_VIOLATION = True
EXHAUSTIVE = {"quick": False, "thorough": False}
TECHNIQUE = "two-mode differential execution (numba JIT vs USE_NUMBA=false) against a mode-independent Lean model + Lean range lemmas (no fixed-width wrap)"
LEVEL_TEXT = ("Other: the Lean model is a third, mode-independent semantics; the implementation is run in both modes on the same cases, "
              "each compared with the model and with each other (values, dtypes, error kinds). Lean range lemmas prove, from the owning "
              "properties' functional theorems, that fixed-width wrap-around — the only JIT/interpreter divergence the model can "
              "express — cannot occur below the documented size limits: every value the join generators store is a row number or the "
              "marker (left_map_range, right_map_range, left_streamed_fits_int32); every offset ordered_map_valid_indexed_stream "
              "stores lies between 0 and the destination's byte count and the subscript map[sm]-d_start lies in [0, chunksize) "
              "(range_safe_map_indexed, range_safe_map_window); every span value is <= the row count, and fits int32 whenever an "
              "entry point chooses int32 (range_safe_spans, range_safe_spans_int32); the offsets stored by "
              "apply_filter_to_index_values / apply_indices_to_index_values and by Session.apply_spans_concat are <= the "
              "destination's byte count (range_safe_filter_indexed, range_safe_index_indexed, range_safe_concat); the journalling "
              "index maps hold -1 or a row number of their table (range_safe_journal_indices); the offsets of every CSV-imported "
              "indexed field are <= its byte count, under C05's no-regrowth hypotheses (range_safe_csv_offsets_partial). Each "
              "lemma ends in FitsInt32/FitsInt64 under 'rows < 2^31' resp. 'rows/bytes < 2^63'.")
LEVEL_NOTE = ("Not a proof of mode equivalence: numba's type unification, typed lists, optional arguments and bytes comparison are runtime "
              "behaviour no model of mine exhibits; they are covered by the differential run only (generator quality bounds what it sees). "
              "The range lemmas speak about STORED values (the observable arrays); intermediate quantities are differences of two stored "
              "offsets / two row numbers of one window, and buffer positions are bounded by the capacities because every write of the "
              "models is a checked access — stated in the header of Props/C11Ranges.lean, not as separate theorems. Group-by, sort "
              "permutations, isin/unique and the numeric transforms have no range lemma (their stored integers are row numbers or "
              "counts <= the row count by the owners' specs, not restated here).")
RULE = ("cases of the owning properties' generators (seeded sample per property) executed in both modes; a case counts as non-trivial "
        "by the owning harness's rule; distinct = distinct case dict")
ASSUMPTIONS = ["the cases exercise the kernels decorated for compilation (each owning harness calls the public entry points)"]
TRUSTED = ["Lean 4.33 kernel (range lemmas)", "checks/harness/*.py"]
EXPLANATION = ("JIT-mode and interpreted-mode executions of the same seeded cases are diffed (values, dtypes, lengths, error kinds) and "
               "both are compared with the Lean model; Lean theorems left_map_range / right_map_range / left_streamed_fits_int32 and the "
               "range_safe_* lemmas of Props/C11Ranges.lean exclude fixed-width wrap in the join maps, the map-valid streams, the span, "
               "filter/index, concat, journalling and CSV-import kernels.")


def gen_cases(tier, rng):
    per = {"quick": 500, "thorough": 8000, "search": 4000}[tier]

    def keep(n, b, c):
        sel = getattr(b, "select_for_mode", None)
        return sel(c, "nojit", "thorough") if sel else True
    return meta.gen_cases(BASES, tier, rng, per, keep)


impl = meta.impl
to_model = meta.to_model
classify = meta.classify
nontrivial = meta.nontrivial
compare = meta.compare


def check_spec(case, io, mode):
    return None


def select_for_mode(case, mode, tier):
    return True


# ------------------------------------------------------------------------------------------------------------------
# worker warm-up: the owning harnesses are imported lazily by `meta.base` — inside the per-case alarm of checks/worker.py.
# Importing them here (ExeTera, pandas, and the bases' own kernel warm-ups) happens before the alarm is armed: an alarm
# firing inside an import or a numba compilation leaves the worker process broken for every following case.
# ------------------------------------------------------------------------------------------------------------------
import sys  # noqa: E402
if sys.argv and sys.argv[0].endswith("worker.py"):
    for _n in meta.available(BASES):
        try:
            _b = meta.base(_n)
            _w = getattr(_b, "warm_up", None)
            if _w:
                _w()
        except Exception:   # noqa
            pass
