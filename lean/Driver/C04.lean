import Driver.Util
import Exetera.Model.MapValid
open Lean Exetera Exetera.MapValid
namespace Driver.C04

def pairs (xs : List (Nat × Nat)) : Json :=
  Json.arr (xs.map (fun (p : Nat × Nat) => Driver.nats [p.1, p.2])).toArray

def optInts (j : Json) (k : String) : Except String (Option (List Int)) :=
  match j.getObjVal? k with
  | .error _ => pure none
  | .ok Json.null => pure none
  | .ok v => do let xs ← fromJson? (α := List Int) v; pure (some xs)

def optInt (j : Json) (k : String) : Except String (Option Int) :=
  match j.getObjVal? k with
  | .error _ => pure none
  | .ok Json.null => pure none
  | .ok v => do let x ← fromJson? (α := Int) v; pure (some x)

def indexedOut (o : List Int × List Int) : Json :=
  Json.mkObj [("indices", Driver.ints o.1), ("values", Driver.ints o.2)]

def handle : Driver.Handler := fun op j =>
  match op with
  | "map_stream" => some do
    let src ← Driver.get? (List Int) j "src"
    let m ← Driver.get? (List Int) j "map"
    let inv ← Driver.get? Int j "inv"
    let cs ← Driver.get? Nat j "cs"
    pure <| Driver.outE Driver.ints (orderedMapValidStream src m inv cs 0)
  | "map_indexed_stream" => some do
    let indices ← Driver.get? (List Int) j "indices"
    let values ← Driver.get? (List Int) j "values"
    let m ← Driver.get? (List Int) j "map"
    let inv ← Driver.get? Int j "inv"
    let cs ← Driver.get? Nat j "cs"
    let vf ← Driver.get? Nat j "vf"
    pure <| Driver.outE indexedOut (orderedMapValidIndexedStream indices values m inv cs vf)
  | "next_map_subchunk" => some do
    let m ← Driver.get? (List Int) j "map"
    let sm ← Driver.get? Nat j "sm"
    let inv ← Driver.get? Int j "inv"
    let cs ← Driver.get? Nat j "cs"
    pure <| Driver.okJson (toJson (nextMapSubchunk m sm inv cs))
  | "map_subchunks" => some do
    let m ← Driver.get? (List Int) j "map"
    let inv ← Driver.get? Int j "inv"
    let cs ← Driver.get? Nat j "cs"
    pure <| Driver.outE pairs (subchunks m inv cs)
  | "extents" => some do
    let m ← Driver.get? (List Int) j "map"
    let s ← Driver.get? Nat j "start"
    let e ← Driver.get? Nat j "end"
    let inv ← Driver.get? Int j "inv"
    pure <| Driver.outE (fun (p : Int × Int) => Driver.ints [p.1, p.2]) (getValidValueExtents m s e inv)
  | "decomposition" => some do
    let indices ← Driver.get? (List Int) j "indices"
    let budget ← Driver.get? Int j "budget"
    let s ← Driver.get? Nat j "start"
    let e ← Driver.get? Nat j "end"
    pure <| Driver.outE pairs (chunkDecomp indices budget s e)
  | "safe_map_values" => some do
    let data ← Driver.get? (List Int) j "src"
    let m ← Driver.get? (List Int) j "map"
    let filt ← Driver.get? (List Bool) j "filter"
    let e ← optInt j "empty"
    pure <| Driver.outE Driver.ints (safeMapValues data m filt e 0)
  | "map_valid" => some do
    let data ← Driver.get? (List Int) j "src"
    let m ← Driver.get? (List Int) j "map"
    let inv ← Driver.get? Int j "inv"
    let r ← optInts j "result"
    pure <| Driver.outE Driver.ints (mapValid data m r inv 0)
  | "safe_map_indexed_values" => some do
    let indices ← Driver.get? (List Int) j "indices"
    let values ← Driver.get? (List Int) j "values"
    let m ← Driver.get? (List Int) j "map"
    let filt ← Driver.get? (List Bool) j "filter"
    let e ← optInts j "empty"
    pure <| Driver.outE indexedOut (safeMapIndexedValues indices values m filt (e.getD []))
  | _ => none

end Driver.C04
