import Exetera.Lemmas.While
import Exetera.Model.Join
import Exetera.Lemmas.JoinSpec
/-! Step counting for the join drivers (C12) and value ranges of the join maps (C11). -/
namespace Exetera

/-- if every iteration bumps a counter by exactly one, a loop run with fuel `n` bumps it by at most `n` -/
theorem whileE_counter {σ} (guard : σ → Bool) (body : σ → Except Err σ) (c : σ → Nat)
    (hb : ∀ s s', body s = .ok s' → c s' = c s + 1) :
    ∀ (n : Nat) (s s' : σ), whileE guard body n s = .ok s' → c s' ≤ c s + n := by
  intro n
  induction n with
  | zero =>
    intro s s' h
    cases hg : guard s with
    | true => simp [whileE, hg] at h
    | false => simp [whileE, hg] at h; subst h; omega
  | succ n ih =>
    intro s s' h
    cases hg : guard s with
    | false => simp [whileE, hg] at h; subst h; omega
    | true =>
      simp only [whileE, hg, if_true] at h
      cases hbs : body s with
      | error e => simp [hbs] at h
      | ok s1 =>
        simp only [hbs] at h
        have := ih s1 s' h
        have := hb s s1 hbs
        omega

namespace Join
open Spec

theorem flush_calls (d : D) : (flush d).calls = d.calls := by
  unfold flush; split <;> rfl

theorem refillLeft_calls {v : Variant} {l : List Int} {cs : Nat} {d d' : D} (h : refillLeft v l cs d = .ok d') :
    d'.calls = d.calls := by
  unfold refillLeft at h
  split at h
  · cases hf : fetchChunk v.ltrim l d.lch.hi cs with
    | error e => simp [hf, bind, Except.bind] at h
    | ok c => simp [hf, bind, Except.bind, pure, Except.pure] at h; subst h; rfl
  · simp [pure, Except.pure] at h; subst h; rfl

theorem refillRight_calls {v : Variant} {r : List Int} {cs : Nat} {d d' : D} (h : refillRight v r cs d = .ok d') :
    d'.calls = d.calls := by
  unfold refillRight at h
  split at h
  · cases hf : fetchChunk v.rtrim r d.rch.hi cs with
    | error e => simp [hf, bind, Except.bind] at h
    | ok c => simp [hf, bind, Except.bind, pure, Except.pure] at h; subst h; rfl
  · simp [pure, Except.pure] at h; subst h; rfl

theorem mainBody_calls {v : Variant} {l r : List Int} {cs : Nat} {inv : Int} {d d' : D}
    (h : mainBody v l r cs inv d = .ok d') : d'.calls = d.calls + 1 := by
  simp only [mainBody, bind, Except.bind] at h
  cases hp : runPartial v (mkP l r cs inv d) d.k with
  | error e => simp [hp] at h
  | ok k =>
    simp only [hp] at h
    cases h1 : refillLeft v l cs { d with k := k, calls := d.calls + 1 } with
    | error e => simp [h1] at h
    | ok d1 =>
      simp only [h1] at h
      cases h2 : refillRight v r cs d1 with
      | error e => simp [h2] at h
      | ok d2 =>
        simp only [h2, pure, Except.pure, Except.ok.injEq] at h
        subst h
        rw [flush_calls, refillRight_calls h2, refillLeft_calls h1]

theorem tailAdvance_calls (l : List Int) (cs : Nat) (d : D) : (tailAdvance l cs d).calls = d.calls := by
  unfold tailAdvance; split <;> rfl

theorem tailBody_calls {l r : List Int} {cs : Nat} {inv : Int} {d d' : D}
    (h : tailBody l r cs inv d = .ok d') : d'.calls = d.calls + 1 := by
  simp only [tailBody, bind, Except.bind] at h
  cases hp : runRemaining (mkP l r cs inv d) d.k with
  | error e => simp [hp] at h
  | ok k =>
    simp only [hp, pure, Except.pure, Except.ok.injEq] at h
    subst h
    rw [flush_calls, tailAdvance_calls]

/-- the number of `_partial` / `_remaining` invocations of a finished run is at most the fuel of each of the two loops -/
theorem streamed_calls_le {v : Variant} {fuel cs : Nat} {inv : Int} {l r : List Int} {o : Out}
    (h : streamed v fuel cs inv l r = .ok o) : o.calls ≤ 2 * fuel := by
  simp only [streamed, bind, Except.bind] at h
  cases h1 : fetchChunk v.ltrim l 0 cs with
  | error e => simp [h1] at h
  | ok lch =>
    cases h2 : fetchChunk v.rtrim r 0 cs with
    | error e => simp [h1, h2] at h
    | ok rch =>
      simp only [h1, h2] at h
      cases h3 : whileE (mainGuard l r) (mainBody v l r cs inv) fuel { lch := lch, rch := rch, k := {} } with
      | error e => simp [h3] at h
      | ok d1 =>
        simp only [h3] at h
        have c1 := whileE_counter _ _ D.calls (fun s s' hs => mainBody_calls hs) fuel _ _ h3
        cases hv : v.isLeft with
        | false =>
          simp only [hv, Bool.false_eq_true, if_false, pure, Except.pure, Except.ok.injEq] at h
          subst h
          have : ({ lch := lch, rch := rch, k := {} } : D).calls = 0 := rfl
          simp only [] at c1 ⊢
          omega
        | true =>
          simp only [hv, if_true] at h
          cases h4 : whileE (tailGuard l) (tailBody l r cs inv) fuel d1 with
          | error e => simp [h4] at h
          | ok d2 =>
            simp only [h4, pure, Except.pure, Except.ok.injEq] at h
            subst h
            have c2 := whileE_counter _ _ D.calls (fun s s' hs => tailBody_calls hs) fuel _ _ h4
            have : ({ lch := lch, rch := rch, k := {} } : D).calls = 0 := rfl
            simp only [] at c1 c2 ⊢
            omega

/-- every row of the relational left join names existing rows -/
theorem leftJoinFrom_bounds (r : List Int) : ∀ (l : List Int) (base : Nat),
    ∀ p ∈ leftJoinFrom r l base, base ≤ p.1 ∧ p.1 < base + l.length ∧ ∀ j, p.2 = some j → j < r.length
  | [], _ => by simp [leftJoinFrom]
  | a :: as, base => by
    intro p hp
    simp only [leftJoinFrom, List.mem_append] at hp
    rcases hp with hp | hp
    · have hm : ∀ (rr : List Int) (b : Nat), ∀ j ∈ matchRows a rr b, j < b + rr.length := by
        intro rr
        induction rr with
        | nil => intro b j hj; simp [matchRows] at hj
        | cons x xs ih =>
          intro b j hj
          simp only [matchRows] at hj
          split at hj
          · rcases List.mem_cons.mp hj with h | h
            · subst h; simp
            · have := ih (b + 1) j h; simp; omega
          · have := ih (b + 1) j hj; simp; omega
      cases hms : matchRows a r 0 with
      | nil =>
        rw [hms] at hp
        simp only [leftRow, List.mem_singleton] at hp
        subst hp
        exact ⟨Nat.le_refl _, by simp, fun j h => by cases h⟩
      | cons m ms =>
        rw [hms] at hp
        simp only [leftRow, List.mem_map] at hp
        obtain ⟨j, hj, rfl⟩ := hp
        refine ⟨Nat.le_refl _, by simp, ?_⟩
        intro j' h'
        cases h'
        have := hm r 0 j (by rw [hms]; exact hj)
        omega
    · have := leftJoinFrom_bounds r as (base + 1) p hp
      simp only [List.length_cons]
      exact ⟨by omega, by omega, this.2.2⟩

end Join
end Exetera
