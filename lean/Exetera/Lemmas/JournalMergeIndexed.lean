import Exetera.Lemmas.JournalMergeGen
import Exetera.Lemmas.JournalEncode
/-! `merge_indexed_journalled_entries_count` and `merge_indexed_journalled_entries` follow the slot-wise plan: the count
    is the number of bytes of the plan's rows, the merged (indices, values) arrays are the layout of the plan's rows. -/
namespace Exetera.Journal
open Exetera Exetera.Spec.Journal

theorem offsetsFrom_snoc : ∀ (R : List (List Int)) (row : List Int) (acc : Nat),
    offsetsFrom acc (R ++ [row]) = offsetsFrom acc R ++ [acc + R.flatten.length + row.length]
  | [], row, acc => by simp [offsetsFrom]
  | s :: R, row, acc => by
    simp only [List.cons_append, offsetsFrom, offsetsFrom_snoc R row (acc + s.length), List.flatten_cons, List.length_append]
    have : acc + s.length + R.flatten.length + row.length = acc + (s.length + R.flatten.length) + row.length := by omega
    rw [this]

/-- reading the two offsets of row `r` of an encoded column -/
theorem getE_encode {ss : List (List Int)} {r : Nat} (site : String) (h : r ≤ ss.length) :
    getE (encode ss).1 r site = .ok (preLen ss r) := by
  rw [getE_eq_ok]; exact encode_inds_getElem? ss h

theorem getI_encode {ss : List (List Int)} {r : Nat} (site : String) (h : r ≤ ss.length) :
    getI (encode ss).1 (r : Int) site = .ok (preLen ss r) := by
  unfold getI
  rw [if_pos (Int.natCast_nonneg r)]
  simpa using getE_encode site h

theorem getI_encode_succ {ss : List (List Int)} {r : Nat} (site : String) (h : r + 1 ≤ ss.length) :
    getI (encode ss).1 ((r : Int) + 1) site = .ok (preLen ss (r + 1)) := by
  have hc : ((r : Int) + 1) = ((r + 1 : Nat) : Int) := by omega
  rw [hc]; exact getI_encode site h

theorem deltaE_pre {ss : List (List Int)} {r : Nat} (h : r < ss.length) :
    deltaE (preLen ss r) (preLen ss (r + 1)) = .ok ss[r].length := by
  unfold deltaE
  rw [if_pos (preLen_le_succ ss r), preLen_succ h]
  congr 1; omega

/-! ### the count kernel -/

/-- the `if to_keep[i]` branch of the count kernel -/
def countApp (ni : List Nat) (n : Int) (s : CS) : Except Err CS :=
  match getI ni (n + 1) "new_src_inds[new_map[i]+1]" with
  | .error e => .error e
  | .ok b => match getI ni n "new_src_inds[new_map[i]]" with
    | .error e => .error e
    | .ok a => match deltaE a b with
      | .error e => .error e
      | .ok d => .ok { s with acc := s.acc + d }

theorem countBody_eq (om nm : List Int) (tk : List Bool) (oi ni : List Nat) :
    countBody om nm tk oi ni =
      genBody CS.cur (countOldBody oi)
        (countApp ni) om nm tk := by
  funext i s
  unfold countBody genBody countApp
  simp only [bind, Except.bind, pure, Except.pure]
  cases getE om i "old_map[i]" with
  | error e => rfl
  | ok o =>
    simp only
    cases whileE (fun s => decide ((s.cur : Int) ≤ o)) (countOldBody oi) (o + 1 - (s.cur : Int)).toNat s with
    | error e => rfl
    | ok s1 =>
      simp only
      cases getE tk i "to_keep[i]" with
      | error e => rfl
      | ok k =>
        cases k with
        | false => rfl
        | true =>
          simp only [if_true]
          cases getE nm i "new_map[i]" with
          | error e => rfl
          | ok n =>
            simp only
            cases getI ni (n + 1) "new_src_inds[new_map[i]+1]" with
            | error e => rfl
            | ok b =>
              simp only
              cases getI ni n "new_src_inds[new_map[i]]" with
              | error e => rfl
              | ok a =>
                simp only
                cases deltaE a b <;> rfl

theorem mergeIndexedCount_plan {κ : Type} (ks : List κ) (f1 f2 : κ → Int) (g : κ → Bool) (orows nrows : List (List Int))
    (hold : ∀ k, k ∈ ks → (f1 k + 1).toNat ≤ orows.length)
    (hnew : ∀ k, k ∈ ks → g k = true → 0 ≤ f2 k ∧ (f2 k).toNat < nrows.length) :
    mergeIndexedCount (ks.map f1) (ks.map f2) (ks.map g) (encode orows).1 (encode nrows).1 =
      .ok (column (kPlan f1 f2 g 0 ks) orows nrows).flatten.length := by
  obtain ⟨s', hf, hrep, -⟩ := gen_loop CS.cur (countOldBody (encode orows).1) (countApp (encode nrows).1)
    (fun s (R : List (List Int)) => s.acc = R.flatten.length) (fun _ => True) orows nrows
    (by intros; trivial)
    (by
      intro s R hR hlt _
      refine ⟨{ cur := s.cur + 1, acc := s.acc + orows[s.cur].length }, ?_, rfl, by simp [hR]⟩
      simp only [countOldBody, getE_encode _ (show s.cur + 1 ≤ orows.length by omega),
        getE_encode _ (Nat.le_of_lt hlt), deltaE_pre hlt])
    (by
      intro s R j hR hlt _
      refine ⟨{ s with acc := s.acc + nrows[j].length }, ?_, rfl, by simp [hR]⟩
      simp only [countApp, getI_encode_succ _ (show j + 1 ≤ nrows.length by omega), getI_encode _ (Nat.le_of_lt hlt), deltaE_pre hlt])
    ks f1 f2 g hold hnew trivial {} rfl rfl
  unfold mergeIndexedCount
  rw [countBody_eq, List.length_map, hf]
  simp only [hrep]

/-! ### the merge kernel -/

theorem setSliceE_fill (F row : List Int) (z : Nat) (h : row.length ≤ z) :
    setSliceE (F ++ List.replicate z 0) F.length (F.length + row.length) row =
      .ok (F ++ row ++ List.replicate (z - row.length) 0) := by
  unfold setSliceE
  have h1 : min F.length (F ++ List.replicate z 0).length = F.length := by simp
  have h2 : min (F.length + row.length) (F ++ List.replicate z 0).length = F.length + row.length := by simp; omega
  simp only [h1, h2]
  have h3 : F.length + row.length - F.length = row.length := by omega
  have h4 : max F.length (F.length + row.length) = F.length + row.length := by omega
  rw [h3, h4, beq_self_eq_true, if_pos rfl, List.take_left', List.drop_append]
  · simp [List.drop_of_length_le (show F.length ≤ F.length + row.length by omega)]
  · rfl

/-- the `if to_keep[i]` branch of the indexed merge kernel -/
def indexedApp (capI : Nat) (ni : List Nat) (nv : List Int) (n : Int) (s : IS) : Except Err IS :=
  match getI ni (n + 1) "new_src_inds[new_map[i]+1]" with
  | .error e => .error e
  | .ok b => match getI ni n "new_src_inds[new_map[i]]" with
    | .error e => .error e
    | .ok a => copyRow capI s a b nv

theorem mergeIndexedBody_eq (om nm : List Int) (tk : List Bool) (oi : List Nat) (ov : List Int) (ni : List Nat) (nv : List Int)
    (capI : Nat) :
    mergeIndexedBody om nm tk oi ov ni nv capI =
      genBody IS.cur (copyOldRowBody capI oi ov)
        (indexedApp capI ni nv) om nm tk := by
  funext i s
  unfold mergeIndexedBody genBody indexedApp
  simp only [bind, Except.bind, pure, Except.pure]
  cases getE om i "old_map[i]" with
  | error e => rfl
  | ok o =>
    simp only
    cases whileE (fun s => decide ((s.cur : Int) ≤ o)) (copyOldRowBody capI oi ov) (o + 1 - (s.cur : Int)).toNat s with
    | error e => rfl
    | ok s1 =>
      simp only
      cases getE tk i "to_keep[i]" with
      | error e => rfl
      | ok k =>
        cases k with
        | false => rfl
        | true =>
          simp only [if_true]
          cases getE nm i "new_map[i]" with
          | error e => rfl
          | ok n =>
            simp only
            cases getI ni (n + 1) "new_src_inds[new_map[i]+1]" with
            | error e => rfl
            | ok b =>
              simp only
              cases getI ni n "new_src_inds[new_map[i]]" <;> rfl

/-- the state of the indexed merge kernel after emitting the rows `R` -/
def IRep (capV : Nat) (s : IS) (R : List (List Int)) : Prop :=
  s.ib = offsetsFrom 0 R ∧ s.acc = R.flatten.length ∧ s.vals = R.flatten ++ List.replicate (capV - R.flatten.length) 0

/-- appending row `r` of an encoded column `ss` -/
theorem copyRow_encode {capI capV : Nat} {s : IS} {R : List (List Int)} (ss : List (List Int)) {r : Nat} (hr : r < ss.length)
    (hR : IRep capV s R) (hI : (R ++ [ss[r]]).length + 1 ≤ capI) (hV : (R ++ [ss[r]]).flatten.length ≤ capV) :
    ∃ s', copyRow capI s (preLen ss r) (preLen ss (r + 1)) (encode ss).2 = .ok s' ∧ s'.cur = s.cur ∧
      IRep capV s' (R ++ [ss[r]]) := by
  obtain ⟨hib, hacc, hvals⟩ := hR
  simp only [List.length_append, List.length_singleton, List.flatten_append, List.flatten_cons, List.flatten_nil,
    List.append_nil] at hI hV
  have hpush : s.ib.length < capI := by rw [hib, offsetsFrom_length]; omega
  have hsl : slice (encode ss).2 (preLen ss r) (preLen ss (r + 1)) = ss[r] := slice_flatten hr
  have hoff : offsetsFrom 0 (R ++ [ss[r]]) = s.ib ++ [s.acc + ss[r].length] := by
    rw [offsetsFrom_snoc, hib, hacc]; simp
  by_cases hd : ss[r].length > 0
  · have hset := setSliceE_fill R.flatten ss[r] (capV - R.flatten.length) (by omega)
    refine ⟨{ cur := s.cur, acc := s.acc + ss[r].length, ib := s.ib ++ [s.acc + ss[r].length],
              vals := R.flatten ++ ss[r] ++ List.replicate (capV - R.flatten.length - ss[r].length) 0 }, ?_, rfl, ?_⟩
    · simp only [copyRow, deltaE_pre hr, bind, Except.bind, pushI, hpush, if_true, hd, hsl, pure, Except.pure]
      rw [hvals, hacc, Nat.add_sub_cancel, hset]
    · refine ⟨hoff.symm, by simp [hacc], ?_⟩
      simp only [List.flatten_append, List.flatten_cons, List.flatten_nil, List.append_nil, List.length_append]
      congr 2; omega
  · have hz : ss[r] = [] := List.eq_nil_of_length_eq_zero (by omega)
    refine ⟨{ cur := s.cur, acc := s.acc + ss[r].length, ib := s.ib ++ [s.acc + ss[r].length], vals := s.vals }, ?_, rfl, ?_⟩
    · simp only [copyRow, deltaE_pre hr, bind, Except.bind, pushI, hpush, if_true, hd, pure, Except.pure]
      simp
    · refine ⟨hoff.symm, by simp [hacc], ?_⟩
      rw [hvals, hz]; simp

theorem mergeIndexedEntries_plan {κ : Type} (ks : List κ) (f1 f2 : κ → Int) (g : κ → Bool) (orows nrows : List (List Int))
    (hold : ∀ k, k ∈ ks → (f1 k + 1).toNat ≤ orows.length)
    (hnew : ∀ k, k ∈ ks → g k = true → 0 ≤ f2 k ∧ (f2 k).toNat < nrows.length) :
    mergeIndexedEntries (ks.map f1) (ks.map f2) (ks.map g) (encode orows).1 (encode orows).2 (encode nrows).1 (encode nrows).2
        ((column (kPlan f1 f2 g 0 ks) orows nrows).length + 1) (column (kPlan f1 f2 g 0 ks) orows nrows).flatten.length =
      .ok (encode (column (kPlan f1 f2 g 0 ks) orows nrows)) := by
  let final := column (kPlan f1 f2 g 0 ks) orows nrows
  obtain ⟨s', hf, hrep, -⟩ := gen_loop IS.cur (copyOldRowBody (final.length + 1) (encode orows).1 (encode orows).2)
    (indexedApp (final.length + 1) (encode nrows).1 (encode nrows).2)
    (IRep final.flatten.length) (fun R => R.length + 1 ≤ final.length + 1 ∧ R.flatten.length ≤ final.flatten.length) orows nrows
    (by
      intro R R' h
      simp only [List.length_append, List.flatten_append] at h
      omega)
    (by
      intro s R hR hlt hF
      obtain ⟨s', hc, hcur, hrep⟩ := copyRow_encode orows hlt hR hF.1 hF.2
      refine ⟨{ s' with cur := s.cur + 1 }, ?_, rfl, hrep⟩
      simp only [copyOldRowBody, getE_encode _ (show s.cur + 1 ≤ orows.length by omega),
        getE_encode _ (Nat.le_of_lt hlt), hc])
    (by
      intro s R j hR hlt hF
      obtain ⟨s', hc, hcur, hrep⟩ := copyRow_encode nrows hlt hR hF.1 hF.2
      refine ⟨s', ?_, hcur, hrep⟩
      simp only [indexedApp, getI_encode_succ _ (show j + 1 ≤ nrows.length by omega), getI_encode _ (Nat.le_of_lt hlt), hc])
    ks f1 f2 g hold hnew ⟨Nat.le_refl _, Nat.le_refl _⟩
    { cur := 0, acc := 0, ib := [0], vals := List.replicate final.flatten.length 0 }
    ⟨by simp [offsetsFrom], by simp, by simp⟩ rfl
  obtain ⟨hib, hacc, hvals⟩ := hrep
  unfold mergeIndexedEntries
  rw [if_neg (by omega), mergeIndexedBody_eq, List.length_map, hf]
  simp only [hib, hvals, offsetsFrom_length, encode]
  simp [final]

end Exetera.Journal
