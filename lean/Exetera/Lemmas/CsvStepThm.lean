import Exetera.Lemmas.CsvStepG
/-! One iteration of `read_file_using_fast_csv_reader` from any state of the invariant `DI` (fresh window or resumed window,
    any buffers): it succeeds, keeps the invariant and decreases the measure `mu` (C05, regrowth). -/
namespace Exetera.Csv
open Exetera Spec

/-- bytes of column `c` of the table -/
def colBytes (rows : List (List Cell)) (c : Nat) : Nat := (column (values rows) c).flatten.length

/-- the termination measure of the driver loop: lines behind the window start, plus the index-buffer regrowths that may
    still happen, plus the value-buffer regrowths that may still happen per column -/
def mu (rows : List (List Cell)) (ncols : Nat) (offs : List Nat) (q maxrow : Nat) : Nat :=
  (rows.length + 1 - q) + need maxrow rows.length +
    sumTo (fun c => need (offAt offs (c + 1) - offAt offs c) (colBytes rows c)) ncols

theorem part_le (rows : List (List Cell)) (d k j : Nat) :
    (column (values ((rows.drop d).take k)) j).flatten.length ≤ colBytes rows j := by
  have h := column_part_le (rows.take d) ((rows.drop d).take k) ((rows.drop d).drop k) j
  rw [List.append_assoc, List.take_append_drop, List.take_append_drop] at h
  exact h

/-- the cells of column `c` in a block of consecutive records are cells of column `c` of the table -/
theorem column_part_subset (rows : List (List Cell)) (d k c : Nat) {cell : Bytes}
    (h : cell ∈ column (values ((rows.drop d).take k)) c) : cell ∈ column (values rows) c := by
  have hsub : ((rows.drop d).take k).Sublist rows := (List.take_sublist _ _).trans (List.drop_sublist _ _)
  have : (column (values ((rows.drop d).take k)) c).Sublist (column (values rows) c) := by
    unfold column values
    exact (hsub.map _).filterMap _
  exact this.subset h

theorem bnd_strict {ncols : Nat} {hrow : List Cell} {rows : List (List Cell)} (hnc : 0 < ncols)
    (hhdr : hrow.length = ncols) (htab : ∀ r ∈ rows, r.length = ncols ∧ ∀ c ∈ r, c.WF) {q e : Nat} (h : q < e)
    (he : e ≤ rows.length + 1) : bnd hrow rows q < bnd hrow rows e := by
  obtain ⟨m, rfl⟩ : ∃ m, e = q + (m + 1) := ⟨e - q - 1, by omega⟩
  rw [bnd_add]
  have hne : ((hrow :: rows).drop q).take (m + 1) ≠ [] := by
    intro hnil
    have := congrArg List.length hnil
    simp at this
    omega
  have hl : ∀ l ∈ ((hrow :: rows).drop q).take (m + 1), l.length = ncols := by
    intro l hl
    have hmem : l ∈ hrow :: rows := List.mem_of_mem_drop (List.mem_of_mem_take hl)
    rcases List.mem_cons.mp hmem with h1 | h1
    · rw [h1]; exact hhdr
    · exact (htab l h1).1
  have := render_ne_nil_of hnc _ hne hl
  omega

theorem head_len {ncols maxrow : Nat} {offs : List Nat} {inds : List (List Nat)} {vals : List Nat}
    (h : Shape ncols maxrow offs inds vals) (hnc : 0 < ncols) : (inds.headD []).length - 1 = maxrow := by
  cases hi : inds with
  | nil => have := h.indsLen; rw [hi] at this; simp at this; omega
  | cons r rest =>
    have := h.rowLen 0 r (by rw [hi]; rfl)
    simp [this]

theorem shape_zeros2 {ncols maxrow m : Nat} {offs : List Nat} {inds : List (List Nat)} {vals : List Nat}
    (h : Shape ncols maxrow offs inds vals) : Shape ncols m offs (zeros2 ncols (m + 1)) vals := by
  refine ⟨by simp [zeros2], ?_, h.offsLen, h.offs0, h.mono, h.last⟩
  intro c r hr
  simp only [zeros2] at hr
  rw [List.getElem?_replicate] at hr
  split at hr
  · cases hr; simp
  · cases hr

/-- **one driver iteration, split at the importers.** From any state of the invariant the iteration calls the kernel, which
    stages a block of `a` complete records (the records `e-1 … e-1+a-1` of the file), and hands the block to the importers
    (`importAll`). Whatever the importers are:
    * (error continuation) if an importer raises, the iteration raises the same error — nothing else of the iteration can
      fail before it;
    * (ok continuation) if the importers end in the states `F c (first e-1+a records)`, the iteration succeeds, keeps the
      invariant with `nextE e a` lines consumed and decreases the measure `mu`. -/
theorem driver_step_split {file : Bytes} {crs ncols : Nat} {im : List Nat} {hrow : List Cell} {rows : List (List Cell)}
    (st : SettingR file crs ncols im hrow rows) {F : Nat → List Bytes → Imp} {s : DS} {q e maxrow : Nat}
    (hinv : DI F file (crs * Gen.Csv.CHUNK_ROW_FACTOR * ncols) ncols im hrow rows s q e maxrow)
    (hlt : bnd hrow rows q < file.length) :
    ∃ (o : KOut) (a : Nat), (e - 1) + a ≤ rows.length ∧
      Shape ncols maxrow s.offs o.inds o.vals ∧
      (∀ c, c < ncols → ColOK s.offs o.inds o.vals c (column (values ((rows.drop (e - 1)).take a)) c)) ∧
      (∀ c, c < ncols →
        offAt s.offs c + (column (values ((rows.drop (e - 1)).take a)) c).flatten.length < offAt s.offs (c + 1)) ∧
      (∀ c, c < ncols → (column (values ((rows.drop (e - 1)).take a)) c).length = a) ∧
      (∀ err, importAll o.inds o.vals s.offs a im s.imps = .error err →
        driverStep file (crs * Gen.Csv.CHUNK_ROW_FACTOR * ncols) ncols im s = .error err) ∧
      (importAll o.inds o.vals s.offs a im s.imps = .ok (im.map (fun c => F c (doneCols rows (nextE e a - 1) c))) →
        ∃ s' q' maxrow', driverStep file (crs * Gen.Csv.CHUNK_ROW_FACTOR * ncols) ncols im s = .ok s' ∧
          DI F file (crs * Gen.Csv.CHUNK_ROW_FACTOR * ncols) ncols im hrow rows s' q' (nextE e a) maxrow' ∧
          mu rows ncols s'.offs q' maxrow' < mu rows ncols s.offs q maxrow) := by
  have hwpos : 0 < crs * Gen.Csv.CHUNK_ROW_FACTOR * ncols := Nat.mul_pos (Nat.mul_pos st.crsPos (by decide)) st.nc
  obtain ⟨rowsW, nxt, hcontent, ⟨kk, hpart⟩, hrowsW, hnxt, hprog⟩ := window_decomp st hinv.qe hlt hinv.inwin
  have hcall := driverStep_call hinv hlt hwpos
  have hinwin := hinv.inwin
  generalize crs * Gen.Csv.CHUNK_ROW_FACTOR * ncols = w at hinv hcontent hcall hinwin ⊢
  have hbqe := bnd_mono hrow rows hinv.qe
  have hprelen : (render (((hrow :: rows).drop q).take (e - q))).length = bnd hrow rows e - bnd hrow rows q := by
    have := bnd_add hrow rows q (e - q)
    have h2 : q + (e - q) = e := by have := hinv.qe; omega
    rw [h2] at this
    omega
  have hH : (if (e == 0) = true then renderCells hrow else []) = (if e = 0 then renderCells hrow else []) := by simp
  have hWsub : ∀ r ∈ rowsW, r ∈ rows := by
    intro r hr
    rw [hrowsW] at hr
    exact List.mem_of_mem_drop (List.mem_of_mem_take hr)
  have hWlen : (e - 1) + rowsW.length ≤ rows.length := by
    have := congrArg List.length hrowsW
    rw [List.length_take, List.length_drop] at this
    have := hinv.el
    omega
  have htabW : ∀ r ∈ rowsW, r.length = ncols ∧ ∀ c ∈ r, c.WF := fun r hr => st.tab r (hWsub r hr)
  obtain ⟨o, a, hker, hale, hres, hout⟩ :=
    kernel_general (src := readWindow file (bnd hrow rows q) w) (offs := s.offs) (inds := s.inds) (vals := s.vals) (e == 0)
      hrow rowsW nxt (render (((hrow :: rows).drop q).take (e - q))) (by rw [hcontent, hH])
      (fun r m h => ⟨(hnxt r m h).1, st.tab r (hnxt r m h).2⟩) (fun _ => st.hdr) htabW st.nc hinv.shape hinv.maxpos
      hinv.zero hinv.bud
  rw [hprelen] at hker
  simp only [hker] at hcall
  -- what the call consumed
  have htakeA : rowsW.take a = (rows.drop (e - 1)).take a := by
    conv => lhs; rw [hrowsW]
    rw [List.take_take]
    congr 1
    omega
  have hel' : nextE e a ≤ rows.length + 1 := by
    have := hinv.el
    unfold nextE; split <;> omega
  have hqe' : q ≤ nextE e a := by
    have := hinv.qe
    unfold nextE; split <;> omega
  have he'pos : 0 < nextE e a := by unfold nextE; split <;> omega
  have hee' : e ≤ nextE e a := by unfold nextE; split <;> omega
  have hnp : o.nextPos = bnd hrow rows (nextE e a) - bnd hrow rows q := by
    rw [hres.nextPos, hH, htakeA, List.length_append, hprelen, bnd_nextE]
    clear hout
    omega
  have hbe' : bnd hrow rows (nextE e a) ≤ bnd hrow rows q + (readWindow file (bnd hrow rows q) w).length := by
    have h1 := congrArg List.length (render_take_drop rowsW a)
    rw [hcontent, bnd_nextE, ← htakeA]
    simp only [List.length_append] at h1 ⊢
    clear hout
    omega
  have hwneg : ¬ o.written < 0 := by rw [hres.written]; omega
  have hwr : o.written.toNat = a := by rw [hres.written]; simp
  have hlenA : (rowsW.take a).length = a := by rw [List.length_take]; omega
  have hlenE : ∀ c, c < ncols → (stageRows (fun _ => []) (rowsW.take a) c).length = a := by
    intro c hc
    rw [stageRows_length (rowsW.take a) (fun r hr => htabW r (List.mem_of_mem_take hr)) c hc, hlenA]
  have hE : ∀ c, stageRows (fun _ => []) (rowsW.take a) c = column (values ((rows.drop (e - 1)).take a)) c := by
    intro c
    rw [stageRows_col, List.nil_append, htakeA]
  have hzero' : ∀ c, c < ncols → ∃ r, o.inds[c]? = some r ∧ r[0]? = some 0 := by
    intro c hc
    obtain ⟨⟨r, hr, hk⟩, _⟩ := hres.cols c hc
    exact ⟨r, hr, by simpa [endOf] using hk 0 (Nat.zero_le _)⟩
  have hrows' : s.rows + o.written = ((nextE e a - 1 : Nat) : Int) := by
    rw [hinv.rows_, hres.written, nextE_pred]; omega
  have hhh' : false = (nextE e a == 0) := by
    have : nextE e a ≠ 0 := by omega
    simp [this]
  refine ⟨o, a, by omega, hres.shape, fun c hc => by rw [← hE]; exact hres.cols c hc,
    fun c hc => by rw [← hE]; exact hres.caps c hc, fun c hc => by rw [← hE]; exact hlenE c hc, ?_, ?_⟩
  · intro err herr
    have herr' : importAll o.inds o.vals s.offs o.written.toNat im s.imps = .error err := by rw [hwr]; exact herr
    rw [hcall]
    simp only [afterKernel, hwneg, if_false, herr']
  intro himp0
  have himp : importAll o.inds o.vals s.offs o.written.toNat im s.imps =
      .ok (im.map (fun c => F c (doneCols rows (nextE e a - 1) c))) := by rw [hwr]; exact himp0
  rcases hout with ⟨hif, hvf, hvfc, haeq⟩ | ⟨hif, hvf, hvfc, haeq⟩ | ⟨hif, hvf, j, hj, hvfc, hbound⟩
  · -- no buffer filled: the window is done
    have hq' : q < nextE e a := by
      rcases Nat.lt_or_ge q e with h | h
      · omega
      · have heq : e = q := by have := hinv.qe; omega
        by_cases he0 : e = 0
        · omega
        · have := hprog heq he0
          have : 0 < rowsW.length := List.length_pos_iff.mpr this
          unfold nextE; simp [he0]; omega
    have hnp0 : o.nextPos ≠ 0 := by
      have := bnd_strict st.nc st.hdr.1 st.tab hq' hel'
      omega
    have hstep := afterKernel_plain (ncols := ncols) (content := readWindow file (bnd hrow rows q) w)
      (start := bnd hrow rows e - bnd hrow rows q) hwneg himp hif hvf hnp0
    refine ⟨_, nextE e a, maxrow, by rw [hcall, hstep], ?_, ?_⟩
    · exact {
        qe := Nat.le_refl _
        el := hel'
        ci := by
          show s.ci + o.nextPos = _
          rw [hinv.ci, hnp]
          have := bnd_mono hrow rows hqe'
          omega
        hh := hhh'
        rows_ := hrows'
        stop := hinv.stop
        bud := hinv.bud
        maxpos := hinv.maxpos
        shape := hres.shape
        zero := hzero'
        imps := rfl
        win := Or.inl ⟨rfl, rfl, rfl⟩
        inwin := Nat.le_add_right _ _ }
    · show mu rows ncols s.offs (nextE e a) maxrow < mu rows ncols s.offs q maxrow
      unfold mu
      omega
  · -- the index buffer filled: twice as many rows, resume inside the window
    have hhead := head_len hres.shape st.nc
    have hstep := afterKernel_inds (ncols := ncols) (content := readWindow file (bnd hrow rows q) w)
      (start := bnd hrow rows e - bnd hrow rows q) hwneg himp hif hvf
    rw [hhead] at hstep
    refine ⟨_, q, maxrow * Gen.Csv.LARGER_FACTOR, by rw [hcall, hstep], ?_, ?_⟩
    · exact {
        qe := hqe'
        el := hel'
        ci := hinv.ci
        hh := hhh'
        rows_ := hrows'
        stop := hinv.stop
        bud := hinv.bud
        maxpos := Nat.mul_pos hinv.maxpos (by decide)
        shape := shape_zeros2 hres.shape
        zero := fun c hc => zeros_first c hc
        imps := rfl
        win := Or.inr ⟨rfl, he'pos, rfl, hnp, hlt⟩
        inwin := hbe' }
    · show mu rows ncols s.offs q (maxrow * Gen.Csv.LARGER_FACTOR) < mu rows ncols s.offs q maxrow
      unfold mu
      have hle : maxrow ≤ rows.length := by omega
      have := need_double hinv.maxpos hle
      rw [Nat.mul_comm maxrow Gen.Csv.LARGER_FACTOR]
      omega
  · -- the value budget of column `j` filled: twice the budget, resume inside the window
    have hsh := hinv.shape
    have ha := offs_get hsh.offsLen (c := j) (by omega)
    have hb := offs_get hsh.offsLen (c := j + 1) (by omega)
    have hstep := afterKernel_vals (ncols := ncols) (content := readWindow file (bnd hrow rows q) w)
      (start := bnd hrow rows e - bnd hrow rows q) hwneg himp hif hvf hvfc ha hb
    have hδ : (offAt s.offs (j + 1) - offAt s.offs j) + (offAt s.offs (j + 1) - offAt s.offs j) * (Gen.Csv.LARGER_FACTOR - 1) =
        Gen.Csv.LARGER_FACTOR * (offAt s.offs (j + 1) - offAt s.offs j) := by
      obtain ⟨k, hk⟩ : ∃ k, Gen.Csv.LARGER_FACTOR = k + 1 := ⟨Gen.Csv.LARGER_FACTOR - 1, by have := larger_factor_ge; omega⟩
      rw [hk, Nat.add_sub_cancel, Nat.succ_mul, Nat.mul_comm k]
      omega
    generalize hδv : (offAt s.offs (j + 1) - offAt s.offs j) * (Gen.Csv.LARGER_FACTOR - 1) = δ at hstep hδ
    generalize hoffs' : growOffs s.offs j δ = offs' at hstep
    have hlen' : offs'.length = ncols + 1 := by rw [← hoffs', growOffs_length]; exact hsh.offsLen
    have hat : ∀ c, c ≤ ncols → offAt offs' c = offAt s.offs c + (if j < c then δ else 0) := by
      intro c hc
      rw [← hoffs']
      exact growOffs_at hsh.offsLen j _ c hc
    have hbud' : ∀ c, c < ncols → offAt offs' c < offAt offs' (c + 1) := by
      intro c hc
      rw [hat c (by omega), hat (c + 1) (by omega)]
      have := hinv.bud c hc
      split <;> split <;> omega
    have hbj := hinv.bud j hj
    have hbudle : offAt s.offs (j + 1) - offAt s.offs j ≤ colBytes rows j := by
      rw [hpart, List.take_take] at hbound
      have := part_le rows (e - 1) (min (a + 1) kk) j
      omega
    refine ⟨_, q, maxrow, by rw [hcall, hstep], ?_, ?_⟩
    · exact {
        qe := hqe'
        el := hel'
        ci := hinv.ci
        hh := hhh'
        rows_ := hrows'
        stop := hinv.stop
        bud := hbud'
        maxpos := hinv.maxpos
        shape := by
          refine ⟨hres.shape.indsLen, hres.shape.rowLen, hlen', ?_, fun c hc => Nat.le_of_lt (hbud' c hc), ?_⟩
          · rw [hat 0 (Nat.zero_le _)]; simp [hsh.offs0]
          · show offAt offs' ncols ≤ (List.replicate (offs'.getLastD 0) 0).length
            rw [offAt_last offs' ncols hlen']; simp
        zero := hzero'
        imps := rfl
        win := Or.inr ⟨rfl, he'pos, rfl, hnp, hlt⟩
        inwin := hbe' }
    · show mu rows ncols offs' q maxrow < mu rows ncols s.offs q maxrow
      unfold mu
      have hsum := sumTo_update (f := fun c => need (offAt s.offs (c + 1) - offAt s.offs c) (colBytes rows c))
        (g := fun c => need (offAt offs' (c + 1) - offAt offs' c) (colBytes rows c)) (j := j) ncols hj
        (by
          show need (offAt offs' (j + 1) - offAt offs' j) (colBytes rows j) + 1 ≤ _
          rw [hat j (by omega), hat (j + 1) (by omega)]
          have h1 : ¬ j < j := Nat.lt_irrefl _
          have h2 : j < j + 1 := Nat.lt_succ_self _
          simp only [h1, h2, if_true, if_false, Nat.add_zero]
          have h3 : offAt s.offs (j + 1) + δ - offAt s.offs j =
              Gen.Csv.LARGER_FACTOR * (offAt s.offs (j + 1) - offAt s.offs j) := by
            rw [← hδ]; omega
          rw [h3, need_double (by omega) hbudle]
          exact Nat.le_refl _)
        (by
          intro c hc hne
          show need (offAt offs' (c + 1) - offAt offs' c) _ = need (offAt s.offs (c + 1) - offAt s.offs c) _
          rw [hat c (by omega), hat (c + 1) (by omega)]
          congr 1
          have := hinv.bud c hc
          split <;> split <;> omega)
      omega

/-- one iteration for a family of append homomorphisms on acceptable cells: it succeeds, keeps the invariant and decreases the
    measure -/
theorem driver_step_g {file : Bytes} {crs ncols : Nat} {im : List Nat} {hrow : List Cell} {rows : List (List Cell)}
    (st : SettingR file crs ncols im hrow rows) {F : Nat → List Bytes → Imp} {good : Nat → Bytes → Prop}
    (hhom : ImpHom ncols F good) (hgood : ∀ c ∈ im, ∀ cell ∈ column (values rows) c, good c cell) {s : DS} {q e maxrow : Nat}
    (hinv : DI F file (crs * Gen.Csv.CHUNK_ROW_FACTOR * ncols) ncols im hrow rows s q e maxrow)
    (hlt : bnd hrow rows q < file.length) :
    ∃ s' q' e' maxrow', driverStep file (crs * Gen.Csv.CHUNK_ROW_FACTOR * ncols) ncols im s = .ok s' ∧
      DI F file (crs * Gen.Csv.CHUNK_ROW_FACTOR * ncols) ncols im hrow rows s' q' e' maxrow' ∧
      mu rows ncols s'.offs q' maxrow' < mu rows ncols s.offs q maxrow := by
  obtain ⟨o, a, _, hsh, hcols, hcaps, hlenE, _, hok⟩ := driver_step_split st hinv hlt
  have himp : importAll o.inds o.vals s.offs a im s.imps =
      .ok (im.map (fun c => F c (doneCols rows (nextE e a - 1) c))) := by
    have hsub : ∀ c ∈ im, ∀ cell ∈ column (values ((rows.drop (e - 1)).take a)) c, good c cell :=
      fun c hc cell hcell => hgood c hc cell (column_part_subset rows (e - 1) a c hcell)
    have hdone : ∀ c ∈ im, ∀ cell ∈ doneCols rows (e - 1) c, good c cell := by
      intro c hc cell hcell
      apply hgood c hc
      exact column_part_subset rows 0 (e - 1) c (cell := cell) (by simpa [doneCols] using hcell)
    rw [hinv.imps, importAll_hom hhom (D := doneCols rows (e - 1)) hsh hcols hcaps hlenE im st.imOk hdone hsub]
    congr 1
    apply List.map_congr_left
    intro c _
    rw [doneCols_add, nextE_pred]
  obtain ⟨s', q', maxrow', h1, h2, h3⟩ := hok himp
  exact ⟨s', q', _, maxrow', h1, h2, h3⟩

end Exetera.Csv
