/-!
  C10 — access sites of the compiled span kernels that `Model/Spans.lean` models (owning property C08): loop guards and
  array subscripts (R read / W write), frozen from the source the model was written against. `Props/C10/Spans.lean`
  proves that the shapes regenerated from the CURRENT source (`Gen/KernelShape.lean`) are these.

  Model ↔ site map:
  * `_get_spans_for_2_fields_by_spans`: `span1[j]` (both in the `while` test and in `if span1[j] == span0[i]`) =
    `mergeAdvance`, whose `[]` case is `.oob "span1[j]"` — the inner `while` has no bound on `j`, the read past the end
    is a real error branch of the model; `span0[i]` = structural recursion of `mergeLoop` on `span0[i:]` (in range by
    `for i in range(len(span0))`); `span1[j:]` = the suffix returned by `mergeLoop`'s first case (a slice never raises).
  * `_get_spans_for_2_fields_njit`: `ndarray0[i]`, `ndarray0[i - 1]`, `ndarray1[i]`, `ndarray1[i - 1]` = the four `getE`
    of `scan2`; `spans[0]` = the `cap == 0` test of `getSpansFor2FieldsNjit`; `spans[count]` (written after
    `count += 1`) and `spans[count + 1]` = the capacity tests `count + 1 < cap` of `scan2`; `spans[:1]`,
    `spans[:count + 2]` = slices (never raise).
  * `_get_spans_for_multi_fields_njit`: `fields_data[0]` = the `[]` case of `getSpansForMultiFieldsNjit`; `f_d[i]`,
    `f_d[i - 1]` = the `getE` of `rowNe`; `spans[…]` as above (`scanMulti`).
  * `_get_spans_for_index_string_field`: `indices[i - 1]`, `indices[i]`, `indices[i + 1]` = the three `getE` of
    `scanIndexed`; `values[last:current]`, `values[current:next]` = `slice` (clamps).
  * `apply_spans_*` (all non-filter forms): `spans[i]`, `spans[i + 1]`, `dest_array[i]` = structural recursion of
    `forPairs` on adjacent pairs (in range by `for i in range(len(spans) - 1)` — in the table below — and by
    `dest_array = np.zeros(len(spans) - 1)`; every public caller passes `dest_array=None` or an array of that length).
    `src_array[cur]`, `src_array[idx]` = `getE` in `spanMax`/`spanMin`/`maxLoop`/`minLoop`; `src_array[cur:next]` =
    `slice` in `spanIndexOfMin`/`spanIndexOfMax`; `src_array[spans[:-1]]` = `getE` per span in `applySpansFirst`;
    `src_array[spans]` (after `spans = spans[1:] - 1`) = `getWrapE` in `applySpansLast`; `spans[:-1]`, `spans[1:]`,
    `dest_array[:]` = whole-array slices.
  * `apply_spans_index_of_min_indexed` / `…_max_indexed`: `src_indices[cur]`, `src_indices[cur + 1]` = `getE` in
    `spanIndexOfMinIndexed`/`spanIndexOfMaxIndexed`; `src_indices[j]`, `src_indices[j + 1]` = `getE` in
    `minIdxLoop`/`maxIdxLoop`; `src_values[curstart + k]`, `src_values[minstart + k]` = `getE` in `cmpLoop`.
  * `apply_spans_index_of_*_filter`: `spans[i]`, `spans[i + 1]` = structural recursion of `filterLoop`;
    `filter_array[i]`, `dest_array[i]` = `setE` (caller-supplied buffers: really checked).
-/
namespace Exetera.KernelSites

/-- the span kernels (C08) -/
def spansSites : List (String × List String × List String) := [
  ("_get_spans_for_2_fields_by_spans",
    ["for i in range(len(span0))", "while span1[j] < span0[i]"],
    ["R span0[i]", "R span1[j:]", "R span1[j]"]),
  ("_get_spans_for_2_fields_njit",
    ["for i in np.arange(1, len(ndarray0))"],
    ["R ndarray0[i - 1]", "R ndarray0[i]", "R ndarray1[i - 1]", "R ndarray1[i]", "R spans[:1]", "R spans[:count + 2]", "W spans[0]", "W spans[count + 1]", "W spans[count]"]),
  ("_get_spans_for_multi_fields_njit",
    ["for f_d in fields_data", "for i in np.arange(1, length)"],
    ["R f_d[i - 1]", "R f_d[i]", "R fields_data[0]", "R spans[:1]", "R spans[:count + 2]", "W spans[0]", "W spans[count + 1]", "W spans[count]"]),
  ("_get_spans_for_index_string_field",
    ["for i in range(1, len(indices) - 1)"],
    ["R indices[i + 1]", "R indices[i - 1]", "R indices[i]", "R values[current:next]", "R values[last:current]"]),
  ("apply_spans_index_of_min",
    ["for i in range(len(spans) - 1)"],
    ["R spans[i + 1]", "R spans[i]", "R src_array[cur:next]", "W dest_array[i]"]),
  ("apply_spans_index_of_min_indexed",
    ["for i in range(len(spans) - 1)", "for j in range(cur + 1, next)", "for k in range(shortlen)"],
    ["R spans[i + 1]", "R spans[i]", "R src_indices[cur + 1]", "R src_indices[cur]", "R src_indices[j + 1]", "R src_indices[j]", "R src_values[curstart + k]", "R src_values[minstart + k]", "W dest_array[i]"]),
  ("apply_spans_index_of_max_indexed",
    ["for i in range(len(spans) - 1)", "for j in range(cur + 1, next)", "for k in range(shortlen)"],
    ["R spans[i + 1]", "R spans[i]", "R src_indices[cur + 1]", "R src_indices[cur]", "R src_indices[j + 1]", "R src_indices[j]", "R src_values[curstart + k]", "R src_values[minstart + k]", "W dest_array[i]"]),
  ("apply_spans_index_of_max",
    ["for i in range(len(spans) - 1)"],
    ["R spans[i + 1]", "R spans[i]", "R src_array[cur:next]", "W dest_array[i]"]),
  ("apply_spans_index_of_first",
    [],
    ["R spans[:-1]", "W dest_array[:]"]),
  ("apply_spans_index_of_last",
    [],
    ["R spans[1:]", "W dest_array[:]"]),
  ("apply_spans_index_of_min_filter",
    ["for i in range(len(spans) - 1)"],
    ["R spans[i + 1]", "R spans[i]", "R src_array[cur:next]", "W dest_array[i]", "W filter_array[i]"]),
  ("apply_spans_index_of_max_filter",
    ["for i in range(len(spans) - 1)"],
    ["R spans[i + 1]", "R spans[i]", "R src_array[cur:next]", "W dest_array[i]", "W filter_array[i]"]),
  ("apply_spans_index_of_first_filter",
    ["for i in range(len(spans) - 1)"],
    ["R spans[i + 1]", "R spans[i]", "W dest_array[i]", "W filter_array[i]"]),
  ("apply_spans_index_of_last_filter",
    ["for i in range(len(spans) - 1)"],
    ["R spans[i + 1]", "R spans[i]", "W dest_array[i]", "W filter_array[i]"]),
  ("apply_spans_count",
    ["for i in range(len(spans) - 1)"],
    ["R spans[i + 1]", "R spans[i]", "W dest_array[i]"]),
  ("apply_spans_first",
    [],
    ["R spans[:-1]", "R src_array[spans[:-1]]", "W dest_array[:]"]),
  ("apply_spans_last",
    [],
    ["R spans[1:]", "R src_array[spans]", "W dest_array[:]"]),
  ("apply_spans_max",
    ["for i in range(len(spans) - 1)", "for idx in range(cur + 1, next)"],
    ["R spans[i + 1]", "R spans[i]", "R src_array[cur]", "R src_array[idx]", "W dest_array[i]"]),
  ("apply_spans_min",
    ["for i in range(len(spans) - 1)", "for idx in range(cur + 1, next)"],
    ["R spans[i + 1]", "R spans[i]", "R src_array[cur]", "R src_array[idx]", "W dest_array[i]"])
]


end Exetera.KernelSites
