import Exetera.Model.Join
import Exetera.Spec.Join
import Exetera.Lemmas.While
namespace Exetera.Props.C03
end Exetera.Props.C03
