"""C13 — field arithmetic / comparison / logic equal numpy's element-wise result on the underlying arrays.
Tie: (T) the dispatch tables are regenerated from fields.py into Gen/OperatorTable.lean and the theorems are re-checked
against them; (C) for every (class, operator, operand kind, dtype pair) the real operator is executed and compared with
(a) numpy applied directly to the underlying arrays (the property's own oracle) and (b) the symbol + operand order the Lean
model resolves from the regenerated tables, applied by numpy."""
import operator

PROPERTY = "C13"
LEVEL = "proof"
LEAN_MODULES = ["Exetera.Props.C13"]
EXHAUSTIVE = {"quick": False, "thorough": True}
TECHNIQUE = ("Lean 4 theorems over an executable model of the whole operator (Python operator protocol -> dunder -> FieldDataOps method -> "
             "the REGENERATED bodies of _binary_op / _unary_op / numeric_divmod, interpreted; DataFrame.__setitem__), numpy opaque; "
             "decide +kernel over the regenerated dispatch tables; translator; differential run of the model (symbolic numpy) "
             "against the real operators and against numpy")
LEVEL_TEXT = ("Proof, for every numpy and every heap, over the operator as Python evaluates it: for every field class, every operator "
              "the class supports and a field / ndarray / scalar on either side (forward, field-field, and `ndarray <op> field` through "
              "the reflected dunder, which the regenerated `__array_ufunc__ = None` attributes make numpy defer to), the operator returns "
              "ONE new NumericMemField whose data is `sym(l', r')` on the operands' underlying arrays in the order written and whose "
              "declared dtype is `dtype_to_str` of numpy's result dtype (operator_result_eq_numpy; reflected_comparison_eq_numpy under "
              "numpy's mirror law a<b = b>a; unary_table_correct); divmod returns a pair of distinct new fields, the two components of "
              "one np.divmod call (divmod_returns_pair); every object that existed before — both operands — and every dataframe is "
              "unchanged whatever is returned (operands_unchanged, _unary); an unnamed result dtype raises ValueError "
              "(unsupported_dtype_raises); `df[name] = result` creates a NumericField column with exactly the result's dtype name and "
              "data and leaves the result and the operands unchanged (setitem_stores_result, setitem_existing_name_raises). The helper "
              "bodies (`_binary_op`, `_unary_op`, `numeric_divmod`: unwrap rule, call of `function`, result class and dtype expression, "
              "write, return), the dispatch tables, the numpy-protocol attributes and the `dtype_to_str` chain are REGENERATED from the "
              "source on every run; the regenerated `dtype_to_str` chain names each of the 11 result dtypes exactly, is injective, and "
              "refuses anything else. numpy's arithmetic itself is the property's right-hand side and stays opaque.")
LEVEL_NOTE = ("Trusted: Lean kernel; tools/translate.py (AST extraction of the 128-row dunder table, the 18 FieldDataOps methods and "
              "the two helpers), tools/translate_dtype.py (the dtype_to_str chain), tools/translate_fieldops.py (the three helper bodies "
              "as straight-line programs, `__array_ufunc__` / `__array_priority__` per class, the statement shape of "
              "DataFrame.__setitem__ and numeric_field_create_like — any other shape fails the extraction); the MEANING the model gives "
              "to those statements (`FieldOps.step`), Python's operator protocol (`pyDunders`: forward, reflected, mirrored comparison) "
              "and numpy's deferral rule (`defers`), validated by the differential run: the model is executed on a symbolic numpy, the "
              "terms it returns are evaluated by the real numpy and compared (data bytes, declared and actual dtype, class, operands "
              "before/after, stored column) with what the real operator returned (all operators x operand kinds x dtype pairs in "
              "thorough, a seeded sample in quick). Assumed about numpy: `r.dtype == np.T` holds exactly for arrays of type T; a<b = b>a "
              "(used only for a comparison with the field on the right); writing an array into an HDF5 dataset of its own dtype stores "
              "it unchanged. Not modelled: `_ensure_valid` (operators on a deleted field), create_like of categorical / timestamp sources.")
RULE = ("cases = (class in 6 field classes) x (each operator the class supports; comparisons also with the field on the RIGHT) x (other operand: NumericMemField / ndarray / numpy scalar / Python int / Python float) x "
        "(dtype pairs incl. bool, mixed widths, float with inf, negative divisors) x (data: empty, zeros, mixed signs); quick runs a seeded "
        "sample stratified so that every (class, operator) is hit at least twice; non-trivial = non-empty operands whose result differs "
        "between the forward and the reflected operand order or a unary operator; distinct = distinct case dict.")
ASSUMPTIONS = ["numpy element-wise arithmetic and promotion (opaque: the property's right-hand side is numpy)",
               "h5py stores and returns arrays faithfully; writing an array into a dataset of its own dtype stores it unchanged "
               "(hypothesis `hcast` of setitem_stores_result)",
               "numpy's comparisons are mirror-symmetric, a < b = b > a element-wise (hypothesis `MirrorLaw` of "
               "reflected_comparison_eq_numpy; needed only for `ndarray/scalar <cmp> field`, where Python itself calls the mirrored dunder)",
               "numpy's `binop_should_defer`: ndarray / numpy-scalar operators return NotImplemented for a right operand whose class "
               "sets `__array_ufunc__ = None` (modelled by `FieldOps.defers` over the regenerated class attributes)",
               "`r.dtype == np.T` holds exactly for results of scalar type T (how `dtype_to_str` identifies a dtype)"]
TRUSTED = ["Lean 4.33 kernel", "axioms propext/Classical.choice/Quot.sound only", "tools/translate.py", "tools/translate_dtype.py",
           "tools/translate_fieldops.py", "checks/harness/c13.py"]

ARITH10 = ["__add__", "__radd__", "__sub__", "__rsub__", "__mul__", "__rmul__", "__truediv__", "__rtruediv__",
           "__floordiv__", "__rfloordiv__"]
MODDIV = ["__mod__", "__rmod__", "__divmod__", "__rdivmod__"]
BITWISE = ["__and__", "__rand__", "__xor__", "__rxor__", "__or__", "__ror__", "__invert__", "logical_not"]
COMPARE = ["__lt__", "__le__", "__eq__", "__ne__", "__gt__", "__ge__"]
SUPPORTED = {
    "NumericMemField": ARITH10 + MODDIV + BITWISE + COMPARE, "NumericField": ARITH10 + MODDIV + BITWISE + COMPARE,
    "TimestampMemField": ARITH10 + MODDIV + COMPARE, "TimestampField": ARITH10 + MODDIV + COMPARE,
    "CategoricalMemField": ARITH10 + COMPARE, "CategoricalField": ARITH10 + COMPARE,
}
SYNTAX = {
    "__add__": lambda f, o: f + o, "__radd__": lambda f, o: o + f, "__sub__": lambda f, o: f - o, "__rsub__": lambda f, o: o - f,
    "__mul__": lambda f, o: f * o, "__rmul__": lambda f, o: o * f, "__truediv__": lambda f, o: f / o,
    "__rtruediv__": lambda f, o: o / f, "__floordiv__": lambda f, o: f // o, "__rfloordiv__": lambda f, o: o // f,
    "__mod__": lambda f, o: f % o, "__rmod__": lambda f, o: o % f, "__divmod__": lambda f, o: divmod(f, o),
    "__rdivmod__": lambda f, o: divmod(o, f), "__and__": lambda f, o: f & o, "__rand__": lambda f, o: o & f,
    "__xor__": lambda f, o: f ^ o, "__rxor__": lambda f, o: o ^ f, "__or__": lambda f, o: f | o, "__ror__": lambda f, o: o | f,
    "__lt__": lambda f, o: f < o, "__le__": lambda f, o: f <= o, "__eq__": lambda f, o: f == o, "__ne__": lambda f, o: f != o,
    "__gt__": lambda f, o: f > o, "__ge__": lambda f, o: f >= o, "__invert__": lambda f, o: ~f,
    "logical_not": lambda f, o: f.logical_not(),
}
SWAPPED = {"__lt__": lambda f, o: o < f, "__le__": lambda f, o: o <= f, "__eq__": lambda f, o: o == f,
           "__ne__": lambda f, o: o != f, "__gt__": lambda f, o: o > f, "__ge__": lambda f, o: o >= f}
PYOP = {"add": "+", "sub": "-", "mul": "*", "truediv": "/", "floordiv": "//", "mod": "%", "divmod": "divmod", "and": "&",
        "xor": "^", "or": "|", "lt": "<", "le": "<=", "eq": "==", "ne": "!=", "gt": ">", "ge": ">="}
MIRROR = {"operator.lt": "operator.gt", "operator.gt": "operator.lt", "operator.le": "operator.ge", "operator.ge": "operator.le"}
INT_DTYPES = ["int8", "uint8", "int16", "int32", "uint32", "int64"]
DATASETS = {"mixed": [3, -7, 0, 12, -1, 5], "pos": [1, 2, 3, 4, 5, 6], "empty": [], "zeros": [0, 0, 0, 0, 0, 0]}


def self_dtypes(cls):
    if cls.startswith("Numeric"):
        return ["int32", "int64", "uint8", "bool", "float32", "float64", "int8", "uint32"]
    if cls.startswith("Timestamp"):
        return ["float64"]
    return ["int8"]


def other_dtypes(d):
    if d in BITWISE:
        return ["int32", "bool", "uint8", "int64"]
    return ["int32", "int64", "float64", "uint8", "bool", "float32", "int16"]


def gen_cases(tier, rng):
    from checks import corpus
    cases = list(corpus.load("C13"))
    allc = []
    n = 0
    for cls, ds in SUPPORTED.items():
        for d in ds:
            unary = d in ("__invert__", "logical_not")
            for sd in self_dtypes(cls):
                if d in BITWISE and sd.startswith("float"):
                    continue
                for kind in (["none"] if unary else ["field", "array", "scalar", "pyint", "pyfloat"]):
                    for od in (["int32"] if unary else other_dtypes(d)):
                        for sname in ("mixed", "empty", "pos"):
                            for oname in (["mixed"] if unary else ["mixed", "pos"]):
                                if sname == "empty" and oname != "mixed":
                                    continue
                                n += 1
                                allc.append({"op": "c13_run", "cls": cls, "dunder": d, "sdtype": sd, "odtype": od,
                                             "kind": kind, "self": sname, "other": oname, "inf": n % 7 == 0,
                                             "setitem": n % 5 == 0, "_n": n})
                                if d in COMPARE and n % 2 == 0:
                                    # the same comparison with the field on the RIGHT: `other <op> field`
                                    n += 1
                                    allc.append({"op": "c13_run", "cls": cls, "dunder": d, "sdtype": sd, "odtype": od,
                                                 "kind": kind, "self": sname, "other": oname, "inf": n % 7 == 0,
                                                 "setitem": n % 5 == 0, "swap": True, "_n": n})
    if tier == "quick":
        # stratified seeded sample: every (class, operator) at least twice
        by = {}
        for c in allc:
            by.setdefault((c["cls"], c["dunder"], bool(c.get("swap"))), []).append(c)
        for k in sorted(by):
            if k[1] in ("__invert__", "logical_not"):
                cases.extend(by[k])        # the unary operators are few: every self dtype (bool among them) x data shape
            else:
                cases.extend(rng.sample(by[k], min(len(by[k]), 20 if k[2] else 30)))
    else:
        cases.extend(allc)
    return cases


# ---------------------------------------------------------------------------------------------------------------
_S = {}


def _env():
    if not _S:
        import io
        import numpy as np
        import h5py  # noqa
        from exetera.core import fields
        from exetera.core.session import Session
        s = Session()
        ds = s.open_dataset(io.BytesIO(), "w", "ds")
        _S.update(np=np, fields=fields, s=s, ds=ds, k=0)
    return _S


def arr(np, name, dtype, inf=False):
    xs = DATASETS[name]
    if dtype == "bool":
        a = np.array([x % 2 == 1 for x in xs], dtype=bool)
    elif dtype.startswith("uint"):
        a = np.array([abs(x) for x in xs], dtype=dtype)
    else:
        a = np.array(xs, dtype=dtype)
    if inf and dtype.startswith("float") and len(a):
        a[0] = np.inf
        a[-1] = -np.inf
    return a


def make_self(e, case, data):
    np, fields, s = e["np"], e["fields"], e["s"]
    cls = case["cls"]
    e["k"] += 1
    if cls.endswith("MemField"):
        if cls == "NumericMemField":
            f = fields.NumericMemField(s, case["sdtype"])
        elif cls == "TimestampMemField":
            f = fields.TimestampMemField(s)
        else:
            f = fields.CategoricalMemField(s, "int8", {"a": 0, "b": 1})
        f.data.write(data)
        return f, None
    df = e["ds"].create_dataframe(f"df{e['k']}")
    if cls == "NumericField":
        f = df.create_numeric("x", case["sdtype"])
    elif cls == "TimestampField":
        f = df.create_timestamp("x")
    else:
        f = df.create_categorical("x", "int8", {"a": 0, "b": 1})
    f.data.write(data)
    return f, df


def tohex(a):
    return a.tobytes().hex()


def build_other(np, case, odata, fields=None, s=None):
    """the non-self operand as the worker hands it to the operator, and its raw value"""
    kind = case["kind"]
    if kind == "field":
        if fields is None:
            return None, odata
        other = fields.NumericMemField(s, case["odtype"])
        other.data.write(odata)
        return other, odata
    if kind == "array":
        return odata.copy(), odata
    if kind == "scalar":
        other = odata.dtype.type(odata[1]) if len(odata) > 1 else odata.dtype.type(3)
        return other, other
    if kind == "pyint":      # a plain Python int: numpy treats it as a weak scalar (no promotion of narrow dtypes)
        other = [10, -7, 3][case.get("_n", 0) % 3]
        return other, other
    if kind == "pyfloat":
        other = [2.5, -0.5][case.get("_n", 0) % 2]
        return other, other
    return None, None


def operand_arrays(np, case):
    sdata = arr(np, case["self"], case["sdtype"], case.get("inf"))
    if len(sdata) == 0:
        odata = arr(np, "empty", case["odtype"])
    else:
        odata = arr(np, case["other"], case["odtype"], case.get("inf"))
    return sdata, odata


def nformat_of(g):
    return str(getattr(g, "_nformat", None))


def impl(case):
    import warnings
    warnings.simplefilter("ignore")
    e = _env()
    np, fields, s = e["np"], e["fields"], e["s"]
    sdata, odata = operand_arrays(np, case)
    f, df = make_self(e, case, sdata)
    kind = case["kind"]
    other, other_raw = build_other(np, case, odata, fields, s)
    self_before = tohex(f.data[:])
    with np.errstate(all="ignore"):
        got = (SWAPPED if case.get("swap") else SYNTAX)[case["dunder"]](f, other)
    gots = list(got) if isinstance(got, tuple) else [got]
    out = {"res": [{"dtype": str(g.data[:].dtype), "data": tohex(g.data[:]), "cls": type(g).__name__,
                    "n": len(g.data[:]), "nformat": nformat_of(g), "ddtype": str(g.data.dtype)} for g in gots],
           "tuple": isinstance(got, tuple), "distinct": len({id(g) for g in gots}) == len(gots)}
    out["self_unchanged"] = bool((tohex(f.data[:]) == tohex(sdata) == self_before and str(f.data[:].dtype) == str(sdata.dtype)
                                  or len(sdata) == 0) and not any(g is f for g in gots))
    if kind == "field":
        out["other_unchanged"] = bool(tohex(other.data[:]) == tohex(odata) and str(other.data[:].dtype) == str(odata.dtype)
                                      and not any(g is other for g in gots))
    elif kind == "array":
        out["other_unchanged"] = bool(tohex(other) == tohex(odata) and other.dtype == odata.dtype)
    else:
        out["other_unchanged"] = True
    out["sdata"], out["odata"] = tohex(sdata), (tohex(np.asarray(other_raw)) if other_raw is not None else None)
    out["sdt"], out["odt"] = str(sdata.dtype), (str(np.asarray(other_raw).dtype) if other_raw is not None else None)
    out["scalar"] = kind == "scalar"
    out["py"] = other_raw if kind in ("pyint", "pyfloat") else None
    if case.get("setitem"):
        if df is None:
            df = e["ds"].create_dataframe(f"dfs{e['k']}")
        before = list(df.keys())
        df["r"] = gots[0]
        col = df["r"]
        out["stored"] = {"dtype": str(col.data[:].dtype), "data": tohex(col.data[:]), "cls": type(col).__name__,
                         "nformat": nformat_of(col), "cols": list(df.keys()), "cols_before": before,
                         "res_unchanged": bool(tohex(gots[0].data[:]) == out["res"][0]["data"] and col is not gots[0]),
                         "self_unchanged": bool(tohex(f.data[:]) == self_before)}
    return out


NP_SYMS = {"operator.add": operator.add, "operator.sub": operator.sub, "operator.mul": operator.mul,
           "operator.truediv": operator.truediv, "operator.floordiv": operator.floordiv, "operator.mod": operator.mod,
           "operator.and_": operator.and_, "operator.xor": operator.xor, "operator.or_": operator.or_,
           "operator.invert": operator.invert, "operator.lt": operator.lt, "operator.le": operator.le,
           "operator.eq": operator.eq, "operator.ne": operator.ne, "operator.gt": operator.gt, "operator.ge": operator.ge}


def numpy_apply(io, sym, order):
    import numpy as np
    import warnings
    warnings.simplefilter("ignore")
    a = np.frombuffer(bytes.fromhex(io["sdata"]), dtype=io["sdt"])
    if io.get("py") is not None:
        b = io["py"]
    elif io["odata"] is not None:
        b = np.frombuffer(bytes.fromhex(io["odata"]), dtype=io["odt"])
        if io["scalar"]:
            b = b[0]
    else:
        b = None
    args = [a if k == 0 else b for k in order]
    mod, _, name = sym.partition(".")
    fn = getattr(np if mod == "np" else operator, name)     # whatever symbol the regenerated table names
    with np.errstate(all="ignore"):
        r = fn(*args)
    rs = list(r) if isinstance(r, tuple) else [r]
    return [{"dtype": str(np.asarray(x).dtype), "data": np.asarray(x).tobytes().hex()} for x in rs]


SPEC = {}
for _d, _sym in [("add", "operator.add"), ("sub", "operator.sub"), ("mul", "operator.mul"), ("truediv", "operator.truediv"),
                 ("floordiv", "operator.floordiv"), ("mod", "operator.mod"), ("divmod", "np.divmod"), ("and", "operator.and_"),
                 ("xor", "operator.xor"), ("or", "operator.or_")]:
    SPEC[f"__{_d}__"] = (_sym, [0, 1])
    SPEC[f"__r{_d}__"] = (_sym, [1, 0])
for _d in ["lt", "le", "eq", "ne", "gt", "ge"]:
    SPEC[f"__{_d}__"] = ("operator." + _d, [0, 1])
SPEC["__invert__"] = ("operator.invert", [0])
SPEC["logical_not"] = ("np.logical_not", [0])


def same(res, want):
    return len(res) == len(want) and all(r["dtype"] == w["dtype"] and r["data"] == w["data"] for r, w in zip(res, want))


def numpy_outcome(case, io, sym, order):
    """numpy's own result on the underlying arrays: ('ok', results) or ('err', error tag)"""
    try:
        return "ok", numpy_apply(io, sym, order)
    except OverflowError:
        return "err", "overflow_error"
    except TypeError:
        return "err", "type_error"
    except ValueError:
        return "err", "value_error"


def operands_of(case):
    """the operands as the worker built them (needed when the field operator raised and returned no operand dump)"""
    import numpy as np
    sdata, odata = operand_arrays(np, case)
    io = {"sdata": tohex(sdata), "sdt": str(sdata.dtype), "scalar": case["kind"] == "scalar", "py": None,
          "odata": None, "odt": None}
    k = case["kind"]
    if k in ("field", "array"):
        io["odata"], io["odt"] = tohex(odata), str(odata.dtype)
    elif k == "scalar":
        o = odata.dtype.type(odata[1]) if len(odata) > 1 else odata.dtype.type(3)
        io["odata"], io["odt"] = tohex(np.asarray(o)), str(np.asarray(o).dtype)
    elif k == "pyint":
        io["py"] = [10, -7, 3][case.get("_n", 0) % 3]
    elif k == "pyfloat":
        io["py"] = [2.5, -0.5][case.get("_n", 0) % 2]
    return io


def spec_of(case):
    """the property's right-hand side for this case: (symbol, operand order over (self, other))"""
    sym, order = SPEC[case["dunder"]]
    if case.get("swap"):
        order = [1, 0]               # `other <op> self`
    return sym, order


def check_spec(case, io, mode):
    sym, order = spec_of(case)
    if "err" in io:
        kind, res = numpy_outcome(case, operands_of(case), sym, order)
        if kind == "err" and res == io["err"]:
            return None          # numpy rejects this operand pair in the same way: the field operator must too
        return f"operator raised {io['err']}: {io.get('msg')} (numpy: {kind} {res if kind == 'err' else ''})"
    kind, want = numpy_outcome(case, io, sym, order)
    if kind == "err":
        return f"numpy raises {want} but the field operator returned a value"
    if not same(io["res"], want):
        return f"result differs from numpy {sym}{order}: got {io['res']} want {want}"
    if any(r["cls"] != "NumericMemField" for r in io["res"]):
        return f"result is not a new in-memory numeric field: {[r['cls'] for r in io['res']]}"
    if any(r.get("nformat", r["dtype"]) != w["dtype"] for r, w in zip(io["res"], want)):
        return f"result field is declared {[r.get('nformat') for r in io['res']]}, numpy's dtype is {[w['dtype'] for w in want]}"
    if case["dunder"] in ("__divmod__", "__rdivmod__") and not (io.get("tuple", True) and io.get("distinct", True)):
        return "divmod did not return a pair of distinct fields"
    if not io["self_unchanged"] or not io["other_unchanged"]:
        return "an operand was modified"
    if "stored" in io:
        st = io["stored"]
        if st["dtype"] != want[0]["dtype"] or st["data"] != want[0]["data"]:
            return "df['r'] = result stored different values"
        if not st.get("res_unchanged", True) or not st.get("self_unchanged", True):
            return "df['r'] = result modified the result field or an operand"
    return None


def case_inputs(np, case):
    """numpy values of the model's named inputs: S = the self field's data, O = the other operand"""
    sdata, odata = operand_arrays(np, case)
    _, other_raw = build_other(np, case, odata)
    return {"S": sdata, "O": other_raw}


def np_symbol(dt):
    """how fields.py spells the scalar type a dtype compares equal to"""
    return "bool" if dt == "bool" else "np." + dt


def sym_fn(sym):
    import numpy as np
    mod, _, name = sym.partition(".")
    return getattr(np if mod == "np" else operator, name)


def self_nformat(case):
    if case["cls"].startswith("Numeric"):
        return case["sdtype"]
    return "float64" if case["cls"].startswith("Timestamp") else "int8"


def to_model(case):
    """the case for the Lean driver: heap, operands by name, and numpy's result dtypes for the calls the model may make"""
    import numpy as np
    import warnings
    warnings.simplefilter("ignore")
    d = case["dunder"]
    unary = d in ("__invert__", "logical_not")
    flds = [{"id": 0, "cls": case["cls"], "dtype": self_nformat(case), "data": "S"}]
    m = {"op": "c13_run", "fields": flds}
    if not case["cls"].endswith("MemField"):
        m["df_col"] = 0
    if case.get("setitem"):
        m["setitem"] = "r"
    env = case_inputs(np, case)
    sym = SPEC[d][0]
    oracle = {}
    with np.errstate(all="ignore"):
        if unary:
            m["pyop"] = "~" if d == "__invert__" else "logical_not"
            m["self"] = 0
            try:
                oracle[f"{sym}(S)"] = np_symbol(str(np.asarray(sym_fn(sym)(env["S"])).dtype))
            except Exception:  # noqa  numpy itself rejects the operand: no entry
                pass
        else:
            base = d.strip("_")
            refl = base not in PYOP
            m["pyop"] = PYOP[base[1:] if refl else base]
            if case["kind"] == "field":
                flds.append({"id": 1, "cls": "NumericMemField", "dtype": case["odtype"], "data": "O"})
                other = {"k": "field", "v": 1}
            else:
                other = {"k": "array" if case["kind"] == "array" else "scalar", "v": "O"}
            me = {"k": "field", "v": 0}
            m["left"], m["right"] = (other, me) if (refl or case.get("swap")) else (me, other)
            for sy in sorted({sym, MIRROR.get(sym, sym)}):
                for a, b in (("S", "O"), ("O", "S")):
                    try:
                        r = sym_fn(sy)(env[a], env[b])
                    except Exception:  # noqa
                        continue
                    if isinstance(r, tuple):
                        for k, x in enumerate(r):
                            oracle[f"{sy}({a},{b})#{k}"] = np_symbol(str(np.asarray(x).dtype))
                    else:
                        oracle[f"{sy}({a},{b})"] = np_symbol(str(np.asarray(r).dtype))
    m["oracle"] = oracle
    return m


def self_on_left(case):
    d = case["dunder"]
    if d in ("__invert__", "logical_not"):
        return True
    return not (d.strip("_") not in PYOP or case.get("swap"))


def eval_term(t, env):
    import numpy as np
    if "in" in t:
        return env[t["in"]]
    if "call" in t:
        return sym_fn(t["call"])(*[eval_term(a, env) for a in t["args"]])
    if "proj" in t:
        return eval_term(t["of"], env)[t["proj"]]
    if "cast" in t:
        return np.asarray(eval_term(t["of"], env)).astype(t["cast"])
    if "append" in t:
        return np.concatenate([np.asarray(eval_term(x, env)) for x in t["append"]])
    if "zeros0" in t:
        return np.zeros(0, dtype=t["zeros0"])
    raise ValueError("unknown term " + str(t))


def io_inputs(io):
    """the named inputs rebuilt from what the worker reports it used"""
    import numpy as np
    a = np.frombuffer(bytes.fromhex(io["sdata"]), dtype=io["sdt"])
    if io.get("py") is not None:
        b = io["py"]
    elif io["odata"] is not None:
        b = np.frombuffer(bytes.fromhex(io["odata"]), dtype=io["odt"])
        if io["scalar"]:
            b = b[0]
    else:
        b = None
    return {"S": a, "O": b}


def compare_run(case, io, run, sent):
    """the model's whole-operator run (terms over a symbolic numpy) against what the real operator returned"""
    import numpy as np
    import warnings
    warnings.simplefilter("ignore")
    env = io_inputs(io)
    if len(run["res"]) != len(io["res"]):
        return f"model returns {len(run['res'])} field(s), impl {len(io['res'])}"
    with np.errstate(all="ignore"):
        for k, (mr, ir) in enumerate(zip(run["res"], io["res"])):
            if mr is None:
                return "model returned a dangling field"
            if mr["data"] is None:
                return f"model result {k} holds no data"
            v = np.asarray(eval_term(mr["data"], env))
            if str(v.dtype) != ir["dtype"] or v.tobytes().hex() != ir["data"]:
                return f"result {k}: model term {mr['data']} evaluates to {v.dtype} {v.tobytes().hex()}, impl {ir['dtype']} {ir['data']}"
            if mr["dtype"] != ir.get("nformat") or mr["dtype"] != ir.get("ddtype"):
                return f"result {k}: model declares dtype {mr['dtype']}, impl field is declared {ir.get('nformat')}/{ir.get('ddtype')}"
            if mr["cls"] != ir["cls"]:
                return f"result {k}: model class {mr['cls']}, impl {ir['cls']}"
        if len({r["id"] for r in run["res"]}) != len(run["res"]) or not run["fresh"]:
            return "model returned an existing / repeated field"
        # operands: the model leaves every pre-existing field as it was; so must the implementation
        for f in sent["fields"]:
            after = next((p for p in run["pre"] if p and p["id"] == f["id"]), None)
            if after is None or (after["cls"], after["dtype"], after["data"]) != (f["cls"], f["dtype"], {"in": f["data"]}):
                return f"model changed operand field {f['id']}: {after}"
        if not run["frames_same"]:
            return "model changed a dataframe"
        if not (io["self_unchanged"] and io["other_unchanged"]):
            return "impl modified an operand, the model does not"
        if "stored" in io or "stored" in run or "setitem_err" in run:
            if "setitem_err" in run:
                return f"model: df['r'] = result raises {run['setitem_err']}, impl stored a column"
            if "stored" not in io or "stored" not in run:
                return "setitem performed on one side only"
            ms, st = run["stored"], io["stored"]
            if ms is None:
                return "model: column not found after setitem"
            v = np.asarray(eval_term(ms["data"], env))
            if str(v.dtype) != st["dtype"] or v.tobytes().hex() != st["data"]:
                return f"stored column: model {v.dtype} {v.tobytes().hex()}, impl {st['dtype']} {st['data']}"
            if (ms["cls"], ms["dtype"]) != (st["cls"], st["nformat"]):
                return f"stored column: model {ms['cls']}({ms['dtype']}), impl {st['cls']}({st['nformat']})"
            if run["cols"] != st["cols"]:
                return f"columns after setitem: model {run['cols']}, impl {st['cols']}"
            want_after = [{"id": f["id"], "cls": f["cls"], "dtype": f["dtype"], "data": {"in": f["data"]}}
                          for f in sent["fields"]] + run["res"]
            if run["after"] != want_after:
                return "model: setitem changed the result field or an operand"
            if not (st["res_unchanged"] and st["self_unchanged"]):
                return "impl: setitem changed the result field or an operand, the model does not"
    return None


def compare(case, io, mo, mode):
    if "err" in mo:
        return None if "err" in io else f"model: {mo['err']}, impl returned a value"
    sym, order = mo["ok"]["sym"], mo["ok"]["ord"]
    run, run_err = mo["ok"].get("run"), mo["ok"].get("run_err")
    if order is not None and mo["ok"].get("disp_left", True) != self_on_left(case):
        order = [1 - k for k in order]       # the model's order is relative to the dispatching field: make it (self, other)
    if sym is None:
        return None if "err" in io and run_err == io["err"] else f"model finds no route ({run_err}), impl: {io.get('err', 'a value')}"
    if "err" in io:
        kind, res = numpy_outcome(case, operands_of(case), sym, order)
        if kind == "err" and res == io["err"]:
            return None                      # numpy itself raises on the routed call; the exception passes through the helper
        if run_err == io["err"]:
            return None
        return f"impl raised {io['err']} ({io.get('msg')}), model-resolved numpy call: {kind}, model run: {run_err or 'ok'}"
    kind, want = numpy_outcome(case, io, sym, order)
    if kind == "err":
        return f"model-resolved numpy call raises {want}, impl returned a value"
    if not same(io["res"], want):
        return f"impl {io['res']} vs model-resolved {sym}{order} -> {want}"
    if run is None:
        return f"model run raises {run_err}, impl returned a value"
    return compare_run(case, io, run, to_model(case))


def nontrivial(case, mo):
    return case["self"] != "empty"


def classify(case, mo):
    tags = [case["cls"], case["dunder"], "kind:" + case["kind"]]
    if case.get("swap"):
        tags.append("field-on-the-right:" + case["kind"])
    elif case["dunder"].startswith("__r"):
        tags.append("reflected:" + case["kind"])
    if case.get("setitem"):
        tags.append("setitem")
    return tags


def select_for_mode(case, mode, tier):
    return case.get("_n", 0) % 9 == 0
