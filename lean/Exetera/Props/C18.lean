import Exetera.Lemmas.ExportApi
import Exetera.Lemmas.CsvParse
import Exetera.Lemmas.CsvParseQuoted
import Exetera.Lemmas.ExportPandasRows
/-!
  C18 — CSV / pandas export writes exactly the selected rows and columns.

  All theorems are about `Exetera.Export.toCsv` / `toPandas`, the definitions the driver runs, and hold for every frame,
  every filter, every column selection and every `chunk_row_size ≥ 1` (no size bounds).
-/
namespace Exetera.Props.C18
open Exetera Exetera.Export Exetera.Spec.Export Exetera.Spec.Csv

/-- **to_csv_rows** (functional correctness, with memory safety and termination). For any `writerow`, any frame, a valid
    column selection `sel`, a valid row filter and any `chunk_row_size ≥ 1`: if a column is left to write, `to_csv` ends
    normally and the file is `writerow(names)` followed by `writerow` of exactly the rows `[row i | i < n, filter i]` of the
    selected columns, in order (`names` = the selection without the filter's own column; the fields are those of the frame). -/
theorem to_csv_rows (writerow : List Export.Cell → List Char) (f : Frame) (rf : RowFilter) (cf : ColFilter) (crs : Int)
    (sel : List Export.Cell) (flt : Option (List Bool))
    (hcrs : 0 < crs) (hsel : Selects f cf sel) (hflt : validateRowFilter rf = .ok flt)
    (hne : dropFilterColumn rf sel ≠ []) :
    ∃ fields, f.getAll (dropFilterColumn rf sel) = .ok fields ∧ fields.map (·.name) = dropFilterColumn rf sel ∧
      (∀ c ∈ fields, c ∈ f) ∧
      toCsv writerow f rf cf crs =
        .ok (writerow (dropFilterColumn rf sel) ++ (exportRows (fields.map (·.data)) flt).flatMap writerow) := by
  obtain ⟨fields, hget, hnames, hmem⟩ := getAll_ok f (dropFilterColumn rf sel)
    (fun n hn => hsel.subset n (dropFilterColumn_subset rf sel n hn))
  refine ⟨fields, hget, hnames, hmem, ?_⟩
  have hfne : fields.map (·.data) ≠ [] := by
    intro h
    have : fields = [] := by simpa using h
    rw [this] at hnames
    exact hne hnames.symm
  have hc : 0 < crs.toNat := by omega
  simp only [toCsv, show ¬ crs ≤ 0 by omega, if_false, csvNames_ok hsel hflt, hflt, hget,
    exportLoop_eq _ flt _ _ hfne hc (Nat.le_refl _)]

/-- non-vacuity: the hypotheses hold for a frame filtered by its own boolean column, selection `['b','s']`, chunk size 3 -/
example :=
  to_csv_rows renderRow [⟨['s'], [['a'], [' ', 'b'], ['c', ',', 'd'], ['e']]⟩, ⟨['b'], [['T'], ['F'], ['T'], ['T']]⟩]
    (.field (some ['b']) true true [true, false, true, true]) (.many [['b'], ['s']]) 3 [['b'], ['s']]
    (some [true, false, true, true]) (by decide) (Selects.many _ (by decide) (by decide)) rfl (by decide)

example : toCsv renderRow [⟨['s'], [['a'], [' ', 'b'], ['c', ',', 'd'], ['e']]⟩, ⟨['b'], [['T'], ['F'], ['T'], ['T']]⟩]
    (.field (some ['b']) true true [true, false, true, true]) (.many [['b'], ['s']]) 3
    = .ok ['s', '\n', 'a', '\n', '"', 'c', ',', 'd', '"', '\n', 'e', '\n'] := by decide

/-- **crs_unobservable**: the result of `to_csv` (file text or error) does not depend on `chunk_row_size`, for all inputs. -/
theorem crs_unobservable (writerow : List Export.Cell → List Char) (f : Frame) (rf : RowFilter) (cf : ColFilter) (c₁ c₂ : Int)
    (h₁ : 0 < c₁) (h₂ : 0 < c₂) : toCsv writerow f rf cf c₁ = toCsv writerow f rf cf c₂ := by
  simp only [toCsv, show ¬ c₁ ≤ 0 by omega, show ¬ c₂ ≤ 0 by omega, if_false]
  cases csvNames f rf cf with
  | error e => rfl
  | ok names =>
    dsimp only
    cases validateRowFilter rf with
    | error e => rfl
    | ok flt =>
      dsimp only
      cases f.getAll names with
      | error e => rfl
      | ok fields =>
        dsimp only
        by_cases hf : fields.map (·.data) = []
        · simp only [hf, exportLoop_no_columns]
        · simp only [exportLoop_eq _ flt _ _ hf (show 0 < c₁.toNat by omega) (Nat.le_refl _),
            exportLoop_eq _ flt _ _ hf (show 0 < c₂.toNat by omega) (Nat.le_refl _)]

example : toCsv renderRow [⟨['s'], [['a'], ['b'], ['c']]⟩] (.array [true, false]) .none 1
    = toCsv renderRow [⟨['s'], [['a'], ['b'], ['c']]⟩] (.array [true, false]) .none 32768 :=
  crs_unobservable _ _ _ _ _ _ (by decide) (by decide)

/-- **terminates**: the chunk loop takes exactly `⌊len(first column)/crs⌋ + 1` iterations — that many suffice, fewer do not. -/
theorem terminates (c0 : List Export.Cell) (rest : List (List Export.Cell)) (flt : Option (List Bool)) (crs : Nat) (hcrs : 0 < crs) :
    exportLoop (c0 :: rest) flt crs (c0.length / crs + 1) = .ok (exportRows (c0 :: rest) flt) ∧
    ∀ fuel, fuel < c0.length / crs + 1 → exportLoop (c0 :: rest) flt crs fuel = .error .outOfFuel := by
  refine ⟨exportLoop_eq _ flt crs _ (by simp) hcrs (by simp [loopFuel]), ?_⟩
  intro fuel hlt
  simp only [exportLoop, exportLoop_needs_fuel c0 rest flt crs hcrs fuel ⟨0, [], false⟩ rfl (by simpa using hlt)]

example : exportLoop [[['a'], ['b'], ['c'], ['d']]] none 2 3 = .ok [[['a']], [['b']], [['c']], [['d']]] ∧
    exportLoop [[['a'], ['b'], ['c'], ['d']]] none 2 2 = .error .outOfFuel := by decide

/-- **readers_recover** (with fixes/D30_NC18a: the lines of the file are written by ExeTera's own `_csv_record`, `csvRecord`).
    For every frame — whatever its cells and names hold: separators, quotes, line feeds, carriage returns, leading blanks —
    every valid selection, filter and `chunk_row_size ≥ 1`, a reader of ANY of the four dialects applied to the file recovers
    the header and every cell of every selected row exactly. -/
theorem readers_recover (d : Dialect) (f : Frame) (rf : RowFilter) (cf : ColFilter) (crs : Int)
    (sel : List Export.Cell) (flt : Option (List Bool))
    (hcrs : 0 < crs) (hsel : Selects f cf sel) (hflt : validateRowFilter rf = .ok flt)
    (hne : dropFilterColumn rf sel ≠ []) :
    ∃ fields text, f.getAll (dropFilterColumn rf sel) = .ok fields ∧ toCsv csvRecord f rf cf crs = .ok text ∧
      parse d text = dropFilterColumn rf sel :: exportRows (fields.map (·.data)) flt := by
  obtain ⟨fields, hget, _, _, hcsv⟩ := to_csv_rows csvRecord f rf cf crs sel flt hcrs hsel hflt hne
  refine ⟨fields, _, hget, hcsv, ?_⟩
  have := parse_records d (dropFilterColumn rf sel :: exportRows (fields.map (·.data)) flt)
  simpa only [List.flatMap_cons] using this

/-- **std_parser_recovers** (full; with fixes/D30_NC18a): "a standard CSV parser recovers each cell's value" — no hypothesis about
    the contents of the frame. (As found — `csv.writer` of Python < 3.13 — only `std_parser_recovers_partial` below holds:
    `Witness.C18.nc18a_bare_cr_splits_record`.) -/
theorem std_parser_recovers (f : Frame) (rf : RowFilter) (cf : ColFilter) (crs : Int)
    (sel : List Export.Cell) (flt : Option (List Bool))
    (hcrs : 0 < crs) (hsel : Selects f cf sel) (hflt : validateRowFilter rf = .ok flt)
    (hne : dropFilterColumn rf sel ≠ []) :
    ∃ fields text, f.getAll (dropFilterColumn rf sel) = .ok fields ∧ toCsv csvRecord f rf cf crs = .ok text ∧
      parse .std text = dropFilterColumn rf sel :: exportRows (fields.map (·.data)) flt :=
  readers_recover .std f rf cf crs sel flt hcrs hsel hflt hne

/-- **reimport_exact** (full; with fixes/D30_NC18a): "re-importing the file … reproduces the string … columns" — ExeTera's own
    reader dialect recovers every cell exactly, leading blanks included. (As found only `reimport_exact_partial` /
    `reimport_roundtrip` below hold: `Witness.C18.d30_leading_blank_lost`.) -/
theorem reimport_exact (f : Frame) (rf : RowFilter) (cf : ColFilter) (crs : Int)
    (sel : List Export.Cell) (flt : Option (List Bool))
    (hcrs : 0 < crs) (hsel : Selects f cf sel) (hflt : validateRowFilter rf = .ok flt)
    (hne : dropFilterColumn rf sel ≠ []) :
    ∃ fields text, f.getAll (dropFilterColumn rf sel) = .ok fields ∧ toCsv csvRecord f rf cf crs = .ok text ∧
      parse .exetera text = dropFilterColumn rf sel :: exportRows (fields.map (·.data)) flt :=
  readers_recover .exetera f rf cf crs sel flt hcrs hsel hflt hne

example :=
  std_parser_recovers [⟨['s'], [['i', '\r', 'j'], [' ', 'a']]⟩, ⟨['n'], [['1'], ['2']]⟩] .none (.one ['s']) 1 [['s']] none
    (by decide) (Selects.one _ (by decide)) rfl (by decide)

example :=
  reimport_exact [⟨['s'], [[' ', 'a'], [' ', ' '], ['\r']]⟩, ⟨['b'], [['T'], ['F'], ['T']]⟩]
    (.field (some ['b']) true true [true, false, true]) .none 2 [['s'], ['b']] (some [true, false, true])
    (by decide) Selects.none rfl (by decide)

/-- non-vacuity: leading blanks, a cell of blanks only, bare carriage returns, a lone CR, separators and quotes -/
example :=
  readers_recover .exetera [⟨[' ', 's'], [[' ', 'a'], [' ', ' '], ['i', '\r', 'j'], ['\r'], ['x', ',', '"']]⟩,
      ⟨['n'], [['1'], ['2'], ['3'], ['4'], ['5']]⟩]
    (.array [true, true, true, true, true]) .none 2 [[' ', 's'], ['n']] (some [true, true, true, true, true]) (by decide)
    Selects.none rfl (by decide)

example : toCsv csvRecord [⟨['s'], [[' ', 'a'], ['i', '\r', 'j']]⟩, ⟨['n'], [['1'], ['2']]⟩] .none .none 1
    = .ok ['s', ',', 'n', '\n', '"', ' ', 'a', '"', ',', '1', '\n', '"', 'i', '\r', 'j', '"', ',', '2', '\n'] := by decide

/-- **csv_record_agrees_with_csv_writer**: the fix changes no other byte — on every frame none of whose selected cells or names
    starts with a blank or holds a carriage return, `to_csv` writes the same file with `_csv_record` as with `csv.writer`. -/
theorem csv_record_agrees_with_csv_writer (f : Frame) (rf : RowFilter) (cf : ColFilter) (crs : Int)
    (sel : List Export.Cell) (flt : Option (List Bool))
    (hcrs : 0 < crs) (hsel : Selects f cf sel) (hflt : validateRowFilter rf = .ok flt)
    (hne : dropFilterColumn rf sel ≠ [])
    (hplain : ∀ c ∈ f, (c.name.head? ≠ some ' ' ∧ '\r' ∉ c.name) ∧ ∀ x ∈ c.data, x.head? ≠ some ' ' ∧ '\r' ∉ x) :
    toCsv csvRecord f rf cf crs = toCsv renderRow f rf cf crs := by
  obtain ⟨fields, hget, hnames, hmem, hcsv⟩ := to_csv_rows csvRecord f rf cf crs sel flt hcrs hsel hflt hne
  obtain ⟨fields', hget', _, _, hcsv'⟩ := to_csv_rows renderRow f rf cf crs sel flt hcrs hsel hflt hne
  have hf : fields' = fields := by rw [hget] at hget'; exact (Except.ok.inj hget').symm
  subst hf
  rw [hcsv, hcsv']
  have hhead : csvRecord (dropFilterColumn rf sel) = renderRow (dropFilterColumn rf sel) := by
    apply csvRecord_eq_renderRow
    intro c hc
    rw [← hnames] at hc
    obtain ⟨col, hcol, rfl⟩ := List.mem_map.mp hc
    exact (hplain col (hmem col hcol)).1
  have hrows : ∀ r ∈ exportRows (fields'.map (·.data)) flt, csvRecord r = renderRow r := by
    intro r hr
    apply csvRecord_eq_renderRow
    intro c hc
    obtain ⟨col, hcol, hx⟩ := mem_exportRows hr hc
    obtain ⟨fc, hfc, rfl⟩ := List.mem_map.mp hcol
    exact (hplain fc (hmem fc hfc)).2 c hx
  rw [hhead, flatMap_congr_mem _ _ _ hrows]

example :=
  csv_record_agrees_with_csv_writer [⟨['s'], [['a', ' '], ['p', ',', '"'], ['l', '\n', 'm'], []]⟩, ⟨['n'], [['1'], ['2'], ['3'], ['4']]⟩]
    (.array [true, false, true, true]) (.many [['n'], ['s']]) 3 [['n'], ['s']] (some [true, false, true, true])
    (by decide) (Selects.many _ (by decide) (by decide)) rfl (by decide) (by decide)

/- As found (the lines written by `csv.writer`, `renderRow`) the full statement `std_parser_recovers` is false
   (`Witness.C18.nc18a_bare_cr_splits_record`: csv.writer of Python < 3.13 does not quote a bare carriage return); what holds: -/
/-- **std_parser_recovers_partial**: with the specified `csv.writer` (`renderRow`), a standard CSV reader applied to the file written
    by `to_csv` recovers the header and every cell of every selected row exactly — provided no cell or name of the frame holds a
    carriage return without also holding a comma, quote or line feed (finding NC18a: such a cell is written unquoted). -/
theorem std_parser_recovers_partial (f : Frame) (rf : RowFilter) (cf : ColFilter) (crs : Int)
    (sel : List Export.Cell) (flt : Option (List Bool))
    (hcrs : 0 < crs) (hsel : Selects f cf sel) (hflt : validateRowFilter rf = .ok flt)
    (hne : dropFilterColumn rf sel ≠ [])
    (hread : ∀ c ∈ f, Readable .std c.name ∧ ∀ x ∈ c.data, Readable .std x) :
    ∃ fields text, f.getAll (dropFilterColumn rf sel) = .ok fields ∧ toCsv renderRow f rf cf crs = .ok text ∧
      parse .std text = dropFilterColumn rf sel :: exportRows (fields.map (·.data)) flt := by
  obtain ⟨fields, hget, hnames, hmem, hcsv⟩ := to_csv_rows renderRow f rf cf crs sel flt hcrs hsel hflt hne
  refine ⟨fields, _, hget, hcsv, ?_⟩
  have hr : ∀ r ∈ dropFilterColumn rf sel :: exportRows (fields.map (·.data)) flt, ∀ c ∈ r, Readable .std c := by
    intro r hr c hc
    simp only [List.mem_cons] at hr
    rcases hr with rfl | hr
    · rw [← hnames] at hc
      obtain ⟨col, hcol, rfl⟩ := List.mem_map.mp hc
      exact (hread col (hmem col hcol)).1
    · obtain ⟨col, hcol, hx⟩ := mem_exportRows hr hc
      obtain ⟨fc, hfc, rfl⟩ := List.mem_map.mp hcol
      exact (hread fc (hmem fc hfc)).2 c hx
  have := parse_render .std _ hr
  simp only [render, List.flatMap_cons] at this
  rw [this]
  have hid : (fun c : Export.Cell => asRead .std c) = id := funext asRead_std
  simp [hid]

/-- non-vacuity: a frame with separators, quotes, a line feed, a leading blank, and a *quoted* carriage return -/
example :=
  std_parser_recovers_partial [⟨['s'], [['a', ',', '"', 'b', '"', '\n', 'c'], [' ', 'x'], ['\r', ',']]⟩, ⟨['n'], [['1'], ['2'], ['3']]⟩]
    (.array [true, true, true, true]) .none 2 [['s'], ['n']] (some [true, true, true, true]) (by decide) Selects.none rfl
    (by decide) (by decide)

example : parse .std (render [[['s'], ['n']], [['a', ',', '"', 'b', '"', '\n', 'c'], ['1']], [[' ', 'x'], ['2']]])
    = [[['s'], ['n']], [['a', ',', '"', 'b', '"', '\n', 'c'], ['1']], [[' ', 'x'], ['2']]] := by decide

/-- **reimport_roundtrip** (`roundtrip_with_C05`): ExeTera's own reader dialect (only LF ends a record, blanks after a separator
    or line end are skipped) applied to the file written by `to_csv` recovers the header and every cell of every selected row
    *up to unquoted leading blanks* (`asRead .exetera`: finding D30) — for all contents, carriage returns included. -/
theorem reimport_roundtrip (f : Frame) (rf : RowFilter) (cf : ColFilter) (crs : Int)
    (sel : List Export.Cell) (flt : Option (List Bool))
    (hcrs : 0 < crs) (hsel : Selects f cf sel) (hflt : validateRowFilter rf = .ok flt)
    (hne : dropFilterColumn rf sel ≠ []) :
    ∃ fields text, f.getAll (dropFilterColumn rf sel) = .ok fields ∧ toCsv renderRow f rf cf crs = .ok text ∧
      parse .exetera text =
        (dropFilterColumn rf sel :: exportRows (fields.map (·.data)) flt).map (·.map (asRead .exetera)) := by
  obtain ⟨fields, hget, _, _, hcsv⟩ := to_csv_rows renderRow f rf cf crs sel flt hcrs hsel hflt hne
  refine ⟨fields, _, hget, hcsv, ?_⟩
  have := parse_render .exetera (dropFilterColumn rf sel :: exportRows (fields.map (·.data)) flt)
    (fun _ _ c _ => readable_exetera c)
  simp only [render, List.flatMap_cons] at this
  exact this

/-- a cell keeps its blanks through the round trip: it has no leading blank, or something in it forces quotes -/
def KeepsBlanks (c : Export.Cell) : Prop := c.head? = some ' ' → c.any special = true

instance (c : Export.Cell) : Decidable (KeepsBlanks c) := by unfold KeepsBlanks; infer_instance

theorem asRead_exetera_of_keepsBlanks (c : Export.Cell) (h : KeepsBlanks c) : asRead .exetera c = c := by
  by_cases hs : c.any special = true
  · simp [asRead, hs]
  · cases c with
    | nil => simp [asRead]
    | cons x xs =>
      have hx : (x == ' ') = false := by
        have : ¬ (x :: xs).head? = some ' ' := fun h' => hs (h h')
        simpa using this
      simp only [asRead]
      split
      · simp [List.dropWhile, hx]
      · rfl

/- As found (`renderRow`) the full statement `reimport_exact` above is false (`Witness.C18.d30_leading_blank_lost`: csv.writer leaves a
   cell with leading blanks unquoted and the reader skips blanks at the start of a field); `reimport_roundtrip` above states
   exactly what is read instead, and: -/
/-- **reimport_exact_partial**: if every cell and name of the frame keeps its blanks (no leading blank, or quoted anyway), re-import
    through ExeTera's reader dialect reproduces the header and every selected row exactly. -/
theorem reimport_exact_partial (f : Frame) (rf : RowFilter) (cf : ColFilter) (crs : Int)
    (sel : List Export.Cell) (flt : Option (List Bool))
    (hcrs : 0 < crs) (hsel : Selects f cf sel) (hflt : validateRowFilter rf = .ok flt)
    (hne : dropFilterColumn rf sel ≠ [])
    (hkeep : ∀ c ∈ f, KeepsBlanks c.name ∧ ∀ x ∈ c.data, KeepsBlanks x) :
    ∃ fields text, f.getAll (dropFilterColumn rf sel) = .ok fields ∧ toCsv renderRow f rf cf crs = .ok text ∧
      parse .exetera text = dropFilterColumn rf sel :: exportRows (fields.map (·.data)) flt := by
  obtain ⟨fields, hget, hnames, hmem, hcsv⟩ := to_csv_rows renderRow f rf cf crs sel flt hcrs hsel hflt hne
  obtain ⟨fields', text, hget', hcsv', hparse⟩ := reimport_roundtrip f rf cf crs sel flt hcrs hsel hflt hne
  have hf : fields' = fields := by rw [hget] at hget'; exact (Except.ok.inj hget').symm
  subst hf
  refine ⟨fields', text, hget, hcsv', ?_⟩
  rw [hparse]
  have hrows : ∀ r ∈ dropFilterColumn rf sel :: exportRows (fields'.map (·.data)) flt, r.map (asRead .exetera) = r := by
    intro r hr
    have hall : ∀ c ∈ r, asRead .exetera c = c := by
      intro c hc
      apply asRead_exetera_of_keepsBlanks
      simp only [List.mem_cons] at hr
      rcases hr with rfl | hr
      · rw [← hnames] at hc
        obtain ⟨col, hcol, rfl⟩ := List.mem_map.mp hc
        exact (hkeep col (hmem col hcol)).1
      · obtain ⟨col, hcol, hx⟩ := mem_exportRows hr hc
        obtain ⟨fc, hfc, rfl⟩ := List.mem_map.mp hcol
        exact (hkeep fc (hmem fc hfc)).2 c hx
    conv => rhs; rw [← List.map_id r]
    exact List.map_congr_left (fun c hc => by simp [hall c hc])
  conv => rhs; rw [← List.map_id (dropFilterColumn rf sel :: exportRows (fields'.map (·.data)) flt)]
  exact List.map_congr_left (fun r hr => by simp [hrows r hr])

/-- non-vacuity: trailing blanks, inner blanks, a quoted leading blank and a carriage return all survive -/
example :=
  reimport_exact_partial [⟨['s'], [['x', ' '], [' ', 'y', ','], ['a', '\r', 'b'], ['p', ' ', 'q']]⟩] .none (.one ['s']) 3 [['s']] none
    (by decide) (Selects.one _ (by decide)) rfl (by decide) (by decide)

example :=
  reimport_roundtrip [⟨['s'], [[' ', 'x'], [' ', 'y', ','], ['a', '\r', 'b']]⟩, ⟨['n'], [['1'], ['2'], ['3']]⟩] .none .none 2 [['s'], ['n']] none
    (by decide) Selects.none rfl (by decide)

example : parse .exetera (render [[['s'], ['n']], [[' ', 'x'], ['1']], [[' ', 'y', ','], ['2']], [['a', '\r', 'b'], ['3']]])
    = [[['s'], ['n']], [['x'], ['1']], [[' ', 'y', ','], ['2']], [['a', '\r', 'b'], ['3']]] := by decide

/-- the part of `to_pandas` both variants share: the columns pass the length check and every column is mapped by `app` -/
theorem to_pandas_core (f : Frame) (cf : ColFilter) (sel : List Export.Cell) (flt : Option (List Bool)) (N : Nat)
    (app : List Export.Cell → Except Err (List Export.Cell))
    (hsel : Selects f cf sel) (hne : sel ≠ []) (hlen : ∀ c ∈ f, c.name ∈ sel → c.data.length = N)
    (happ : ∀ data : List Export.Cell, data.length = N → app data = .ok (filterCol data flt)) :
    pdChecks f cf = .ok () ∧
    ∃ cols, pdLoop f app cf = .ok cols ∧ cols.map (·.1) = firstOccurrences [] sel ∧ ∀ p ∈ cols, GoodCol f flt p := by
  have hall : AllLen f N sel := by
    intro n hn
    obtain ⟨c, h1, h2, h3⟩ := get?_of_mem_keys f n (hsel.subset n hn)
    exact ⟨c, h1, h3, h2, hlen c h3 (by rw [h2]; exact hn)⟩
  obtain ⟨out, h1, h2, h3⟩ := pdCollect_ok f app flt N happ sel [] hall (by simp)
  have hcheck : pdCheck f sel = .ok () := by
    cases hs : sel with
    | nil => exact absurd hs hne
    | cons n0 ns =>
      obtain ⟨c0, hc0, _, _, hl0⟩ := hall n0 (by simp [hs])
      simp only [pdCheck, List.getElem?_cons_zero, Frame.getE, hc0, hl0]
      exact pdCheckLengths_ok f N _ (hs ▸ hall)
  cases hsel with
  | none => exact ⟨by simp only [pdChecks, hcheck], out, by simp only [pdLoop, h1], by simpa using h2, h3⟩
  | one n hn => exact ⟨rfl, out, by simp only [pdLoop, h1], by simpa using h2, h3⟩
  | many _ _ => exact ⟨by simp only [pdChecks, hcheck], out, by simp only [pdLoop, h1], by simpa using h2, h3⟩

/-- **to_pandas_eq** ("to_pandas returns columns equal to the field data under the same filters"; with the fix NC18b).
    For every frame, every valid non-empty column selection whose columns all have `N` rows, and EVERY row filter the validator
    of `to_csv` accepts (`hflt` is the very hypothesis of `to_csv_rows`: a boolean Field, a boolean or integer array — of any
    length — or, for `to_pandas`, a Python list): `to_pandas` ends normally; its columns are the distinct selected names in
    order of first occurrence; each is `[x_i | i < N, keep flt i]` of the frame's column of that name, where `keep flt` is the
    row selection of `exportRows`, the rows `to_csv` writes (`to_csv_rows`). -/
theorem to_pandas_eq (f : Frame) (pf : PdFilter) (cf : ColFilter) (sel : List Export.Cell) (flt : Option (List Bool)) (N : Nat)
    (hsel : Selects f cf sel) (hne : sel ≠ []) (hlen : ∀ c ∈ f, c.name ∈ sel → c.data.length = N)
    (hflt : validateRowFilter pf.toRowFilter = .ok flt) :
    ∃ cols, toPandas .repaired f pf cf = .ok cols ∧ cols.map (·.1) = firstOccurrences [] sel ∧
      ∀ p ∈ cols, ∃ c, f.get? p.1 = some c ∧ c ∈ f ∧ c.name = p.1 ∧ p.2 = filterCol c.data flt := by
  obtain ⟨hchk, cols, hloop, hnames, hgood⟩ := to_pandas_core f cf sel flt N (fun data => .ok (pdApply flt data)) hsel hne hlen
    (fun data _ => by rw [pdApply_eq_filterCol])
  exact ⟨cols, by simp only [toPandas, hchk, hflt, hloop], hnames, hgood⟩

/-- non-vacuity: a Field shorter than the frame, an integer array longer than the frame, a list, a duplicated selection -/
example :=
  to_pandas_eq [⟨['s'], [['a'], ['b'], ['c']]⟩, ⟨['n'], [['1'], ['2'], ['3']]⟩] (.field true [false, true])
    (.many [['n'], ['s'], ['n']]) [['n'], ['s'], ['n']] (some [false, true]) 3
    (Selects.many _ (by decide) (by decide)) (by decide) (by decide) rfl

example :=
  to_pandas_eq [⟨['s'], [['a'], ['b'], ['c']]⟩, ⟨['n'], [['1'], ['2'], ['3']]⟩] (.intArray [1, 0, 2, 1, 1])
    .none [['s'], ['n']] (some [true, false, false, true, true]) 3 Selects.none (by decide) (by decide) rfl

example : toPandas .repaired [⟨['s'], [['a'], ['b'], ['c']]⟩, ⟨['n'], [['1'], ['2'], ['3']]⟩] (.field true [false, true])
    (.many [['n'], ['s'], ['n']]) = .ok [(['n'], [['2']]), (['s'], [['b']])] := by decide

example : toPandas .repaired [⟨['s'], [['a'], ['b'], ['c']]⟩] (.intArray [1, 0, 2, 1, 1]) .none = .ok [(['s'], [['a']])] ∧
    toPandas .repaired [⟨['s'], [['a'], ['b'], ['c']]⟩] (.field false [true]) .none
      = .error (.valueError "'row_filter' must be boolean field") := by decide

/-- **to_pandas_agrees_with_to_csv**: `to_pandas` and `to_csv` called with the SAME `row_filter` object and the same list of
    distinct column names (not containing the filter's own column, which only `to_csv` drops) select the same rows: writing the
    rows of the returned pandas frame — all of them, `exportRows … none` — under the header gives exactly the file `to_csv`
    writes, for every `writerow` and every `chunk_row_size ≥ 1`. -/
theorem to_pandas_agrees_with_to_csv (writerow : List Export.Cell → List Char) (f : Frame) (rf : RowFilter)
    (names : List Export.Cell) (crs : Int) (flt : Option (List Bool)) (N : Nat)
    (hcrs : 0 < crs) (hne : names ≠ []) (hnd : names.Nodup) (hsub : ∀ n ∈ names, n ∈ f.keys)
    (hlen : ∀ c ∈ f, c.name ∈ names → c.data.length = N)
    (hflt : validateRowFilter rf = .ok flt) (hown : dropFilterColumn rf names = names) :
    ∃ cols, toPandas .repaired f (.ofCsv rf) (.many names) = .ok cols ∧ cols.map (·.1) = names ∧
      toCsv writerow f rf (.many names) crs =
        .ok (writerow names ++ (exportRows (cols.map (·.2)) Option.none).flatMap writerow) := by
  have hsel : Selects f (.many names) names := Selects.many _ hne hsub
  obtain ⟨cols, hpd, hnames, hgood⟩ := to_pandas_eq f (.ofCsv rf) (.many names) names flt N hsel hne hlen
    (by rw [validate_ofCsv]; exact hflt)
  rw [firstOccurrences_nodup names [] hnd (by simp), List.nil_append] at hnames
  obtain ⟨fields, hget, hfn, hmem, hcsv⟩ := to_csv_rows writerow f rf (.many names) crs names flt hcrs hsel hflt
    (by rw [hown]; exact hne)
  rw [hown] at hget hfn hcsv
  refine ⟨cols, hpd, hnames, ?_⟩
  rw [hcsv, goodCols_eq f flt names cols fields hnames (getAll_get? f names fields hget) hgood]
  have hmap : fields.map (fun c => filterCol c.data flt) = (fields.map (·.data)).map (fun c => filterCol c flt) := by
    simp [List.map_map]
  rw [hmap, exportRows_filterCol (fields.map (·.data)) flt N]
  · intro h
    have : fields = [] := by simpa using h
    rw [this] at hfn
    exact hne hfn.symm
  · intro d hd
    obtain ⟨c, hc, rfl⟩ := List.mem_map.mp hd
    refine hlen c (hmem c hc) ?_
    rw [← hfn]
    exact List.mem_map.mpr ⟨c, hc, rfl⟩

/-- non-vacuity: a memory Field one entry short, an unordered selection, chunk size 2 -/
example :=
  to_pandas_agrees_with_to_csv renderRow [⟨['s'], [['a'], ['b', ','], ['c']]⟩, ⟨['n'], [['1'], ['2'], ['3']]⟩]
    (.field Option.none false true [false, true]) [['n'], ['s']] 2 (some [false, true]) 3
    (by decide) (by decide) (by decide) (by decide) (by decide) rfl rfl

example : toCsv renderRow [⟨['s'], [['a'], ['b', ','], ['c']]⟩, ⟨['n'], [['1'], ['2'], ['3']]⟩]
    (.field Option.none false true [false, true]) (.many [['n'], ['s']]) 2
      = .ok ['n', ',', 's', '\n', '2', ',', '"', 'b', ',', '"', '\n'] ∧
    toPandas .repaired [⟨['s'], [['a'], ['b', ','], ['c']]⟩, ⟨['n'], [['1'], ['2'], ['3']]⟩]
      (.ofCsv (.field Option.none false true [false, true])) (.many [['n'], ['s']])
      = .ok [(['n'], [['2']]), (['s'], [['b', ',']])] := by decide

/- The statement below was all that held before the fix NC18b (`Witness.C18.nc18b_to_pandas_refuses_csv_filters` is the as-found
   counterexample to the full one); it is kept, and now holds for BOTH variants of the model. The full statement is `to_pandas_eq`. -/
/-- **to_pandas_eq_partial**: for a valid, non-empty column selection whose columns all have `N` rows and a row filter that is absent or a
    boolean list / array of length `N`, `to_pandas` — as found or repaired — ends normally; its columns are the distinct selected
    names in order of first occurrence, and each column is `[x_i | i < N, filter i]` of the frame's column of that name. -/
theorem to_pandas_eq_partial (v : Variant) (f : Frame) (rf : PdFilter) (cf : ColFilter) (sel : List Export.Cell)
    (flt : Option (List Bool)) (N : Nat)
    (hsel : Selects f cf sel) (hne : sel ≠ []) (hlen : ∀ c ∈ f, c.name ∈ sel → c.data.length = N)
    (hflt : PdFilterOk N rf flt) :
    ∃ cols, toPandas v f rf cf = .ok cols ∧ cols.map (·.1) = firstOccurrences [] sel ∧
      ∀ p ∈ cols, ∃ c ∈ f, c.name = p.1 ∧ p.2 = filterCol c.data flt := by
  cases v with
  | repaired =>
    obtain ⟨cols, h1, h2, h3⟩ := to_pandas_eq f rf cf sel flt N hsel hne hlen (validate_of_pdFilterOk hflt)
    exact ⟨cols, h1, h2, fun p hp => by obtain ⟨c, _, hc, hn, he⟩ := h3 p hp; exact ⟨c, hc, hn, he⟩⟩
  | asFound =>
    obtain ⟨hchk, cols, hloop, hnames, hgood⟩ := to_pandas_core f cf sel flt N (pdApplyAsFound rf) hsel hne hlen
      (fun data hd => pdApplyAsFound_ok data rf flt (by rw [hd]; exact hflt))
    exact ⟨cols, by simp only [toPandas, hchk, hloop], hnames,
      fun p hp => by obtain ⟨c, _, hc, hn, he⟩ := hgood p hp; exact ⟨c, hc, hn, he⟩⟩

example :=
  to_pandas_eq_partial .asFound [⟨['s'], [['a'], ['b'], ['c']]⟩, ⟨['n'], [['1'], ['2'], ['3']]⟩] (.list [true, false, true])
    (.many [['n'], ['s'], ['n']]) [['n'], ['s'], ['n']] (some [true, false, true]) 3
    (Selects.many _ (by decide) (by decide)) (by decide) (by decide) (PdFilterOk.list _ rfl)

example : toPandas .asFound [⟨['s'], [['a'], ['b'], ['c']]⟩, ⟨['n'], [['1'], ['2'], ['3']]⟩] (.list [true, false, true])
    (.many [['n'], ['s'], ['n']]) = .ok [(['n'], [['1'], ['3']]), (['s'], [['a'], ['c']])] := by decide

end Exetera.Props.C18
