import Driver.Util
import Exetera.Model.Merge
open Lean Exetera Exetera.Merge
namespace Driver.C02

def cellOf : Json → Except String Cell
  | .bool b => pure (.bool b)
  | .str s => pure (.str s)
  | .num n => if n.exponent == 0 then pure (.int n.mantissa) else throw "non-integer cell"
  | _ => throw "bad cell"

def cellJson : Cell → Json
  | .int v => Json.num (JsonNumber.fromInt v)
  | .str s => Json.str s
  | .bool b => Json.bool b

def colOf (j : Json) : Except String Col :=
  match j.getObjVal? "ix" with
  | .ok ix => do
    let ix ← fromJson? (α := List Int) ix
    let vs ← Driver.get? (List Int) j "vs"
    pure (.indexed ix vs)
  | .error _ => do
    let e ← j.getObjVal? "e" >>= cellOf
    let v ← j.getObjVal? "v"
    let arr ← v.getArr?
    let cells ← arr.toList.mapM cellOf
    pure (.flat e cells)

def colJson : Col → Json
  | .flat _ vals => Json.mkObj [("v", Json.arr (vals.map cellJson).toArray)]
  | .indexed ix vs => Json.mkObj [("ix", Driver.ints ix), ("vs", Driver.ints vs)]

def frameOf (j : Json) : Except String Frame := do
  let arr ← j.getArr?
  arr.toList.mapM (fun e => do
    let pr ← e.getArr?
    match pr.toList with
    | [n, c] => do
      let n ← n.getStr?
      let c ← colOf c
      pure (n, c)
    | _ => throw "bad frame entry")

def frameJson (f : Frame) : Json :=
  Json.mkObj [("cols", Json.mkObj (f.map (fun e => (e.1, colJson e.2))))]

def optList (j : Json) (k : String) : Except String (Option (List String)) :=
  match j.getObjVal? k with
  | .error _ => pure none
  | .ok Json.null => pure none
  | .ok v => do let xs ← fromJson? (α := List String) v; pure (some xs)

def optBool : Json → Except String (Option Bool)
  | .null => pure none
  | .bool b => pure (some b)
  | _ => throw "bad hint"

def optNat : Json → Except String (Option Nat)
  | .null => pure none
  | j => do let n ← fromJson? (α := Nat) j; pure (some n)

/-- the value of the `pandas.merge` parameter on this case, supplied by the harness (it runs the real pandas call) -/
def pairsOf (j : Json) : Except String (Option Pairs) :=
  match j.getObjVal? "pairs" with
  | .error _ => pure none
  | .ok Json.null => pure none
  | .ok v => do
    let arr ← v.getArr?
    let ps ← arr.toList.mapM (fun e => do
      let pr ← e.getArr?
      match pr.toList with
      | [a, b] => do
        let a ← optNat a
        let b ← optNat b
        pure (a, b)
      | _ => throw "bad pair")
    pure (some ps)

def handle : Driver.Handler := fun op j =>
  match op with
  | "merge" => some do
    let how ← Driver.get? String j "how"
    let left ← j.getObjVal? "left" >>= frameOf
    let right ← j.getObjVal? "right" >>= frameOf
    let leftOn ← Driver.get? (List String) j "left_on"
    let rightOn ← Driver.get? (List String) j "right_on"
    let lt ← Driver.get? Bool j "left_tuple"
    let rt ← Driver.get? Bool j "right_tuple"
    let lf ← optList j "left_fields"
    let rf ← optList j "right_fields"
    let hints ← j.getObjVal? "hints" >>= (·.getArr?)
    let hs ← hints.toList.mapM optBool
    let lk ← Driver.get? (List Int) j "lk"
    let rk ← Driver.get? (List Int) j "rk"
    let cs ← Driver.get? Nat j "cs"
    let vf ← Driver.get? Nat j "vf"
    let pairs ← pairsOf j
    match hs with
    | [a, b, c, d] =>
      let inp : Input := { how := how, left := left, right := right, leftOn := leftOn, rightOn := rightOn,
                           leftTuple := lt, rightTuple := rt, leftFields := lf, rightFields := rf,
                           hintLO := a, hintLU := b, hintRO := c, hintRU := d, lk := lk, rk := rk }
      let pandas : String → List Int → List Int → Except Err Pairs := fun _ _ _ =>
        match pairs with
        | some ps => .ok ps
        | none => .error (.valueError "pandas.errors.MergeError (a ValueError)")
      let fuel := 4 * (lk.length + rk.length + lk.length * rk.length) + 8
      pure <| Driver.outE frameJson (merge pandas inp cs vf fuel)
    | _ => throw "hints must have four entries"
  | _ => none

end Driver.C02
