/-!
  What an export has to contain (C18): the selected columns, and of their rows exactly those the row filter keeps,
  in order. Core Lean only.
-/
namespace Exetera.Spec.Export

/-- row `i` of a list of columns -/
def rowAt {α} (cols : List (List α)) (i : Nat) : List α := cols.filterMap (·[i]?)

/-- number of complete rows: the length of the shortest column (0 without columns) -/
def nRows {α} : List (List α) → Nat
  | [] => 0
  | [c] => c.length
  | c :: cs => min c.length (nRows cs)

/-- a row is kept iff there is no filter, or the filter has an entry for it and that entry is `True`
    (a filter shorter than the frame drops the rows beyond its end) -/
def keep (flt : Option (List Bool)) (i : Nat) : Bool :=
  match flt with
  | none => true
  | some xs => xs[i]? == some true

/-- the rows an export must write: `[row i | i < n, keep i]` -/
def exportRows {α} (cols : List (List α)) (flt : Option (List Bool)) : List (List α) :=
  ((List.range (nRows cols)).filter (keep flt)).map (rowAt cols)

/-- one exported column under a filter of the column's own length: `[x_i | flt_i]` (all of it without a filter) -/
def filterCol {α} (xs : List α) (flt : Option (List Bool)) : List α :=
  ((List.range xs.length).filter (keep flt)).filterMap (xs[·]?)

/-- the distinct names in order of first occurrence, continuing from the names `acc` already present
    (the keys of a Python dict filled by assignment in list order) -/
def firstOccurrences {α} [BEq α] : List α → List α → List α
  | acc, [] => acc
  | acc, n :: ns => if acc.contains n then firstOccurrences acc ns else firstOccurrences (acc ++ [n]) ns

end Exetera.Spec.Export
