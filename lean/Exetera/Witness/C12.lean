import Exetera.Model.LegacyMapFix
import Exetera.Lemmas.WhileFuel
/-!
  C12 witnesses.

  NC12a — `ordered_map_valid_stream_old` (the legacy column mapper behind the streamed form of `Session.ordered_merge_left/right`)
  spins when a map entry that is not the marker is `≥ len(data_field)`: `ordered_map_valid_partial_old` returns `(0, val)`
  ("need a new data chunk") and there is no further chunk, so the driver calls it again with the same views, forever.
  Witness: data `[10, 20, 30]`, map `[0, 7]`, marker `-1`, chunk size 2 (reproduced on the real code: 7.7 million kernel calls in
  20 s, `[10]` written). With the repair the same call ends in a `ValueError`.
-/
namespace Exetera.Witness.C12
open Exetera Exetera.JoinOld

/-- the driver's state after its first iteration on the witness -/
def nc12aState : MO Int :=
  { m := 1, dcur := 2, dlo := 0, dhi := 2, mcur := 2, mhi := 2, dfc := [10, 20], mfc := [7], out := [10] }

/-- as found: that state is a fixpoint of the loop body with the guard true — no fuel suffices (the code spins) -/
theorem nc12a_legacy_map_stream_spins :
    mapOldBody [10, 20, 30] [0, 7] (-1) 2 (0 : Int) nc12aState = .ok nc12aState ∧
    (∀ fuel, whileE (fun s : MO Int => decide (s.m < [0, (7 : Int)].length)) (mapOldBody [10, 20, 30] [0, 7] (-1) 2 (0 : Int))
      fuel nc12aState = .error .outOfFuel) ∧
    mapValidStreamOld [10, 20, 30] [0, 7] (-1) 2 (0 : Int) = .error .outOfFuel := by
  have h : mapOldBody [10, 20, 30] [0, 7] (-1) 2 (0 : Int) nc12aState = .ok nc12aState := by rfl
  exact ⟨h, whileE_fixpoint _ _ _ (by rfl) h, by rfl⟩

/-- repaired: the clear error -/
theorem nc12a_repaired_clear_error :
    mapValidStreamOldR [10, 20, 30] [0, 7] (-1) 2 (0 : Int) = .error (.valueError "map entry is not a row of data_field") := by
  rfl

end Exetera.Witness.C12
