import Exetera.Lemmas.MapValidBasic
import Exetera.Lemmas.MapValidWindow
/-! Helper lemmas for C04, part 2: the non-indexed stream (`ordered_map_valid_partial`, the sub-chunk body, the map-chunk
    loop) against `Spec.mapSpec`. Core Lean only. -/
namespace Exetera.MapValid

open Exetera Exetera.Spec

/-! ### specification side -/

theorem mapSpec_of_pointwise {α} (src : List α) (inv : Int) (empty : α) :
    ∀ (l : List Int) (out : List α), out.length = l.length →
      (∀ (p : Nat) (k : Int), l[p]? = some k → ∃ v, lookup src inv empty k = some v ∧ out[p]? = some v) →
      mapSpec src inv empty l = some out := by
  intro l
  induction l with
  | nil =>
    intro out hlen _
    have : out = [] := List.length_eq_zero_iff.mp (by simpa using hlen)
    subst this; rfl
  | cons k ks ih =>
    intro out hlen hp
    cases out with
    | nil => simp at hlen
    | cons v vs =>
      obtain ⟨v', hv1, hv2⟩ := hp 0 k (by simp)
      have hvv : v' = v := by simpa using hv2.symm
      subst hvv
      have htail := ih vs (by simpa using hlen) (fun p k' hk' => by
        have := hp (p + 1) k' (by simpa using hk')
        simpa using this)
      simp only [mapSpec, hv1, htail]

theorem mapSpec_append {α} (src : List α) (inv : Int) (empty : α) :
    ∀ (a b : List Int) (x y : List α), mapSpec src inv empty a = some x → mapSpec src inv empty b = some y →
      mapSpec src inv empty (a ++ b) = some (x ++ y) := by
  intro a
  induction a with
  | nil =>
    intro b x y ha hb
    simp only [mapSpec] at ha
    cases ha
    simpa using hb
  | cons k ks ih =>
    intro b x y ha hb
    simp only [mapSpec] at ha
    cases h1 : lookup src inv empty k with
    | none => simp [h1] at ha
    | some v =>
      cases h2 : mapSpec src inv empty ks with
      | none => simp [h1, h2] at ha
      | some vs =>
        simp only [h1, h2] at ha
        cases ha
        have := ih b vs y h2 hb
        simp only [List.cons_append, mapSpec, h1, this]

theorem mapSpec_length {α} (src : List α) (inv : Int) (empty : α) :
    ∀ (l : List Int) (out : List α), mapSpec src inv empty l = some out → out.length = l.length := by
  intro l
  induction l with
  | nil => intro out h; simp only [mapSpec] at h; cases h; rfl
  | cons k ks ih =>
    intro out h
    simp only [mapSpec] at h
    cases h1 : lookup src inv empty k with
    | none => simp [h1] at h
    | some v =>
      cases h2 : mapSpec src inv empty ks with
      | none => simp [h1, h2] at h
      | some vs =>
        simp only [h1, h2] at h
        cases h
        simp [ih vs h2]

/-- row `r` of the specified column -/
theorem mapSpec_getElem? {α} (src : List α) (inv : Int) (empty : α) :
    ∀ (l : List Int) (out : List α), mapSpec src inv empty l = some out →
      ∀ (r : Nat) (k : Int), l[r]? = some k → out[r]? = lookup src inv empty k := by
  intro l
  induction l with
  | nil => intro out _ r k hk; simp at hk
  | cons k0 ks ih =>
    intro out h r k hk
    simp only [mapSpec] at h
    cases h1 : lookup src inv empty k0 with
    | none => simp [h1] at h
    | some v =>
      cases h2 : mapSpec src inv empty ks with
      | none => simp [h1, h2] at h
      | some vs =>
        simp only [h1, h2] at h
        cases h
        cases r with
        | zero => simp at hk; subst hk; simp [h1]
        | succ r => simp at hk ⊢; exact ih vs h2 r k hk

/-! ### Python indexing helpers -/

theorem slice_getElem? {α} (xs : List α) (a b j : Nat) :
    (slice xs a b)[j]? = if j < b - a then xs[a + j]? else none := by
  simp only [slice, List.getElem?_take, List.getElem?_drop]

theorem getI_nonneg {α} (xs : List α) (i : Int) (site : String) (v : α) (h0 : 0 ≤ i) (hv : xs[i.toNat]? = some v) :
    getI xs i site = .ok v := by
  simp only [getI, h0, if_true, getE, hv]

theorem normIdx_nonneg (len : Nat) (i : Int) (h : 0 ≤ i) : normIdx len i = min i.toNat len := by
  simp [normIdx, h]

/-- reading position `k - f` of the window `src[f : l+1]` gives `src[k]` -/
theorem getI_window {α} (src : List α) (f l k : Int) (site : String) (hf : 0 ≤ f) (hfk : f ≤ k) (hkl : k ≤ l)
    (hl : l < src.length) :
    ∃ v, src[k.toNat]? = some v ∧ getI (pySlice src f (l + 1)) (k - f) site = .ok v := by
  have hk : k.toNat < src.length := by omega
  refine ⟨src[k.toNat], List.getElem?_eq_getElem hk, ?_⟩
  apply getI_nonneg _ _ _ _ (by omega)
  simp only [pySlice, normIdx_nonneg _ _ hf, normIdx_nonneg _ _ (show 0 ≤ l + 1 by omega), slice_getElem?]
  have h1 : min f.toNat src.length = f.toNat := by omega
  have h2 : min (l + 1).toNat src.length = (l + 1).toNat := by omega
  rw [h1, h2]
  have h3 : (k - f).toNat < (l + 1).toNat - f.toNat := by omega
  simp only [h3, if_true]
  have h4 : f.toNat + (k - f).toNat = k.toNat := by omega
  rw [h4]
  exact List.getElem?_eq_getElem hk

theorem setE_ok {α} (xs : List α) (i : Nat) (v : α) (site : String) (h : i < xs.length) :
    setE xs i v site = .ok (xs.set i v) := by
  simp [setE, h]

/-! ### `ordered_map_valid_partial` -/

/-- the partial kernel writes exactly positions `[s, e)` of the buffer, each with the specified row, provided every
    valid entry of the sub-chunk lies in the source window `[f, l]` -/
theorem partial_spec {α} (src : List α) (m : List Int) (inv : Int) (empty : α) (f l : Int) (s e : Nat) (buf : List α)
    (hse : s ≤ e) (he : e ≤ m.length) (hb : e ≤ buf.length) (hf : 0 ≤ f) (hl : l < src.length)
    (hwin : ∀ p k, s ≤ p → p < e → m[p]? = some k → k ≠ inv → f ≤ k ∧ k ≤ l) :
    ∃ buf', orderedMapValidPartial (pySlice src f (l + 1)) m s e f buf inv empty = .ok buf' ∧
      buf'.length = buf.length ∧
      (∀ q, q < s ∨ e ≤ q → buf'[q]? = buf[q]?) ∧
      (∀ p k, s ≤ p → p < e → m[p]? = some k → ∃ v, lookup src inv empty k = some v ∧ buf'[p]? = some v) := by
  have h := forE_rule (mapPartialStep (pySlice src f (l + 1)) m f inv empty)
    (fun i b => b.length = buf.length ∧ (∀ q, q < s ∨ i ≤ q → b[q]? = buf[q]?) ∧
      (∀ p k, s ≤ p → p < i → m[p]? = some k → ∃ v, lookup src inv empty k = some v ∧ b[p]? = some v))
    (e - s) s buf ⟨rfl, fun _ _ => rfl, fun p k h1 h2 => by omega⟩
    (by
      intro i b hi1 hi2 ⟨hlen, hout, hin⟩
      have hie : i < e := by omega
      have him : i < m.length := by omega
      have hget : m[i]? = some m[i] := List.getElem?_eq_getElem him
      have hib : i < b.length := by omega
      by_cases hk : m[i] = inv
      · refine ⟨b.set i empty, ?_, by simpa using hlen, ?_, ?_⟩
        · simp only [mapPartialStep, hget, hk, beq_self_eq_true, if_true]
          exact setE_ok _ _ _ _ hib
        · intro q hq
          have hqi : i ≠ q := by omega
          rw [List.getElem?_set_ne hqi]
          exact hout q (by omega)
        · intro p k hp1 hp2 hpk
          by_cases hpi : p = i
          · subst hpi
            rw [hget] at hpk
            have : k = inv := by rw [← hk]; exact (Option.some.inj hpk).symm
            subst this
            refine ⟨empty, by simp [lookup], ?_⟩
            simp [List.getElem?_set_self hib]
          · obtain ⟨v, hv1, hv2⟩ := hin p k hp1 (by omega) hpk
            refine ⟨v, hv1, ?_⟩
            rw [List.getElem?_set_ne (by omega)]
            exact hv2
      · obtain ⟨hfk, hkl⟩ := hwin i m[i] hi1 hie hget hk
        obtain ⟨v, hv1, hv2⟩ := getI_window src f l m[i] "values[map_values[sm]-d_start]" hf hfk hkl hl
        refine ⟨b.set i v, ?_, by simpa using hlen, ?_, ?_⟩
        · have hne : (m[i] == inv) = false := by simpa using hk
          simp only [mapPartialStep, hget, hne, hv2]
          exact setE_ok _ _ _ _ hib
        · intro q hq
          have hqi : i ≠ q := by omega
          rw [List.getElem?_set_ne hqi]
          exact hout q (by omega)
        · intro p k hp1 hp2 hpk
          by_cases hpi : p = i
          · subst hpi
            rw [hget] at hpk
            have hkk : m[p] = k := Option.some.inj hpk
            subst hkk
            refine ⟨v, ?_, by simp [List.getElem?_set_self hib]⟩
            have h0 : 0 ≤ m[p] := by omega
            simp [lookup, hk, h0, hv1]
          · obtain ⟨v', hv1', hv2'⟩ := hin p k hp1 (by omega) hpk
            refine ⟨v', hv1', ?_⟩
            rw [List.getElem?_set_ne (by omega)]
            exact hv2')
  obtain ⟨buf', hrun, hlen, hout, hin⟩ := h
  have hes : s + (e - s) = e := by omega
  rw [hes] at hout hin
  exact ⟨buf', hrun, hlen, hout, hin⟩

/-! ### one sub-chunk of the map -/

theorem fillRange_getElem? {α} (buf : List α) (s e : Nat) (v : α) (q : Nat) :
    (fillRange buf s e v)[q]? = (buf[q]?).map (fun x => if s ≤ q ∧ q < e then v else x) := by
  simp [fillRange, List.getElem?_mapIdx]

/-- what one sub-chunk `[s, e)` of a map chunk does to the result buffer -/
def SubPost {α} (src : List α) (map_ : List Int) (inv : Int) (empty : α) (s e : Nat) (buf buf' : List α) : Prop :=
  buf'.length = buf.length ∧
  (∀ q, q < s ∨ e ≤ q → buf'[q]? = buf[q]?) ∧
  (∀ (p : Nat) (k : Int), s ≤ p → p < e → map_[p]? = some k → ∃ v, lookup src inv empty k = some v ∧ buf'[p]? = some v)

theorem subBody_spec {α} (src : List α) (map_ : List Int) (inv : Int) (empty : α) (s e : Nat) (buf : List α)
    (hse : s < e) (he : e ≤ map_.length) (hb : e ≤ buf.length)
    (hr : InRange src.length map_ inv) (hm : MonoOn map_ inv s e) :
    ∃ buf', subBody src map_ inv empty (s, e) buf = .ok buf' ∧ SubPost src map_ inv empty s e buf buf' := by
  obtain ⟨d, hd, hcase⟩ := extents_spec map_ s e inv hse he
  rcases hcase with ⟨hinv, hall⟩ | ⟨hne, hne2, p0, p1, hp0, hp01, hp1, hm0, hm1, hbetween⟩
  · -- every entry is the marker: the slice is cleared
    refine ⟨fillRange buf s e empty, ?_, by simp [fillRange], ?_, ?_⟩
    · simp only [subBody, hd, hinv, beq_self_eq_true, if_true]
    · intro q hq
      rw [fillRange_getElem?]
      have : ¬ (s ≤ q ∧ q < e) := by omega
      simp [this]
    · intro p k hp1 hp2 hpk
      have hk : k = inv := by
        have := hall p hp1 hp2
        rw [hpk] at this
        exact Option.some.inj this
      subst hk
      refine ⟨empty, by simp [lookup], ?_⟩
      rw [fillRange_getElem?]
      have hpb : p < buf.length := by omega
      simp [List.getElem?_eq_getElem hpb, hp1, hp2]
  · have hne' : (d.1 == inv) = false := by simpa using hne
    have hr0 := hr p0 d.1 hm0 hne
    have hr1 := hr p1 d.2 hm1 hne2
    obtain ⟨buf', hrun, hlen, hout, hin⟩ := partial_spec src map_ inv empty d.1 d.2 s e buf (by omega) he hb hr0.1 hr1.2
      (by
        intro p k hp1' hp2' hpk hkinv
        obtain ⟨hb1, hb2⟩ := hbetween p k hp1' hp2' hpk hkinv
        exact ⟨hm p0 p d.1 k hp0 hb1 hp2' hm0 hpk hne hkinv, hm p p1 k d.2 hp1' hb2 hp1 hpk hm1 hkinv hne2⟩)
    refine ⟨buf', ?_, hlen, hout, hin⟩
    simp only [subBody, hd, hne']
    exact hrun

/-! ### one map chunk and the whole stream -/

theorem inRange_slice {n : Nat} {m : List Int} {inv : Int} (h : InRange n m inv) (a b : Nat) :
    InRange n (slice m a b) inv := by
  intro i k hik hk
  rw [slice_getElem?] at hik
  split at hik
  · exact h _ k hik hk
  · simp at hik

theorem validMonotone_slice {m : List Int} {inv : Int} (h : ValidMonotone m inv) (a b : Nat) :
    ValidMonotone (slice m a b) inv := by
  intro i j x y hij hi hj hx hy
  rw [slice_getElem?] at hi hj
  split at hi
  · split at hj
    · exact h (a + i) (a + j) x y (by omega) hi hj hx hy
    · simp at hj
  · simp at hi

/-- all sub-chunks of one map chunk: every position of the chunk holds the specified row afterwards — for any in-range
    map (the splitter makes every sub-chunk non-decreasing) -/
theorem chunk_fold_spec {α} (src : List α) (map_ : List Int) (inv : Int) (cs : Nat) (empty : α) (buf : List α)
    (hcs : 1 ≤ cs) (hb : map_.length ≤ buf.length)
    (hr : InRange src.length map_ inv) :
    ∃ subs buf', subchunks map_ inv cs = .ok subs ∧ foldE (subBody src map_ inv empty) subs buf = .ok buf' ∧
      buf'.length = buf.length ∧
      (∀ (p : Nat) (k : Int), map_[p]? = some k → ∃ v, lookup src inv empty k = some v ∧ buf'[p]? = some v) := by
  obtain ⟨subs, hsubs, htiles, hmono⟩ := subchunks_mono map_ inv cs hcs
  have h := foldE_tiles_mem (subBody src map_ inv empty)
    (fun x b => b.length = buf.length ∧
      (∀ (p : Nat) (k : Int), p < x → map_[p]? = some k → ∃ v, lookup src inv empty k = some v ∧ b[p]? = some v))
    map_.length subs 0 buf htiles ⟨rfl, fun p k hp => by omega⟩
    (by
      intro x y b hmem _ hxy hy ⟨hlen, hdone⟩
      obtain ⟨b', hrun, hlen', hout, hin⟩ := subBody_spec src map_ inv empty x y b hxy hy (by omega) hr (hmono (x, y) hmem)
      refine ⟨b', hrun, by omega, ?_⟩
      intro p k hp hpk
      by_cases hpx : p < x
      · obtain ⟨v, hv1, hv2⟩ := hdone p k hpx hpk
        exact ⟨v, hv1, by rw [hout p (Or.inl hpx)]; exact hv2⟩
      · exact hin p k (by omega) hp hpk)
  obtain ⟨buf', hrun, hlen, hdone⟩ := h
  refine ⟨subs, buf', hsubs, hrun, hlen, ?_⟩
  intro p k hpk
  exact hdone p k (List.getElem?_eq_some_iff.mp hpk).1 hpk

theorem take_append_slice {α} (xs : List α) (a b : Nat) (hab : a ≤ b) : xs.take b = xs.take a ++ slice xs a b := by
  have : b = a + (b - a) := by omega
  rw [slice]
  conv => lhs; rw [this]
  rw [List.take_add]

/-- invariant of the map-chunk loop -/
def ChunkInv {α} (src : List α) (m : List Int) (inv : Int) (cs : Nat) (empty : α) (s : St α) : Prop :=
  s.lo ≤ m.length ∧ s.hi = min (s.lo + cs) m.length ∧ s.buf.length = cs ∧
  mapSpec src inv empty (m.take s.lo) = some s.out

theorem nextChunk_eq (cur len d : Nat) : Join.nextChunk cur len d = (cur, min (cur + d) len) := by
  unfold Join.nextChunk
  split
  · have : min (cur + d) len = cur + d := by omega
    rw [this]
  · have : min (cur + d) len = len := by omega
    rw [this]

theorem chunkBody_spec {α} (src : List α) (m : List Int) (inv : Int) (cs : Nat) (empty : α) (s : St α)
    (hcs : 1 ≤ cs) (hr : InRange src.length m inv)
    (hI : ChunkInv src m inv cs empty s) (hg : s.lo < m.length) :
    ∃ s', chunkBody src m inv cs empty s = .ok s' ∧ ChunkInv src m inv cs empty s' ∧
      m.length - s'.lo < m.length - s.lo := by
  obtain ⟨hlo, hhi, hbuf, hout⟩ := hI
  have hlen : (slice m s.lo s.hi).length = s.hi - s.lo := by
    simp only [slice_length]; omega
  obtain ⟨subs, buf', hsubs, hfold, hlen', hrows⟩ :=
    chunk_fold_spec src (slice m s.lo s.hi) inv cs empty s.buf hcs (by rw [hlen]; omega) (inRange_slice hr _ _)
  refine ⟨⟨s.hi, min (s.hi + cs) m.length, buf', s.out ++ buf'.take (s.hi - s.lo)⟩, ?_, ?_, ?_⟩
  · simp only [chunkBody, hsubs, hfold, nextChunk_eq]
  · refine ⟨by simp only []; omega, rfl, by simp only []; omega, ?_⟩
    simp only []
    rw [take_append_slice m s.lo s.hi (by omega)]
    apply mapSpec_append _ _ _ _ _ _ _ hout
    apply mapSpec_of_pointwise
    · simp only [List.length_take, hlen]; omega
    · intro p k hpk
      obtain ⟨v, hv1, hv2⟩ := hrows p k hpk
      refine ⟨v, hv1, ?_⟩
      have hp : p < s.hi - s.lo := by
        have := (List.getElem?_eq_some_iff.mp hpk).1
        omega
      rw [List.getElem?_take]
      simp [hp, hv2]
  · simp only []; omega

/-- `ordered_map_valid_stream` = `mapSpec`, for every chunk size ≥ 1, every marker and EVERY in-range map — ordered or
    not (NC02a: the map of the non-driving side of a join with duplicate keys on both sides is not ordered) -/
theorem stream_spec_any {α} (src : List α) (m : List Int) (inv : Int) (cs : Nat) (empty : α)
    (hcs : 1 ≤ cs) (hr : InRange src.length m inv) :
    ∃ out, orderedMapValidStream src m inv cs empty = .ok out ∧ mapSpec src inv empty m = some out := by
  have h := whileE_rule (fun s : St α => decide (s.lo < m.length)) (chunkBody src m inv cs empty)
    (ChunkInv src m inv cs empty) (fun s => m.length - s.lo)
    (by
      intro s hI hg
      have hg' : s.lo < m.length := by simpa using hg
      exact chunkBody_spec src m inv cs empty s hcs hr hI hg')
    m.length ⟨0, min (0 + cs) m.length, List.replicate cs empty, []⟩
    ⟨by simp, rfl, by simp, by simp [mapSpec]⟩ (by simp)
  obtain ⟨s', hrun, ⟨hlo, _, _, hout⟩, hg⟩ := h
  have hge : m.length ≤ s'.lo := by simpa using hg
  have heq : s'.lo = m.length := by omega
  refine ⟨s'.out, ?_, ?_⟩
  · simp only [orderedMapValidStream, nextChunk_eq, hrun]
  · rw [heq, List.take_length] at hout
    exact hout

/-- the ordered-map form (kept for its users; the ordering hypothesis is no longer needed) -/
theorem stream_spec {α} (src : List α) (m : List Int) (inv : Int) (cs : Nat) (empty : α)
    (hcs : 1 ≤ cs) (hr : InRange src.length m inv) (_hm : ValidMonotone m inv) :
    ∃ out, orderedMapValidStream src m inv cs empty = .ok out ∧ mapSpec src inv empty m = some out :=
  stream_spec_any src m inv cs empty hcs hr

end Exetera.MapValid
