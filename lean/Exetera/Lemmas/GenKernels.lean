import Exetera.Model.PyRt
import Exetera.Model.Spans
/-!
  Proof toolkit for the TRANSLATED kernels (`Gen/Kernels.lean`): the refinement relation `Sim` between a generated
  kernel and its hand-written model, facts about the runtime prelude (`Model/PyRt.lean`), and the simulation rule that
  relates a translated `for i in range(len(spans) - 1)` loop to the hand model's `forPairs` recursion.
-/
namespace Exetera.GenK

open Exetera Exetera.PyRt Exetera.Spans

/-- same result, and in the error case the same error class (the two sides name their subscript sites differently) -/
def Sim {α} (a b : Except Err α) : Prop :=
  match a, b with
  | .ok x, .ok y => x = y
  | .error e, .error e' => e.tag = e'.tag
  | _, _ => False

theorem Sim.rfl' {α} (a : Except Err α) : Sim a a := by
  cases a <;> simp [Sim]

theorem Sim.of_eq {α} {a b : Except Err α} (h : a = b) : Sim a b := h ▸ Sim.rfl' a

theorem Sim.ok_right {α} {a b : Except Err α} {r : α} (h : Sim a b) (hb : b = .ok r) : a = .ok r := by
  subst hb
  cases a <;> simp_all [Sim]

theorem Sim.ok_left {α} {a b : Except Err α} {r : α} (h : Sim a b) (ha : a = .ok r) : b = .ok r := by
  subst ha
  cases b <;> simp_all [Sim]

theorem Sim.ok_iff {α} {a b : Except Err α} (h : Sim a b) (r : α) : a = .ok r ↔ b = .ok r :=
  ⟨h.ok_left, h.ok_right⟩

theorem Sim.error_right {α} {a b : Except Err α} {e : Err} (h : Sim a b) (hb : b = .error e) :
    ∃ e', a = .error e' ∧ e'.tag = e.tag := by
  subst hb
  cases a <;> simp_all [Sim]

/-- `Err.tag` of an out-of-bounds error does not depend on the site -/
@[simp] theorem oob_tag (s : String) : (Err.oob s).tag = "index_error" := rfl

/-! ### the runtime prelude on non-negative data -/

theorem idxE_nat {α} (xs : List α) (i : Nat) (site : String) : idxE xs (i : Int) site = getE xs i site := by
  simp [idxE]

theorem setIdxE_nat {α} (xs : List α) (i : Nat) (v : α) (site : String) : setIdxE xs (i : Int) v site = setE xs i v site := by
  simp [setIdxE]

theorem getE_map_ofNat (sp : List Nat) (i : Nat) (site : String) {x : Nat} (h : sp[i]? = some x) :
    getE (sp.map Int.ofNat) i site = .ok (x : Int) := by
  simp [getE, List.getElem?_map, h]

theorem npZeros_nat (n : Nat) : npZeros (n : Int) = .ok (List.replicate n 0) := by
  simp [npZeros]

theorem npZeros_neg {n : Int} (h : n < 0) : npZeros n = .error (.valueError "negative dimensions are not allowed") := by
  simp [npZeros, h]

/-- `dest[:] = r` with matching lengths -/
theorem setSliceE_all {α} (dest r : List α) (h : r.length = dest.length) : setSliceE dest none none r = .ok r := by
  simp [setSliceE, normBound, broadcastTo, h]

/-- `xs[:-1]` -/
theorem pySlice_dropLast {α} (xs : List α) : pySlice xs none (some (-1)) = xs.dropLast := by
  simp only [pySlice, normBound, slice]
  have h1 : ((-1 : Int) < 0) := by omega
  simp only [h1, if_true, List.drop_zero, Nat.sub_zero]
  have : ((-1 : Int) + (xs.length : Int)).toNat = xs.length - 1 := by omega
  rw [this, List.dropLast_eq_take]

/-- `xs[1:]` -/
theorem pySlice_tail {α} (xs : List α) : pySlice xs (some 1) none = xs.tail := by
  simp only [pySlice, normBound, slice]
  have h1 : ¬ ((1 : Int) < 0) := by omega
  simp only [h1, if_false]
  cases xs with
  | nil => simp
  | cons a t =>
    have : min (1 : Int).toNat (a :: t).length = 1 := by simp
    rw [this]
    simp

/-! ### `for i in range(len(spans) - 1)` against `forPairs` -/

/-- Simulation of a translated span loop by the hand model's recursion.
    `R dest s` says what of the state matters (the arrays the loop reads, and `dest` being the destination buffer);
    `hstep` is the one-iteration lemma: iteration `k` computes `f spans[k] spans[k+1]`, stores it at `dest[k]`, and fails
    with the same error class exactly when `f` fails. -/
theorem forRange_forPairs {σ} (sp : List Nat) (R : List Int → σ → Prop) (body : Int → σ → Except Err σ)
    (f : Nat → Nat → Except Err Int)
    (hstep : ∀ (k cur next : Nat) (dest : List Int) (s : σ), sp[k]? = some cur → sp[k + 1]? = some next → R dest s →
      k < dest.length →
      match f cur next with
      | .ok v => ∃ s', body (k : Int) s = .ok s' ∧ R (dest.set k v) s'
      | .error e => ∃ e', body (k : Int) s = .error e' ∧ e'.tag = e.tag) :
    ∀ (n k : Nat) (dest : List Int) (s : σ), k + n + 1 = sp.length → dest.length = k + n → R dest s →
      match forPairs f (sp.drop k) with
      | .ok vs => ∃ s', forRangeAux (fun _ => false) body n (k : Int) s = .ok s' ∧ R (dest.take k ++ vs) s'
      | .error e => ∃ e', forRangeAux (fun _ => false) body n (k : Int) s = .error e' ∧ e'.tag = e.tag := by
  intro n
  induction n with
  | zero =>
    intro k dest s hk hd hR
    have : sp.drop k = [sp[k]'(by omega)] := by
      rw [List.drop_eq_getElem_cons (by omega)]
      simp [List.drop_eq_nil_of_le (show sp.length ≤ k + 1 by omega)]
    rw [this]
    simp only [forPairs, forRangeAux]
    refine ⟨s, rfl, ?_⟩
    have : dest.take k = dest := List.take_of_length_le (by omega)
    simpa [this] using hR
  | succ n ih =>
    intro k dest s hk hd hR
    have hk0 : k < sp.length := by omega
    have hk1 : k + 1 < sp.length := by omega
    have hdrop : sp.drop k = sp[k] :: sp[k + 1] :: sp.drop (k + 2) := by
      rw [List.drop_eq_getElem_cons hk0, List.drop_eq_getElem_cons hk1]
    have hdrop1 : sp.drop (k + 1) = sp[k + 1] :: sp.drop (k + 2) := List.drop_eq_getElem_cons hk1
    have hs := hstep k sp[k] sp[k + 1] dest s (List.getElem?_eq_getElem hk0) (List.getElem?_eq_getElem hk1) hR (by omega)
    rw [hdrop]
    simp only [forPairs, forRangeAux]
    cases hf : f sp[k] sp[k + 1] with
    | error e =>
      rw [hf] at hs
      obtain ⟨e', hb, ht⟩ := hs
      simp only [hb]
      exact ⟨e', rfl, ht⟩
    | ok v =>
      rw [hf] at hs
      obtain ⟨s', hb, hR'⟩ := hs
      simp only [hb, Bool.false_eq_true, if_false]
      have hrec := ih (k + 1) (dest.set k v) s' (by omega) (by simp; omega) hR'
      rw [hdrop1] at hrec
      have hcast : ((k : Int) + 1) = ((k + 1 : Nat) : Int) := by omega
      rw [hcast]
      cases hp : forPairs f (sp[k + 1] :: sp.drop (k + 2)) with
      | error e =>
        rw [hp] at hrec
        simpa [consE] using hrec
      | ok vs =>
        rw [hp] at hrec
        obtain ⟨s'', hrun, hR''⟩ := hrec
        refine ⟨s'', hrun, ?_⟩
        have : (dest.set k v).take (k + 1) ++ vs = dest.take k ++ v :: vs := by
          rw [List.take_add_one]
          simp [show k < dest.length by omega, List.take_set_of_le]
        rw [← this]; exact hR''

/-- the whole loop `for i in range(len(spans) - 1)` on a fresh `np.zeros(len(spans) - 1)` buffer -/
theorem forRange_forPairs_run {σ} (sp : List Nat) (hne : sp ≠ []) (R : List Int → σ → Prop) (body : Int → σ → Except Err σ)
    (f : Nat → Nat → Except Err Int)
    (hstep : ∀ (k cur next : Nat) (dest : List Int) (s : σ), sp[k]? = some cur → sp[k + 1]? = some next → R dest s →
      k < dest.length →
      match f cur next with
      | .ok v => ∃ s', body (k : Int) s = .ok s' ∧ R (dest.set k v) s'
      | .error e => ∃ e', body (k : Int) s = .error e' ∧ e'.tag = e.tag)
    (s : σ) (dest : List Int) (hd : dest.length = sp.length - 1) (hR : R dest s) :
    match forPairs f sp with
    | .ok vs => ∃ s', forRangeE 0 ((sp.length : Int) - 1) body s = .ok s' ∧ R vs s'
    | .error e => ∃ e', forRangeE 0 ((sp.length : Int) - 1) body s = .error e' ∧ e'.tag = e.tag := by
  have hl : 0 < sp.length := List.length_pos_iff.mpr hne
  have h := forRange_forPairs sp R body f hstep (sp.length - 1) 0 dest s (by omega) (by omega) hR
  unfold forRangeE
  have hn : ((sp.length : Int) - 1 - 0).toNat = sp.length - 1 := by omega
  rw [hn]
  simpa using h

end Exetera.GenK
