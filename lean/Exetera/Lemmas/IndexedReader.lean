import Exetera.Model.IndexedWriter
import Exetera.Lemmas.Offsets
/-! The two indexed readers on a well-formed field (`indices = offsets xs`, `values = xs.flatten`). -/
namespace Exetera.IndexedWriter

open Exetera Exetera.Spec

theorem getElem?_slice {α} (l : List α) (a b k : Nat) :
    (slice l a b)[k]? = if k < b - a then l[a + k]? else none := by
  simp [slice, List.getElem?_take, List.getElem?_drop]

theorem slice_slice {α} (v : List α) (p q x y : Nat) (h1 : p ≤ x) (h2 : x ≤ y) (h3 : y ≤ q) :
    slice (slice v p q) (x - p) (y - p) = slice v x y := by
  simp only [slice, List.drop_take, List.drop_drop, List.take_take]
  congr 1
  · omega
  · congr 1; omega

/-- bytes before entry `i` -/
def off {β} (xs : List (List β)) (i : Nat) : Nat := (xs.take i).flatten.length

theorem off_mono {β} (xs : List (List β)) {i j : Nat} (h : i ≤ j) : off xs i ≤ off xs j :=
  take_flatten_length_mono xs h

theorem off_succ {β} (xs : List (List β)) (i : Nat) (h : i < xs.length) : off xs (i + 1) = off xs i + xs[i].length := by
  unfold off
  rw [List.take_add_one, List.getElem?_eq_getElem h, List.flatten_append, List.length_append]
  simp

/-- cutting the concatenation at two consecutive offsets gives the entry back -/
theorem slice_flatten_entry {β} (xs : List (List β)) (i : Nat) (h : i < xs.length) :
    slice xs.flatten (off xs i) (off xs (i + 1)) = xs[i] := by
  have hxs : xs = xs.take i ++ (xs[i] :: xs.drop (i + 1)) := by
    rw [← List.drop_eq_getElem_cons h, List.take_append_drop]
  have hsplit : xs.flatten = (xs.take i).flatten ++ (xs[i] ++ (xs.drop (i + 1)).flatten) := by
    calc xs.flatten = (xs.take i ++ (xs[i] :: xs.drop (i + 1))).flatten := by rw [← hxs]
      _ = _ := by rw [List.flatten_append, List.flatten_cons]
  rw [off_succ xs i h]
  unfold slice off
  rw [hsplit, List.drop_left' rfl]
  simp

theorem getE_offsets {β} (xs : List (List β)) (i : Nat) (site : String) (h : i ≤ xs.length) :
    getE (offsets xs) i site = .ok (off xs i) := by
  rw [getE_eq_ok, offsets_getElem? xs i h]; rfl

theorem getE_window {β} (xs : List (List β)) (a b k : Nat) (site : String) (hk : a + k ≤ b) (hb : b ≤ xs.length) :
    getE (slice (offsets xs) a (b + 1)) k site = .ok (off xs (a + k)) := by
  have hlt : k < b + 1 - a := by omega
  rw [getE_eq_ok, getElem?_slice, if_pos hlt, offsets_getElem? xs (a + k) (by omega)]; rfl

theorem cutFrom_wellformed (xs : List Bytes) (a b : Nat) (hb : b ≤ xs.length) :
    ∀ (k ir : Nat), a + ir + k ≤ b →
      cutFrom (slice (offsets xs) a (b + 1)) (slice xs.flatten (off xs a) (off xs b)) (off xs a) ir k
        = .ok ((xs.drop (a + ir)).take k) := by
  intro k
  induction k with
  | zero => intro ir _; simp [cutFrom]
  | succ k ih =>
    intro ir h
    have hi : a + ir < xs.length := by omega
    have e1 := getE_window xs a b ir "index[ir]" (by omega) hb
    have e2 := getE_window xs a b (ir + 1) "index[ir+1]" (by omega) hb
    have m1 : off xs a ≤ off xs (a + ir) := off_mono xs (by omega)
    have m2 : off xs (a + ir) ≤ off xs (a + (ir + 1)) := off_mono xs (by omega)
    have m3 : off xs (a + (ir + 1)) ≤ off xs b := off_mono xs (by omega)
    have hneg : (decide (off xs (a + ir) < off xs a) || decide (off xs (a + (ir + 1)) < off xs a)) = false := by
      simp; omega
    have hent : slice (slice xs.flatten (off xs a) (off xs b)) (off xs (a + ir) - off xs a)
        (off xs (a + (ir + 1)) - off xs a) = xs[a + ir] := by
      rw [slice_slice _ _ _ _ _ m1 m2 m3]
      exact slice_flatten_entry xs (a + ir) hi
    have hrec := ih (ir + 1) (by omega)
    simp only [cutFrom, e1, e2, hneg, Bool.false_eq_true, if_false, hrec, hent]
    rw [List.drop_eq_getElem_cons hi, List.take_succ_cons]
    rfl

theorem length_window {β} (xs : List (List β)) (a b : Nat) (hab : a ≤ b) (hb : b ≤ xs.length) :
    (slice (offsets xs) a (b + 1)).length = b + 1 - a := by
  simp [slice]; omega

/-- `data[a:b]` on a well-formed field, either reader -/
theorem getSlice_wellformed (writeable : Bool) (xs : List Bytes) (a b : Nat) (hab : a ≤ b) (hb : b ≤ xs.length) :
    getSlice writeable (offsets xs) xs.flatten a b = .ok ((pySlice xs a b).map some) := by
  have hlen := length_window xs a b hab hb
  have hne : (writeable && (slice (offsets xs) a (b + 1)).length == 0) = false := by
    simp [hlen]; omega
  have e0 := getE_window xs a b 0 "index[0]" (by omega) hb
  have eL : getE (slice (offsets xs) a (b + 1)) ((slice (offsets xs) a (b + 1)).length - 1) "index[-1]"
      = .ok (off xs b) := by
    rw [hlen]
    have := getE_window xs a b (b - a) "index[-1]" (by omega) hb
    have hba : a + (b - a) = b := by omega
    rw [hba] at this
    have h2 : b + 1 - a - 1 = b - a := by omega
    rw [h2]; exact this
  have eS := getE_offsets xs a "indices[start]" (by omega)
  have hrmax : (if writeable = true then min ((slice (offsets xs) a (b + 1)).length - 1) (b - a)
      else (slice (offsets xs) a (b + 1)).length - 1) = b - a := by
    rw [hlen]; split <;> omega
  have hcut := cutFrom_wellformed xs a b hb (b - a) 0 (by omega)
  simp only [Nat.add_zero] at hcut e0
  unfold getSlice
  simp only [hne, Bool.false_eq_true, if_false, e0, eL, eS, hrmax, hcut]
  have h0 : (slice (offsets xs) a (b + 1)).length - 1 - (b - a) = 0 := by rw [hlen]; omega
  rw [h0]
  simp [pySlice]

/-- `data[:]` on a well-formed field, either reader -/
theorem getAll_wellformed (writeable : Bool) (xs : List Bytes) :
    getAll writeable (offsets xs) xs.flatten = .ok (xs.map some) := by
  unfold getAll
  have h : ((offsets xs).length == 0) = false := by simp
  rw [h]
  simp only [Bool.false_eq_true, if_false, length_offsets, Nat.add_sub_cancel]
  rw [getSlice_wellformed writeable xs 0 xs.length (by omega) (by omega)]
  simp [pySlice]

/-- `data[i]` on a well-formed field -/
theorem getItem_wellformed (xs : List Bytes) (i : Nat) (h : i < xs.length) :
    getItem (offsets xs) xs.flatten i = .ok xs[i] := by
  unfold getItem
  have hge : ¬ ((i : Int) ≥ ((offsets xs).length : Int) - 1) := by simp; omega
  have hwin : slice (offsets xs) i (i + 2) = [off xs i, off xs (i + 1)] := by
    apply List.ext_getElem?
    intro k
    rw [getElem?_slice]
    match k with
    | 0 =>
      have h0 : 0 < i + 2 - i := by omega
      rw [if_pos h0, Nat.add_zero, offsets_getElem? xs i (by omega)]; rfl
    | 1 =>
      have h1 : 1 < i + 2 - i := by omega
      rw [if_pos h1, offsets_getElem? xs (i + 1) (by omega)]; rfl
    | k + 2 =>
      have h2 : ¬ (k + 2 < i + 2 - i) := by omega
      rw [if_neg h2]; simp
  simp only [hge, if_false, hwin]
  have hs := off_succ xs i h
  have hent := slice_flatten_entry xs i h
  by_cases heq : off xs i = off xs (i + 1)
  · have : xs[i].length = 0 := by omega
    have : xs[i] = [] := List.eq_nil_of_length_eq_zero this
    simp [heq, this]
  · have hb : (off xs i == off xs (i + 1)) = false := by simp [heq]
    simp only [hb, Bool.false_eq_true, if_false, hent]

end Exetera.IndexedWriter
