import Exetera.Spec.GroupBy
/-! `tupleLt` is a strict total order on key tuples. -/
namespace Exetera.Spec

@[simp] theorem tupleLt_cons (a b : Int) (as bs : List Int) :
    tupleLt (a :: as) (b :: bs) = (decide (a < b) || (a == b && tupleLt as bs)) := rfl

theorem tupleLt_irrefl : ∀ a : List Int, tupleLt a a = false
  | [] => rfl
  | a :: as => by simp [tupleLt_irrefl as]

theorem tupleLt_cons_iff (a b : Int) (as bs : List Int) :
    tupleLt (a :: as) (b :: bs) = true ↔ a < b ∨ (a = b ∧ tupleLt as bs = true) := by
  simp

theorem tupleLt_trans : ∀ {a b c : List Int}, tupleLt a b = true → tupleLt b c = true → tupleLt a c = true
  | [], [], _, h, _ => by simp [tupleLt] at h
  | [], _ :: _, [], _, h => by simp [tupleLt] at h
  | [], _ :: _, _ :: _, _, _ => rfl
  | _ :: _, [], _, h, _ => by simp [tupleLt] at h
  | _ :: _, _ :: _, [], _, h => by simp [tupleLt] at h
  | a :: as, b :: bs, c :: cs, h1, h2 => by
    rw [tupleLt_cons_iff] at h1 h2 ⊢
    rcases h1 with h1 | ⟨rfl, h1⟩
    · rcases h2 with h2 | ⟨rfl, _⟩
      · left; omega
      · left; exact h1
    · rcases h2 with h2 | ⟨rfl, h2⟩
      · left; exact h2
      · right; exact ⟨rfl, tupleLt_trans h1 h2⟩

theorem tupleLt_trichotomy : ∀ a b : List Int, tupleLt a b = true ∨ a = b ∨ tupleLt b a = true
  | [], [] => Or.inr (Or.inl rfl)
  | [], _ :: _ => Or.inl rfl
  | _ :: _, [] => Or.inr (Or.inr rfl)
  | a :: as, b :: bs => by
    simp only [tupleLt_cons_iff]
    rcases Int.lt_trichotomy a b with h | rfl | h
    · left; left; exact h
    · rcases tupleLt_trichotomy as bs with h | rfl | h
      · left; right; exact ⟨rfl, h⟩
      · right; left; rfl
      · right; right; right; exact ⟨rfl, h⟩
    · right; right; left; exact h

theorem tupleLt_asymm {a b : List Int} (h : tupleLt a b = true) : tupleLt b a = false := by
  cases h' : tupleLt b a with
  | false => rfl
  | true => have := tupleLt_trans h h'; rw [tupleLt_irrefl] at this; cases this

theorem tupleLt_ne {a b : List Int} (h : tupleLt a b = true) : a ≠ b := by
  rintro rfl; rw [tupleLt_irrefl] at h; cases h

/-- `a ≤ b` written as `¬ b < a` -/
theorem tupleLe_iff {a b : List Int} : tupleLt b a = false ↔ tupleLt a b = true ∨ a = b := by
  constructor
  · intro h
    rcases tupleLt_trichotomy a b with h' | h' | h'
    · exact Or.inl h'
    · exact Or.inr h'
    · rw [h] at h'; cases h'
  · rintro (h | rfl)
    · exact tupleLt_asymm h
    · exact tupleLt_irrefl a

theorem tupleLe_trans {a b c : List Int} (h1 : tupleLt b a = false) (h2 : tupleLt c b = false) : tupleLt c a = false := by
  rw [tupleLe_iff] at h1 h2 ⊢
  rcases h1 with h1 | rfl
  · rcases h2 with h2 | rfl
    · exact Or.inl (tupleLt_trans h1 h2)
    · exact Or.inl h1
  · exact h2

theorem tupleLt_of_le_of_ne {a b : List Int} (h : tupleLt b a = false) (hne : a ≠ b) : tupleLt a b = true := by
  rcases tupleLe_iff.1 h with h | h
  · exact h
  · exact absurd h hne

theorem tupleLt_of_lt_of_le {a b c : List Int} (h1 : tupleLt a b = true) (h2 : tupleLt c b = false) : tupleLt a c = true := by
  rcases tupleLe_iff.1 h2 with h | rfl
  · exact tupleLt_trans h1 h
  · exact h1

theorem tupleLt_of_le_of_lt {a b c : List Int} (h1 : tupleLt b a = false) (h2 : tupleLt b c = true) : tupleLt a c = true := by
  rcases tupleLe_iff.1 h1 with h | rfl
  · exact tupleLt_trans h h2
  · exact h2

end Exetera.Spec
