import Exetera.Lemmas.JournalIndices
/-! `ordered_generate_journalling_indices` is memory-safe and terminates on *every* pair of key columns (sorted or not):
    the counting pass always finishes, and the writing pass takes exactly the same steps, so `joint` never reaches `total`. -/
namespace Exetera.Journal
open Exetera

/-- the writing pass's state `s'` is in step with the counting pass's state `s` -/
def InStep (s s' : JS) : Prop := s'.i = s.i ∧ s'.j = s.j ∧ s'.ob.length = s.n ∧ s'.nb.length = s.n

/-- the counter never decreases along a loop whose body increments it -/
theorem whileE_n_mono (g : JS → Bool) (b1 : JS → Except Err JS)
    (hmono : ∀ s s1, g s = true → b1 s = .ok s1 → s1.n = s.n + 1) :
    ∀ (f : Nat) (t u : JS), whileE g b1 f t = .ok u → t.n ≤ u.n := by
  intro f
  induction f with
  | zero =>
    intro t u h
    cases hgt : g t with
    | true => simp [whileE, hgt] at h
    | false => simp only [whileE, hgt, Bool.false_eq_true, if_false, Except.ok.injEq] at h; subst h; exact Nat.le_refl _
  | succ f ihf =>
    intro t u h
    cases hgt : g t with
    | false => simp only [whileE, hgt, Bool.false_eq_true, if_false, Except.ok.injEq] at h; subst h; exact Nat.le_refl _
    | true =>
      simp only [whileE, hgt, if_true] at h
      cases hbt : b1 t with
      | error e => simp [hbt] at h
      | ok t1 =>
        simp only [hbt] at h
        have := ihf t1 u h
        have := hmono t t1 hgt hbt
        omega

/-- a loop of the writing pass follows the same loop of the counting pass as long as the counter stays below the capacity -/
theorem whileE_sim (g : JS → Bool) (b1 b2 : JS → Except Err JS) (cap : Nat)
    (hg : ∀ s s', InStep s s' → g s' = g s)
    (hmono : ∀ s s1, g s = true → b1 s = .ok s1 → s1.n = s.n + 1)
    (hstep : ∀ s s' s1, InStep s s' → g s = true → b1 s = .ok s1 → s.n < cap → ∃ s1', b2 s' = .ok s1' ∧ InStep s1 s1') :
    ∀ (fuel : Nat) (s s' c : JS), InStep s s' → whileE g b1 fuel s = .ok c → c.n ≤ cap →
      ∃ c', whileE g b2 fuel s' = .ok c' ∧ InStep c c' := by
  intro fuel
  induction fuel with
  | zero =>
    intro s s' c hr hw hc
    cases hgs : g s with
    | true => simp [whileE, hgs] at hw
    | false =>
      simp only [whileE, hgs, Bool.false_eq_true, if_false, Except.ok.injEq] at hw
      subst hw
      exact ⟨s', by simp [whileE, hg s s' hr, hgs], hr⟩
  | succ fuel ih =>
    intro s s' c hr hw hc
    cases hgs : g s with
    | false =>
      simp only [whileE, hgs, Bool.false_eq_true, if_false, Except.ok.injEq] at hw
      subst hw
      exact ⟨s', by simp [whileE, hg s s' hr, hgs], hr⟩
    | true =>
      simp only [whileE, hgs, if_true] at hw
      cases hb : b1 s with
      | error e => simp [hb] at hw
      | ok s1 =>
        simp only [hb] at hw
        have hn := hmono s s1 hgs hb
        have hrest : s1.n ≤ c.n := whileE_n_mono g b1 hmono fuel s1 c hw
        obtain ⟨s1', hb2, hr1⟩ := hstep s s' s1 hr hgs hb (by omega)
        obtain ⟨c', hw2, hrc⟩ := ih s1 s1' c hr1 hw hc
        refine ⟨c', ?_, hrc⟩
        simp only [whileE, hg s s' hr, hgs, if_true, hb2, hw2]

/-! ### the steps of the counting pass, and the writing pass following them -/

theorem oldStep_none (old : List Int) (s : JS) :
    oldStep none old s = .ok { s with n := s.n + 1, i := skipRun old s.i + 1 } := rfl
theorem newStep_none (s : JS) : newStep none s = .ok { s with n := s.n + 1, j := s.j + 1 } := rfl
theorem bothStep_none (old : List Int) (s : JS) :
    bothStep none old s = .ok { s with n := s.n + 1, i := skipRun old s.i + 1, j := s.j + 1 } := rfl

theorem emit_some {cap : Nat} {s' : JS} (a b : Int) (h : s'.ob.length < cap) :
    emit (some cap) s' a b = .ok { s' with ob := s'.ob ++ [a], nb := s'.nb ++ [b] } := by
  simp [emit, h]

theorem oldStep_follow {old : List Int} {cap : Nat} {s s' s1 : JS} (hr : InStep s s') (hb : oldStep none old s = .ok s1)
    (hc : s.n < cap) : ∃ s1', oldStep (some cap) old s' = .ok s1' ∧ InStep s1 s1' := by
  obtain ⟨h1, h2, h3, h4⟩ := hr
  rw [oldStep_none] at hb
  cases hb
  refine ⟨{ i := skipRun old s'.i + 1, j := s'.j, n := s'.n, ob := s'.ob ++ [(skipRun old s'.i : Int)], nb := s'.nb ++ [-1] },
    by simp only [oldStep, emit_some _ _ (show s'.ob.length < cap by omega)], ?_⟩
  simp [InStep, h1, h2, h3, h4]

theorem newStep_follow {cap : Nat} {s s' s1 : JS} (hr : InStep s s') (hb : newStep none s = .ok s1)
    (hc : s.n < cap) : ∃ s1', newStep (some cap) s' = .ok s1' ∧ InStep s1 s1' := by
  obtain ⟨h1, h2, h3, h4⟩ := hr
  rw [newStep_none] at hb
  cases hb
  refine ⟨{ i := s'.i, j := s'.j + 1, n := s'.n, ob := s'.ob ++ [-1], nb := s'.nb ++ [(s'.j : Int)] },
    by simp only [newStep, emit_some _ _ (show s'.ob.length < cap by omega)], ?_⟩
  simp [InStep, h1, h2, h3, h4]

theorem bothStep_follow {old : List Int} {cap : Nat} {s s' s1 : JS} (hr : InStep s s') (hb : bothStep none old s = .ok s1)
    (hc : s.n < cap) : ∃ s1', bothStep (some cap) old s' = .ok s1' ∧ InStep s1 s1' := by
  obtain ⟨h1, h2, h3, h4⟩ := hr
  rw [bothStep_none] at hb
  cases hb
  refine ⟨{ i := skipRun old s'.i + 1, j := s'.j + 1, n := s'.n, ob := s'.ob ++ [(skipRun old s'.i : Int)], nb := s'.nb ++ [(s'.j : Int)] },
    by simp only [bothStep, emit_some _ _ (show s'.ob.length < cap by omega)], ?_⟩
  simp [InStep, h1, h2, h3, h4]

theorem mainBody_follow {old new : List Int} {cap : Nat} {s s' s1 : JS} (hr : InStep s s')
    (hb : mainBody none old new s = .ok s1) (hc : s.n < cap) :
    ∃ s1', mainBody (some cap) old new s' = .ok s1' ∧ InStep s1 s1' := by
  have h1 := hr.1; have h2 := hr.2.1
  unfold mainBody at hb ⊢
  rw [h1, h2]
  cases ha : getE old s.i "old[i]" with
  | error e => simp [ha] at hb
  | ok a =>
    cases hbb : getE new s.j "new[j]" with
    | error e => simp [ha, hbb] at hb
    | ok b =>
      simp only [ha, hbb] at hb ⊢
      split
      · rename_i hlt; rw [if_pos hlt] at hb; exact oldStep_follow hr hb hc
      · rename_i hlt; rw [if_neg hlt] at hb
        split
        · rename_i hgt; rw [if_pos hgt] at hb; exact newStep_follow hr hb hc
        · rename_i hgt; rw [if_neg hgt] at hb; exact bothStep_follow hr hb hc

theorem mainBody_none_n {old new : List Int} {s s1 : JS} (hb : mainBody none old new s = .ok s1) : s1.n = s.n + 1 := by
  unfold mainBody at hb
  cases ha : getE old s.i "old[i]" with
  | error e => simp [ha] at hb
  | ok a =>
    cases hbb : getE new s.j "new[j]" with
    | error e => simp [ha, hbb] at hb
    | ok b =>
      simp only [ha, hbb, oldStep_none, newStep_none, bothStep_none] at hb
      split at hb
      · cases hb; rfl
      · split at hb <;> (cases hb; rfl)

/-- the counting pass always runs to completion -/
theorem pass_none_ok (old new : List Int) : ∃ c, pass none old new = .ok c := by
  obtain ⟨s1, hw1, ⟨hi1, hj1⟩, _⟩ := whileE_rule (fun s : JS => decide (s.i < old.length) && decide (s.j < new.length))
    (mainBody none old new) (fun s => s.i ≤ old.length ∧ s.j ≤ new.length) (fun s => old.length + new.length - (s.i + s.j))
    (by
      intro s ⟨hi, hj⟩ hg
      simp only [Bool.and_eq_true, decide_eq_true_eq] at hg
      obtain ⟨h1, h2, _, _⟩ := skipRun_spec old s.i hg.1
      simp only [mainBody, getE_of_lt _ hg.1, getE_of_lt _ hg.2, oldStep_none, newStep_none, bothStep_none]
      split
      · exact ⟨_, rfl, ⟨by simp; omega, by simpa using hj⟩, by simp; omega⟩
      · split
        · exact ⟨_, rfl, ⟨by simpa using hi, by simp; omega⟩, by simp; omega⟩
        · exact ⟨_, rfl, ⟨by simp; omega, by simp; omega⟩, by simp; omega⟩)
    (old.length + new.length) {} ⟨Nat.zero_le _, Nat.zero_le _⟩ (by simp)
  obtain ⟨s2, hw2, ⟨hi2, hj2⟩, _⟩ := whileE_rule (fun s : JS => decide (s.i < old.length))
    (oldStep none old) (fun s => s.i ≤ old.length ∧ s.j ≤ new.length) (fun s => old.length - s.i)
    (by
      intro s ⟨hi, hj⟩ hg
      simp only [decide_eq_true_eq] at hg
      obtain ⟨h1, h2, _, _⟩ := skipRun_spec old s.i hg
      exact ⟨_, oldStep_none old s, ⟨by simp; omega, by simpa using hj⟩, by simp; omega⟩)
    old.length s1 ⟨hi1, hj1⟩ (by omega)
  obtain ⟨s3, hw3, _, _⟩ := whileE_rule (fun s : JS => decide (s.j < new.length))
    (newStep none) (fun s => s.i ≤ old.length ∧ s.j ≤ new.length) (fun s => new.length - s.j)
    (by
      intro s ⟨hi, hj⟩ hg
      simp only [decide_eq_true_eq] at hg
      exact ⟨_, newStep_none s, ⟨by simpa using hi, by simp; omega⟩, by simp; omega⟩)
    new.length s2 ⟨hi2, hj2⟩ (by omega)
  exact ⟨s3, by simp only [pass, hw1, hw2, hw3]⟩

theorem oldStep_none_n {old : List Int} {s s1 : JS} (h : oldStep none old s = .ok s1) : s1.n = s.n + 1 := by
  rw [oldStep_none] at h; cases h; rfl
theorem newStep_none_n {s s1 : JS} (h : newStep none s = .ok s1) : s1.n = s.n + 1 := by
  rw [newStep_none] at h; cases h; rfl

/-- **memory safety and termination on every input**: whatever the two key columns contain (unsorted, duplicated, empty), both
    passes finish, no subscript leaves its array (in particular `joint < total` at every write), and the two maps have equal length -/
theorem journalIndices_safe (old new : List Int) :
    ∃ om nm, journalIndices old new = .ok (om, nm) ∧ om.length = nm.length := by
  obtain ⟨c, hc⟩ := pass_none_ok old new
  have hc0 := hc
  -- split the counting pass into its three loops
  unfold pass at hc
  cases hw1 : whileE (fun s : JS => decide (s.i < old.length) && decide (s.j < new.length)) (mainBody none old new)
      (old.length + new.length) {} with
  | error e => simp [hw1] at hc
  | ok s1 =>
    simp only [hw1] at hc
    cases hw2 : whileE (fun s : JS => decide (s.i < old.length)) (oldStep none old) old.length s1 with
    | error e => simp [hw2] at hc
    | ok s2 =>
      simp only [hw2] at hc
      have hm3 : s2.n ≤ c.n := whileE_n_mono _ _ (fun s s1 _ h => newStep_none_n h) _ _ _ hc
      have hm2 : s1.n ≤ s2.n := whileE_n_mono _ _ (fun s s1 _ h => oldStep_none_n h) _ _ _ hw2
      obtain ⟨s1', hv1, hr1⟩ := whileE_sim (fun s : JS => decide (s.i < old.length) && decide (s.j < new.length))
        (mainBody none old new) (mainBody (some c.n) old new) c.n
        (fun s s' hr => by rw [hr.1, hr.2.1]) (fun s s1 _ h => mainBody_none_n h)
        (fun s s' s1 hr _ hb hlt => mainBody_follow hr hb hlt) _ {} {} s1 ⟨rfl, rfl, rfl, rfl⟩ hw1 (by omega)
      obtain ⟨s2', hv2, hr2⟩ := whileE_sim (fun s : JS => decide (s.i < old.length))
        (oldStep none old) (oldStep (some c.n) old) c.n
        (fun s s' hr => by rw [hr.1]) (fun s s1 _ h => oldStep_none_n h)
        (fun s s' s1 hr _ hb hlt => oldStep_follow hr hb hlt) _ s1 s1' s2 hr1 hw2 (by omega)
      obtain ⟨c', hv3, hr3⟩ := whileE_sim (fun s : JS => decide (s.j < new.length))
        (newStep none) (newStep (some c.n)) c.n
        (fun s s' hr => by rw [hr.2.1]) (fun s s1 _ h => newStep_none_n h)
        (fun s s' s1 hr _ hb hlt => newStep_follow hr hb hlt) _ s2 s2' c hr2 hc (Nat.le_refl _)
      have hp : pass (some c.n) old new = .ok c' := by simp only [pass, hv1, hv2, hv3]
      refine ⟨c'.ob ++ List.replicate (c.n - c'.ob.length) (-1), c'.nb ++ List.replicate (c.n - c'.nb.length) (-1),
        by simp only [journalIndices, hc0, hp], ?_⟩
      simp [hr3.2.2.1, hr3.2.2.2]

end Exetera.Journal
