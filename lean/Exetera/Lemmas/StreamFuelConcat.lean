import Exetera.Model.StreamFuel
import Exetera.Lemmas.WhileFuel
/-! C12, `Session.apply_spans_concat`: every batch handles at least one span, so the batch loop makes at most one kernel call
    per span. -/
namespace Exetera.Concat
open Exetera

variable {α : Type} [DecidableEq α]

/-- the span loop of the kernel returns a position strictly after its start (when it has at least one span to handle) -/
theorem spanLoop_advances (P : Params α) : ∀ (n s : Nat) (st : Buf α) (s' : Nat) (st' : Buf α),
    spanLoop P n s st = .ok (s', st') → (0 < n → s < s') ∧ s ≤ s' ∧ s' ≤ s + n := by
  intro n
  induction n with
  | zero =>
    intro s st s' st' h
    simp only [spanLoop, Except.ok.injEq, Prod.mk.injEq] at h
    obtain ⟨h1, _⟩ := h
    omega
  | succ n ih =>
    intro s st s' st' h
    unfold spanLoop at h
    split at h
    · cases h
    · split at h
      · simp only [Except.ok.injEq, Prod.mk.injEq] at h
        obtain ⟨h1, _⟩ := h
        omega
      · have := ih _ _ _ _ h
        omega

theorem kernel_advances (P : Params α) (spStart s' : Nat) (buf : Buf α) (h : kernel P spStart = .ok (s', buf)) :
    spStart < s' ∧ s' ≤ P.spans.length - 1 := by
  unfold kernel at h
  simp only [] at h
  split at h
  · rename_i hlt
    have := spanLoop_advances P _ _ _ _ _ h
    omega
  · cases h

/-- one batch: the span position strictly advances, one more kernel call is counted, the destination is only appended to -/
theorem batchBody_advances (v : Variant) (sep delim : α) (spans idx : List Nat) (vals : List α) (srcChunk valueCap : Nat)
    (st st' : S α) (h : batchBody v sep delim spans idx vals srcChunk valueCap st = .ok st') :
    st.s < st'.s ∧ st'.s ≤ spans.length - 1 ∧ st'.calls = st.calls + 1 ∧
      st.dest.indices <+: st'.dest.indices ∧ st.dest.values <+: st'.dest.values := by
  unfold batchBody at h
  split at h
  · cases h
  · rename_i s' buf hk
    have hadv := kernel_advances _ _ _ _ hk
    simp only [Except.ok.injEq] at h
    subst h
    refine ⟨hadv.1, hadv.2, rfl, ?_, ?_⟩
    · simp only []
      split
      · exact List.prefix_append _ _
      · exact List.prefix_refl _
    · simp only []
      split
      · exact List.prefix_append _ _
      · exact List.prefix_refl _

/-- an `.ok` run of the batch loop with the model's budget is the run with any fuel `≥` the number of spans, and it makes at
    most one kernel call per span -/
theorem runBatches_fuel (v : Variant) (sep delim : α) (spans idx : List Nat) (vals : List α) (srcChunk valueCap : Nat)
    (st : S α) (h : runBatches v sep delim spans idx vals srcChunk valueCap = .ok st) (fuel : Nat)
    (hfuel : spans.length - 1 ≤ fuel) :
    runBatchesF fuel v sep delim spans idx vals srcChunk valueCap = .ok st ∧ st.calls ≤ spans.length - 1 := by
  have step : ∀ s s' : S α, True → batchGuard spans s = true →
      batchBody v sep delim spans idx vals srcChunk valueCap s = .ok s' →
      True ∧ (spans.length - 1 - s'.s) < (spans.length - 1 - s.s) ∧ s'.calls = s.calls + 1 := by
    intro s s' _ hg hb
    obtain ⟨h1, _, h3, _⟩ := batchBody_advances v sep delim spans idx vals srcChunk valueCap s s' hb
    simp only [batchGuard, decide_eq_true_eq] at hg
    exact ⟨trivial, by omega, h3⟩
  rw [runBatches_eq_F] at h
  refine ⟨?_, ?_⟩
  · exact whileE_tighten_ok _ _ (fun _ => True) (fun s : S α => spans.length - 1 - s.s)
      (fun s s' hI hg hb => ⟨trivial, (step s s' hI hg hb).2.1⟩) spans.length _ st trivial h fuel (by simpa using hfuel)
  · have := whileE_counter_le_measure _ _ (fun _ => True) (fun s : S α => spans.length - 1 - s.s) (fun s => s.calls)
      step spans.length _ st trivial h
    simp only [] at this
    omega

end Exetera.Concat
