import Exetera.Gen.Kernels
import Exetera.Model.MapValid
import Exetera.Lemmas.GenKernels
/-!
  The TRANSLATED `get_valid_value_extents` (a `for` with `break`, then a `while` with `break` whose guard reads the loop
  variable `i` of the first loop — unbound in Python when `end ≤ start`) refines the hand-written model
  `MapValid.getValidValueExtents` on every input, error branches included, for every fuel ≥ end − start.
-/
namespace Exetera.GenK

open Exetera Exetera.PyRt Exetera.Gen.Kernels
open Exetera.MapValid (firstValidFrom lastValidDown getValidValueExtents)

namespace Ext

abbrev St := get_valid_value_extents.St

/-- what neither loop touches -/
def Frame (m : List Int) (inv : Int) (s : St) : Prop := s.p0 = m ∧ s.p3 = inv

theorem getE_none {α} (xs : List α) (i : Nat) (site : String) (h : xs[i]? = none) : getE xs i site = .error (.oob site) := by
  simp [getE, h]

theorem getE_some {α} (xs : List α) (i : Nat) (site : String) {x : α} (h : xs[i]? = some x) : getE xs i site = .ok x := by
  simp [getE, h]

/-- the first loop: `for i in range(i, i + n): if chunk[i] != invalid: first = chunk[i]; break` -/
theorem loop1 (m : List Int) (inv : Int) :
    ∀ (n i : Nat) (s : St), Frame m inv s → s.brk1 = false →
      match firstValidFrom m inv i n with
      | .ok none => ∃ s', forRangeAux (fun s => s.brk1) (fun k s => get_valid_value_extents.body_L1 { s with v1 := k, v1_def := true })
            n (i : Int) s = .ok s' ∧ Frame m inv s' ∧ s'.brk1 = false ∧ s'.v0 = s.v0 ∧ s'.p2 = s.p2 ∧ s'.brk2 = s.brk2 ∧
          (0 < n → s'.v1 = ((i + n - 1 : Nat) : Int) ∧ s'.v1_def = true) ∧ (n = 0 → s'.v1_def = s.v1_def)
      | .ok (some (pos, x)) => ∃ s', forRangeAux (fun s => s.brk1)
            (fun k s => get_valid_value_extents.body_L1 { s with v1 := k, v1_def := true }) n (i : Int) s = .ok s' ∧
          Frame m inv s' ∧ s'.v0 = x ∧ s'.v1 = (pos : Int) ∧ s'.v1_def = true ∧ s'.p2 = s.p2 ∧ s'.brk2 = s.brk2 ∧
          i ≤ pos ∧ pos < i + n
      | .error e => ∃ e', forRangeAux (fun s => s.brk1)
            (fun k s => get_valid_value_extents.body_L1 { s with v1 := k, v1_def := true }) n (i : Int) s = .error e' ∧
          e'.tag = e.tag := by
  intro n
  induction n with
  | zero =>
    intro i s hF hb
    simp only [firstValidFrom, forRangeAux]
    exact ⟨s, rfl, hF, hb, rfl, rfl, rfl, by omega, fun _ => rfl⟩
  | succ n ih =>
    intro i s hF hb
    obtain ⟨q0, q1, q2, q3, w0, w1, w1d, w2, w3, b1, b2⟩ := s
    obtain ⟨f0, f3⟩ := hF
    simp only at hb f0 f3
    subst hb f0 f3
    cases hm : q0[i]? with
    | none =>
      have hbody : get_valid_value_extents.body_L1 ⟨q0, q1, q2, q3, w0, (i : Int), true, w2, w3, false, b2⟩
          = .error (.oob "p0[v1]") := by
        simp only [get_valid_value_extents.body_L1, idxE_nat, getE_none _ _ _ hm, bindE_error]
      simp only [firstValidFrom, hm, forRangeAux, hbody]
      exact ⟨_, rfl, rfl⟩
    | some x =>
      by_cases hx : x = q3
      · subst hx
        have hbody : get_valid_value_extents.body_L1 ⟨q0, q1, q2, x, w0, (i : Int), true, w2, w3, false, b2⟩
            = .ok ⟨q0, q1, q2, x, w0, (i : Int), true, w2, w3, false, b2⟩ := by
          simp only [get_valid_value_extents.body_L1, idxE_nat, getE_some _ _ _ hm, bindE_ok, bne_self_eq_false,
            Bool.false_eq_true, if_false]
        have hc : ((i : Int) + 1) = ((i + 1 : Nat) : Int) := by omega
        simp only [firstValidFrom, hm, bne_self_eq_false, Bool.false_eq_true, if_false, forRangeAux, hbody, hc]
        have hrec := ih (i + 1) ⟨q0, q1, q2, x, w0, (i : Int), true, w2, w3, false, b2⟩ ⟨rfl, rfl⟩ rfl
        cases hf : firstValidFrom q0 x (i + 1) n with
        | error e => rw [hf] at hrec; exact hrec
        | ok r =>
          rw [hf] at hrec
          cases r with
          | none =>
            obtain ⟨s', hrun, hF', hb', hv0, hp2, hbk, hpos, hzero⟩ := hrec
            refine ⟨s', hrun, hF', hb', hv0, hp2, hbk, fun _ => ?_, fun h => by omega⟩
            by_cases hn : 0 < n
            · obtain ⟨h1, h2⟩ := hpos hn
              exact ⟨by rw [h1]; congr 1; omega, h2⟩
            · have hn0 : n = 0 := by omega
              subst hn0
              simp only [forRangeAux, Except.ok.injEq] at hrun
              subst hrun
              exact ⟨by simp, rfl⟩
          | some px =>
            obtain ⟨pos, x'⟩ := px
            obtain ⟨s', hrun, hF', hv0, hv1, hd, hp2, hbk, hlo, hhi⟩ := hrec
            exact ⟨s', hrun, hF', hv0, hv1, hd, hp2, hbk, by omega, by omega⟩
      · have hne : (x != q3) = true := by simp [hx]
        have hbody : get_valid_value_extents.body_L1 ⟨q0, q1, q2, q3, w0, (i : Int), true, w2, w3, false, b2⟩
            = .ok ⟨q0, q1, q2, q3, x, (i : Int), true, w2, w3, true, b2⟩ := by
          simp only [get_valid_value_extents.body_L1, idxE_nat, getE_some _ _ _ hm, bindE_ok, hne, if_true]
        simp only [firstValidFrom, hm, hne, if_true, forRangeAux, hbody]
        exact ⟨_, rfl, ⟨rfl, rfl⟩, rfl, rfl, rfl, rfl, rfl, Nat.le_refl _, by omega⟩

/-- the second loop: `while j >= i: if chunk[j] != invalid: last = chunk[j]; break; j -= 1`, with `j = i + n - 1` -/
theorem loop2 (m : List Int) (inv : Int) (i : Nat) :
    ∀ (n fuel : Nat) (s : St), Frame m inv s → s.brk2 = false → s.v1 = (i : Int) → s.v1_def = true →
      s.v3 = ((i + n : Nat) : Int) - 1 → n ≤ fuel →
      match lastValidDown m inv i n with
      | .ok r => ∃ s', whileG get_valid_value_extents.guardE_L2 get_valid_value_extents.body_L2 fuel s = .ok s' ∧
          s'.v2 = r.getD s.v2 ∧ s'.v0 = s.v0
      | .error e => ∃ e', whileG get_valid_value_extents.guardE_L2 get_valid_value_extents.body_L2 fuel s = .error e' ∧
          e'.tag = e.tag := by
  intro n
  induction n with
  | zero =>
    intro fuel s hF hb hv1 hd hv3 _
    have hg : get_valid_value_extents.guardE_L2 s = .ok false := by
      simp only [get_valid_value_extents.guardE_L2, hb, Bool.false_eq_true, if_false, hd, readDefE, if_true, bindE_ok, hv1, hv3]
      simp
      omega
    simp only [lastValidDown]
    refine ⟨s, ?_, rfl, rfl⟩
    cases fuel <;> simp [whileG, hg]
  | succ n ih =>
    intro fuel s hF hb hv1 hd hv3 hf
    obtain ⟨f0, f3⟩ := hF
    obtain ⟨f, rfl⟩ : ∃ f, fuel = f + 1 := ⟨fuel - 1, by omega⟩
    have hv3' : s.v3 = ((i + n : Nat) : Int) := by rw [hv3]; omega
    have hg : get_valid_value_extents.guardE_L2 s = .ok true := by
      simp only [get_valid_value_extents.guardE_L2, hb, Bool.false_eq_true, if_false, hd, readDefE, if_true, bindE_ok, hv1, hv3']
      simp; omega
    cases hm : m[i + n]? with
    | none =>
      have hbody : get_valid_value_extents.body_L2 s = .error (.oob "p0[v3]") := by
        simp only [get_valid_value_extents.body_L2, f0, hv3', idxE_nat, getE_none _ _ _ hm, bindE_error]
      simp only [lastValidDown, hm, whileG, hg, if_true, hbody]
      exact ⟨_, rfl, rfl⟩
    | some x =>
      by_cases hx : x = inv
      · subst hx
        have hbody : get_valid_value_extents.body_L2 s = .ok { s with v3 := ((i + n : Nat) : Int) - 1 } := by
          simp only [get_valid_value_extents.body_L2, f0, f3, hv3', idxE_nat, getE_some _ _ _ hm, bindE_ok, bne_self_eq_false,
            Bool.false_eq_true, if_false, hb]
        simp only [lastValidDown, hm, bne_self_eq_false, Bool.false_eq_true, if_false, whileG, hg, if_true, hbody]
        exact ih f { s with v3 := ((i + n : Nat) : Int) - 1 } ⟨f0, f3⟩ hb hv1 hd rfl (by omega)
      · have hne : (x != inv) = true := by simp [hx]
        have hbody : get_valid_value_extents.body_L2 s = .ok { s with v2 := x, brk2 := true } := by
          simp only [get_valid_value_extents.body_L2, f0, f3, hv3', idxE_nat, getE_some _ _ _ hm, bindE_ok, hne, if_true]
        -- the flag is up: the next evaluation of the guard ends the loop
        have hg2 : ∀ s2 : St, s2.brk2 = true → ∀ k, whileG get_valid_value_extents.guardE_L2 get_valid_value_extents.body_L2 k s2 = .ok s2 := by
          intro s2 h2 k
          have : get_valid_value_extents.guardE_L2 s2 = .ok false := by simp [get_valid_value_extents.guardE_L2, h2]
          cases k <;> simp [whileG, this]
        simp only [lastValidDown, hm, hne, if_true, whileG, hg, hbody]
        exact ⟨{ s with v2 := x, brk2 := true }, hg2 _ rfl _, rfl, rfl⟩

end Ext

theorem get_valid_value_extents_refines (m : List Int) (start end_ : Nat) (inv : Int) (fuel : Nat)
    (hf : end_ - start ≤ fuel) :
    Sim (get_valid_value_extents.run m start end_ inv fuel) (getValidValueExtents m start end_ inv) := by
  unfold get_valid_value_extents.run getValidValueExtents
  simp only [forRangeB]
  by_cases hse : end_ ≤ start
  · -- the `for` does not run: `i` stays unbound and the `while` condition raises
    have hn : ((end_ : Int) - (start : Int)).toNat = 0 := by omega
    simp only [hse, if_true, hn, forRangeAux, bindE_ok]
    cases fuel <;> simp [whileG, get_valid_value_extents.guardE_L2, readDefE, Sim, Err.tag]
  · have hn : ((end_ : Int) - (start : Int)).toNat = end_ - start := by omega
    simp only [hse, if_false, hn]
    have h1 := Ext.loop1 m inv (end_ - start) start
      (⟨m, start, end_, inv, inv, 0, false, 0, 0, false, false⟩ : Ext.St) ⟨rfl, rfl⟩ rfl
    cases hfv : firstValidFrom m inv start (end_ - start) with
    | error e =>
      rw [hfv] at h1
      obtain ⟨e', hrun, ht⟩ := h1
      have hrun' : forRangeAux (fun s => s.brk1) (fun k s => get_valid_value_extents.body_L1 { s with v1 := k, v1_def := true })
          (end_ - start) (start : Int) (⟨m, start, end_, inv, inv, 0, false, 0, 0, false, false⟩ : Ext.St) = .error e' := hrun
      simp only [hrun', bindE_error, Sim, ht]
    | ok r =>
      rw [hfv] at h1
      cases r with
      | none =>
        obtain ⟨s1, hrun, hF1, hb1, hv0, hp2, hbk2, hpos, _⟩ := h1
        have hrun' : forRangeAux (fun s => s.brk1) (fun k s => get_valid_value_extents.body_L1 { s with v1 := k, v1_def := true })
            (end_ - start) (start : Int) (⟨m, start, end_, inv, inv, 0, false, 0, 0, false, false⟩ : Ext.St) = .ok s1 := hrun
        obtain ⟨hv1, hd⟩ := hpos (by omega)
        have hp2' : s1.p2 = (end_ : Int) := hp2
        simp only [hrun', bindE_ok]
        have h2 := Ext.loop2 m inv (end_ - 1) (end_ - (end_ - 1)) fuel
          { s1 with brk1 := false, v2 := s1.p3, v3 := s1.p2 - 1 } hF1 hbk2
          (by rw [show ({ s1 with brk1 := false, v2 := s1.p3, v3 := s1.p2 - 1 } : Ext.St).v1 = s1.v1 from rfl, hv1]; congr 1; omega)
          hd (by show s1.p2 - 1 = _; rw [hp2']; omega) (by omega)
        cases hl : lastValidDown m inv (end_ - 1) (end_ - (end_ - 1)) with
        | error e =>
          rw [hl] at h2
          obtain ⟨e', hw, ht⟩ := h2
          simp only [hw, bindE_error, Sim, ht]
        | ok l =>
          rw [hl] at h2
          obtain ⟨s2, hw, hv2, hv0'⟩ := h2
          simp only [hw, bindE_ok, Sim, hv2, hv0']
          show (s1.v0, l.getD s1.p3) = (inv, l.getD inv)
          rw [hv0, hF1.2]
      | some px =>
        obtain ⟨pos, x⟩ := px
        obtain ⟨s1, hrun, hF1, hv0, hv1, hd, hp2, hbk2, hlo, hhi⟩ := h1
        have hrun' : forRangeAux (fun s => s.brk1) (fun k s => get_valid_value_extents.body_L1 { s with v1 := k, v1_def := true })
            (end_ - start) (start : Int) (⟨m, start, end_, inv, inv, 0, false, 0, 0, false, false⟩ : Ext.St) = .ok s1 := hrun
        have hp2' : s1.p2 = (end_ : Int) := hp2
        simp only [hrun', bindE_ok]
        have h2 := Ext.loop2 m inv pos (end_ - pos) fuel
          { s1 with brk1 := false, v2 := s1.p3, v3 := s1.p2 - 1 } hF1 hbk2 hv1 hd
          (by show s1.p2 - 1 = _; rw [hp2']; omega) (by omega)
        cases hl : lastValidDown m inv pos (end_ - pos) with
        | error e =>
          rw [hl] at h2
          obtain ⟨e', hw, ht⟩ := h2
          simp only [hw, bindE_error, Sim, ht]
        | ok l =>
          rw [hl] at h2
          obtain ⟨s2, hw, hv2, hv0'⟩ := h2
          simp only [hw, bindE_ok, Sim, hv2, hv0']
          show (s1.v0, l.getD s1.p3) = (x, l.getD inv)
          rw [hv0, hF1.2]

end Exetera.GenK
