import Exetera.Lemmas.GroupByCount
import Exetera.Lemmas.GroupByCols
/-!
  C07 helper lemmas, part 7: the end-to-end statements about `groupbyAgg`, `groupbyCount`, `groupbyDistinct` on the tree with
  fix D20 (`groupby .repaired` = `groupbyCols`): no hypothesis on the key columns' dtypes.
-/
namespace Exetera.GroupBy
open Exetera Exetera.Spec Exetera.Spans Exetera.SortIndex List

theorem groupbyAgg_spec (agg : Agg) (k0 : KeyCol) (ks : List KeyCol) (hint : Bool) (T : List Int) (n : Nat)
    (hrect : Rect n ((k0 :: ks).map (·.data))) (hT : T.length = n)
    (hhint : hint = true → SortedRows ((k0 :: ks).map (·.data)) n) :
    ∃ kcols vals outKeys, groupbyAgg .repaired agg (k0 :: ks) hint [.plain T] = .ok ⟨kcols, [.ints vals]⟩ ∧
      ColumnsOf kcols outKeys ∧ IsGroupBy (rowsBy ((k0 :: ks).map (·.data)) n) T (aggSpec agg) outKeys vals := by
  obtain ⟨idx, si, hperm, hs, hsi, hg⟩ := groupbyCols_paths k0 ks hint n hrect hhint
  obtain ⟨kcols, r, hwk, hag, hcols, hvals⟩ := outputs_along agg ((k0 :: ks).map (·.data)) T n idx si hperm hsi hrect hT
  obtain ⟨hda, hsel⟩ := groups_along_index ((k0 :: ks).map (·.data)) T 0 n idx hperm hs hT
  refine ⟨kcols, r, _, ?_, hcols, hda, ?_⟩
  · simp only [groupbyAgg, groupby, aggOf, hg, hwk, aggTargets, hag, SortIndex.consE_ok]
  · rw [hvals, hsel, map_map]; rfl

theorem groupbyCount_spec (k0 : KeyCol) (ks : List KeyCol) (hint : Bool) (n : Nat)
    (hrect : Rect n ((k0 :: ks).map (·.data)))
    (hhint : hint = true → SortedRows ((k0 :: ks).map (·.data)) n) :
    ∃ kcols counts outKeys, groupbyCount .repaired (k0 :: ks) hint = .ok ⟨kcols, [.ints counts]⟩ ∧
      ColumnsOf kcols outKeys ∧ IsGroupCount (rowsBy ((k0 :: ks).map (·.data)) n) outKeys counts ∧
      counts.sum = n := by
  obtain ⟨idx, si, hperm, hs, hsi, hg⟩ := groupbyCols_paths k0 ks hint n hrect hhint
  let T := List.replicate n (0 : Int)
  have hT : T.length = n := by simp [T]
  obtain ⟨kcols, r, hwk, _, hcols, _⟩ := outputs_along .first ((k0 :: ks).map (·.data)) T n idx si hperm hsi hrect hT
  obtain ⟨hda, hsel⟩ := groups_along_index ((k0 :: ks).map (·.data)) T 0 n idx hperm hs hT
  obtain ⟨c, hc, hceq, hsum⟩ := count_along ((k0 :: ks).map (·.data)) n idx hperm
  refine ⟨kcols, c, _, ?_, hcols, ⟨hda, ?_⟩, hsum⟩
  · simp only [groupbyCount, groupby, countOf, hg, hwk, count, hc]
  · rw [hceq, hsel, map_map]
    apply map_congr_left
    intro k _
    simp only [Function.comp]
    rw [select_length _ _ _ (by simp [T, rowsBy])]

theorem groupbyDistinct_spec (k0 : KeyCol) (ks : List KeyCol) (hint : Bool) (n : Nat)
    (hrect : Rect n ((k0 :: ks).map (·.data)))
    (hhint : hint = true → SortedRows ((k0 :: ks).map (·.data)) n) :
    ∃ kcols outKeys, groupbyDistinct .repaired (k0 :: ks) hint = .ok ⟨kcols, []⟩ ∧
      ColumnsOf kcols outKeys ∧ DistinctAscending (rowsBy ((k0 :: ks).map (·.data)) n) outKeys := by
  obtain ⟨idx, si, hperm, hs, hsi, hg⟩ := groupbyCols_paths k0 ks hint n hrect hhint
  let T := List.replicate n (0 : Int)
  have hT : T.length = n := by simp [T]
  obtain ⟨kcols, r, hwk, _, hcols, _⟩ := outputs_along .first ((k0 :: ks).map (·.data)) T n idx si hperm hsi hrect hT
  obtain ⟨hda, _⟩ := groups_along_index ((k0 :: ks).map (·.data)) T 0 n idx hperm hs hT
  exact ⟨kcols, _, by simp only [groupbyDistinct, groupby, distinctOf, hg, hwk], hcols, hda⟩

end Exetera.GroupBy
