import Exetera.Lemmas.JournalMergeGen
/-! `merge_journalled_entries` follows the slot-wise plan. -/
namespace Exetera.Journal
open Exetera Exetera.Spec.Journal

theorem mergeBody_eq (om nm : List Int) (tk : List Bool) (oldSrc newSrc : List Int) (cap : Nat) :
    mergeBody om nm tk oldSrc newSrc cap =
      genBody MS.cur (copyOldBody cap oldSrc)
        (fun n s => match getI newSrc n "new_src[new_map[i]]" with
          | .ok v => pushD cap s v
          | .error e => .error e) om nm tk := by
  funext i s
  unfold mergeBody genBody
  simp only [bind, Except.bind, pure, Except.pure]
  cases getE om i "old_map[i]" with
  | error e => rfl
  | ok o =>
    simp only
    cases whileE (fun s => decide ((s.cur : Int) ≤ o)) (copyOldBody cap oldSrc) (o + 1 - (s.cur : Int)).toNat s with
    | error e => rfl
    | ok s1 =>
      simp only
      cases getE tk i "to_keep[i]" with
      | error e => rfl
      | ok k =>
        cases k with
        | false => rfl
        | true =>
          simp only [if_true]
          cases getE nm i "new_map[i]" with
          | error e => rfl
          | ok n =>
            simp only
            cases getI newSrc n "new_src[new_map[i]]" <;> rfl

/-- `merge_journalled_entries` on maps given slot-wise: the destination receives exactly the plan's rows, front to back;
    no subscript leaves its array -/
theorem mergeEntries_plan {κ : Type} (ks : List κ) (f1 f2 : κ → Int) (g : κ → Bool) (oldSrc newSrc : List Int) (cap : Nat)
    (hold : ∀ k, k ∈ ks → (f1 k + 1).toNat ≤ oldSrc.length)
    (hnew : ∀ k, k ∈ ks → g k = true → 0 ≤ f2 k ∧ (f2 k).toNat < newSrc.length)
    (hcap : (column (kPlan f1 f2 g 0 ks) oldSrc newSrc).length ≤ cap) :
    mergeEntries (ks.map f1) (ks.map f2) (ks.map g) oldSrc newSrc cap =
      .ok (column (kPlan f1 f2 g 0 ks) oldSrc newSrc ++
            List.replicate (cap - (column (kPlan f1 f2 g 0 ks) oldSrc newSrc).length) 0) := by
  obtain ⟨s', hf, hrep, -⟩ := gen_loop MS.cur (copyOldBody cap oldSrc)
    (fun n s => match getI newSrc n "new_src[new_map[i]]" with
      | .ok v => pushD cap s v
      | .error e => .error e)
    (fun s R => s.buf = R) (fun R => R.length ≤ cap) oldSrc newSrc
    (by intro R R' h; simp only [List.length_append] at h; omega)
    (by
      intro s R hR hlt hF
      simp only [List.length_append, List.length_singleton] at hF
      have hb : s.buf.length < cap := by rw [hR]; omega
      refine ⟨{ cur := s.cur + 1, buf := s.buf ++ [oldSrc[s.cur]] }, ?_, rfl, by simp [hR]⟩
      simp [copyOldBody, getE_of_lt _ hlt, pushD, hb])
    (by
      intro s R j hR hlt hF
      simp only [List.length_append, List.length_singleton] at hF
      have hb : s.buf.length < cap := by rw [hR]; omega
      refine ⟨{ s with buf := s.buf ++ [newSrc[j]] }, ?_, rfl, by simp [hR]⟩
      simp [getI_of_nat _ hlt, pushD, hb])
    ks f1 f2 g hold hnew hcap {} rfl rfl
  unfold mergeEntries
  rw [mergeBody_eq, List.length_map, hf]
  simp only [hrep]

end Exetera.Journal
