/-! The relational join of two key columns, as row-number pairs — the specification of C03. -/
namespace Exetera.Spec

/-- rows `j` of `r` (numbered from `base`) whose key equals `k`, in order -/
def matchRows (k : Int) : List Int → Nat → List Nat
  | [], _ => []
  | b :: bs, base => if b == k then base :: matchRows k bs (base + 1) else matchRows k bs (base + 1)

/-- left join of `l` (rows numbered from `base`) with `r`: every left row in order, paired with each equal-keyed
    right row in order, or once with `none` -/
def leftJoinFrom (r : List Int) : List Int → Nat → List (Nat × Option Nat)
  | [], _ => []
  | a :: as, base =>
    (match matchRows a r 0 with
     | [] => [(base, none)]
     | ms => ms.map (fun j => (base, some j))) ++ leftJoinFrom r as (base + 1)

def leftJoin (l r : List Int) : List (Nat × Option Nat) := leftJoinFrom r l 0

/-- inner join: exactly the equal-keyed pairs in (left, right) order -/
def innerJoinFrom (r : List Int) : List Int → Nat → List (Nat × Nat)
  | [], _ => []
  | a :: as, base => (matchRows a r 0).map (fun j => (base, j)) ++ innerJoinFrom r as (base + 1)

def innerJoin (l r : List Int) : List (Nat × Nat) := innerJoinFrom r l 0

/-- the two map columns of a left join, unmatched right entries encoded by `inv` -/
def encodeLeft (inv : Int) (rows : List (Nat × Option Nat)) : List Int × List Int :=
  (rows.map (fun p => (p.1 : Int)), rows.map (fun p => match p.2 with | some j => (j : Int) | none => inv))

def encodeInner (rows : List (Nat × Nat)) : List Int × List Int :=
  (rows.map (fun p => (p.1 : Int)), rows.map (fun p => (p.2 : Int)))

end Exetera.Spec
