import Exetera.Props.C06
import Exetera.Lemmas.TransformsCatChecked
import Exetera.Lemmas.CsvLoopG
/-! C05 ∘ C06: every schema-typed importer, fed block by block through `import_part` by the CSV driver, is an append
    homomorphism over cell blocks (`ImpHom`), and what it ends with is C06's specification applied to the whole column
    (`typedSpec`). -/
namespace Exetera.Csv
open Exetera Spec Exetera.Transforms Exetera.Spec.Transforms

/-! ### the specification of a typed column -/

/-- what C06's theorems assume about an importer definition: category keys are pairwise distinct (they are the keys of a
    Python dict); the text → number conversion rejects blank text, and `str(invalid_value)` converts to `invalid_value` -/
def KindOK : FieldKind → Prop
  | .categorical cats => (cats.map (·.1)).Nodup
  | .leaky cats => (cats.map (·.1)).Nodup
  | .numeric p _ invalidText invalidVal =>
    (∀ t, npNonEmpty t = false → p.parse t = .bad) ∧ p.parse invalidText = .val invalidVal
  | _ => True

/-- all cells of a datetime / date column through the per-cell conversion; `none` when one of them raises -/
def timeColumn (f : Bytes → Except Err (Int × Bytes × Bool)) (cells : List Bytes) : Option (List (Int × Bytes × Bool)) :=
  (cellsMapE f cells).toOption

/-- **C06's specification applied to a whole column of cell texts**: the destination fields (main column and companions) of
    an importer of kind `k` that has consumed exactly `cells`; `none`: the import raises.
    * indexed string: offsets `[0, |e₀|, |e₀|+|e₁|, …]` and the concatenated bytes (C05);
    * fixed string: first `n` bytes of every cell, zero padded (`fixedCell`);
    * categorical: value of the key equal to the whole cell; the import raises when a cell equals no key (`catColumn`,
      fix NC06d);
    * leaky categorical: value or `-1` (`leakyCode`), `_freetext` holds exactly the unmatched texts (`freeText`) with running
      offsets over the whole column;
    * bool / int / float: the validation-mode table `numericColumn` over the cells' classes; `_valid` beside it;
    * datetime / date: the per-cell conversion (`datetimeCell` / `dateCell`: µs since the epoch, `_day`, `_set`). -/
def typedSpec : FieldKind → List Bytes → Option Imp
  | .indexed, cells => some (fieldOf' cells)
  | .fixed n, cells => some { kind := .fixed n, data := (cells.map (fixedCell n)).flatten }
  | .categorical cats, cells => (catColumn cats cells).map (fun codes => { kind := .categorical cats, codes := codes })
  | .leaky cats, cells =>
    some { kind := .leaky cats, codes := cells.map (leakyCode cats)
           idx := offsets 0 (cells.map (fun c => (freeText cats c).length))
           vals := (cells.map (freeText cats)).flatten
           acc := (cells.map (fun c => (freeText cats c).length)).sum }
  | .bool mode invalid, cells =>
    (numericColumn mode invalid (cells.map boolClass)).map
      (fun r => { kind := .bool mode invalid, bools := r.1, valids := r.2 })
  | .numeric p mode invalidText invalidVal, cells =>
    (numericColumn mode invalidVal ((cells.map rstripNul).map (classOf p.parse))).map
      (fun r => { kind := .numeric p mode invalidText invalidVal, nums := r.1
                  valids := if mode = .strict then [] else r.2 })
  | .datetime, cells =>
    (timeColumn datetimeCell cells).map
      (fun rs => { kind := .datetime, codes := rs.map (·.1), days := rs.map (·.2.1), valids := rs.map (·.2.2) })
  | .date, cells =>
    (timeColumn dateCell cells).map
      (fun rs => { kind := .date, codes := rs.map (·.1), days := rs.map (·.2.1), valids := rs.map (·.2.2) })

/-- a cell text the importer of kind `k` accepts (does not raise on): decided by the cell alone -/
def cellOK : FieldKind → Bytes → Prop
  | .categorical cats, cell => (lookup cats cell).isSome
  | .bool mode invalid, cell => (numericCell mode invalid (boolClass cell)).isSome
  | .numeric p mode _ invalidVal, cell => (numericCell mode invalidVal (classOf p.parse (rstripNul cell))).isSome
  | .datetime, cell => (datetimeCell cell).toOption.isSome
  | .date, cell => (dateCell cell).toOption.isSome
  | _, _ => True

instance (k : FieldKind) (cell : Bytes) : Decidable (cellOK k cell) := by
  cases k <;> simp only [cellOK] <;> infer_instance

/-- importer `c` of the driver, as a function of the entries it has consumed -/
def typedF (kinds : Nat → FieldKind) (c : Nat) (D : List Bytes) : Imp :=
  (typedSpec (kinds c) D).getD { kind := kinds c }

/-! ### list facts -/

theorem numericColumn_some_of_all {V} (mode : Mode) (inv : V) (ks : List (CellClass V))
    (h : ∀ k ∈ ks, (numericCell mode inv k).isSome) : ∃ r, numericColumn mode inv ks = some r := by
  induction ks with
  | nil => exact ⟨_, rfl⟩
  | cons k ks ih =>
    obtain ⟨r, hr⟩ := ih (fun x hx => h x (by simp [hx]))
    have hk := h k (by simp)
    rw [numericColumn_cons, hr]
    cases hc : numericCell mode inv k with
    | none => rw [hc] at hk; cases hk
    | some vf => exact ⟨_, rfl⟩

theorem numericColumn_all_of_some {V} (mode : Mode) (inv : V) (ks : List (CellClass V)) (r : List V × List Bool)
    (h : numericColumn mode inv ks = some r) : ∀ k ∈ ks, (numericCell mode inv k).isSome := by
  induction ks generalizing r with
  | nil => intro k hk; cases hk
  | cons k ks ih =>
    rw [numericColumn_cons] at h
    cases hc : numericCell mode inv k with
    | none => rw [hc] at h; simp [consCell] at h
    | some vf =>
      cases hr : numericColumn mode inv ks with
      | none => rw [hc, hr] at h; simp [consCell] at h
      | some r' =>
        intro x hx
        rcases List.mem_cons.mp hx with rfl | hx
        · rw [hc]; rfl
        · exact ih r' hr x hx

theorem numericColumn_append' {V} (mode : Mode) (inv : V) (a b : List (CellClass V)) (x y : List V × List Bool)
    (ha : numericColumn mode inv a = some x) (hb : numericColumn mode inv b = some y) :
    numericColumn mode inv (a ++ b) = some (x.1 ++ y.1, x.2 ++ y.2) := by
  rw [Exetera.Props.C06.numericColumn_append, ha, hb]

theorem cellsMapE_ok_of_all {α} (f : Bytes → Except Err α) (cells : List Bytes)
    (h : ∀ cell ∈ cells, (f cell).toOption.isSome) : ∃ rs, cellsMapE f cells = .ok rs := by
  induction cells with
  | nil => exact ⟨[], rfl⟩
  | cons c cs ih =>
    obtain ⟨rs, hrs⟩ := ih (fun x hx => h x (by simp [hx]))
    have hc := h c (by simp)
    cases hf : f c with
    | error e => rw [hf] at hc; cases hc
    | ok a => exact ⟨a :: rs, by simp [cellsMapE, hf, hrs]⟩

theorem cellsMapE_all_of_ok {α} (f : Bytes → Except Err α) (cells : List Bytes) (rs : List α)
    (h : cellsMapE f cells = .ok rs) : ∀ cell ∈ cells, (f cell).toOption.isSome := by
  induction cells generalizing rs with
  | nil => intro c hc; cases hc
  | cons c cs ih =>
    rw [cellsMapE] at h
    cases hf : f c with
    | error e => simp [hf] at h
    | ok a =>
      cases hr : cellsMapE f cs with
      | error e => simp [hf, hr] at h
      | ok as =>
        intro x hx
        rcases List.mem_cons.mp hx with rfl | hx
        · rw [hf]; rfl
        · exact ih as hr x hx

theorem cellsMapE_append {α} (f : Bytes → Except Err α) (a b : List Bytes) (x y : List α)
    (ha : cellsMapE f a = .ok x) (hb : cellsMapE f b = .ok y) : cellsMapE f (a ++ b) = .ok (x ++ y) := by
  induction a generalizing x with
  | nil => simp [cellsMapE] at ha; subst ha; simpa using hb
  | cons c cs ih =>
    rw [cellsMapE] at ha
    cases hf : f c with
    | error e => simp [hf] at ha
    | ok v =>
      cases hr : cellsMapE f cs with
      | error e => simp [hf, hr] at ha
      | ok as =>
        simp [hf, hr] at ha
        subst ha
        simp [cellsMapE, hf, ih as hr]

/-! ### the staging buffers as the chunk of C06 -/

@[simp] theorem chunkOf_rows (r : List Nat) (vals : List Nat) (off cap n col ncols : Nat) :
    (chunkOf r vals off cap n col ncols).rows = n := rfl

theorem encFrom_of (ch : Chunk) : ∀ (rest pre : List Bytes),
    (∀ k, k ≤ (pre ++ rest).length → ch.inds[k]? = some (endOf (pre ++ rest) k)) →
    At ch.vals ch.off (pre ++ rest).flatten → ch.off + (pre ++ rest).flatten.length ≤ ch.vals.length →
    EncFrom ch pre.length pre.flatten.length rest := by
  intro rest
  induction rest with
  | nil =>
    intro pre hk _ _
    have := hk pre.length (by simp)
    simpa [EncFrom, endOf] using this
  | cons cell rest ih =>
    intro pre hk hat hlen
    have h0 := hk pre.length (by simp)
    have e0 : endOf (pre ++ cell :: rest) pre.length = pre.flatten.length := by simp [endOf]
    rw [e0] at h0
    have hfl : (pre ++ cell :: rest).flatten.length = pre.flatten.length + (cell.length + rest.flatten.length) := by
      simp
    have hatc : At ch.vals (ch.off + pre.flatten.length) cell := by
      intro k hkc
      have := hat (pre.flatten.length + k) (by rw [hfl]; omega)
      rw [← Nat.add_assoc] at this
      rw [this]
      simp only [List.flatten_append, List.flatten_cons]
      rw [List.getElem?_append_right (by omega)]
      have e : pre.flatten.length + k - pre.flatten.length = k := by omega
      rw [e, List.getElem?_append_left hkc]
    refine ⟨h0, by omega, slice_of_at hatc, ?_⟩
    have hass : (pre ++ [cell]) ++ rest = pre ++ cell :: rest := by simp
    have := ih (pre ++ [cell]) (by rw [hass]; exact hk) (by rw [hass]; exact hat) (by rw [hass]; exact hlen)
    simpa using this

/-- column `c` of staging buffers that hold the entries `E` (C05's `ColOK`, within the column's budget) is a chunk that
    `Encodes` the cells `E` in the sense of C06, for any `cap` that covers them -/
theorem encodes_of_colOK {ncols maxrow : Nat} {offs : List Nat} {inds : List (List Nat)} {vals : List Nat} {c : Nat}
    {E : List Bytes} {r : List Nat} (hsh : Shape ncols maxrow offs inds vals) (hc : c < ncols)
    (hcol : ColOK offs inds vals c E) (hr : inds[c]? = some r)
    (hcaps : offAt offs c + E.flatten.length < offAt offs (c + 1)) (cap : Nat) (hcap : E.flatten.length ≤ cap) :
    Encodes (chunkOf r vals (offAt offs c) cap E.length c inds.length) E := by
  obtain ⟨⟨r', hr', hk⟩, hat⟩ := hcol
  rw [hr] at hr'
  cases hr'
  have hle : offAt offs (c + 1) ≤ vals.length := Nat.le_trans (hsh.mono_le ncols (c + 1) (by omega) (Nat.le_refl _)) hsh.last
  have hcl : c < inds.length := (List.getElem?_eq_some_iff.mp hr).1
  refine ⟨rfl, ⟨0, ?_, ?_⟩, hcl⟩
  · have := encFrom_of (chunkOf r vals (offAt offs c) cap E.length c inds.length) E [] (by simpa [chunkOf] using hk)
      (by simpa [chunkOf] using hat)
      (by show offAt offs c + ([] ++ E).flatten.length ≤ vals.length
          rw [List.nil_append]; omega)
    simpa using this
  · rw [Nat.zero_add, ← flatten_length_eq_sum]; exact hcap

/-! ### every typed importer is an append homomorphism over cell blocks -/

theorem typedSpec_kind (k : FieldKind) (cells : List Bytes) (imp : Imp) (h : typedSpec k cells = some imp) :
    imp.kind = k := by
  cases k <;> simp only [typedSpec, Option.map_eq_some_iff, Option.some.injEq] at h
  all_goals first
    | (subst h; rfl)
    | (obtain ⟨_, _, h⟩ := h; subst h; rfl)

theorem cellOK_of_typedSpec (k : FieldKind) (cells : List Bytes) (imp : Imp) (h : typedSpec k cells = some imp) :
    ∀ cell ∈ cells, cellOK k cell := by
  intro cell hcell
  cases k with
  | categorical cats =>
    simp only [typedSpec, Option.map_eq_some_iff] at h
    obtain ⟨codes, hc, _⟩ := h
    exact (catColumn_isSome_iff cats cells).mp (by rw [hc]; rfl) cell hcell
  | bool mode invalid =>
    simp only [typedSpec, Option.map_eq_some_iff] at h
    obtain ⟨r, hr, _⟩ := h
    exact numericColumn_all_of_some _ _ _ r hr _ (List.mem_map_of_mem hcell)
  | numeric p mode it iv =>
    simp only [typedSpec, Option.map_eq_some_iff] at h
    obtain ⟨r, hr, _⟩ := h
    exact numericColumn_all_of_some _ _ _ r hr _ (List.mem_map_of_mem (List.mem_map_of_mem hcell))
  | datetime =>
    simp only [typedSpec, timeColumn, Option.map_eq_some_iff] at h
    obtain ⟨rs, hrs, _⟩ := h
    cases hm : cellsMapE datetimeCell cells with
    | error e => rw [hm] at hrs; cases hrs
    | ok rs' => exact cellsMapE_all_of_ok _ _ rs' hm cell hcell
  | date =>
    simp only [typedSpec, timeColumn, Option.map_eq_some_iff] at h
    obtain ⟨rs, hrs, _⟩ := h
    cases hm : cellsMapE dateCell cells with
    | error e => rw [hm] at hrs; cases hrs
    | ok rs' => exact cellsMapE_all_of_ok _ _ rs' hm cell hcell
  | _ => trivial

theorem typedSpec_isSome_of_cellOK (k : FieldKind) (cells : List Bytes) (h : ∀ cell ∈ cells, cellOK k cell) :
    ∃ imp, typedSpec k cells = some imp := by
  cases k with
  | bool mode invalid =>
    obtain ⟨r, hr⟩ := numericColumn_some_of_all mode invalid (cells.map boolClass)
      (by intro x hx; obtain ⟨cell, hc, rfl⟩ := List.mem_map.mp hx; exact h cell hc)
    exact ⟨_, by simp only [typedSpec, hr]; rfl⟩
  | numeric p mode it iv =>
    obtain ⟨r, hr⟩ := numericColumn_some_of_all mode iv ((cells.map rstripNul).map (classOf p.parse))
      (by
        intro x hx
        obtain ⟨t, ht, rfl⟩ := List.mem_map.mp hx
        obtain ⟨cell, hc, rfl⟩ := List.mem_map.mp ht
        exact h cell hc)
    exact ⟨_, by simp only [typedSpec, hr]; rfl⟩
  | datetime =>
    obtain ⟨rs, hrs⟩ := cellsMapE_ok_of_all datetimeCell cells h
    exact ⟨_, by simp only [typedSpec, timeColumn, hrs]; rfl⟩
  | date =>
    obtain ⟨rs, hrs⟩ := cellsMapE_ok_of_all dateCell cells h
    exact ⟨_, by simp only [typedSpec, timeColumn, hrs]; rfl⟩
  | indexed => exact ⟨_, rfl⟩
  | fixed n => exact ⟨_, rfl⟩
  | categorical cats => exact ⟨_, by simp only [typedSpec, catColumn_eq_map cats cells h]; rfl⟩
  | leaky cats => exact ⟨_, rfl⟩


theorem scanColumn_eq_leakyColumn (cats : List (Bytes × Int)) (hnd : (cats.map (·.1)).Nodup) (cells : List Bytes) :
    scanColumn (cats.mergeSort (fun a b => bytesLe a.1 b.1)) cells = leakyColumn cats cells := by
  have e1 : scanLeaky (cats.mergeSort (fun a b => bytesLe a.1 b.1)) = leakyCode cats := by
    funext cell; simp only [scanLeaky, leakyCode, scanCode_getByteMap cats hnd cell]
  have e2 : scanFree (cats.mergeSort (fun a b => bytesLe a.1 b.1)) = freeText cats := by
    funext cell; simp only [scanFree, freeText, scanCode_getByteMap cats hnd cell]
  simp only [scanColumn, leakyColumn, e1, e2]

theorem toOption_eq_some {α} {x : Except Err α} {a : α} (h : x.toOption = some a) : x = .ok a := by
  cases x with
  | error e => cases h
  | ok b => simp [Except.toOption] at h; rw [h]

/-- **every importer is an append homomorphism over cell blocks.** For importer definitions that satisfy C06's assumptions
    (`KindOK`), one `import_part` call of the importer of column `c`, which has consumed the acceptable cells `D`, on staging
    buffers whose column `c` holds the acceptable cells `E`, returns `.ok` (no subscript of a transform kernel leaves its
    array) and leaves the importer with exactly what C06 specifies for the column `D ++ E`: the accumulated offsets
    (`chunk_accumulated`, `freetext_index_accumulated`), every companion column and the main column. -/
theorem impHom_typed (ncols : Nat) (kinds : Nat → FieldKind) (hkinds : ∀ c, c < ncols → KindOK (kinds c)) :
    ImpHom ncols (typedF kinds) (fun c => cellOK (kinds c)) := by
  intro offs inds vals maxrow c D E hc hsh hcol hcaps hD hE
  obtain ⟨r, hr⟩ : ∃ r, inds[c]? = some r := by obtain ⟨⟨r, hr, _⟩, _⟩ := hcol; exact ⟨r, hr⟩
  have hgo : getE offs c "column_offsets[col_idx]" = .ok (offAt offs c) :=
    getE_eq_ok.mpr (offs_get hsh.offsLen (by omega))
  have hgo1 : getE offs (c + 1) "column_offsets[col_idx+1]" = .ok (offAt offs (c + 1)) :=
    getE_eq_ok.mpr (offs_get hsh.offsLen (by omega))
  have hle : offAt offs (c + 1) ≤ vals.length := Nat.le_trans (hsh.mono_le ncols (c + 1) (by omega) (Nat.le_refl _)) hsh.last
  have hencV := encodes_of_colOK hsh hc hcol hr hcaps vals.length (by omega)
  have hencL := encodes_of_colOK hsh hc hcol hr hcaps (offAt offs (c + 1) - offAt offs c) (by omega)
  have hKind := hkinds c hc
  replace hD : ∀ cell ∈ D, cellOK (kinds c) cell := hD
  replace hE : ∀ cell ∈ E, cellOK (kinds c) cell := hE
  unfold typedF
  generalize kinds c = k at hD hE hKind ⊢
  cases k with
  | indexed =>
    simp only [typedSpec, Option.getD_some]
    exact importPart_acc hcol (offs_get hsh.offsLen (by omega))
  | fixed n =>
    simp [typedSpec, Imp.importPart, hr, hgo, Imp.typedPart, fixedStringTransform_spec _ n E hencV]
  | categorical cats =>
    have hDE : ∀ cell ∈ D ++ E, (lookup cats cell).isSome := by
      intro cell hm
      rcases List.mem_append.mp hm with hm | hm
      · exact hD cell hm
      · exact hE cell hm
    simp [typedSpec, Imp.importPart, hr, hgo, Imp.typedPart, categoricalImportPart_spec cats hKind _ E hencV,
      catColumn_eq_map cats D hD, catColumn_eq_map cats E hE, catColumn_eq_map cats (D ++ E) hDE]
  | leaky cats =>
    have hst : ({ data := D.map (leakyCode cats), ftIndices := offsets 0 (D.map (fun c => (freeText cats c).length)),
                  ftValues := (D.map (freeText cats)).flatten,
                  acc := (D.map (fun c => (freeText cats c).length)).sum } : LeakyState) =
        scanColumn (cats.mergeSort (fun a b => bytesLe a.1 b.1)) D := by
      rw [scanColumn_eq_leakyColumn cats hKind]; rfl
    have hpart := leakyImportPart_spec (cats.mergeSort (fun a b => bytesLe a.1 b.1)) D _ E hencL
    rw [scanColumn_eq_leakyColumn cats hKind (D ++ E)] at hpart
    simp only [typedSpec, Option.getD_some, Imp.importPart, hr, hgo, hgo1, Imp.typedPart, hst, getByteMap, hpart]
    simp [leakyColumn]
  | bool mode invalid =>
    obtain ⟨rD, hrD⟩ := numericColumn_some_of_all mode invalid (D.map boolClass)
      (by intro x hx; obtain ⟨cell, hcell, rfl⟩ := List.mem_map.mp hx; exact hD cell hcell)
    obtain ⟨rE, hrE⟩ := numericColumn_some_of_all mode invalid (E.map boolClass)
      (by intro x hx; obtain ⟨cell, hcell, rfl⟩ := List.mem_map.mp hx; exact hE cell hcell)
    have happ := numericColumn_append' mode invalid _ _ rD rE hrD hrE
    have hbt := Exetera.Props.C06.bool_transform_spec (chunkOf r vals (offAt offs c) vals.length E.length c inds.length) mode invalid
      E.length E.length E hencV (Nat.le_refl _) (Nat.le_refl _)
    rw [hrE] at hbt
    simp [typedSpec, hrD, happ, Imp.importPart, hr, hgo, Imp.typedPart, chunkOf_rows, hbt]
  | numeric p mode it iv =>
    obtain ⟨rD, hrD⟩ := numericColumn_some_of_all mode iv ((D.map rstripNul).map (classOf p.parse))
      (by
        intro x hx
        obtain ⟨t, ht, rfl⟩ := List.mem_map.mp hx
        obtain ⟨cell, hcell, rfl⟩ := List.mem_map.mp ht
        exact hD cell hcell)
    obtain ⟨rE, hrE⟩ := numericColumn_some_of_all mode iv ((E.map rstripNul).map (classOf p.parse))
      (by
        intro x hx
        obtain ⟨t, ht, rfl⟩ := List.mem_map.mp hx
        obtain ⟨cell, hcell, rfl⟩ := List.mem_map.mp ht
        exact hE cell hcell)
    have happ := numericColumn_append' mode iv _ _ rD rE hrD hrE
    have htab := Exetera.Props.C06.validation_mode_table p.parse mode it iv hKind.1 hKind.2 E
    rw [hrE] at htab
    have htn := toOption_eq_some htab
    have hcells := cellsE_spec _ E hencV
    simp only [typedSpec, List.map_append, hrD, happ, Option.map_some, Option.getD_some, Imp.importPart, hr, hgo,
      Imp.typedPart, hcells, htn]
    cases mode <;> simp
  | datetime =>
    obtain ⟨rsD, hrsD⟩ := cellsMapE_ok_of_all datetimeCell D hD
    obtain ⟨rsE, hrsE⟩ := cellsMapE_ok_of_all datetimeCell E hE
    have happ := cellsMapE_append datetimeCell D E rsD rsE hrsD hrsE
    have hcells := cellsE_spec _ E hencV
    simp [typedSpec, timeColumn, hrsD, happ, Except.toOption, Imp.importPart, hr, hgo, Imp.typedPart, hcells, hrsE]
  | date =>
    obtain ⟨rsD, hrsD⟩ := cellsMapE_ok_of_all dateCell D hD
    obtain ⟨rsE, hrsE⟩ := cellsMapE_ok_of_all dateCell E hE
    have happ := cellsMapE_append dateCell D E rsD rsE hrsD hrsE
    have hcells := cellsE_spec _ E hencV
    simp [typedSpec, timeColumn, hrsD, happ, Except.toOption, Imp.importPart, hr, hgo, Imp.typedPart, hcells, hrsE]


/-- **a block that holds a rejected cell makes `import_part` raise** (no subscript out of bounds, no partial result): the
    importer of column `c`, having consumed acceptable cells `D`, on staging buffers whose column `c` holds a block `E` with
    at least one cell its validation mode rejects, returns an error — whatever else the block holds and wherever it was cut.
    For a bool column the error is `Exception` (`raiseNumericException`). -/
theorem typed_part_rejects (ncols : Nat) (kinds : Nat → FieldKind) (hkinds : ∀ c, c < ncols → KindOK (kinds c))
    (offs : List Nat) (inds : List (List Nat)) (vals : List Nat) (maxrow c : Nat) (D E : List Bytes) (hc : c < ncols)
    (hsh : Shape ncols maxrow offs inds vals) (hcol : ColOK offs inds vals c E)
    (hcaps : offAt offs c + E.flatten.length < offAt offs (c + 1))
    (hD : ∀ cell ∈ D, cellOK (kinds c) cell) (hE : ¬ ∀ cell ∈ E, cellOK (kinds c) cell) :
    ∃ e, Imp.importPart (typedF kinds c D) inds vals offs c E.length = .error e ∧
      (∀ mode invalid, kinds c = .bool mode invalid → e = .other "Exception") := by
  obtain ⟨r, hr⟩ : ∃ r, inds[c]? = some r := by obtain ⟨⟨r, hr, _⟩, _⟩ := hcol; exact ⟨r, hr⟩
  have hgo : getE offs c "column_offsets[col_idx]" = .ok (offAt offs c) :=
    getE_eq_ok.mpr (offs_get hsh.offsLen (by omega))
  have hle : offAt offs (c + 1) ≤ vals.length := Nat.le_trans (hsh.mono_le ncols (c + 1) (by omega) (Nat.le_refl _)) hsh.last
  have hencV := encodes_of_colOK hsh hc hcol hr hcaps vals.length (by omega)
  have hKind := hkinds c hc
  unfold typedF
  generalize kinds c = k at hD hE hKind ⊢
  cases k with
  | indexed => exact absurd (fun _ _ => trivial) hE
  | fixed n => exact absurd (fun _ _ => trivial) hE
  | categorical cats =>
    refine ⟨notACategory, ?_, fun _ _ h => by cases h⟩
    simp [typedSpec, Imp.importPart, hr, hgo, Imp.typedPart, categoricalImportPart_spec cats hKind _ E hencV,
      catColumn_eq_map cats D hD, catColumn_eq_none cats E hE]
  | leaky cats => exact absurd (fun _ _ => trivial) hE
  | bool mode invalid =>
    obtain ⟨rD, hrD⟩ := numericColumn_some_of_all mode invalid (D.map boolClass)
      (by intro x hx; obtain ⟨cell, hcell, rfl⟩ := List.mem_map.mp hx; exact hD cell hcell)
    have hbt := Exetera.Props.C06.bool_transform_spec (chunkOf r vals (offAt offs c) vals.length E.length c inds.length) mode invalid
      E.length E.length E hencV (Nat.le_refl _) (Nat.le_refl _)
    cases hrE : numericColumn mode invalid (E.map boolClass) with
    | some rE =>
      exfalso
      apply hE
      intro cell hcell
      exact numericColumn_all_of_some _ _ _ rE hrE _ (List.mem_map_of_mem hcell)
    | none =>
      rw [hrE] at hbt
      refine ⟨.other "Exception", ?_, fun _ _ _ => rfl⟩
      simp [typedSpec, hrD, Imp.importPart, hr, hgo, Imp.typedPart, chunkOf_rows, hbt]
  | numeric p mode it iv =>
    obtain ⟨rD, hrD⟩ := numericColumn_some_of_all mode iv ((D.map rstripNul).map (classOf p.parse))
      (by
        intro x hx
        obtain ⟨t, ht, rfl⟩ := List.mem_map.mp hx
        obtain ⟨cell, hcell, rfl⟩ := List.mem_map.mp ht
        exact hD cell hcell)
    have htab := Exetera.Props.C06.validation_mode_table p.parse mode it iv hKind.1 hKind.2 E
    have hcells := cellsE_spec _ E hencV
    cases hrE : numericColumn mode iv ((E.map rstripNul).map (classOf p.parse)) with
    | some rE =>
      exfalso
      apply hE
      intro cell hcell
      exact numericColumn_all_of_some _ _ _ rE hrE _ (List.mem_map_of_mem (List.mem_map_of_mem hcell))
    | none =>
      rw [hrE] at htab
      cases htn : transformNum p.parse mode it iv E with
      | ok x => rw [htn] at htab; simp [Except.toOption] at htab
      | error e =>
        refine ⟨e, ?_, fun _ _ h => by cases h⟩
        simp only [typedSpec, hrD, Option.map_some, Option.getD_some, Imp.importPart, hr, hgo, Imp.typedPart, hcells, htn]
  | datetime =>
    obtain ⟨rsD, hrsD⟩ := cellsMapE_ok_of_all datetimeCell D hD
    have hcells := cellsE_spec _ E hencV
    cases hm : cellsMapE datetimeCell E with
    | ok rs => exact absurd (cellsMapE_all_of_ok _ _ rs hm) hE
    | error e =>
      refine ⟨e, ?_, fun _ _ h => by cases h⟩
      simp [typedSpec, timeColumn, hrsD, Except.toOption, Imp.importPart, hr, hgo, Imp.typedPart, hcells, hm]
  | date =>
    obtain ⟨rsD, hrsD⟩ := cellsMapE_ok_of_all dateCell D hD
    have hcells := cellsE_spec _ E hencV
    cases hm : cellsMapE dateCell E with
    | ok rs => exact absurd (cellsMapE_all_of_ok _ _ rs hm) hE
    | error e =>
      refine ⟨e, ?_, fun _ _ h => by cases h⟩
      simp [typedSpec, timeColumn, hrsD, Except.toOption, Imp.importPart, hr, hgo, Imp.typedPart, hcells, hm]

end Exetera.Csv
