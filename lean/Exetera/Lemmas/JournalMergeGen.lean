import Exetera.Lemmas.JournalFor
import Exetera.Lemmas.While
import Exetera.Spec.Journal
/-!
  The three merge kernels (`merge_journalled_entries`, `merge_indexed_journalled_entries_count`,
  `merge_indexed_journalled_entries`) share one control skeleton: for every slot, copy the old rows up to the slot's old
  entry, then append the snapshot row if the slot is kept. This file proves the skeleton once, against an abstract
  "the state represents the emitted row list `R`" relation; each kernel instantiates it.
-/
namespace Exetera.Journal
open Exetera Exetera.Spec.Journal

/-! ### the slot-wise plan a merge kernel follows -/

/-- rows contributed by a slot with map entries `o`, `n` and keep flag `k` when `cur` old rows are already copied -/
def slotRows (cur : Nat) (o n : Int) (k : Bool) : List Src :=
  (List.range' cur ((o + 1).toNat - cur)).map .old ++ (if k then [.new n.toNat] else [])

def curAfter (cur : Nat) (o : Int) : Nat := max cur (o + 1).toNat

section plan
variable {κ : Type} (f1 f2 : κ → Int) (g : κ → Bool)

def kPlan : Nat → List κ → List Src
  | _, [] => []
  | cur, k :: ks => slotRows cur (f1 k) (f2 k) (g k) ++ kPlan (curAfter cur (f1 k)) ks

def kCur : Nat → List κ → Nat
  | cur, [] => cur
  | cur, k :: ks => kCur (curAfter cur (f1 k)) ks

theorem kPlan_append : ∀ (a b : List κ) (cur : Nat),
    kPlan f1 f2 g cur (a ++ b) = kPlan f1 f2 g cur a ++ kPlan f1 f2 g (kCur f1 cur a) b
  | [], b, cur => by simp [kPlan, kCur]
  | k :: a, b, cur => by simp [kPlan, kCur, kPlan_append a b]

theorem kCur_append : ∀ (a b : List κ) (cur : Nat), kCur f1 cur (a ++ b) = kCur f1 (kCur f1 cur a) b
  | [], b, cur => by simp [kCur]
  | k :: a, b, cur => by simp [kCur, kCur_append a b]

end plan

/-- the old rows `c, c+1, …, c+m-1` -/
def oldSeg {α} (oldRows : List α) (c m : Nat) : List α := (List.range' c m).filterMap (fun r => oldRows[r]?)

theorem oldSeg_succ {α} {oldRows : List α} {c m : Nat} (h : c + m < oldRows.length) :
    oldSeg oldRows c (m + 1) = oldSeg oldRows c m ++ [oldRows[c + m]] := by
  unfold oldSeg
  rw [List.range'_1_concat, List.filterMap_append]
  simp [List.getElem?_eq_getElem h]

theorem column_slotRows {α} (oldRows newRows : List α) (cur : Nat) (o n : Int) (k : Bool) :
    column (slotRows cur o n k) oldRows newRows =
      oldSeg oldRows cur ((o + 1).toNat - cur) ++ (if k then (newRows[n.toNat]?).toList else []) := by
  unfold column slotRows oldSeg
  rw [List.filterMap_append, List.filterMap_map]
  congr 1
  cases k
  · simp
  · cases h : newRows[n.toNat]? <;> simp [pick, h]

/-! ### the skeleton -/

section skeleton
variable {σ α : Type}

/-- the common loop body: `copy` is one iteration of `while cur_old <= old_map[i]`, `app n` appends snapshot row `n` -/
def genBody (cur : σ → Nat) (copy : σ → Except Err σ) (app : Int → σ → Except Err σ) (om nm : List Int) (tk : List Bool)
    (i : Nat) (s : σ) : Except Err σ :=
  match getE om i "old_map[i]" with
  | .error e => .error e
  | .ok o =>
    match whileE (fun s => decide ((cur s : Int) ≤ o)) copy (o + 1 - (cur s : Int)).toNat s with
    | .error e => .error e
    | .ok s1 =>
      match getE tk i "to_keep[i]" with
      | .error e => .error e
      | .ok k =>
        if k then
          match getE nm i "new_map[i]" with
          | .error e => .error e
          | .ok n => app n s1
        else .ok s1

variable (cur : σ → Nat) (copy : σ → Except Err σ) (app : Int → σ → Except Err σ)
  (Rep : σ → List α → Prop) (Fits : List α → Prop) (oldRows newRows : List α)
  (hfits : ∀ R R', Fits (R ++ R') → Fits R)
  (hcopy : ∀ s R, Rep s R → (h : cur s < oldRows.length) → Fits (R ++ [oldRows[cur s]]) →
      ∃ s', copy s = .ok s' ∧ cur s' = cur s + 1 ∧ Rep s' (R ++ [oldRows[cur s]]))
  (happ : ∀ s R (j : Nat), Rep s R → (h : j < newRows.length) → Fits (R ++ [newRows[j]]) →
      ∃ s', app (j : Int) s = .ok s' ∧ cur s' = cur s ∧ Rep s' (R ++ [newRows[j]]))
include hfits hcopy

/-- the inner `while cur_old <= old_map[i]` loop copies the old rows up to `o` -/
theorem copy_loop (o : Int) (s : σ) (R : List α) (hR : Rep s R) (ho : (o + 1).toNat ≤ oldRows.length)
    (hF : Fits (R ++ oldSeg oldRows (cur s) ((o + 1).toNat - cur s))) :
    ∃ s', whileE (fun s => decide ((cur s : Int) ≤ o)) copy (o + 1 - (cur s : Int)).toNat s = .ok s' ∧
      cur s' = curAfter (cur s) o ∧ Rep s' (R ++ oldSeg oldRows (cur s) ((o + 1).toNat - cur s)) := by
  obtain ⟨s', hw, ⟨h1, h2, h3⟩, hg⟩ := whileE_rule (fun s => decide ((cur s : Int) ≤ o)) copy
    (fun s' => cur s ≤ cur s' ∧ cur s' ≤ curAfter (cur s) o ∧ Rep s' (R ++ oldSeg oldRows (cur s) (cur s' - cur s)))
    (fun s' => (o + 1 - (cur s' : Int)).toNat)
    (by
      intro s' ⟨h1, h2, h3⟩ hg
      simp only [decide_eq_true_eq] at hg
      have hlt : cur s' < oldRows.length := by omega
      have hseg : oldSeg oldRows (cur s) (cur s' - cur s + 1) = oldSeg oldRows (cur s) (cur s' - cur s) ++ [oldRows[cur s']] := by
        have e : cur s + (cur s' - cur s) = cur s' := by omega
        rw [oldSeg_succ (by rw [e]; exact hlt)]
        simp [e]
      have hpre : ∃ rest, oldSeg oldRows (cur s) ((o + 1).toNat - cur s) =
          oldSeg oldRows (cur s) (cur s' - cur s + 1) ++ rest := by
        have e : (o + 1).toNat - cur s = (cur s' - cur s + 1) + ((o + 1).toNat - cur s' - 1) := by omega
        refine ⟨(List.range' (cur s + (cur s' - cur s + 1)) ((o + 1).toNat - cur s' - 1)).filterMap (fun r => oldRows[r]?), ?_⟩
        unfold oldSeg
        rw [e, ← List.filterMap_append, List.range'_append_1]
      obtain ⟨rest, hrest⟩ := hpre
      have hF' : Fits (R ++ oldSeg oldRows (cur s) (cur s' - cur s) ++ [oldRows[cur s']]) := by
        rw [hrest, hseg] at hF
        apply hfits _ rest
        simpa [List.append_assoc] using hF
      obtain ⟨s'', hc, hcur, hrep⟩ := hcopy s' _ h3 hlt hF'
      refine ⟨s'', hc, ⟨by omega, ?_, ?_⟩, by omega⟩
      · unfold curAfter at h2 ⊢; omega
      · have e : cur s'' - cur s = cur s' - cur s + 1 := by omega
        rw [e, hseg, ← List.append_assoc]; exact hrep)
    _ s ⟨Nat.le_refl _, by unfold curAfter; omega, by simpa [oldSeg] using hR⟩ (Nat.le_refl _)
  simp only [decide_eq_false_iff_not] at hg
  have hcur : cur s' = curAfter (cur s) o := by unfold curAfter at h2 ⊢; omega
  refine ⟨s', hw, hcur, ?_⟩
  have e : cur s' - cur s = (o + 1).toNat - cur s := by rw [hcur]; unfold curAfter; omega
  rw [← e]; exact h3

include happ

/-- **the skeleton theorem**: the loop over all slots emits exactly the rows of the slot-wise plan -/
theorem gen_loop {κ : Type} (ks : List κ) (f1 f2 : κ → Int) (g : κ → Bool)
    (hold : ∀ k, k ∈ ks → (f1 k + 1).toNat ≤ oldRows.length)
    (hnew : ∀ k, k ∈ ks → g k = true → 0 ≤ f2 k ∧ (f2 k).toNat < newRows.length)
    (hF : Fits (column (kPlan f1 f2 g 0 ks) oldRows newRows))
    (s₀ : σ) (h0 : Rep s₀ []) (hc0 : cur s₀ = 0) :
    ∃ s', forE (genBody cur copy app (ks.map f1) (ks.map f2) (ks.map g)) ks.length 0 s₀ = .ok s' ∧
      Rep s' (column (kPlan f1 f2 g 0 ks) oldRows newRows) ∧ cur s' = kCur f1 0 ks := by
  obtain ⟨s', hf, hI⟩ := forE_rule (genBody cur copy app (ks.map f1) (ks.map f2) (ks.map g))
    (fun i s => cur s = kCur f1 0 (ks.take i) ∧ Rep s (column (kPlan f1 f2 g 0 (ks.take i)) oldRows newRows))
    ks.length 0 s₀
    (by
      intro i s _ hi ⟨hcur, hrep⟩
      have hi : i < ks.length := by omega
      have hk : ks[i] ∈ ks := List.getElem_mem hi
      have htake : ks.take (i + 1) = ks.take i ++ [ks[i]] := List.take_succ_eq_append_getElem hi
      have hplan : kPlan f1 f2 g 0 (ks.take (i + 1)) =
          kPlan f1 f2 g 0 (ks.take i) ++ slotRows (cur s) (f1 ks[i]) (f2 ks[i]) (g ks[i]) := by
        rw [htake, kPlan_append, ← hcur]; simp [kPlan]
      have hcur' : kCur f1 0 (ks.take (i + 1)) = curAfter (cur s) (f1 ks[i]) := by
        rw [htake, kCur_append, ← hcur]; simp [kCur]
      -- the rows after this slot are a prefix of the final rows
      have hpre : ∃ rest, column (kPlan f1 f2 g 0 ks) oldRows newRows =
          column (kPlan f1 f2 g 0 (ks.take (i + 1))) oldRows newRows ++ rest := by
        refine ⟨column (kPlan f1 f2 g (kCur f1 0 (ks.take (i + 1))) (ks.drop (i + 1))) oldRows newRows, ?_⟩
        conv => lhs; rw [← List.take_append_drop (i + 1) ks, kPlan_append]
        unfold column; rw [List.filterMap_append]
      obtain ⟨rest, hrest⟩ := hpre
      have hF1 : Fits (column (kPlan f1 f2 g 0 (ks.take (i + 1))) oldRows newRows) := by
        rw [hrest] at hF; exact hfits _ _ hF
      have hcol : column (kPlan f1 f2 g 0 (ks.take (i + 1))) oldRows newRows =
          column (kPlan f1 f2 g 0 (ks.take i)) oldRows newRows ++
            oldSeg oldRows (cur s) ((f1 ks[i] + 1).toNat - cur s) ++
            (if g ks[i] then (newRows[(f2 ks[i]).toNat]?).toList else []) := by
        rw [hplan]; unfold column; rw [List.filterMap_append]
        have := column_slotRows oldRows newRows (cur s) (f1 ks[i]) (f2 ks[i]) (g ks[i])
        unfold column at this; rw [this, List.append_assoc]
      rw [hcol] at hF1
      obtain ⟨s1, hw, hcur1, hrep1⟩ := copy_loop cur copy Rep Fits oldRows hfits hcopy (f1 ks[i]) s _ hrep (hold _ hk)
        (hfits _ _ hF1)
      have hgo : getE (ks.map f1) i "old_map[i]" = .ok (f1 ks[i]) := by
        rw [getE_eq_ok]; simp [List.getElem?_eq_getElem hi]
      have hgn : getE (ks.map f2) i "new_map[i]" = .ok (f2 ks[i]) := by
        rw [getE_eq_ok]; simp [List.getElem?_eq_getElem hi]
      have hgk : getE (ks.map g) i "to_keep[i]" = .ok (g ks[i]) := by
        rw [getE_eq_ok]; simp [List.getElem?_eq_getElem hi]
      simp only [genBody, hgo, hw, hgk, hgn]
      cases hg : g ks[i] with
      | false =>
        refine ⟨s1, by simp, ?_, ?_⟩
        · rw [hcur', hcur1]
        · rw [hcol, hg]; simpa using hrep1
      | true =>
        obtain ⟨hnn, hlt⟩ := hnew _ hk hg
        rw [hg] at hF1
        simp only [if_true, List.getElem?_eq_getElem hlt, Option.toList] at hF1
        obtain ⟨s2, ha, hcur2, hrep2⟩ := happ s1 _ (f2 ks[i]).toNat hrep1 hlt hF1
        rw [Int.toNat_of_nonneg hnn] at ha
        refine ⟨s2, by simpa using ha, ?_, ?_⟩
        · rw [hcur', hcur2, hcur1]
        · rw [hcol, hg]
          simp only [if_true, List.getElem?_eq_getElem hlt, Option.toList]
          exact hrep2)
    ⟨by simp [kCur, hc0], by simpa [kPlan, column] using h0⟩
  simp only [Nat.zero_add, List.take_length] at hI
  exact ⟨s', hf, hI.2, hI.1⟩

end skeleton

end Exetera.Journal
