/-!
  Specification of C09: filter, re-index and sort on rows.

  A column is a list of entries (numbers, or byte strings for indexed string fields); a frame is a list of columns of
  equal length. The three operations are defined on ONE list; a frame operation applies the same one to every column, so
  rows stay aligned by construction of the spec.
-/
namespace Exetera.Spec

/-- keep exactly the entries whose flag is set, in order (`xs[flags]` for equally long `flags`) -/
def filterBy {α} : List Bool → List α → List α
  | b :: bs, x :: xs => if b then x :: filterBy bs xs else filterBy bs xs
  | _, _ => []

/-- numpy subscript normalisation: `-n ≤ i < n`, negative values count from the end -/
def wrapIdx (n : Nat) (i : Int) : Option Nat :=
  if 0 ≤ i then (if i.toNat < n then some i.toNat else none)
  else if (-i).toNat ≤ n then some (n - (-i).toNat) else none

/-- entry addressed by the (possibly negative) subscript `i` -/
def rowAt {α} (xs : List α) (i : Int) : Option α :=
  match wrapIdx xs.length i with
  | some k => xs[k]?
  | none => none

/-- destination entry `j` = source entry `idx[j]`; `none` when some subscript is out of range -/
def gather {α} (xs : List α) : List Int → Option (List α)
  | [] => some []
  | i :: is =>
    match rowAt xs i, gather xs is with
    | some x, some r => some (x :: r)
    | _, _ => none

/-- `gather` for subscripts already known to be natural numbers in range -/
def gatherNat {α} (xs : List α) (idx : List Nat) : List α := idx.filterMap (xs[·]?)

/-! ### storage of an indexed string column: offsetsF + concatenated bytes -/

/-- `[s, s+|e₀|, s+|e₀|+|e₁|, …]` -/
def offsetsFromF {α} (s : Nat) : List (List α) → List Nat
  | [] => [s]
  | e :: es => s :: offsetsFromF (s + e.length) es

/-- the `index` array of an indexed string field holding the entries `es` -/
def offsetsF {α} (es : List (List α)) : List Nat := offsetsFromF 0 es

/-! ### columns and frames, independent of how they are stored -/

/-- what a column holds: numbers (numeric, categorical, timestamp, fixed string fields) or byte strings (indexed strings) -/
inductive Column where
  | nums (xs : List Int)
  | strs (es : List (List Nat))
  deriving DecidableEq, Repr

def Column.length : Column → Nat
  | .nums xs => xs.length
  | .strs es => es.length

/-- `apply_filter`: defined when the filter has one flag per row -/
def Column.filter (bs : List Bool) : Column → Option Column
  | .nums xs => if bs.length = xs.length then some (.nums (filterBy bs xs)) else none
  | .strs es => if bs.length = es.length then some (.strs (filterBy bs es)) else none

/-- `apply_index`: defined when every subscript addresses a row -/
def Column.gather (idx : List Int) : Column → Option Column
  | .nums xs => (Spec.gather xs idx).map .nums
  | .strs es => (Spec.gather es idx).map .strs

/-- a column of a frame: name, the metadata `create_like` copies (type `μ`), content -/
structure ColSpec (μ : Type) where
  name : String
  info : μ
  content : Column

/-- apply ONE row operation `g` to every column (this is what keeps rows aligned); undefined if it is undefined for any column -/
def mapCols {μ} (g : Column → Option Column) : List (ColSpec μ) → Option (List (ColSpec μ))
  | [] => some []
  | c :: cs =>
    match g c.content, mapCols g cs with
    | some x, some r => some ({ c with content := x } :: r)
    | _, _ => none

/-- the key columns named by `by_` (most significant first): each must exist and hold numbers -/
def keyCols {μ} (cols : List (ColSpec μ)) : List String → Option (List (List Int))
  | [] => some []
  | k :: ks =>
    match cols.find? (fun c => c.name == k) with
    | some c =>
      match c.content, keyCols cols ks with
      | .nums xs, some r => some (xs :: r)
      | _, _ => none
    | none => none

/-! ### sorting: the stable permutation ordering the key tuples lexicographically -/

/-- lexicographic `≤` on key tuples -/
def lexLE : List Int → List Int → Bool
  | [], _ => true
  | _ :: _, [] => false
  | a :: as, b :: bs => decide (a < b) || (a == b && lexLE as bs)

/-- the key tuple of row `i` (one component per key column, most significant first) -/
def keyRow (keys : List (List Int)) (i : Nat) : List Int := keys.filterMap (·[i]?)

/-- the sort permutation of `n` rows: row numbers `0..n-1` stably sorted by their key tuples
    (`List.mergeSort` is stable: rows with equal tuples keep their original relative order) -/
def sortPerm (keys : List (List Int)) (n : Nat) : List Nat :=
  (List.range n).mergeSort (fun i j => lexLE (keyRow keys i) (keyRow keys j))

/-- the same statement without reference to an algorithm: `p` lists every row once, in increasing order of
    (key tuple, original row number) -/
def IsStableSortPerm (keys : List (List Int)) (n : Nat) (p : List Nat) : Prop :=
  p.Perm (List.range n) ∧
  p.Pairwise (fun i j => lexLE (keyRow keys i) (keyRow keys j) = true ∧
    (lexLE (keyRow keys j) (keyRow keys i) = true → i < j))

end Exetera.Spec
