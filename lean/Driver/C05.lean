import Driver.Util
import Driver.C06
import Exetera.Model.Csv
open Lean Exetera Exetera.Csv
namespace Driver.C05

def mat (m : List (List Nat)) : Json := Json.arr (m.map Driver.nats).toArray

/-- the `int32` column of the older `csv_import` cases: `Numeric('int32')`, allow_empty, invalid value 0 -/
def int32Kind : FieldKind :=
  .numeric (.intRange (-2147483648) 2147483647) .allowEmpty [48] (.int 0)

/-- an importer definition: the legacy spellings of `csv_import` (`indexed`, `fixed`, `int`) and the C06 column descriptors
    of `csv_typed` (`categorical`, `leaky`, `bool`, `int` with dtype range, `float` with its parse table, `datetime`, `date`) -/
def kindOfJson (j : Json) : Except String FieldKind := do
  let k ← j.getObjValAs? String "kind"
  match k with
  | "indexed" => pure .indexed
  | "fixed" =>
    let n ← (j.getObjValAs? Nat "n" <|> j.getObjValAs? Nat "strlen")
    pure (.fixed n)
  | "categorical" => pure (.categorical (← Driver.C06.getCats j))
  | "leaky" => pure (.leaky (← Driver.C06.getCats j))
  | "bool" =>
    let mode ← Driver.C06.modeOf (← j.getObjValAs? String "mode")
    pure (.bool mode (← j.getObjValAs? Bool "invalid_truth"))
  | "int" =>
    match j.getObjValAs? String "mode" with
    | .error _ => pure int32Kind
    | .ok m =>
      let mode ← Driver.C06.modeOf m
      let lo ← j.getObjValAs? Int "lo"
      let hi ← j.getObjValAs? Int "hi"
      let it ← Driver.C06.unhex (← j.getObjValAs? String "invalid_text")
      let iv ← j.getObjValAs? Int "invalid_val"
      pure (.numeric (.intRange lo hi) mode it (.int iv))
  | "float" =>
    let mode ← Driver.C06.modeOf (← j.getObjValAs? String "mode")
    let it ← Driver.C06.unhex (← j.getObjValAs? String "invalid_text")
    let iv ← j.getObjValAs? String "invalid_val"
    let pt ← Driver.C06.getPTable j
    pure (.numeric (.table pt) mode it (.tok iv))
  | "datetime" => pure .datetime
  | "date" => pure .date
  | _ => throw s!"bad kind {k}"

def numJson : NumVal → Json
  | .int v => Json.num (JsonNumber.fromInt v)
  | .tok s => Json.str s

/-- rows of `n` bytes of a flat `S<n>` buffer -/
def rowsOf (n : Nat) (d : List Nat) : Nat → List (List Nat)
  | 0 => []
  | k + 1 => if d.isEmpty || n == 0 then [] else d.take n :: rowsOf n (d.drop n) k

def impJson (i : Imp) : Json :=
  match i.kind with
  | .indexed => Json.mkObj [("idx", Driver.nats i.idx), ("vals", Driver.nats i.vals)]
  -- (the harness reads an `S<n>` element back as `bytes`: numpy drops the trailing NULs)
  | .fixed n => Json.mkObj [("rows", Json.arr ((rowsOf n i.data i.data.length).map
      (fun r => Driver.nats (Exetera.Transforms.rstripNul r))).toArray)]
  | .numeric _ _ _ _ => Json.mkObj [("nums", Json.arr (i.nums.map numJson).toArray), ("valids", toJson i.valids)]
  | _ => Json.null

/-- a destination field in the shape `checks/harness/c06.py` compares (`cmp_col`) -/
def typedJson (i : Imp) : Json :=
  match i.kind with
  | .indexed => Json.mkObj [("idx", Driver.nats i.idx), ("vals", Driver.nats i.vals)]
  | .fixed _ => Json.mkObj [("data", Json.str (Driver.C06.toHex i.data))]
  | .categorical _ => Json.mkObj [("data", Driver.ints i.codes)]
  | .leaky _ => Json.mkObj [("data", Driver.ints i.codes), ("ft_indices", Driver.nats i.idx),
                             ("ft_values", Json.str (Driver.C06.toHex i.vals))]
  | .bool _ _ => Json.mkObj [("data", Driver.C06.bools i.bools), ("valid", Driver.C06.bools i.valids)]
  | .numeric _ _ _ _ => Json.mkObj [("data", Json.arr (i.nums.map numJson).toArray), ("valid", Driver.C06.bools i.valids)]
  | .datetime => Json.mkObj [("ts", Driver.ints i.codes), ("day", Json.arr (i.days.map (fun d => Json.str (Driver.C06.toHex d))).toArray),
                             ("set", Driver.C06.bools i.valids)]
  | .date => Json.mkObj [("ts", Driver.ints i.codes), ("day", Json.arr (i.days.map (fun d => Json.str (Driver.C06.toHex d))).toArray),
                         ("set", Driver.C06.bools i.valids)]

def optList (j : Json) (k : String) : Except String (Option (List String)) :=
  match j.getObjVal? k with
  | .ok Json.null => pure none
  | .ok v => do let l ← fromJson? (α := List String) v; pure (some l)
  | .error _ => pure none

/-- which full flag every kernel call of the driver loop returned (0 none, 1 `is_column_inds_full`, 2 `is_column_vals_full`):
    a replay of the model's own `driverStep` from the state `readFile` starts in; coverage / correspondence glue only -/
def flagTrace (file : List Nat) (w ncols : Nat) (im : List Nat) : Nat → DS → List Nat
  | 0, _ => []
  | n + 1, s =>
    if decide (s.ci < file.length) && !s.stop then
      match driverStep file w ncols im s with
      | .ok s' =>
        if s'.stop then [] else (if s'.indsFull then 1 else if s'.valsFull then 2 else 0) :: flagTrace file w ncols im n s'
      | .error _ => []
    else []

def flagsOf (file : List Nat) (crs ncols : Nat) (offs im : List Nat) (imps : List Imp) (fuel : Nat) : List Nat :=
  let crs2 := crs * Gen.Csv.CHUNK_ROW_FACTOR
  let s0 : DS := { ci := 0, hasHeader := true, rows := 0, inds := zeros2 ncols (crs2 + 1), vals := List.replicate (offs.getLastD 0) 0, offs := offs, indsFull := false, valsFull := false, content := [], start := 0, imps := imps, calls := [], stop := false }
  flagTrace file (crs2 * ncols) ncols im fuel s0

def handle : Driver.Handler := fun op j =>
  match op with
  | "csv_kernel" => some do
    let src ← Driver.get? (List Nat) j "src"
    let start ← Driver.get? Nat j "start"
    let inds ← Driver.get? (List (List Nat)) j "inds"
    let vals ← Driver.get? (List Nat) j "vals"
    let offs ← Driver.get? (List Nat) j "offs"
    let hh ← Driver.get? Bool j "has_header"
    pure <| Driver.outE (fun (o : KOut) =>
      Json.mkObj [("next", toJson o.nextPos), ("written", toJson o.written), ("inds_full", toJson o.indsFull),
                  ("vals_full", toJson o.valsFull), ("vfc", match o.vfc with | none => toJson (-1 : Int) | some c => toJson c),
                  ("inds", mat o.inds), ("vals", Driver.nats o.vals)])
      (fastCsvReader src start inds vals offs hh)
  | "csv_driver" => some do
    let file ← Driver.get? (List Nat) j "file"
    let crs ← Driver.get? Nat j "crs"
    let ncols ← Driver.get? Nat j "ncols"
    let offs ← Driver.get? (List Nat) j "offs"
    let im ← Driver.get? (List Nat) j "index_map"
    let fuel ← Driver.get? Nat j "fuel"
    let imps := im.map (fun _ => ({ kind := .indexed } : Imp))
    pure <| Driver.outE (fun (o : DOut) =>
      Json.mkObj [("rows", toJson o.rows), ("calls", toJson o.calls), ("cols", Json.arr (o.imps.map impJson).toArray),
                  ("flags", toJson (flagsOf file crs ncols offs im imps fuel))])
      (readFile file crs ncols offs im imps fuel)
  | "csv_import" => some do
    let file ← Driver.get? (List Nat) j "file"
    let names ← Driver.get? (List String) j "names"
    let crs ← Driver.get? Nat j "crs"
    let fuel ← Driver.get? Nat j "fuel"
    let sj ← Driver.get? (List Json) j "schema"
    let schema ← sj.mapM (fun e => do
      let n ← e.getObjValAs? String "name"
      let k ← kindOfJson e
      pure (n, k))
    let incl ← optList j "include"
    let excl ← optList j "exclude"
    pure <| Driver.outE (fun (o : COut) =>
      Json.mkObj [("rows", toJson o.rows),
                  ("fields", Json.mkObj (o.fields.map (fun f => (f.name, impJson f.imp))))])
      (readCsv file names schema incl excl crs fuel)
  | "csv_typed" => some do
    -- the composed model: the CSV driver feeding the C06 importer models, one `import_part` per kernel call
    let file ← Driver.get? (List Nat) j "file"
    let names ← Driver.get? (List String) j "names"
    let crs ← Driver.get? Nat j "crs"
    let fuel ← Driver.get? Nat j "fuel"
    let sj ← Driver.get? (List Json) j "schema"
    let schema ← sj.mapM (fun e => do
      let n ← e.getObjValAs? String "name"
      let k ← kindOfJson e
      pure (n, k))
    let incl ← optList j "include"
    let excl ← optList j "exclude"
    -- coverage only: the full flag of every kernel call of this run (what `readCsv` passes to `readFile`, replayed)
    let use := fieldsToUse names incl excl
    let offs := columnOffsets (names.map (fun k => (kindOf schema k).fieldSize)) crs
    let im := use.map (fun k => names.idxOf k)
    let flags := flagsOf file crs names.length offs im (use.map (fun k => ({ kind := kindOf schema k } : Imp))) fuel
    -- finding NC06d (as found, a categorical column without free text stored 0 for a cell that is no category): the harness
    -- may send `schema_asfound`, the same schema with such cells listed as categories of value 0 — on which the model WITH
    -- the fix computes what the code as found computed; its result is reported under `asfound` (accepted by the harness
    -- only while NC06d is listed open)
    let asfound : List (String × Json) ← match j.getObjVal? "schema_asfound" with
      | .error _ => pure []
      | .ok v => do
        let sj' ← fromJson? (α := List Json) v
        let schema' ← sj'.mapM (fun e => do
          let n ← e.getObjValAs? String "name"
          let k ← kindOfJson e
          pure (n, k))
        pure [("asfound", match readCsv file names schema' incl excl crs fuel with
          | .ok o => Driver.okJson <| Json.mkObj [("rows", toJson o.rows), ("order", toJson (o.fields.map (·.name))),
              ("fields", Json.mkObj (o.fields.map (fun f => (f.name, typedJson f.imp))))]
          | .error e => Json.mkObj [("err", Json.str e.tag)])]
    match readCsv file names schema incl excl crs fuel with
    | .ok o =>
      pure <| Json.mkObj ([("ok",
        Json.mkObj [("rows", toJson o.rows), ("order", toJson (o.fields.map (·.name))),
                    ("fields", Json.mkObj (o.fields.map (fun f => (f.name, typedJson f.imp)))), ("flags", toJson flags)])]
        ++ asfound)
    | .error e =>
      -- the import raises. Oracle / coverage glue for the harness (`Reported` of Props/C0506.lean): the kernel blocks of this
      -- run — `written_row_count` and full flag of every kernel call — are those of the same driver with the same budgets
      -- and importers that reject nothing (indexed strings); the harness locates the first block with a rejected cell in it
      let plain := use.map (fun _ => ({ kind := .indexed } : Imp))
      let blocks : Json := match readFile file crs names.length offs im plain fuel with
        | .ok r => toJson r.calls
        | .error _ => Json.null
      pure <| Json.mkObj ([("err", Json.str e.tag), ("calls", blocks),
                          ("flags", toJson (flagsOf file crs names.length offs im plain fuel))] ++ asfound)
  | _ => none

end Driver.C05
