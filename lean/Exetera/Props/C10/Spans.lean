import Exetera.Props.C08
import Exetera.Props.C10.Basic
import Exetera.Model.KernelSitesSpans
import Exetera.Model.KernelPathsSpans
/-!
# C10 — the span kernels (owning property: C08)

`no_oob_*`: for every input the owning C08 theorem calls valid (hypotheses repeated verbatim) and every site, the model run
is not `.error (.oob site)`. All statements are about the code with the `fix:` patches applied (`Variant.repaired`).
-/
namespace Exetera.Props.C10
open Exetera Exetera.Spans Exetera.Spec

theorem access_sites_covered_spans : ∀ k ∈ KernelSites.spansSites, lookup k.1 = some k := by decide +kernel

/-- the PATH CONDITION of every subscript occurrence in these kernels (enclosing loop guards, `if` / `elif` tests, negated
    `else` branches and early exits), as regenerated from the current source (`Gen/KernelPaths.lean`), is exactly the one the
    model was written against (`Model/KernelPathsSpans.lean`): dropping or changing a test that dominates a subscript breaks
    the build; and the table covers exactly the kernels of the site table -/
theorem access_paths_covered_spans :
    (∀ k ∈ KernelPaths.spansPaths, lookupPaths k.1 = some k) ∧
    KernelPaths.spansPaths.map (·.1) = KernelSites.spansSites.map (·.1) := by decide +kernel

example : KernelSites.spansSites.length = 19 := by decide

/-! ## span detection -/

/-- `_get_spans_for_2_fields` / `_get_spans_for_2_fields_njit` on two columns of equal length (including length 0): the
    `len + 1`-sized span buffer is never overrun, whatever the number of boundaries -/
theorem no_oob_get_spans_2_fields (a b : List Int) (hl : a.length = b.length) (site : String) :
    getSpansFor2Fields .repaired a b ≠ .error (.oob site) :=
  ne_oob_of_ok (C08.get_spans_2_fields_eq_spec a b hl) site

/-- `_get_spans_for_multi_fields(_njit)` on ≥ 1 columns of equal length -/
theorem no_oob_get_spans_multi_fields (f0 : List Int) (fs : List (List Int))
    (hf : ∀ f ∈ f0 :: fs, f.length = f0.length) (site : String) :
    getSpansForMultiFields .repaired (f0 :: fs) ≠ .error (.oob site) :=
  ne_oob_of_ok (C08.get_spans_multi_fields_eq_spec f0 fs hf) site

/-- `_get_spans_for_index_string_field` on a well-formed index -/
theorem no_oob_get_spans_indexed (indices values : List Nat) (hv : ValidIndex indices values) (site : String) :
    getSpansForIndexStringField .repaired indices values ≠ .error (.oob site) :=
  ne_oob_of_ok (C08.get_spans_indexed_eq_spec indices values hv) site

/-- `_get_spans_for_2_fields_by_spans` on two well-formed span arrays over the same row count: the unbounded inner
    `while span1[j] < span0[i]` never runs past the end of `span1` -/
theorem no_oob_get_spans_by_spans (s0 s1 : List Nat) (n : Nat) (h0 : Wellformed s0 n) (h1 : Wellformed s1 n)
    (site : String) : getSpansFor2FieldsBySpans s0 s1 ≠ .error (.oob site) :=
  ne_oob_of_exists (C08.merge_spans_eq_union s0 s1 n h0 h1) site

example : Wellformed [0, 1, 3, 4] 4 ∧ Wellformed [0, 2, 4] 4 := ⟨⟨by decide, rfl, rfl⟩, ⟨by decide, rfl, rfl⟩⟩
example : getSpansFor2FieldsBySpans [0, 1, 3, 4] [0, 2, 4] = .ok [0, 1, 2, 3, 4] := rfl
/-- the error branch is real: span arrays over different row counts read `span1` past its end -/
example : getSpansFor2FieldsBySpans [0, 5] [0, 2] = .error (.oob "span1[j]") := rfl

/-- `Session.get_spans(fields=…)` for any number ≥ 1 of valid Fields of equal row count (since fix NC08d all fields are
    folded through `_get_spans_for_2_fields_by_spans`) -/
theorem no_oob_session_get_spans_fields (c0 : Column) (cs : List Column) (hv : ∀ c ∈ c0 :: cs, c.Valid)
    (hl : ∀ c ∈ cs, c.rows.length = c0.rows.length) (site : String) :
    sessionGetSpansFields .repaired (c0 :: cs) ≠ .error (.oob site) :=
  ne_oob_of_ok (C08.session_get_spans_fields_eq_spec c0 cs hv hl) site

/-- the same for ndarray arguments of equal length -/
theorem no_oob_session_get_spans_arrays (a0 : List Int) (as : List (List Int)) (hl : ∀ a ∈ as, a.length = a0.length)
    (site : String) : sessionGetSpansArrays .repaired (a0 :: as) ≠ .error (.oob site) :=
  ne_oob_of_ok (C08.session_get_spans_arrays_eq_spec a0 as hl) site

example : sessionGetSpansFields .repaired
    [.numeric [1, 1, 2, 2], .fixed [[97], [97], [98], [98]], .indexed [0, 1, 2, 3, 5] [120, 121, 121, 122, 122]] =
    .ok [0, 1, 2, 3, 4] := rfl

/-! ## apply_spans_* -/

/-- the kernels that read only `spans`: no out-of-bounds access for ANY span array (an empty one is numpy's
    "negative dimensions" ValueError) -/
theorem no_oob_apply_spans_count (sp : List Nat) (site : String) : applySpansCount sp ≠ .error (.oob site) := by
  unfold applySpansCount forSpans
  split
  · intro h; cases h
  · exact ne_oob_of_ok (forPairs_total (fun c n => (n : Int) - c) sp) site

theorem no_oob_apply_spans_index_of_first (sp : List Nat) (site : String) :
    applySpansIndexOfFirst sp ≠ .error (.oob site) := by
  unfold applySpansIndexOfFirst forSpans
  split
  · intro h; cases h
  · exact ne_oob_of_ok (forPairs_total (fun c _ => (c : Int)) sp) site

theorem no_oob_apply_spans_index_of_last (sp : List Nat) (site : String) :
    applySpansIndexOfLast sp ≠ .error (.oob site) := by
  unfold applySpansIndexOfLast forSpans
  split
  · intro h; cases h
  · exact ne_oob_of_ok (forPairs_total (fun _ n => (n : Int) - 1) sp) site

example : applySpansCount [0, 2, 3] = .ok [2, 1] := rfl

/-- the kernels that read `src_array` through the spans: well-formed spans over the column's row count -/
theorem no_oob_apply_spans_first (sp : List Nat) (src : List Int) (h : Wellformed sp src.length) (site : String) :
    applySpansFirst sp src ≠ .error (.oob site) := ne_oob_of_exists (C08.apply_spans_first_eq sp src h) site

theorem no_oob_apply_spans_last (sp : List Nat) (src : List Int) (h : Wellformed sp src.length) (site : String) :
    applySpansLast sp src ≠ .error (.oob site) := ne_oob_of_exists (C08.apply_spans_last_eq sp src h) site

theorem no_oob_apply_spans_min (sp : List Nat) (src : List Int) (h : Wellformed sp src.length) (site : String) :
    applySpansMin sp src ≠ .error (.oob site) := ne_oob_of_exists (C08.apply_spans_min_eq sp src h) site

theorem no_oob_apply_spans_max (sp : List Nat) (src : List Int) (h : Wellformed sp src.length) (site : String) :
    applySpansMax sp src ≠ .error (.oob site) := ne_oob_of_exists (C08.apply_spans_max_eq sp src h) site

theorem no_oob_apply_spans_index_of_min (sp : List Nat) (src : List Int) (h : Wellformed sp src.length) (site : String) :
    applySpansIndexOfMin sp src ≠ .error (.oob site) := ne_oob_of_exists (C08.apply_spans_index_of_min_eq sp src h) site

theorem no_oob_apply_spans_index_of_max (sp : List Nat) (src : List Int) (h : Wellformed sp src.length) (site : String) :
    applySpansIndexOfMax sp src ≠ .error (.oob site) := ne_oob_of_exists (C08.apply_spans_index_of_max_eq sp src h) site

example : Wellformed [0, 2, 5] [3, 1, 4, 1, (5 : Int)].length := ⟨by decide, rfl, rfl⟩
example : applySpansMax [0, 2, 5] [3, 1, 4, 1, 5] = .ok [3, 5] := rfl
/-- the error branch is real: spans that end beyond the column -/
example : applySpansMax [0, 2, 6] [3, 1, 4, 1, 5] = .error (.oob "src_array[idx]") := rfl

/-- the indexed-string kernels: well-formed index, well-formed spans over its rows -/
theorem no_oob_apply_spans_index_of_min_indexed (sp indices values : List Nat) (hv : ValidIndex indices values)
    (h : Wellformed sp (indices.length - 1)) (site : String) :
    applySpansIndexOfMinIndexed .repaired sp indices values ≠ .error (.oob site) :=
  ne_oob_of_exists (C08.apply_spans_index_of_min_indexed_eq sp indices values hv h) site

theorem no_oob_apply_spans_index_of_max_indexed (sp indices values : List Nat) (hv : ValidIndex indices values)
    (h : Wellformed sp (indices.length - 1)) (site : String) :
    applySpansIndexOfMaxIndexed sp indices values ≠ .error (.oob site) :=
  ne_oob_of_exists (C08.apply_spans_index_of_max_indexed_eq sp indices values hv h) site

example : applySpansIndexOfMinIndexed .repaired [0, 4] [0, 1, 3, 4, 5] [98, 97, 98, 97, 97] = .ok [2] := rfl

/-! ## the `_filter` forms write into caller-supplied buffers -/

/-- `apply_spans_index_of_min_filter` / `…_max_filter`: spans (possibly empty ones) inside the column, one slot per span
    in both buffers -/
theorem no_oob_apply_spans_index_of_min_filter (sp : List Nat) (src dest : List Int) (filt : List Bool)
    (hw : C08.WeakSpans sp src.length) (hd : (pairs sp).length ≤ dest.length) (hf : (pairs sp).length ≤ filt.length)
    (site : String) : applySpansIndexOfMinFilter sp src dest filt ≠ .error (.oob site) := by
  obtain ⟨d, f, h, _⟩ := C08.apply_spans_index_of_min_filter_eq sp src dest filt hw hd hf
  exact ne_oob_of_ok h site

theorem no_oob_apply_spans_index_of_max_filter (sp : List Nat) (src dest : List Int) (filt : List Bool)
    (hw : C08.WeakSpans sp src.length) (hd : (pairs sp).length ≤ dest.length) (hf : (pairs sp).length ≤ filt.length)
    (site : String) : applySpansIndexOfMaxFilter sp src dest filt ≠ .error (.oob site) := by
  obtain ⟨d, f, h, _⟩ := C08.apply_spans_index_of_max_filter_eq sp src dest filt hw hd hf
  exact ne_oob_of_ok h site

/-- `apply_spans_index_of_first_filter` / `…_last_filter`: ANY span array, one slot per span in both buffers -/
theorem no_oob_apply_spans_index_of_first_filter (sp : List Nat) (dest : List Int) (filt : List Bool)
    (hd : (pairs sp).length ≤ dest.length) (hf : (pairs sp).length ≤ filt.length) (site : String) :
    applySpansIndexOfFirstFilter sp dest filt ≠ .error (.oob site) := by
  obtain ⟨d, f, h, _⟩ := C08.apply_spans_index_of_first_filter_eq sp dest filt hd hf
  exact ne_oob_of_ok h site

theorem no_oob_apply_spans_index_of_last_filter (sp : List Nat) (dest : List Int) (filt : List Bool)
    (hd : (pairs sp).length ≤ dest.length) (hf : (pairs sp).length ≤ filt.length) (site : String) :
    applySpansIndexOfLastFilter sp dest filt ≠ .error (.oob site) := by
  obtain ⟨d, f, h, _⟩ := C08.apply_spans_index_of_last_filter_eq sp dest filt hd hf
  exact ne_oob_of_ok h site

example : applySpansIndexOfMinFilter [0, 0, 2, 3] [5, 4, 9] [7, 7, 7] [false, false, false] =
    .ok ([7, 1, 2], [false, true, true]) := rfl
/-- the error branch is real: a filter buffer with fewer slots than spans -/
example : applySpansIndexOfFirstFilter [0, 1, 2] [7, 7] [false] = .error (.oob "filter_array[i]") := rfl

end Exetera.Props.C10
