import Exetera.Gen.Kernels
import Exetera.Lemmas.GenKernels
import Exetera.Lemmas.GenKernelsSpans
/-!
  The TRANSLATED `apply_spans_index_of_first / _last / _min / _max` refine the hand-written models of `Model/Spans.lean`.
-/
namespace Exetera.GenK

open Exetera Exetera.PyRt Exetera.Spans Exetera.Gen.Kernels

/-! ### index_of_first / index_of_last: pure slice arithmetic -/

theorem forPairs_first : ∀ sp : List Nat, forPairs (fun cur _ => .ok (cur : Int)) sp = .ok (ints sp.dropLast)
  | [] => rfl
  | [_] => rfl
  | a :: b :: rest => by
    simp only [forPairs, forPairs_first (b :: rest), consE_ok, List.dropLast_cons_cons, ints, List.map_cons]
    rfl

theorem forPairs_last : ∀ sp : List Nat,
    forPairs (fun _ next => .ok ((next : Int) - 1)) sp = .ok ((ints sp.tail).map (· - 1))
  | [] => rfl
  | [_] => rfl
  | a :: b :: rest => by
    have ih := forPairs_last (b :: rest)
    simp only [List.tail_cons] at ih
    simp only [forPairs, ih, consE_ok, List.tail_cons, ints, List.map_cons]
    rfl

theorem apply_spans_index_of_first_refines (sp : List Nat) :
    Sim (apply_spans_index_of_first.run (ints sp) none) (applySpansIndexOfFirst sp) := by
  unfold apply_spans_index_of_first.run applySpansIndexOfFirst forSpans
  cases sp with
  | nil => simp [pyLen, npZeros, Sim]
  | cons a t =>
    have hlen : (pyLen (ints (a :: t)) - 1) = ((t.length : Nat) : Int) := by simp [pyLen]
    simp only [hlen, npZeros_nat, bindE_ok, List.isEmpty_cons, Bool.false_eq_true, if_false, pySlice_dropLast,
      forPairs_first]
    have hd : (ints (a :: t)).dropLast = ints (a :: t).dropLast := by simp [ints, List.map_dropLast]
    rw [hd, setSliceE_all _ _ (by simp)]
    simp [Sim]

theorem apply_spans_index_of_last_refines (sp : List Nat) :
    Sim (apply_spans_index_of_last.run (ints sp) none) (applySpansIndexOfLast sp) := by
  unfold apply_spans_index_of_last.run applySpansIndexOfLast forSpans
  cases sp with
  | nil => simp [pyLen, npZeros, Sim]
  | cons a t =>
    have hlen : (pyLen (ints (a :: t)) - 1) = ((t.length : Nat) : Int) := by simp [pyLen]
    simp only [hlen, npZeros_nat, bindE_ok, List.isEmpty_cons, Bool.false_eq_true, if_false, pySlice_tail,
      forPairs_last]
    have hd : (ints (a :: t)).tail = ints (a :: t).tail := by simp [ints]
    rw [hd, setSliceE_all _ _ (by simp)]
    simp [Sim]

/-! ### index_of_min / index_of_max: `src_array[cur:next].argmin()` -/

/-- a slice with natural bounds is the model's `slice` -/
theorem pySlice_nat {α} (xs : List α) (a b : Nat) : pySlice xs (some (a : Int)) (some (b : Int)) = slice xs a b := by
  have ha : ¬ ((a : Int) < 0) := by omega
  have hb : ¬ ((b : Int) < 0) := by omega
  simp only [pySlice, normBound, ha, hb, if_false, Int.toNat_natCast, slice]
  apply List.ext_getElem?
  intro i
  simp only [List.getElem?_take, List.getElem?_drop]
  by_cases h1 : i < min b xs.length - min a xs.length <;> by_cases h2 : i < b - a <;> simp only [h1, h2, if_true, if_false]
  · have : min a xs.length = a := by omega
    rw [this]
  · omega
  · by_cases hal : a ≤ xs.length
    · have : xs.length ≤ a + i := by omega
      simp [List.getElem?_eq_none this]
    · have : xs.length ≤ a + i := by omega
      simp [List.getElem?_eq_none this]

theorem argBestFrom_lt : ∀ (xs : List Int) (i : Nat) (best : Int) (bi : Nat),
    argBestFrom (fun a b => decide (a < b)) xs i best bi = argminFrom xs i best bi
  | [], _, _, _ => rfl
  | x :: xs, i, best, bi => by
    simp only [argBestFrom, argminFrom, decide_eq_true_eq]
    split <;> exact argBestFrom_lt xs _ _ _

theorem argBestFrom_gt : ∀ (xs : List Int) (i : Nat) (best : Int) (bi : Nat),
    argBestFrom (fun a b => decide (a > b)) xs i best bi = argmaxFrom xs i best bi
  | [], _, _, _ => rfl
  | x :: xs, i, best, bi => by
    simp only [argBestFrom, argmaxFrom, decide_eq_true_eq]
    split <;> exact argBestFrom_gt xs _ _ _

theorem argminE_eq (l : List Int) : argminE l = match argmin l with | .ok k => .ok (k : Int) | .error e => .error e := by
  cases l with
  | nil => rfl
  | cons x xs => simp [argminE, argmin, argBestFrom_lt]

theorem argmaxE_eq (l : List Int) : argmaxE l = match argmax l with | .ok k => .ok (k : Int) | .error e => .error e := by
  cases l with
  | nil => rfl
  | cons x xs => simp [argmaxE, argmax, argBestFrom_gt]

theorem index_of_min_step (sp : List Nat) (src : List Int) (k cur next : Nat) (dest : List Int)
    (s : apply_spans_index_of_min.St) (hc : sp[k]? = some cur) (hn : sp[k + 1]? = some next)
    (hR : s.p0 = ints sp ∧ s.p1 = src ∧ s.p2 = dest) (hk : k < dest.length) :
    match spanIndexOfMin src cur next with
    | .ok v => ∃ s', apply_spans_index_of_min.body_L1 { s with v0 := (k : Int) } = .ok s' ∧
        (s'.p0 = ints sp ∧ s'.p1 = src ∧ s'.p2 = dest.set k v)
    | .error e => ∃ e', apply_spans_index_of_min.body_L1 { s with v0 := (k : Int) } = .error e' ∧ e'.tag = e.tag := by
  obtain ⟨h0, h1, h2⟩ := hR
  have hk1 : ((k : Int) + 1) = ((k + 1 : Nat) : Int) := by omega
  simp only [apply_spans_index_of_min.body_L1, h0, h1, h2, hk1, idxE_nat, getE_ints _ _ _ hc, getE_ints _ _ _ hn, bindE_ok,
    spanIndexOfMin, pySlice_nat, argminE_eq]
  by_cases hnc : next = cur + 1
  · subst hnc
    have h1' : ((((cur + 1 : Nat) : Int) - (cur : Int)) == 1) = true := by rw [beq_iff_eq]; omega
    simp only [h1', if_true, beq_self_eq_true, setIdxE_nat, setE, hk, bindE_ok]
    exact ⟨_, rfl, rfl, rfl, rfl⟩
  · have : ((next : Int) - (cur : Int) == 1) = false := by rw [beq_eq_false_iff_ne]; omega
    have hb : (next == cur + 1) = false := by simp [hnc]
    simp only [this, hb, Bool.false_eq_true, if_false]
    cases hm : argmin (slice src cur next) with
    | error e => exact ⟨e, rfl, rfl⟩
    | ok m =>
      have hcast : (cur : Int) + (m : Int) = ((cur + m : Nat) : Int) := by omega
      simp only [bindE_ok, setIdxE_nat, setE, hk, if_true, hcast]
      exact ⟨_, rfl, rfl, rfl, rfl⟩

theorem index_of_max_step (sp : List Nat) (src : List Int) (k cur next : Nat) (dest : List Int)
    (s : apply_spans_index_of_max.St) (hc : sp[k]? = some cur) (hn : sp[k + 1]? = some next)
    (hR : s.p0 = ints sp ∧ s.p1 = src ∧ s.p2 = dest) (hk : k < dest.length) :
    match spanIndexOfMax src cur next with
    | .ok v => ∃ s', apply_spans_index_of_max.body_L1 { s with v0 := (k : Int) } = .ok s' ∧
        (s'.p0 = ints sp ∧ s'.p1 = src ∧ s'.p2 = dest.set k v)
    | .error e => ∃ e', apply_spans_index_of_max.body_L1 { s with v0 := (k : Int) } = .error e' ∧ e'.tag = e.tag := by
  obtain ⟨h0, h1, h2⟩ := hR
  have hk1 : ((k : Int) + 1) = ((k + 1 : Nat) : Int) := by omega
  simp only [apply_spans_index_of_max.body_L1, h0, h1, h2, hk1, idxE_nat, getE_ints _ _ _ hc, getE_ints _ _ _ hn, bindE_ok,
    spanIndexOfMax, pySlice_nat, argmaxE_eq]
  by_cases hnc : next = cur + 1
  · subst hnc
    have h1' : ((((cur + 1 : Nat) : Int) - (cur : Int)) == 1) = true := by rw [beq_iff_eq]; omega
    simp only [h1', if_true, beq_self_eq_true, setIdxE_nat, setE, hk, bindE_ok]
    exact ⟨_, rfl, rfl, rfl, rfl⟩
  · have : ((next : Int) - (cur : Int) == 1) = false := by rw [beq_eq_false_iff_ne]; omega
    have hb : (next == cur + 1) = false := by simp [hnc]
    simp only [this, hb, Bool.false_eq_true, if_false]
    cases hm : argmax (slice src cur next) with
    | error e => exact ⟨e, rfl, rfl⟩
    | ok m =>
      have hcast : (cur : Int) + (m : Int) = ((cur + m : Nat) : Int) := by omega
      simp only [bindE_ok, setIdxE_nat, setE, hk, if_true, hcast]
      exact ⟨_, rfl, rfl, rfl, rfl⟩

theorem apply_spans_index_of_min_refines (sp : List Nat) (src : List Int) :
    Sim (apply_spans_index_of_min.run (ints sp) src none) (applySpansIndexOfMin sp src) := by
  unfold apply_spans_index_of_min.run applySpansIndexOfMin forSpans
  cases sp with
  | nil => simp [pyLen, npZeros, Sim]
  | cons a t =>
    have hlen : (pyLen (ints (a :: t)) - 1) = ((t.length : Nat) : Int) := by simp [pyLen]
    simp only [hlen, npZeros_nat, bindE_ok, List.isEmpty_cons, Bool.false_eq_true, if_false]
    have h := forRange_forPairs_run (a :: t) (by simp)
      (fun dest (s : apply_spans_index_of_min.St) => s.p0 = ints (a :: t) ∧ s.p1 = src ∧ s.p2 = dest)
      (fun k s => apply_spans_index_of_min.body_L1 { s with v0 := k }) (spanIndexOfMin src)
      (fun k cur next dest s hc hn hR hk => index_of_min_step (a :: t) src k cur next dest s hc hn hR hk)
      { p0 := ints (a :: t), p1 := src, p2 := List.replicate t.length 0, v0 := 0, v1 := 0, v2 := 0 }
      (List.replicate t.length 0) (by simp) ⟨rfl, rfl, rfl⟩
    have hl : (((a :: t).length : Nat) : Int) - 1 = ((t.length : Nat) : Int) := by simp
    rw [hl] at h
    cases hp : forPairs (spanIndexOfMin src) (a :: t) with
    | error e =>
      rw [hp] at h
      obtain ⟨e', hrun, ht⟩ := h
      simp only [hrun, bindE_error, Sim, ht]
    | ok vs =>
      rw [hp] at h
      obtain ⟨s', hrun, _, _, h2⟩ := h
      simp only [hrun, bindE_ok, Sim, h2]

theorem apply_spans_index_of_max_refines (sp : List Nat) (src : List Int) :
    Sim (apply_spans_index_of_max.run (ints sp) src none) (applySpansIndexOfMax sp src) := by
  unfold apply_spans_index_of_max.run applySpansIndexOfMax forSpans
  cases sp with
  | nil => simp [pyLen, npZeros, Sim]
  | cons a t =>
    have hlen : (pyLen (ints (a :: t)) - 1) = ((t.length : Nat) : Int) := by simp [pyLen]
    simp only [hlen, npZeros_nat, bindE_ok, List.isEmpty_cons, Bool.false_eq_true, if_false]
    have h := forRange_forPairs_run (a :: t) (by simp)
      (fun dest (s : apply_spans_index_of_max.St) => s.p0 = ints (a :: t) ∧ s.p1 = src ∧ s.p2 = dest)
      (fun k s => apply_spans_index_of_max.body_L1 { s with v0 := k }) (spanIndexOfMax src)
      (fun k cur next dest s hc hn hR hk => index_of_max_step (a :: t) src k cur next dest s hc hn hR hk)
      { p0 := ints (a :: t), p1 := src, p2 := List.replicate t.length 0, v0 := 0, v1 := 0, v2 := 0 }
      (List.replicate t.length 0) (by simp) ⟨rfl, rfl, rfl⟩
    have hl : (((a :: t).length : Nat) : Int) - 1 = ((t.length : Nat) : Int) := by simp
    rw [hl] at h
    cases hp : forPairs (spanIndexOfMax src) (a :: t) with
    | error e =>
      rw [hp] at h
      obtain ⟨e', hrun, ht⟩ := h
      simp only [hrun, bindE_error, Sim, ht]
    | ok vs =>
      rw [hp] at h
      obtain ⟨s', hrun, _, _, h2⟩ := h
      simp only [hrun, bindE_ok, Sim, h2]

end Exetera.GenK
