import Exetera.Model.Spans
import Exetera.Spec.Spans
import Exetera.Lemmas.Spans
import Exetera.Lemmas.SpansApply
import Exetera.Lemmas.SpansScan
import Exetera.Lemmas.SpansMerge
import Exetera.Lemmas.SpansEntry
import Exetera.Lemmas.SpansEntryN
import Exetera.Lemmas.SpansIndexed
import Exetera.Lemmas.SpansFilter
/-!
  C08 — spans are the maximal runs of equal adjacent rows; reductions respect them.
  Every theorem is about the definitions of `Model/Spans.lean` that the driver runs, for all inputs.
-/
namespace Exetera.Props.C08

open Exetera Exetera.Spans Exetera.Spec

/-! ## get_spans_for_field -/

/-- `get_spans_for_field` returns exactly the specification's span array, whatever the element comparison. -/
theorem get_spans_for_field_eq_spec {α} (ne : α → α → Bool) (xs : List α) :
    getSpansForField ne xs = spans ne xs :=
  getSpansForField_eq_spec ne xs

example : getSpansForField (fun (a b : Int) => a != b) [1, 2, 2, 1, 1, 1, 3] = [0, 1, 3, 6, 7] := by decide

/-- the result is strictly increasing, starts at 0 and ends at the row count (also for 0 and 1 rows) -/
theorem spans_wellformed {α} (ne : α → α → Bool) (xs : List α) :
    Wellformed (getSpansForField ne xs) xs.length := by
  rw [getSpansForField_eq_spec]; exact spans_wellformed' ne xs

example : Wellformed (getSpansForField (fun (a b : Int) => a != b) []) 0 := spans_wellformed _ _

/-- a row number `0 < i < n` is a span start iff row `i-1` and row `i` differ -/
theorem boundary_iff_adjacent_differ {α} (ne : α → α → Bool) (xs : List α) (i : Nat) (h0 : 0 < i) (hi : i < xs.length) :
    i ∈ getSpansForField ne xs ↔ ne (xs[i - 1]'(by omega)) xs[i] = true := by
  rw [getSpansForField_eq_spec, mem_spans, isBoundary_eq ne xs i h0 hi]
  constructor
  · rintro (h | h | h)
    · omega
    · omega
    · exact h
  · intro h; exact Or.inr (Or.inr h)

/-- **adjacent rows are equal iff they lie in the same span** (`ne a b = (a != b)`: byte-exact for strings, all
    fields jointly for tuples) -/
theorem same_span_iff_equal_adjacent {α} [BEq α] [LawfulBEq α] (xs : List α) (i : Nat) (h0 : 0 < i) (hi : i < xs.length) :
    SameSpan (getSpansForField neq xs) (i - 1) i ↔ xs[i - 1]'(by omega) = xs[i] := by
  have hb := boundary_iff_adjacent_differ neq xs i h0 hi
  constructor
  · intro hs
    by_cases hm : i ∈ getSpansForField neq xs
    · have := (hs i hm).2 (Nat.le_refl i); omega
    · have : ¬ neq (xs[i - 1]'(by omega)) xs[i] = true := fun h => hm (hb.2 h)
      simpa [neq] using this
  · intro heq b hbm
    constructor
    · intro h; omega
    · intro h
      by_cases hbi : b = i
      · subst hbi
        have := hb.1 hbm
        simp [neq, heq] at this
      · omega

example : SameSpan (getSpansForField neq [5, 5, 7]) 0 1 ∧ ¬ SameSpan (getSpansForField neq [5, 5, 7]) 1 2 := by
  refine ⟨(same_span_iff_equal_adjacent [5, 5, 7] 1 (by decide) (by decide)).2 rfl, ?_⟩
  intro h; have := (same_span_iff_equal_adjacent [5, 5, 7] 2 (by decide) (by decide)).1 h
  simp at this

/-- maximality: two rows `i ≤ j` are in the same span iff all rows between them are equal to their neighbours -/
theorem same_span_iff_run {α} [BEq α] [LawfulBEq α] (xs : List α) (i j : Nat) (hij : i ≤ j) (hj : j < xs.length) :
    SameSpan (getSpansForField neq xs) i j ↔ ∀ k (_ : i < k) (hk : k ≤ j), xs[k - 1]'(by omega) = xs[k]'(by omega) := by
  constructor
  · intro hs k hik hkj
    by_cases heq : xs[k - 1]'(by omega) = xs[k]'(by omega)
    · exact heq
    · exfalso
      have hm : k ∈ getSpansForField neq xs :=
        (boundary_iff_adjacent_differ neq xs k (by omega) (by omega)).2 (by simpa [neq] using heq)
      have := (hs k hm).2 hkj
      omega
  · intro hrun b hbm
    constructor
    · intro h; omega
    · intro hbj
      by_cases hbi : b ≤ i
      · exact hbi
      · exfalso
        have hb := (boundary_iff_adjacent_differ neq xs b (by omega) (by omega)).1 hbm
        have := hrun b (by omega) hbj
        simp [neq, this] at hb

/-! ## the other entry points: in bounds, terminating, and equal to the spans of the joint column -/

/-- `_get_spans_for_2_fields(a, b)` (after fix NC08b) returns `.ok` — so no subscript of the compiled kernel is out of
    bounds, for every length including 0 — and the result is the span array of the zipped column. -/
theorem get_spans_2_fields_eq_spec (a b : List Int) (hl : a.length = b.length) :
    getSpansFor2Fields .repaired a b = .ok (spans neq (a.zip b)) :=
  getSpansFor2Fields_eq_spec a b hl

example : getSpansFor2Fields .repaired [1, 1, 1, 2] [5, 6, 6, 6] = .ok [0, 1, 3, 4] := rfl
example : getSpansFor2Fields .repaired [] [] = .ok [0] := rfl

/-- `_get_spans_for_multi_fields(fields_data)` for any number ≥ 1 of equal-length columns -/
theorem get_spans_multi_fields_eq_spec (f0 : List Int) (fs : List (List Int))
    (hf : ∀ f ∈ f0 :: fs, f.length = f0.length) :
    getSpansForMultiFields .repaired (f0 :: fs) = .ok (spans neq (jointRows (f0 :: fs) f0.length)) :=
  getSpansForMultiFields_eq_spec f0 fs hf

example : getSpansForMultiFields .repaired [[1, 1, 1, 2], [5, 6, 6, 6], [0, 0, 0, 0]] = .ok [0, 1, 3, 4] := rfl

/-- `_get_spans_for_index_string_field(indices, values)` (after fix NC08c) for every well-formed index: the spans of
    the decoded byte strings, compared byte-exactly (length first, then bytes — which is just list inequality). -/
theorem get_spans_indexed_eq_spec (indices values : List Nat) (hv : ValidIndex indices values) :
    getSpansForIndexStringField .repaired indices values = .ok (spans neq (decodeRows indices values)) :=
  getSpansForIndexStringField_eq_spec indices values hv

-- rows "a", "a ", "a ", "", "" : trailing blank matters, empty strings are equal
example : getSpansForIndexStringField .repaired [0, 1, 3, 5, 5, 5] [97, 97, 32, 97, 32] = .ok [0, 1, 3, 5] := rfl
example : ValidIndex [0, 1, 3, 5, 5, 5] [97, 97, 32, 97, 32] := by
  refine ⟨by decide, ?_⟩
  intro x hx; simp at hx; rcases hx with rfl | rfl | rfl | rfl <;> decide

/-- `_get_spans_for_2_fields_by_spans`: merging the span arrays of two equal-length columns of any element types
    never reads `span1` out of bounds and yields the span array of the zipped column -/
theorem get_spans_by_spans_eq_spec {α β} [BEq α] [BEq β] (a : List α) (b : List β) (hl : a.length = b.length) :
    getSpansFor2FieldsBySpans (getSpansForField neq a) (getSpansForField neq b) = .ok (spans neq (a.zip b)) := by
  rw [getSpansForField_eq_spec, getSpansForField_eq_spec]
  exact getSpansFor2FieldsBySpans_eq_spec a b hl

/-- more generally: any two well-formed span arrays over the same row count merge, in bounds, into their sorted union -/
theorem merge_spans_eq_union (s0 s1 : List Nat) (n : Nat) (h0 : Wellformed s0 n) (h1 : Wellformed s1 n) :
    ∃ m, getSpansFor2FieldsBySpans s0 s1 = .ok m ∧ Wellformed m n ∧ ∀ z, z ∈ m ↔ z ∈ s0 ∨ z ∈ s1 := by
  obtain ⟨m, hm, hp, hmem⟩ := merge_wellformed s0 s1 n h0 h1
  refine ⟨m, hm, ⟨hp, ?_, ?_⟩, hmem⟩
  · -- head is 0: 0 ∈ m and everything in m is ≥ 0
    have h0m : 0 ∈ m := (hmem 0).2 (Or.inl (by
      have := h0.2.1; cases s0 with
      | nil => simp at this
      | cons a t => simp at this; simp [this]))
    cases m with
    | nil => simp at h0m
    | cons a t =>
      rcases List.mem_cons.1 h0m with h | h
      · simp [← h]
      · have := (List.pairwise_cons.1 hp).1 0 h; omega
  · -- last is n: n ∈ m and everything in m is ≤ n
    have hle : ∀ z ∈ m, z ≤ n := by
      intro z hz
      rcases (hmem z).1 hz with h | h
      · exact le_getLast_of_pairwise' s0 n h0.1 h0.2.2 z h
      · exact le_getLast_of_pairwise' s1 n h1.1 h1.2.2 z h
    have hnm : n ∈ m := (hmem n).2 (Or.inl (by
      have := h0.2.2; rw [List.getLast?_eq_some_iff] at this
      obtain ⟨ys, hys⟩ := this; rw [hys]; simp))
    obtain ⟨ys, l, hys⟩ : ∃ ys l, m = ys ++ [l] := by
      cases hm' : m.getLast? with
      | none => rw [List.getLast?_eq_none_iff] at hm'; rw [hm'] at hnm; simp at hnm
      | some l => exact ⟨_, l, (List.getLast?_eq_some_iff.1 hm').choose_spec⟩
    subst hys
    have hl : l ≤ n := hle l (by simp)
    have : n ≤ l := by
      rcases List.mem_append.1 hnm with h | h
      · have := (List.pairwise_append.1 hp).2.2 n h l (by simp); omega
      · simp at h; omega
    have : l = n := by omega
    simp [this]

example : getSpansFor2FieldsBySpans [0, 2, 5] [0, 1, 2, 4, 5] = .ok [0, 1, 2, 4, 5] := rfl

/-- **the entry points agree**: for two equal-length columns the two-array kernel, the multi-array kernel and the merge
    of the two single-column span arrays (what `Session.get_spans(fields=(f0, f1))` does for Fields) return the same
    span array, namely that of the zipped column. -/
theorem entrypoints_agree (a b : List Int) (hl : a.length = b.length) :
    getSpansFor2Fields .repaired a b = .ok (spans neq (a.zip b)) ∧
    getSpansForMultiFields .repaired [a, b] = .ok (spans neq (a.zip b)) ∧
    getSpansFor2FieldsBySpans (getSpansForField neq a) (getSpansForField neq b) = .ok (spans neq (a.zip b)) ∧
    sessionGetSpansArrays .repaired [a, b] = .ok (spans neq (a.zip b)) ∧
    sessionGetSpansFields .repaired [.numeric a, .numeric b] = .ok (spans neq (a.zip b)) := by
  refine ⟨getSpansFor2Fields_eq_spec a b hl, ?_, get_spans_by_spans_eq_spec a b hl, getSpansFor2Fields_eq_spec a b hl, ?_⟩
  · rw [getSpansForMultiFields_eq_spec a [b] (by intro f hf; simp at hf; rcases hf with rfl | rfl <;> simp [hl])]
    congr 1
    exact spans_congr _ _ _ _ (by simp [jointRows_length, List.length_zip, hl]) (isBoundary_jointRows2 a b hl)
  · have h : getSpansFor2FieldsBySpans (getSpansForField (fun x y => x != y) a) (getSpansForField (fun x y => x != y) b) =
        .ok (spans neq (a.zip b)) := get_spans_by_spans_eq_spec a b hl
    simp only [sessionGetSpansFields, columnSpans, foldColumnSpans, h]

/-- the Field / ndarray / Session single-column entry points of every column kind return the spans of the column's rows
    (numbers, or byte strings compared byte-exactly); an indexed string column needs a well-formed index -/
theorem column_spans_eq_spec (c : Column) (hv : c.Valid) : columnSpans .repaired c = .ok (spans neq c.rows) :=
  columnSpans_eq_spec c hv

/-- **`Session.get_spans(fields=…)` for any number of Fields** (full statement; holds since fix NC08d, the as-found behaviour
    is kept as `Witness.C08.nc08d_third_field_ignored`): for `k ≥ 1` Fields of any kinds (numeric, fixed string, indexed
    string with a well-formed index) of equal length the result is the span array of the joint column — adjacent rows lie in
    the same span iff they agree in ALL fields. -/
theorem session_get_spans_fields_eq_spec (c0 : Column) (cs : List Column) (hv : ∀ c ∈ c0 :: cs, c.Valid)
    (hl : ∀ c ∈ cs, c.rows.length = c0.rows.length) :
    sessionGetSpansFields .repaired (c0 :: cs) = .ok (spans neq (jointCols (c0 :: cs) c0.rows.length)) :=
  sessionGetSpansFields_all c0 cs hv hl

/-- the same for ndarray arguments (exactly two arrays take the two-array kernel, any other number is folded) -/
theorem session_get_spans_arrays_eq_spec (a0 : List Int) (as : List (List Int)) (hl : ∀ a ∈ as, a.length = a0.length) :
    sessionGetSpansArrays .repaired (a0 :: as) = .ok (spans neq (jointCols ((a0 :: as).map .numeric) a0.length)) :=
  sessionGetSpansArrays_all a0 as hl

/-- a boundary of the joint column is a boundary of at least one field: the joint spans are the common refinement -/
theorem joint_boundary_iff (cols : List Column) (n : Nat) (hl : ∀ c ∈ cols, c.rows.length = n) (i : Nat) :
    isBoundary neq (jointCols cols n) i = cols.any (fun c => isBoundary neq c.rows i) :=
  isBoundary_jointCols cols n hl i

-- non-vacuity: three fields of three kinds; the third one splits the second span
example : sessionGetSpansFields .repaired
    [.numeric [1, 1, 2, 2], .fixed [[97], [97], [98], [98]], .indexed [0, 1, 2, 3, 5] [120, 121, 121, 122, 122]] =
    .ok [0, 1, 2, 3, 4] := rfl
example : Column.Valid (.indexed [0, 1, 2, 3, 5] [120, 121, 121, 122, 122]) := by
  simp only [Column.Valid]; unfold ValidIndex; decide

/-- the two-field instance (kept: it was the registered obligation while NC08d was open) -/
theorem session_get_spans_fields_eq_spec_partial (cols : List Column) (c0 c1 : Column) (h2 : cols = [c0, c1])
    (h0 : c0.Valid) (h1 : c1.Valid) (hl : c0.rows.length = c1.rows.length) :
    sessionGetSpansFields .repaired cols = .ok (spans neq (c0.rows.zip c1.rows)) := by
  subst h2; exact sessionGetSpansFields_eq_spec c0 c1 h0 h1 hl

example : sessionGetSpansFields .repaired [.fixed [[97], [97, 32], [97, 32]], .numeric [1, 1, 2]] = .ok [0, 1, 2, 3] := rfl

/-- every entry point's result is well-formed (strictly increasing, from 0 to the row count) -/
theorem spans_wellformed_all (a b : List Int) (hl : a.length = b.length) :
    ∃ sp, getSpansFor2Fields .repaired a b = .ok sp ∧ Wellformed sp a.length := by
  refine ⟨_, getSpansFor2Fields_eq_spec a b hl, ?_⟩
  have := spans_wellformed' neq (a.zip b)
  simpa [List.length_zip, hl] using this


/-! ## span dtype: the int32 branch is only taken when every entry fits -/

/-- with the real threshold `utils.INT64_INDEX_LENGTH = 2^31 - 1`, whenever an entry point chooses int32 for the span
    array, every entry (they are all ≤ the row count) is at most the largest int32; `get_spans_for_field` compares with
    `<`, the two-array and multi-array wrappers with `>` — both are safe. -/
theorem span_values_fit_int32 {α} (ne : α → α → Bool) (xs : List α) :
    (spanDtypeField INT64_INDEX_LENGTH xs.length = .i32 ∨ spanDtype2 INT64_INDEX_LENGTH xs.length xs.length = .i32 ∨
      spanDtypeMulti INT64_INDEX_LENGTH xs.length = .i32) →
    ∀ x ∈ spans ne xs, x ≤ 2 ^ 31 - 1 := by
  intro hd x hx
  have hle := le_getLast_of_pairwise' _ _ (spans_pairwise ne xs) (spans_getLast ne xs) x hx
  have hn : xs.length ≤ 2 ^ 31 - 1 := by
    unfold spanDtypeField spanDtype2 spanDtypeMulti INT64_INDEX_LENGTH at hd
    rcases hd with hd | hd | hd
    · by_cases h : xs.length < 2 ^ 31 - 1
      · omega
      · simp [h] at hd
    · by_cases h : xs.length > 2 ^ 31 - 1
      · simp [h] at hd
      · omega
    · by_cases h : xs.length > 2 ^ 31 - 1
      · simp [h] at hd
      · omega
  omega

example : spanDtypeField INT64_INDEX_LENGTH 5 = .i32 ∧ spanDtypeField 5 5 = .i64 ∧ spanDtype2 5 5 5 = .i32 ∧
    spanDtype2 5 6 6 = .i64 := by decide

/-! ## apply_spans_* : one entry per span, computed over exactly the rows of that span -/

/-- count = number of rows of each span -/
theorem apply_spans_count_eq (sp : List Nat) (src : List Int) (h : Wellformed sp src.length) :
    applySpansCount sp = .ok ((pairs sp).map (fun p => ((rowsOf src p).length : Int))) := by
  unfold applySpansCount forSpans
  simp only [wellformed_ne_nil h, Bool.false_eq_true, if_false]
  rw [forPairs_total (fun c n => (n : Int) - c)]
  congr 1
  apply List.map_congr_left
  intro p hp
  have := pairs_wellformed h p hp
  unfold rowsOf
  rw [slice_length_of_le _ _ _ this.2]
  omega

example : applySpansCount [0, 2, 3] = .ok [2, 1] := rfl

/-- index_of_first / index_of_last = first / last row number of each span -/
theorem apply_spans_index_of_first_eq (sp : List Nat) (hne : sp.isEmpty = false) :
    applySpansIndexOfFirst sp = .ok ((pairs sp).map (fun p => (p.1 : Int))) := by
  unfold applySpansIndexOfFirst forSpans
  simp only [hne, Bool.false_eq_true, if_false]
  exact forPairs_total (fun c _ => (c : Int)) sp

theorem apply_spans_index_of_last_eq (sp : List Nat) (hne : sp.isEmpty = false) :
    applySpansIndexOfLast sp = .ok ((pairs sp).map (fun p => (p.2 : Int) - 1)) := by
  unfold applySpansIndexOfLast forSpans
  simp only [hne, Bool.false_eq_true, if_false]
  exact forPairs_total (fun _ n => (n : Int) - 1) sp

example : applySpansIndexOfLast [0, 2, 3] = .ok [1, 2] := rfl

/-- first = first row of each span (no out-of-bounds read) -/
theorem apply_spans_first_eq (sp : List Nat) (src : List Int) (h : Wellformed sp src.length) :
    ∃ r, applySpansFirst sp src = .ok r ∧ r.map some = (pairs sp).map (fun p => (rowsOf src p).head?) :=
  forSpans_spec _ _ sp (wellformed_ne_nil h) (fun p hp => by
    have hw := pairs_wellformed h p hp
    have hc : p.1 < src.length := by omega
    refine ⟨src[p.1], getE_of_lt _ hc, ?_⟩
    simp only [rowsOf]
    rw [slice_head? src p.1 p.2 hw.1, List.getElem?_eq_getElem hc])

/-- last = last row of each span -/
theorem apply_spans_last_eq (sp : List Nat) (src : List Int) (h : Wellformed sp src.length) :
    ∃ r, applySpansLast sp src = .ok r ∧ r.map some = (pairs sp).map (fun p => (rowsOf src p).getLast?) :=
  forSpans_spec _ _ sp (wellformed_ne_nil h) (fun p hp => by
    have hw := pairs_wellformed h p hp
    have hc : p.2 - 1 < src.length := by omega
    refine ⟨src[p.2 - 1], ?_, ?_⟩
    · unfold getWrapE
      have h0 : (0 : Int) ≤ (p.2 : Int) - 1 := by omega
      simp only [h0, if_true]
      have : ((p.2 : Int) - 1).toNat = p.2 - 1 := by omega
      rw [this]; exact getE_of_lt _ hc
    · simp only [rowsOf]
      rw [slice_getLast? src p.1 p.2 hw.1 hw.2, List.getElem?_eq_getElem hc])

example : applySpansLast [0, 2, 3] [7, 8, 9] = .ok [8, 9] := rfl

/-- min / max = minimum / maximum over exactly the rows of each span -/
theorem apply_spans_min_eq (sp : List Nat) (src : List Int) (h : Wellformed sp src.length) :
    ∃ r, applySpansMin sp src = .ok r ∧ r.map some = (pairs sp).map (fun p => (rowsOf src p).min?) :=
  forSpans_spec _ _ sp (wellformed_ne_nil h) (fun p hp =>
    have hw := pairs_wellformed h p hp
    spanMin_spec src p.1 p.2 hw.1 hw.2)

theorem apply_spans_max_eq (sp : List Nat) (src : List Int) (h : Wellformed sp src.length) :
    ∃ r, applySpansMax sp src = .ok r ∧ r.map some = (pairs sp).map (fun p => (rowsOf src p).max?) :=
  forSpans_spec _ _ sp (wellformed_ne_nil h) (fun p hp =>
    have hw := pairs_wellformed h p hp
    spanMax_spec src p.1 p.2 hw.1 hw.2)

example : applySpansMin [0, 2, 5] [3, 1, 4, 1, 5] = .ok [1, 1] ∧ applySpansMax [0, 2, 5] [3, 1, 4, 1, 5] = .ok [3, 5] :=
  ⟨rfl, rfl⟩

/-- index_of_min / index_of_max = row number of the FIRST minimal / maximal row of each span (numpy argmin/argmax) -/
theorem apply_spans_index_of_min_eq (sp : List Nat) (src : List Int) (h : Wellformed sp src.length) :
    ∃ r, applySpansIndexOfMin sp src = .ok r ∧
      r.map some = (pairs sp).map (fun p => (argminOf (rowsOf src p)).map (fun k => ((p.1 + k : Nat) : Int))) :=
  forSpans_spec _ _ sp (wellformed_ne_nil h) (fun p hp =>
    have hw := pairs_wellformed h p hp
    spanIndexOfMin_spec src p.1 p.2 hw.1 hw.2)

theorem apply_spans_index_of_max_eq (sp : List Nat) (src : List Int) (h : Wellformed sp src.length) :
    ∃ r, applySpansIndexOfMax sp src = .ok r ∧
      r.map some = (pairs sp).map (fun p => (argmaxOf (rowsOf src p)).map (fun k => ((p.1 + k : Nat) : Int))) :=
  forSpans_spec _ _ sp (wellformed_ne_nil h) (fun p hp =>
    have hw := pairs_wellformed h p hp
    spanIndexOfMax_spec src p.1 p.2 hw.1 hw.2)

example : applySpansIndexOfMin [0, 2, 5] [3, 1, 4, 1, 1] = .ok [1, 3] ∧
    applySpansIndexOfMax [0, 2, 5] [3, 3, 4, 5, 5] = .ok [0, 3] := ⟨rfl, rfl⟩


/-! ### indexed string columns: min / max are lexicographic, ties go to the first row (needs fix D18) -/

/-- `apply_spans_index_of_min_indexed` (with fix D18): for a well-formed index and well-formed spans the kernel returns
    `.ok` (no out-of-bounds read of `src_indices` / `src_values`, all loops terminate), one entry per span, and the entry
    of span `[a, b)` is the row number of the FIRST row of the span that is lexicographically minimal (bytewise, a proper
    prefix is smaller). -/
theorem apply_spans_index_of_min_indexed_eq (sp indices values : List Nat) (hv : ValidIndex indices values)
    (h : Wellformed sp (indices.length - 1)) :
    ∃ r, applySpansIndexOfMinIndexed .repaired sp indices values = .ok r ∧ r.length = (pairs sp).length ∧
      ∀ pv ∈ (pairs sp).zip r, ∃ k : Nat, pv.2 = (k : Int) ∧ IsFirstMinIn (decodeRows indices values) pv.1.1 pv.1.2 k := by
  unfold applySpansIndexOfMinIndexed forSpans
  simp only [wellformed_ne_nil h, Bool.false_eq_true, if_false]
  apply forPairs_rel _ (fun p v => ∃ k : Nat, v = (k : Int) ∧ IsFirstMinIn (decodeRows indices values) p.1 p.2 k)
  intro p hp
  have hw := pairs_wellformed h p hp
  exact spanIndexOfMinIndexed_spec indices values hv p.1 p.2 hw.1 (by omega)

theorem apply_spans_index_of_max_indexed_eq (sp indices values : List Nat) (hv : ValidIndex indices values)
    (h : Wellformed sp (indices.length - 1)) :
    ∃ r, applySpansIndexOfMaxIndexed sp indices values = .ok r ∧ r.length = (pairs sp).length ∧
      ∀ pv ∈ (pairs sp).zip r, ∃ k : Nat, pv.2 = (k : Int) ∧ IsFirstMaxIn (decodeRows indices values) pv.1.1 pv.1.2 k := by
  unfold applySpansIndexOfMaxIndexed forSpans
  simp only [wellformed_ne_nil h, Bool.false_eq_true, if_false]
  apply forPairs_rel _ (fun p v => ∃ k : Nat, v = (k : Int) ∧ IsFirstMaxIn (decodeRows indices values) p.1 p.2 k)
  intro p hp
  have hw := pairs_wellformed h p hp
  exact spanIndexOfMaxIndexed_spec indices values hv p.1 p.2 hw.1 (by omega)

-- rows "b", "ab", "a", "a" (D18's witness plus a tie): min is row 2 (the first "a"), max is row 0
example : applySpansIndexOfMinIndexed .repaired [0, 4] [0, 1, 3, 4, 5] [98, 97, 98, 97, 97] = .ok [2] ∧
    applySpansIndexOfMaxIndexed [0, 4] [0, 1, 3, 4, 5] [98, 97, 98, 97, 97] = .ok [0] := ⟨rfl, rfl⟩
example : ValidIndex [0, 1, 3, 4, 5] [98, 97, 98, 97, 97] ∧ Wellformed [0, 4] ([0, 1, 3, 4, 5].length - 1) := by
  refine ⟨⟨by decide, ?_⟩, by decide, rfl, rfl⟩
  intro x hx; simp at hx; rcases hx with rfl | rfl | rfl | rfl | rfl <;> decide


/-! ### the `_filter` forms: spans may be empty; `filter_array` marks the non-empty ones -/

/-- spans that may be empty: non-decreasing and inside the column -/
def WeakSpans (sp : List Nat) (n : Nat) : Prop := ∀ p ∈ pairs sp, p.1 ≤ p.2 ∧ p.2 ≤ n

/-- `apply_spans_index_of_min_filter` / `…_max_filter`: with room for one entry per span in both caller-supplied buffers
    the kernels return `.ok` (every subscript in bounds); `filter_array[k]` is True exactly for the non-empty spans;
    `dest_array[k]` is untouched for an empty span and otherwise the row number of the span's first minimum (maximum);
    entries beyond the spans are untouched. -/
theorem apply_spans_index_of_min_filter_eq (sp : List Nat) (src dest : List Int) (filt : List Bool)
    (hw : WeakSpans sp src.length) (hd : (pairs sp).length ≤ dest.length) (hf : (pairs sp).length ≤ filt.length) :
    ∃ (d : List Int) (f : List Bool), applySpansIndexOfMinFilter sp src dest filt = .ok (d, f) ∧ d.length = dest.length ∧ f.length = filt.length ∧
      (∀ (k : Nat) (p : Nat × Nat), (pairs sp)[k]? = some p → f[k]? = some (p.1 != p.2) ∧
        ((p.1 = p.2 ∧ d[k]? = dest[k]?) ∨ (p.1 ≠ p.2 ∧ ∃ v, d[k]? = some v ∧
          (argminOf (rowsOf src p)).map (fun j => ((p.1 + j : Nat) : Int)) = some v))) ∧
      (∀ k : Nat, (pairs sp).length ≤ k → d[k]? = dest[k]? ∧ f[k]? = filt[k]?) := by
  obtain ⟨d, f, hr, hdl, hfl, hmid, hout⟩ := filterLoop_spec (spanIndexOfMin src)
    (fun p v => (argminOf (rowsOf src p)).map (fun j => ((p.1 + j : Nat) : Int)) = some v) sp 0 dest filt
    (fun p hp hne => spanIndexOfMin_spec src p.1 p.2 (by have := (hw p hp).1; omega) (hw p hp).2)
    (by omega) (by omega)
  refine ⟨d, f, hr, hdl, hfl, ?_, ?_⟩
  · intro k p hk; simpa using hmid k p hk
  · intro k hk; exact hout k (Or.inr (by omega))

theorem apply_spans_index_of_max_filter_eq (sp : List Nat) (src dest : List Int) (filt : List Bool)
    (hw : WeakSpans sp src.length) (hd : (pairs sp).length ≤ dest.length) (hf : (pairs sp).length ≤ filt.length) :
    ∃ (d : List Int) (f : List Bool), applySpansIndexOfMaxFilter sp src dest filt = .ok (d, f) ∧ d.length = dest.length ∧ f.length = filt.length ∧
      (∀ (k : Nat) (p : Nat × Nat), (pairs sp)[k]? = some p → f[k]? = some (p.1 != p.2) ∧
        ((p.1 = p.2 ∧ d[k]? = dest[k]?) ∨ (p.1 ≠ p.2 ∧ ∃ v, d[k]? = some v ∧
          (argmaxOf (rowsOf src p)).map (fun j => ((p.1 + j : Nat) : Int)) = some v))) ∧
      (∀ k : Nat, (pairs sp).length ≤ k → d[k]? = dest[k]? ∧ f[k]? = filt[k]?) := by
  obtain ⟨d, f, hr, hdl, hfl, hmid, hout⟩ := filterLoop_spec (spanIndexOfMax src)
    (fun p v => (argmaxOf (rowsOf src p)).map (fun j => ((p.1 + j : Nat) : Int)) = some v) sp 0 dest filt
    (fun p hp hne => spanIndexOfMax_spec src p.1 p.2 (by have := (hw p hp).1; omega) (hw p hp).2)
    (by omega) (by omega)
  refine ⟨d, f, hr, hdl, hfl, ?_, ?_⟩
  · intro k p hk; simpa using hmid k p hk
  · intro k hk; exact hout k (Or.inr (by omega))

/-- `apply_spans_index_of_first_filter` / `…_last_filter`: first / last row number of every non-empty span, for ANY span array -/
theorem apply_spans_index_of_first_filter_eq (sp : List Nat) (dest : List Int) (filt : List Bool)
    (hd : (pairs sp).length ≤ dest.length) (hf : (pairs sp).length ≤ filt.length) :
    ∃ (d : List Int) (f : List Bool), applySpansIndexOfFirstFilter sp dest filt = .ok (d, f) ∧ d.length = dest.length ∧ f.length = filt.length ∧
      (∀ (k : Nat) (p : Nat × Nat), (pairs sp)[k]? = some p → f[k]? = some (p.1 != p.2) ∧
        ((p.1 = p.2 ∧ d[k]? = dest[k]?) ∨ (p.1 ≠ p.2 ∧ d[k]? = some (p.1 : Int)))) ∧
      (∀ k : Nat, (pairs sp).length ≤ k → d[k]? = dest[k]? ∧ f[k]? = filt[k]?) := by
  obtain ⟨d, f, hr, hdl, hfl, hmid, hout⟩ := filterLoop_spec (fun cur _ => .ok (cur : Int))
    (fun p v => v = (p.1 : Int)) sp 0 dest filt (fun p _ _ => ⟨_, rfl, rfl⟩) (by omega) (by omega)
  refine ⟨d, f, hr, hdl, hfl, ?_, ?_⟩
  · intro k p hk
    have := hmid k p hk
    simp only [Nat.zero_add] at this
    refine ⟨this.1, ?_⟩
    rcases this.2 with h | ⟨h, v, hv, rfl⟩
    · exact Or.inl h
    · exact Or.inr ⟨h, hv⟩
  · intro k hk; exact hout k (Or.inr (by omega))

theorem apply_spans_index_of_last_filter_eq (sp : List Nat) (dest : List Int) (filt : List Bool)
    (hd : (pairs sp).length ≤ dest.length) (hf : (pairs sp).length ≤ filt.length) :
    ∃ (d : List Int) (f : List Bool), applySpansIndexOfLastFilter sp dest filt = .ok (d, f) ∧ d.length = dest.length ∧ f.length = filt.length ∧
      (∀ (k : Nat) (p : Nat × Nat), (pairs sp)[k]? = some p → f[k]? = some (p.1 != p.2) ∧
        ((p.1 = p.2 ∧ d[k]? = dest[k]?) ∨ (p.1 ≠ p.2 ∧ d[k]? = some ((p.2 : Int) - 1)))) ∧
      (∀ k : Nat, (pairs sp).length ≤ k → d[k]? = dest[k]? ∧ f[k]? = filt[k]?) := by
  obtain ⟨d, f, hr, hdl, hfl, hmid, hout⟩ := filterLoop_spec (fun _ next => .ok ((next : Int) - 1))
    (fun p v => v = (p.2 : Int) - 1) sp 0 dest filt (fun p _ _ => ⟨_, rfl, rfl⟩) (by omega) (by omega)
  refine ⟨d, f, hr, hdl, hfl, ?_, ?_⟩
  · intro k p hk
    have := hmid k p hk
    simp only [Nat.zero_add] at this
    refine ⟨this.1, ?_⟩
    rcases this.2 with h | ⟨h, v, hv, rfl⟩
    · exact Or.inl h
    · exact Or.inr ⟨h, hv⟩
  · intro k hk; exact hout k (Or.inr (by omega))

-- spans [0,0,2,3]: the first span is empty
example : applySpansIndexOfMinFilter [0, 0, 2, 3] [5, 4, 9] [7, 7, 7] [false, false, false] =
    .ok ([7, 1, 2], [false, true, true]) := rfl
example : WeakSpans [0, 0, 2, 3] 3 := by
  intro p hp; simp [pairs] at hp; rcases hp with rfl | rfl | rfl <;> decide

/-! ### the Session / Field wrappers add nothing on well-formed spans -/

theorem hasEmptySpan_false_of_pairwise : ∀ (sp : List Nat), sp.Pairwise (· < ·) → hasEmptySpan sp = false
  | [], _ => rfl
  | [_], _ => rfl
  | a :: b :: rest, h => by
    rw [List.pairwise_cons] at h
    have := h.1 b (by simp)
    have hne : (a == b) = false := by simp; omega
    simp [hasEmptySpan, hne, hasEmptySpan_false_of_pairwise (b :: rest) h.2]

/-- `Session.apply_spans_*(spans, target)`: the length check `len(target) == spans[-1]` passes, the kernel's result is returned -/
theorem session_apply_spans_transparent (kernel : List Nat → List Int → Except Err (List Int)) (sp : List Nat)
    (src : List Int) (h : Wellformed sp src.length) : sessionApplySpansSrc kernel sp src = kernel sp src := by
  unfold sessionApplySpansSrc
  simp [h.2.2]

/-- `Field.apply_spans_*(spans)`: the "spans with empty entries" guard does not fire, the kernel's result is returned -/
theorem field_apply_spans_transparent (kernel : List Nat → List Int → Except Err (List Int)) (sp : List Nat)
    (src : List Int) (n : Nat) (h : Wellformed sp n) : fieldApplySpans kernel sp src = kernel sp src := by
  unfold fieldApplySpans
  simp [hasEmptySpan_false_of_pairwise sp h.1]

theorem field_apply_spans_indexed_transparent (kernel : List Nat → Except Err (List Int)) (sp : List Nat)
    (n : Nat) (h : Wellformed sp n) : fieldApplySpansIndexed kernel sp = kernel sp := by
  unfold fieldApplySpansIndexed
  simp [hasEmptySpan_false_of_pairwise sp h.1]

example : sessionApplySpansSrc applySpansMin [0, 2, 3] [4, 1, 7] = .ok [1, 7] ∧
    sessionApplySpansSrc applySpansMin [0, 2] [4, 1, 7] = .error (.valueError "'target' length must equal spans[-1]") :=
  ⟨rfl, rfl⟩

/-- hypotheses of the reduction theorems are met by the spans the library itself computes … -/
example (xs : List Int) : Wellformed (getSpansForField neq xs) xs.length := spans_wellformed neq xs

/-- … and by concrete non-trivial inputs: a 5-row column cut into the spans [0,2) and [2,5) -/
example : Wellformed [0, 2, 5] [3, 1, 4, 1, 5].length := ⟨by decide, rfl, rfl⟩

example : applySpansCount [0, 2, 5] = .ok [2, 3] ∧ (pairs [0, 2, 5]).map (fun p => ((rowsOf [3, 1, 4, 1, 5] p).length : Int)) = [2, 3] :=
  ⟨rfl, rfl⟩

/-- the boundary characterisation on a concrete column: rows 1|2 differ, rows 0|1 do not -/
example : 2 ∈ getSpansForField neq [5, 5, 7] ∧ 1 ∉ getSpansForField neq [5, 5, 7] := by decide

/-- a run of three equal rows is one span; the run theorem's hypotheses (i ≤ j < n) hold for i = 0, j = 2 -/
example : SameSpan (getSpansForField neq [4, 4, 4, 9]) 0 2 :=
  (same_span_iff_run [4, 4, 4, 9] 0 2 (by decide) (by decide)).2 (by
    intro k h1 h2
    have : k = 1 ∨ k = 2 := by omega
    rcases this with rfl | rfl <;> rfl)

/-- entry points on a concrete pair of columns (equal lengths, both with runs) -/
example : getSpansFor2Fields .repaired [1, 1, 2, 2] [7, 8, 8, 8] = .ok [0, 1, 2, 4] ∧
    getSpansForMultiFields .repaired [[1, 1, 2, 2], [7, 8, 8, 8]] = .ok [0, 1, 2, 4] ∧
    getSpansFor2FieldsBySpans (getSpansForField neq [1, 1, 2, 2]) (getSpansForField neq [7, 8, 8, 8]) = .ok [0, 1, 2, 4] :=
  ⟨rfl, rfl, rfl⟩

/-- a valid indexed column as `Column` -/
example : (Column.indexed [0, 1, 3] [97, 97, 32]).Valid := by
  refine ⟨by decide, ?_⟩
  intro x hx; simp at hx; rcases hx with rfl | rfl | rfl <;> decide

end Exetera.Props.C08
