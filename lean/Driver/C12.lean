import Driver.Util
import Exetera.Model.ChunkedCopy
open Lean Exetera Exetera.ChunkedCopy
namespace Driver.C12

def outJson (o : Out Int) : Json :=
  match o.field with
  | .plain d => Json.mkObj [("data", Driver.ints d), ("calls", toJson o.writes)]
  | .indexed i v => Json.mkObj [("indices", Driver.ints i), ("values", Driver.ints v), ("calls", toJson o.writes)]

def handle : Driver.Handler := fun op j =>
  match op with
  | "chunked_copy" => some do
    let kind ← Driver.get? String j "kind"
    let cs ← Driver.get? Nat j "cs"
    let f : Field Int ←
      if kind == "indexed" then do
        let i ← Driver.get? (List Int) j "indices"
        let v ← Driver.get? (List Int) j "values"
        pure (Field.indexed i v)
      else do
        let d ← Driver.get? (List Int) j "data"
        pure (Field.plain d)
    -- the fuel of the theorem `chunked_copy_field_eq`: the length of the longest element array
    let n := match f with | .plain d => d.length | .indexed i v => max i.length v.length
    let fuel := (j.getObjValAs? Nat "fuel").toOption.getD n
    pure <| Driver.outE outJson (chunkedCopy f cs fuel)
  | _ => none

end Driver.C12
