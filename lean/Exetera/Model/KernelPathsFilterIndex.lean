/-!
  C10 — DOC FilterIndex
-/
namespace Exetera.KernelPaths

/-- the filter / re-index kernels of indexed strings (C09): path condition of every subscript occurrence -/
def filterIndexPaths : List (String × List (String × List String)) := [
  ("apply_filter_to_index_values", [
    ("R cur_[i]", ["not (len(index_filter) != max(len(indices) - 1, 0))", "for i in range(len(index_filter))", "index_filter[i] == True"]),
    ("R index_filter[i]", ["not (len(index_filter) != max(len(indices) - 1, 0))", "for i in range(len(index_filter))"]),
    ("R indices[1:]", ["not (len(index_filter) != max(len(indices) - 1, 0))"]),
    ("R indices[:-1]", ["not (len(index_filter) != max(len(indices) - 1, 0))"]),
    ("R next_[i]", ["not (len(index_filter) != max(len(indices) - 1, 0))", "for i in range(len(index_filter))", "index_filter[i] == True"]),
    ("R values[c:n]", ["not (len(index_filter) != max(len(indices) - 1, 0))", "for i in range(len(index_filter))", "index_filter[i] == True"]),
    ("W dest_indices[0]", ["not (len(index_filter) != max(len(indices) - 1, 0))"]),
    ("W dest_indices[count]", ["not (len(index_filter) != max(len(indices) - 1, 0))", "for i in range(len(index_filter))", "index_filter[i] == True"]),
    ("W dest_values[total:total + delta]", ["not (len(index_filter) != max(len(indices) - 1, 0))", "for i in range(len(index_filter))", "index_filter[i] == True"])]),
  ("apply_indices_to_index_values", [
    ("R cur_[i]", ["for i in indices_to_apply"]),
    ("R cur_[i]", ["for i in indices_to_apply", "not (i < -len(cur_) or i >= len(cur_))"]),
    ("R indices[1:]", []),
    ("R indices[:-1]", []),
    ("R next_[i]", ["for i in indices_to_apply"]),
    ("R next_[i]", ["for i in indices_to_apply", "not (i < -len(cur_) or i >= len(cur_))"]),
    ("R values[c:n]", ["for i in indices_to_apply"]),
    ("W dest_indices[0]", []),
    ("W dest_indices[count]", ["for i in indices_to_apply"]),
    ("W dest_values[total:total + delta]", ["for i in indices_to_apply"])])
]

end Exetera.KernelPaths
