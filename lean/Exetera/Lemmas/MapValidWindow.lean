import Exetera.Lemmas.MapValidBasic
/-! Helper lemmas for C04, part 9: the index span of a sub-chunk is smaller than the chunk size (the purpose of the
    splitter, and what D9 broke for the sentinels `DataFrame.merge` passes). Core Lean only. -/
namespace Exetera.MapValid

open Exetera Exetera.Spec

theorem scanWhile_all (p : Int → Bool) : ∀ (l : List Int) (sm j : Nat) (x : Int),
    sm ≤ j → j < scanWhile p l sm → l[j - sm]? = some x → p x = true
  | [], sm, j, x, h1, h2, _ => by simp [scanWhile] at h2; omega
  | y :: ys, sm, j, x, h1, h2, h3 => by
    simp only [scanWhile] at h2
    by_cases hp : p y = true
    · simp only [hp, if_true] at h2
      by_cases hj : j = sm
      · subst hj; simp at h3; subst h3; exact hp
      · have : j - sm = (j - (sm + 1)) + 1 := by omega
        rw [this] at h3
        simp only [List.getElem?_cons_succ] at h3
        exact scanWhile_all p ys (sm + 1) j x (by omega) h2 h3
    · simp only [hp] at h2
      simp at h2; omega

theorem scanWhile_stop (p : Int → Bool) : ∀ (l : List Int) (sm : Nat) (x : Int),
    l[scanWhile p l sm - sm]? = some x → p x = false
  | [], sm, x, h => by simp [scanWhile] at h
  | y :: ys, sm, x, h => by
    simp only [scanWhile] at h
    by_cases hp : p y = true
    · simp only [hp, if_true] at h
      have hge := scanWhile_ge p ys (sm + 1)
      have : scanWhile p ys (sm + 1) - sm = (scanWhile p ys (sm + 1) - (sm + 1)) + 1 := by omega
      rw [this] at h
      simp only [List.getElem?_cons_succ] at h
      exact scanWhile_stop p ys (sm + 1) x h
    · simp only [hp] at h
      simp at h; subst h
      simpa using hp

theorem drop_getElem?_sub {α} (m : List α) (sm j : Nat) (h : sm ≤ j) : (m.drop sm)[j - sm]? = m[j]? := by
  rw [List.getElem?_drop]; congr 1; omega

/-- what the second loop of the splitter guarantees about the entries it takes: each is within `chunksize` of `start`,
    each valid one is at least `prev`, and the valid ones are non-decreasing among themselves -/
theorem scanAsc_spec (inv start : Int) (cs : Nat) : ∀ (l : List Int) (prev : Int) (sm : Nat),
    (∀ (j : Nat) (x : Int), sm ≤ j → j < scanAsc inv start cs prev l sm → l[j - sm]? = some x →
      x - start < cs ∧ (x ≠ inv → prev ≤ x)) ∧
    (∀ (i j : Nat) (a b : Int), sm ≤ i → i ≤ j → j < scanAsc inv start cs prev l sm →
      l[i - sm]? = some a → l[j - sm]? = some b → a ≠ inv → b ≠ inv → a ≤ b)
  | [], prev, sm => by
    constructor
    · intro j x h1 h2; simp [scanAsc] at h2; omega
    · intro i j a b h1 h2 h3; simp [scanAsc] at h3; omega
  | y :: ys, prev, sm => by
    by_cases hspan : y - start < (cs : Int)
    · by_cases hval : y = inv
      · -- a marker inside the sub-chunk: taken, `prev` unchanged
        have hrec : scanAsc inv start cs prev (y :: ys) sm = scanAsc inv start cs prev ys (sm + 1) := by
          subst hval
          simp [scanAsc, hspan]
        obtain ⟨ih1, ih2⟩ := scanAsc_spec inv start cs ys prev (sm + 1)
        rw [hrec]
        constructor
        · intro j x h1 h2 h3
          by_cases hj : j = sm
          · subst hj; simp at h3; subst h3
            exact ⟨hspan, fun h => absurd hval h⟩
          · have : j - sm = (j - (sm + 1)) + 1 := by omega
            rw [this] at h3
            simp only [List.getElem?_cons_succ] at h3
            exact ih1 j x (by omega) h2 h3
        · intro i j a b h1 h2 h3 h4 h5 ha hb
          by_cases hi : i = sm
          · subst hi; simp at h4; subst h4
            exact absurd hval ha
          · have e1 : i - sm = (i - (sm + 1)) + 1 := by omega
            have e2 : j - sm = (j - (sm + 1)) + 1 := by omega
            rw [e1] at h4; rw [e2] at h5
            simp only [List.getElem?_cons_succ] at h4 h5
            exact ih2 i j a b (by omega) h2 h3 h4 h5 ha hb
      · by_cases hdesc : y < prev
        · -- a step back: the sub-chunk ends here
          have hrec : scanAsc inv start cs prev (y :: ys) sm = sm := by
            simp [scanAsc, hspan, hval, hdesc]
          rw [hrec]
          constructor
          · intro j x h1 h2; omega
          · intro i j a b h1 h2 h3; omega
        · have hrec : scanAsc inv start cs prev (y :: ys) sm = scanAsc inv start cs y ys (sm + 1) := by
            simp [scanAsc, hspan, hval, hdesc]
          obtain ⟨ih1, ih2⟩ := scanAsc_spec inv start cs ys y (sm + 1)
          rw [hrec]
          constructor
          · intro j x h1 h2 h3
            by_cases hj : j = sm
            · subst hj; simp at h3; subst h3
              exact ⟨hspan, fun _ => by omega⟩
            · have : j - sm = (j - (sm + 1)) + 1 := by omega
              rw [this] at h3
              simp only [List.getElem?_cons_succ] at h3
              obtain ⟨g1, g2⟩ := ih1 j x (by omega) h2 h3
              exact ⟨g1, fun h => by have := g2 h; omega⟩
          · intro i j a b h1 h2 h3 h4 h5 ha hb
            by_cases hi : i = sm
            · subst hi; simp at h4; subst h4
              by_cases hj : j = i
              · subst hj; simp at h5; subst h5; omega
              · have e2 : j - i = (j - (i + 1)) + 1 := by omega
                rw [e2] at h5
                simp only [List.getElem?_cons_succ] at h5
                exact (ih1 j b (by omega) h3 h5).2 hb
            · have e1 : i - sm = (i - (sm + 1)) + 1 := by omega
              have e2 : j - sm = (j - (sm + 1)) + 1 := by omega
              rw [e1] at h4; rw [e2] at h5
              simp only [List.getElem?_cons_succ] at h4 h5
              exact ih2 i j a b (by omega) h2 h3 h4 h5 ha hb
    · have hrec : scanAsc inv start cs prev (y :: ys) sm = sm := by
        simp [scanAsc, hspan]
      rw [hrec]
      constructor
      · intro j x h1 h2; omega
      · intro i j a b h1 h2 h3; omega

/-- the facts about one sub-chunk `[sm, next_map_subchunk(sm))`, for ANY map: positions before the first valid entry
    hold the marker; from there on every entry is within `chunksize` of that first valid entry `start`, every valid
    entry is at least `start`, and the valid entries are non-decreasing -/
theorem nextMapSubchunk_facts (m : List Int) (sm : Nat) (inv : Int) (cs : Nat) :
    ∃ (sm1 : Nat) (start : Int),
      (∀ (j : Nat) (x : Int), sm ≤ j → j < sm1 → m[j]? = some x → x = inv) ∧
      (∀ (j : Nat) (x : Int), sm1 ≤ j → j < nextMapSubchunk m sm inv cs → m[j]? = some x →
        x - start < cs ∧ (x ≠ inv → start ≤ x)) ∧
      (∀ (i j : Nat) (a b : Int), sm1 ≤ i → i ≤ j → j < nextMapSubchunk m sm inv cs →
        m[i]? = some a → m[j]? = some b → a ≠ inv → b ≠ inv → a ≤ b) := by
  have heq : nextMapSubchunk m sm inv cs =
      match m[scanWhile (fun x => x == inv) (m.drop sm) sm]? with
      | none => scanWhile (fun x => x == inv) (m.drop sm) sm
      | some start => scanAsc inv start cs start
          (m.drop (scanWhile (fun x => x == inv) (m.drop sm) sm)) (scanWhile (fun x => x == inv) (m.drop sm) sm) := rfl
  rw [heq]
  have hskip : ∀ (j : Nat) (x : Int), sm ≤ j → j < scanWhile (fun x => x == inv) (m.drop sm) sm → m[j]? = some x → x = inv := by
    intro j x h1 h2 h3
    have := scanWhile_all (fun x => x == inv) (m.drop sm) sm j x h1 h2 (by rw [drop_getElem?_sub m sm j h1]; exact h3)
    simpa using this
  generalize scanWhile (fun x => x == inv) (m.drop sm) sm = sm1 at hskip
  split
  · exact ⟨sm1, 0, hskip, fun j x h1 h2 => by omega, fun i j a b h1 h2 h3 => by omega⟩
  · rename_i start hstart
    obtain ⟨g1, g2⟩ := scanAsc_spec inv start cs (m.drop sm1) start sm1
    refine ⟨sm1, start, hskip, ?_, ?_⟩
    · intro j x h1 h2 h3
      exact g1 j x h1 h2 (by rw [drop_getElem?_sub m sm1 j h1]; exact h3)
    · intro i j a b h1 h2 h3 h4 h5 ha hb
      exact g2 i j a b h1 h2 h3 (by rw [drop_getElem?_sub m sm1 i h1]; exact h4)
        (by rw [drop_getElem?_sub m sm1 j (by omega)]; exact h5) ha hb

/-- inside one sub-chunk `[sm, next_map_subchunk(sm))` any two valid entries differ by less than `chunksize` — for any
    map, ordered or not -/
theorem nextMapSubchunk_span (m : List Int) (sm : Nat) (inv : Int) (cs : Nat)
    (p q : Nat) (a b : Int) (hp1 : sm ≤ p) (hp2 : p < nextMapSubchunk m sm inv cs)
    (hq1 : sm ≤ q) (hq2 : q < nextMapSubchunk m sm inv cs)
    (hpa : m[p]? = some a) (hqb : m[q]? = some b) (ha : a ≠ inv) (hb : b ≠ inv) : b - a < cs := by
  obtain ⟨sm1, start, hskip, hin, _⟩ := nextMapSubchunk_facts m sm inv cs
  have hp3 : sm1 ≤ p := by
    by_cases h : p < sm1
    · exact absurd (hskip p a hp1 h hpa) ha
    · omega
  have hq3 : sm1 ≤ q := by
    by_cases h : q < sm1
    · exact absurd (hskip q b hq1 h hqb) hb
    · omega
  have h1 := (hin p a hp3 hp2 hpa).2 ha
  have h2 := (hin q b hq3 hq2 hqb).1
  omega

/-- the valid entries of one sub-chunk are non-decreasing — for any map (this is what the NC02a repair of
    `next_map_subchunk` establishes: the sub-chunk ends where the map steps back) -/
theorem nextMapSubchunk_monoOn (m : List Int) (sm : Nat) (inv : Int) (cs : Nat) :
    MonoOn m inv sm (nextMapSubchunk m sm inv cs) := by
  obtain ⟨sm1, start, hskip, _, hmono⟩ := nextMapSubchunk_facts m sm inv cs
  intro i j a b hi hij hj hia hjb ha hb
  have hi3 : sm1 ≤ i := by
    by_cases h : i < sm1
    · exact absurd (hskip i a hi h hia) ha
    · omega
  exact hmono i j a b hi3 hij hj hia hjb ha hb

structure SCInv (m : List Int) (inv : Int) (cs : Nat) (s : SC) : Prop where
  tiles : Tiles s.acc 0 s.sm
  le : s.sm ≤ m.length
  made : ∀ t ∈ s.acc, t.2 = nextMapSubchunk m t.1 inv cs

/-- every piece returned by `get_map_subchunks_based_on_index_lengths` is `(sm, next_map_subchunk(sm))` -/
theorem subchunks_made (m : List Int) (inv : Int) (cs : Nat) (hcs : 1 ≤ cs) :
    ∃ subs, subchunks m inv cs = .ok subs ∧ Tiles subs 0 m.length ∧
      ∀ t ∈ subs, t.2 = nextMapSubchunk m t.1 inv cs := by
  have h := whileE_rule (fun s : SC => decide (s.sm < m.length)) (subchunksBody m inv cs)
    (SCInv m inv cs) (fun s => m.length - s.sm)
    (by
      intro s hI hg
      have hg' : s.sm < m.length := by simpa using hg
      have hb := nextMapSubchunk_bounds m s.sm inv cs hg' hcs
      refine ⟨_, rfl, ⟨Tiles.append_one hI.tiles hb.1, hb.2, ?_⟩, ?_⟩
      · intro t ht
        simp only [List.mem_append, List.mem_singleton] at ht
        rcases ht with ht | ht
        · exact hI.made t ht
        · subst ht; rfl
      · simp only []
        omega)
    m.length ⟨0, []⟩ ⟨by simp [Tiles], by simp, by simp⟩ (by simp)
  obtain ⟨s', hw, hI, hg⟩ := h
  have hge : m.length ≤ s'.sm := by simpa using hg
  have : s'.sm = m.length := by have := hI.le; omega
  refine ⟨s'.acc, ?_, ?_, hI.made⟩
  · simp only [subchunks, hw]
  · rw [← this]; exact hI.tiles

/-- the pieces tile the map chunk and the valid entries of every piece are non-decreasing, whatever the map -/
theorem subchunks_mono (m : List Int) (inv : Int) (cs : Nat) (hcs : 1 ≤ cs) :
    ∃ subs, subchunks m inv cs = .ok subs ∧ Tiles subs 0 m.length ∧ ∀ t ∈ subs, MonoOn m inv t.1 t.2 := by
  obtain ⟨subs, h1, h2, h3⟩ := subchunks_made m inv cs hcs
  refine ⟨subs, h1, h2, ?_⟩
  intro t ht
  rw [h3 t ht]
  exact nextMapSubchunk_monoOn m t.1 inv cs

end Exetera.MapValid
