import Exetera.Gen.OperatorTable
import Exetera.Gen.DtypeNames
import Exetera.Gen.FieldOpsShape
import Exetera.Model.Basic
/-!
  C13 — field operators. The dispatch is table shaped, so it is REGENERATED from `fields.py` on every run
  (`Gen/OperatorTable.lean`); this file gives the tables their meaning:

    cls.<dunder>(self, other)  →  FieldDataOps.<method>(session, a, b)  →  _binary_op/_unary_op/direct  →  symbol(x, y)

  numpy itself is an opaque parameter `np : String → List α → β` (the property's right-hand side *is* numpy).
-/
namespace Exetera.FieldOps
open Exetera

def lookupDunder (cls d : String) : Option (String × List Nat) :=
  (Gen.dunderTable.find? (fun r => r.1 == cls && r.2.1 == d)).map (fun r => (r.2.2.1, r.2.2.2))

def lookupMethod (m : String) : Option (String × String × List Nat) :=
  (Gen.methodTable.find? (fun r => r.1 == m)).map (fun r => r.2)

def lookupHelper (h : String) : Option (List Nat) :=
  (Gen.helperTable.find? (fun r => r.1 == h)).map (fun r => r.2)

/-- compose argument routings: `outer[k]` picks among the `inner` slots -/
def route (outer inner : List Nat) : Option (List Nat) := outer.mapM (fun k => inner[k]?)

/-- the numpy/operator symbol a dunder ends up applying, and for each argument of the symbol whether it receives
    `self` (0) or the other operand (1) -/
def resolve (cls d : String) : Option (String × List Nat) := do
  let (m, dOrd) ← lookupDunder cls d
  let (sym, via, mOrd) ← lookupMethod m
  let ord ← route mOrd dOrd
  if via == "direct" then pure (sym, ord)
  else
    let hOrd ← lookupHelper via
    let ord' ← route hOrd ord
    pure (sym, ord')

/-- the value a dunder computes, numpy opaque -/
def eval {α β} (np : String → List α → β) (cls d : String) (self other : α) : Option β :=
  (resolve cls d).map (fun r => np r.1 (r.2.map (fun k => if k == 0 then self else other)))

/-- what the property demands: dunder ↦ (symbol, argument routing) — forward form `sym(self, other)`,
    reflected form `sym(other, self)`, unary `sym(self)` -/
def spec : String → Option (String × List Nat)
  | "__add__" => some ("operator.add", [0, 1]) | "__radd__" => some ("operator.add", [1, 0])
  | "__sub__" => some ("operator.sub", [0, 1]) | "__rsub__" => some ("operator.sub", [1, 0])
  | "__mul__" => some ("operator.mul", [0, 1]) | "__rmul__" => some ("operator.mul", [1, 0])
  | "__truediv__" => some ("operator.truediv", [0, 1]) | "__rtruediv__" => some ("operator.truediv", [1, 0])
  | "__floordiv__" => some ("operator.floordiv", [0, 1]) | "__rfloordiv__" => some ("operator.floordiv", [1, 0])
  | "__mod__" => some ("operator.mod", [0, 1]) | "__rmod__" => some ("operator.mod", [1, 0])
  | "__divmod__" => some ("np.divmod", [0, 1]) | "__rdivmod__" => some ("np.divmod", [1, 0])
  | "__and__" => some ("operator.and_", [0, 1]) | "__rand__" => some ("operator.and_", [1, 0])
  | "__xor__" => some ("operator.xor", [0, 1]) | "__rxor__" => some ("operator.xor", [1, 0])
  | "__or__" => some ("operator.or_", [0, 1]) | "__ror__" => some ("operator.or_", [1, 0])
  | "__lt__" => some ("operator.lt", [0, 1]) | "__le__" => some ("operator.le", [0, 1])
  | "__eq__" => some ("operator.eq", [0, 1]) | "__ne__" => some ("operator.ne", [0, 1])
  | "__gt__" => some ("operator.gt", [0, 1]) | "__ge__" => some ("operator.ge", [0, 1])
  | "__invert__" => some ("operator.invert", [0]) | "logical_not" => some ("np.logical_not", [0])
  | _ => none

def arith10 : List String := ["__add__", "__radd__", "__sub__", "__rsub__", "__mul__", "__rmul__", "__truediv__", "__rtruediv__",
  "__floordiv__", "__rfloordiv__"]
def modDiv : List String := ["__mod__", "__rmod__", "__divmod__", "__rdivmod__"]
def bitwise : List String := ["__and__", "__rand__", "__xor__", "__rxor__", "__or__", "__ror__", "__invert__", "logical_not"]
def compare : List String := ["__lt__", "__le__", "__eq__", "__ne__", "__gt__", "__ge__"]

/-- the operators each field class supports (pinned: losing one is a finding, not a refactoring) -/
def supported : String → List String
  | "NumericMemField" | "NumericField" => arith10 ++ modDiv ++ bitwise ++ compare
  | "TimestampMemField" | "TimestampField" => arith10 ++ modDiv ++ compare
  | "CategoricalMemField" | "CategoricalField" => arith10 ++ compare
  | _ => []

def classes : List String := ["NumericMemField", "NumericField", "TimestampMemField", "TimestampField",
  "CategoricalMemField", "CategoricalField"]

def allPairs : List (String × String) := classes.flatMap (fun c => (supported c).map (fun d => (c, d)))

/-! `_binary_op`: unwrap `data[:]` of Field operands, apply, wrap the result in a NEW NumericMemField. The store maps
    field ids to their arrays; the result id is fresh, so no operand is written. -/
structure Store (α : Type) where
  cells : List (Nat × α)
  next : Nat

def Store.get? {α} (s : Store α) (id : Nat) : Option α := (s.cells.find? (fun c => c.1 == id)).map (·.2)

/-- an operand is a field (by id), an ndarray or a scalar (Python number / numpy scalar) -/
inductive Operand (α : Type) where
  | field (id : Nat)
  | array (a : α)
  | scalar (a : α)

def Operand.data {α} (s : Store α) : Operand α → Option α
  | .field id => s.get? id
  | .array a => some a
  | .scalar a => some a

/-- `FieldDataOps._binary_op(session, first, second, function)` -/
def binaryOp {α} (s : Store α) (f : α → α → α) (first second : Operand α) : Option (Store α × Nat) := do
  let a ← first.data s
  let b ← second.data s
  pure ({ cells := (s.next, f a b) :: s.cells, next := s.next + 1 }, s.next)

/-! `dtype_to_str`: names the dtype of the result field (`NumericMemField(session, dtype_to_str(r.dtype))`). The table is
    REGENERATED from `fields.py` (`Gen/DtypeNames.lean`). A numpy dtype is identified by the way the source spells its type
    (`bool`, `np.int8`, …); that `r.dtype == np.int8` holds exactly for int8 arrays is numpy's behaviour (trusted). -/

/-- how the source spells the scalar type of the numpy dtype called `n` -/
def npSymbol (n : String) : String := if n == "bool" then "bool" else "np." ++ n

/-- `dtype_to_str(dtype)` for a numpy dtype spelled `ty`: the first matching row of the chain; `none` = the final `raise` -/
def dtypeToStr (ty : String) : Option String :=
  (Gen.dtypeToStrRows.find? (fun r => r.1 == ty)).map (·.2)

/-- the numeric dtypes a field operator can produce (numpy's bool / signed / unsigned / float results up to 64 bit) -/
def resultDtypes : List String :=
  ["bool", "int8", "int16", "int32", "int64", "uint8", "uint16", "uint32", "uint64", "float32", "float64"]

/-! ## The operators as Python evaluates them, over the REGENERATED helper bodies (`Gen/FieldOpsShape.lean`)

    `left <op> right`  →  Python's operator protocol (forward dunder of a Field on the left; for an ndarray / scalar on the left
    numpy's `__array_ufunc__ = None` rule makes it return NotImplemented and Python calls the REFLECTED dunder of the field on the
    right — for a comparison that is the mirrored comparison)  →  `cls.<dunder>` (`Gen.dunderTable`)  →  `FieldDataOps.<method>`
    (`Gen.methodTable`)  →  the body of `_binary_op` / `_unary_op` / `numeric_divmod` (`Gen.helperProgs`, interpreted by `step`).

    numpy is the opaque record `Numpy α`; a field is a record of the world (class, declared dtype name, data). -/

/-- numpy, opaque. `α` = ndarrays and scalars. -/
structure Numpy (α : Type) where
  /-- `sym(args…)` for a single-valued `operator.*` / `np.*` symbol -/
  call : String → List α → α
  /-- `r1, r2 = sym(args…)` for a pair-valued symbol (`np.divmod`) -/
  call2 : String → List α → α × α
  /-- `r.dtype`, identified by how the source spells the scalar type it compares equal to (`bool`, `np.int8`, …; see `npSymbol`) -/
  dtypeOf : α → String
  /-- `write` onto a field that already holds data appends (`write_part`) -/
  append : α → α → α
  /-- `np.zeros(0, dtype)`: what `data[:]` of a memory field returns before anything was written -/
  zeros0 : String → α
  /-- the values h5py stores when an array is written into a dataset of the named dtype (`DataWriter.write(…, dtype=nformat)`) -/
  cast : String → α → α

/-- a field object: its class, the dtype name it was declared with (`_nformat`), its data (`none`: nothing written yet) -/
structure FieldRec (α : Type) where
  cls : String
  dtype : String
  data : Option α
  deriving DecidableEq, Repr

/-- the heap: field objects by identity, and the dataframes (`_columns`: name ↦ field, in creation order).
    Both maps are association lists read front to back, so an update is a cons that shadows the older entry. -/
structure World (α : Type) where
  fields : List (Nat × FieldRec α)
  next : Nat
  frames : List (Nat × List (String × Nat))

def World.get? {α} (w : World α) (id : Nat) : Option (FieldRec α) := (w.fields.find? (fun c => c.1 == id)).map (·.2)
def World.frame? {α} (w : World α) (df : Nat) : Option (List (String × Nat)) := (w.frames.find? (fun c => c.1 == df)).map (·.2)
def World.put {α} (w : World α) (id : Nat) (r : FieldRec α) : World α := { w with fields := (id, r) :: w.fields }
/-- a new object: its identity is one no existing object has -/
def World.alloc {α} (w : World α) (r : FieldRec α) : World α := { w with fields := (w.next, r) :: w.fields, next := w.next + 1 }
/-- identities are handed out in order: every live object is older than `next` -/
def World.wf {α} (w : World α) : Prop := ∀ c ∈ w.fields, c.1 < w.next

/-- a local variable of a helper: an array / scalar, or a reference to a field -/
inductive Val (α : Type) where
  | arr (a : α)
  | fld (id : Nat)
  deriving DecidableEq, Repr

def Operand.val {α} : Operand α → Val α
  | .field id => .fld id
  | .array a => .arr a
  | .scalar a => .arr a

/-- `field.data[:]` -/
def readData {α} (np : Numpy α) (w : World α) (id : Nat) : Except Err α :=
  match w.get? id with
  | none => .error (.other "dangling field reference")
  | some r => .ok (match r.data with | some a => a | none => np.zeros0 r.dtype)

/-- `x.data[:] if isinstance(x, Field) else x` -/
def unwrapVal {α} (np : Numpy α) (w : World α) : Val α → Except Err α
  | .arr a => .ok a
  | .fld id => readData np w id

/-- the arguments handed to numpy must be arrays / scalars -/
def getArrs {α} (env : List (Val α)) : List Nat → Except Err (List α)
  | [] => .ok []
  | k :: ks =>
    match env[k]? with
    | some (.arr a) => (match getArrs env ks with | .ok r => .ok (a :: r) | .error e => .error e)
    | some (.fld _) => .error (.typeError "a Field object was handed to numpy")
    | none => .error (.other "unbound slot")

/-- the values returned must be fields -/
def getFlds {α} (env : List (Val α)) : List Nat → Except Err (List Nat)
  | [] => .ok []
  | k :: ks =>
    match env[k]? with
    | some (.fld id) => (match getFlds env ks with | .ok r => .ok (id :: r) | .error e => .error e)
    | some (.arr _) => .error (.other "an array was returned where the model expects a field")
    | none => .error (.other "unbound slot")

/-- one statement of a helper body. `fn` is the symbol bound to the helper's `function` parameter. -/
def step {α} (np : Numpy α) (fn : String) (w : World α) (env : List (Val α)) : Gen.FInstr → Except Err (World α × List (Val α))
  | .unwrap src =>
    match env[src]? with
    | none => .error (.other "unbound slot")
    | some v => (match unwrapVal np w v with | .ok a => .ok (w, env ++ [.arr a]) | .error e => .error e)
  | .apply f args nres =>
    match getArrs env args with
    | .error e => .error e
    | .ok xs =>
      let sym := match f with | some s => s | none => fn
      if nres == 1 then .ok (w, env ++ [.arr (np.call sym xs)])
      else if nres == 2 then .ok (w, env ++ [.arr (np.call2 sym xs).1, .arr (np.call2 sym xs).2])
      else .error (.typeError "cannot unpack")
  | .newField cls src =>
    match env[src]? with
    | some (.arr r) =>
      (match dtypeToStr (np.dtypeOf r) with
       | none => .error (.valueError "Unsupported dtype")                       -- the final `raise` of dtype_to_str
       | some n => .ok (w.alloc { cls := cls, dtype := n, data := none }, env ++ [.fld w.next]))
    | some (.fld _) => .error (.other "attribute_error")                         -- a Field has no `.dtype`
    | none => .error (.other "unbound slot")
  | .write f v =>
    match env[f]?, env[v]? with
    | some (.fld id), some (.arr r) =>
      (match w.get? id with
       | none => .error (.other "dangling field reference")
       | some rec => .ok (w.put id { rec with data := some (match rec.data with | none => r | some d => np.append d r) }, env))
    | _, _ => .error (.other "attribute_error")
  | .ret _ => .ok (w, env)

/-- a helper body: statements in order up to the `return` -/
def runProg {α} (np : Numpy α) (fn : String) : List Gen.FInstr → World α → List (Val α) → Except Err (World α × List Nat)
  | [], _, _ => .error (.other "fell off the end of a helper (returns None)")
  | .ret vs :: _, w, env => (match getFlds env vs with | .ok ids => .ok (w, ids) | .error e => .error e)
  | i :: rest, w, env =>
    match step np fn w env i with
    | .ok (w', env') => runProg np fn rest w' env'
    | .error e => .error e

def lookupProg (h : String) : Option (Nat × List Gen.FInstr) :=
  (Gen.helperProgs.find? (fun r => r.1 == h)).map (·.2)

/-- `xs[k]` for each `k` -/
def pick {β} (xs : List β) : List Nat → Option (List β)
  | [] => some []
  | k :: ks => match xs[k]?, pick xs ks with | some x, some r => some (x :: r) | _, _ => none

/-- the static route of `cls.<d>`: (the helper body that runs, the symbol it applies, for each operand parameter of that body
    which argument of the dunder it receives: 0 = `self`, 1 = the other operand).
    A method the table marks `direct` (`numeric_divmod`) is its own body and names its symbol itself. -/
def routeOf (cls d : String) : Option (String × String × List Nat) := do
  let (m, dOrd) ← lookupDunder cls d
  let (sym, via, mOrd) ← lookupMethod m
  if via == "direct" then pure (m, sym, dOrd)
  else
    let ord ← route mOrd dOrd
    pure (via, sym, ord)

/-- `cls.<d>(self, other)` / `cls.<d>(self)`: `args = [self, other]` or `[self]` -/
def callDunder {α} (np : Numpy α) (w : World α) (cls d : String) (args : List (Val α)) : Except Err (World α × List Nat) :=
  match routeOf cls d with
  | none => .error (.typeError "unsupported operand type(s)")
  | some (h, sym, ord) =>
    match pick args ord, lookupProg h with
    | some args', some (nops, prog) =>
      if args'.length == nops then runProg np sym prog w args' else .error (.typeError "wrong number of arguments")
    | _, _ => .error (.other "attribute_error")

/-- Python's data model: `x op y` tries `type(x).<first>(x, y)`; when that returns NotImplemented, `type(y).<second>(y, x)`.
    For a comparison the second method is the MIRRORED comparison. -/
def pyDunders : String → Option (String × String)
  | "+" => some ("__add__", "__radd__") | "-" => some ("__sub__", "__rsub__") | "*" => some ("__mul__", "__rmul__")
  | "/" => some ("__truediv__", "__rtruediv__") | "//" => some ("__floordiv__", "__rfloordiv__")
  | "%" => some ("__mod__", "__rmod__") | "divmod" => some ("__divmod__", "__rdivmod__")
  | "&" => some ("__and__", "__rand__") | "^" => some ("__xor__", "__rxor__") | "|" => some ("__or__", "__ror__")
  | "<" => some ("__lt__", "__gt__") | "<=" => some ("__le__", "__ge__") | "==" => some ("__eq__", "__eq__")
  | "!=" => some ("__ne__", "__ne__") | ">" => some ("__gt__", "__lt__") | ">=" => some ("__ge__", "__le__")
  | _ => none

/-- `~x` and the method `x.logical_not()` -/
def pyUnary : String → Option String
  | "~" => some "__invert__" | "logical_not" => some "logical_not"
  | _ => none

/-- the property's right-hand side: the numpy / operator symbol of each operator -/
def opSymbol : String → Option String
  | "+" => some "operator.add" | "-" => some "operator.sub" | "*" => some "operator.mul" | "/" => some "operator.truediv"
  | "//" => some "operator.floordiv" | "%" => some "operator.mod" | "divmod" => some "np.divmod"
  | "&" => some "operator.and_" | "^" => some "operator.xor" | "|" => some "operator.or_"
  | "<" => some "operator.lt" | "<=" => some "operator.le" | "==" => some "operator.eq" | "!=" => some "operator.ne"
  | ">" => some "operator.gt" | ">=" => some "operator.ge"
  | "~" => some "operator.invert" | "logical_not" => some "np.logical_not"
  | _ => none

/-- the comparison that gives the same answer with its operands exchanged -/
def mirrorSym (s : String) : String :=
  if s == "operator.lt" then "operator.gt" else if s == "operator.gt" then "operator.lt"
  else if s == "operator.le" then "operator.ge" else if s == "operator.ge" then "operator.le" else s

/-- the single-result binary operators, `divmod`, the unary ones -/
def binOps : List String := ["+", "-", "*", "/", "//", "%", "&", "^", "|", "<", "<=", "==", "!=", ">", ">="]
def cmpOps : List String := ["<", "<=", "==", "!=", ">", ">="]
def unOps : List String := ["~", "logical_not"]

/-- does class `cls` support operator `op` (both the forward and the reflected form)? -/
def supportsOp (cls op : String) : Bool :=
  match pyDunders op with
  | some (f, r) => (supported cls).contains f && (supported cls).contains r
  | none => false

/-- numpy's `binop_should_defer` for a right operand whose class is `cls` (`ndarray.__op__` and numpy scalars return NotImplemented;
    Python numbers always do): `__array_ufunc__` is defined and is None, or it is not defined and `__array_priority__` exceeds the
    ndarray's 0. The attributes are REGENERATED from the class bodies (`Gen.arrayProtocol`). -/
def defers (cls : String) : Bool :=
  match Gen.arrayProtocol.find? (fun r => r.1 == cls) with
  | some (_, ufunc, _, prioPos) => ufunc == "None" || (ufunc == "absent" && prioPos)
  | none => false

def World.classOf {α} (w : World α) (id : Nat) : Option String := (w.get? id).map (·.cls)

/-- `left <op> right` for a binary operator or `divmod(left, right)`, at least one side a field.
    Returns the new world and the identities of the returned field(s). -/
def opBinary {α} (np : Numpy α) (w : World α) (op : String) (l r : Operand α) : Except Err (World α × List Nat) :=
  match pyDunders op with
  | none => .error (.other "not a binary operator")
  | some (fwd, refl) =>
    match l, r with
    | .field id, _ =>
      (match w.classOf id with
       | none => .error (.other "dangling field reference")
       | some cls => callDunder np w cls fwd [.fld id, r.val])
    | _, .field id =>
      (match w.classOf id with
       | none => .error (.other "dangling field reference")
       | some cls =>
         if defers cls then callDunder np w cls refl [.fld id, l.val]
         else .error (.other "ndarray_broadcasts_over_field"))      -- as before ff6219e: an object array of fields / AttributeError
    | _, _ => .error (.other "no field operand")

/-- `~f` / `f.logical_not()` -/
def opUnary {α} (np : Numpy α) (w : World α) (op : String) (id : Nat) : Except Err (World α × List Nat) :=
  match pyUnary op with
  | none => .error (.other "not a unary operator")
  | some d =>
    match w.classOf id with
    | none => .error (.other "dangling field reference")
    | some cls => callDunder np w cls d [.fld id]

/-- `divmod(left, right)` -/
def opDivmod {α} (np : Numpy α) (w : World α) (l r : Operand α) : Except Err (World α × List Nat) := opBinary np w "divmod" l r

/-- the class of the field whose dunder Python ends up calling: the left operand when it is a field, else the right one -/
def dispatchClass {α} (w : World α) : Operand α → Operand α → Option String
  | .field id, _ => w.classOf id
  | _, .field id => w.classOf id
  | _, _ => none

def Operand.isField {α} : Operand α → Bool
  | .field _ => true
  | _ => false

/-- which helper body serves a binary operator -/
def helperOf (op : String) : String := if op == "divmod" then "numeric_divmod" else "_binary_op"

def supportsUnary (cls op : String) : Bool :=
  match pyUnary op with
  | some d => (supported cls).contains d
  | none => false

/-- what the property names as the operands' underlying arrays -/
def Operand.under {α} (np : Numpy α) (w : World α) (o : Operand α) : Except Err α := unwrapVal np w o.val

/-- the class of field `create_like(dataframe, name)` creates for a source of class `cls` (`Gen.createLikeRoute`;
    `numeric_field_create_like`: `group.create_numeric(name, nformat, ts)` → a NumericField of the source's `_nformat`).
    Only the numeric route is modelled: every operator result is a NumericMemField. -/
def createLikeTarget (cls : String) : Option String :=
  match (Gen.createLikeRoute.find? (fun r => r.1 == cls)).map (·.2) with
  | some m => if m == "numeric_field_create_like" then some "NumericField" else none
  | none => none

/-- `df[name] = field` (`DataFrame.__setitem__`, non-indexed path): `nfield = field.create_like(self, name)` (ValueError when the
    name exists — nothing is written), `nfield.data.write(field.data[:])`, `self._columns[name] = nfield`. -/
def setItem {α} (np : Numpy α) (w : World α) (df : Nat) (name : String) (src : Nat) : Except Err (World α) :=
  match w.frame? df, w.get? src with
  | some cols, some r =>
    (match createLikeTarget r.cls with
     | none => .error (.other "unmodelled:create_like")
     | some tcls =>
       if cols.any (fun c => c.1 == name) then .error (.valueError "Field already exists in group")
       else
         let a := match r.data with | some a => a | none => np.zeros0 r.dtype
         let w1 := w.alloc { cls := tcls, dtype := r.dtype, data := none }
         let w2 := w1.put w.next { cls := tcls, dtype := r.dtype, data := some (np.cast r.dtype a) }
         .ok { w2 with frames := (df, cols ++ [(name, w.next)]) :: w2.frames })
  | _, _ => .error (.other "dangling reference")

/-- `df[name]` -/
def World.column? {α} (w : World α) (df : Nat) (name : String) : Option (FieldRec α) :=
  match w.frame? df with
  | none => none
  | some cols => (match cols.find? (fun c => c.1 == name) with | some c => w.get? c.2 | none => none)

end Exetera.FieldOps
