import Exetera.Lemmas.CsvWindows
import Exetera.Lemmas.CsvDriverThm
/-! One driver iteration on a window that does not reach the end of the file (C05). -/
namespace Exetera.Csv
open Exetera Spec

/-- the file as stored: the text `T` of its lines, or `T` without the final line break -/
def IsFile (file T : Bytes) : Prop := file = T ∨ (file ++ [NL] = T ∧ file.getLast? ≠ some NL)

theorem isFile_length {file T : Bytes} (h : IsFile file T) : file.length ≤ T.length := by
  rcases h with h | ⟨h, _⟩
  · rw [h]; exact Nat.le_refl _
  · rw [← h]; simp

/-- a window strictly inside the file is a window of `T` -/
theorem readWindow_inside {file T : Bytes} {ci w : Nat} (h : IsFile file T) (hin : ci + w < file.length) :
    readWindow file ci w = (T.drop ci).take w := by
  have hs : slice file ci (ci + w) = (file.drop ci).take w := by simp [slice]
  have hlen : ((file.drop ci).take w).length = w := by simp; omega
  have hsame : (file.drop ci).take w = (T.drop ci).take w := by
    rcases h with h | ⟨h, _⟩
    · rw [h]
    · rw [← h, List.drop_append_of_le_length (by omega), List.take_append_of_le_length (by simp; omega)]
  unfold readWindow
  simp only [hs, hlen]
  have : (ci + w == file.length) = false := beq_false_of_ne (by omega)
  simp [this, hsame]

/-- the columns of the first `d` records, as the destination fields hold them -/
def doneCols (rows : List (List Cell)) (d : Nat) : Nat → List Bytes := fun c => column (values (rows.take d)) c

theorem doneCols_add (rows : List (List Cell)) (d a : Nat) (c : Nat) :
    doneCols rows d c ++ column (values ((rows.drop d).take a)) c = doneCols rows (d + a) c := by
  unfold doneCols
  rw [List.take_add]
  simp [column, values]

/-- everything the multi-window theorem assumes about the file and the buffers -/
structure Setting (file : Bytes) (crs ncols : Nat) (offs im : List Nat) (hrow : List Cell) (rows : List (List Cell)) :
    Prop where
  isFile : IsFile file (render (hrow :: rows))
  hdr : hrow.length = ncols ∧ ∀ c ∈ hrow, c.WF
  tab : ∀ r ∈ rows, r.length = ncols ∧ ∀ c ∈ r, c.WF
  nc : 0 < ncols
  crsPos : 0 < crs
  reg : ∀ l ∈ hrow :: rows, (renderCells l).length ≤ crs * Gen.Csv.CHUNK_ROW_FACTOR * ncols
  min : ∀ l ∈ hrow :: rows, ncols < (renderCells l).length
  offsLen : offs.length = ncols + 1
  offs0 : offAt offs 0 = 0
  mono : ∀ c, c < ncols → offAt offs c ≤ offAt offs (c + 1)
  fit : ∀ c, c < ncols → offAt offs c + (column (values rows) c).flatten.length < offAt offs (c + 1)
  imOk : ∀ c ∈ im, c < ncols

theorem stageRows_length {ncols : Nat} (rowsA : List (List Cell)) (htab : ∀ r ∈ rowsA, r.length = ncols ∧ ∀ c ∈ r, c.WF)
    (c : Nat) (hc : c < ncols) : (stageRows (fun _ => []) rowsA c).length = rowsA.length := by
  rw [stageRows_col]
  simp only [List.nil_append]
  rw [column_length]
  · simp [values]
  · intro r hr
    simp only [values, List.mem_map] at hr
    obtain ⟨r', hr', rfl⟩ := hr
    simp [(htab r' hr').1, hc]

theorem render_take_drop (rows : List (List Cell)) (d : Nat) : render rows = render (rows.take d) ++ render (rows.drop d) := by
  have : ∀ (a b : List (List Cell)), render (a ++ b) = render a ++ render b := by
    intro a b
    induction a with
    | nil => rfl
    | cons r rs ih => simp [render, ih]
  rw [← this, List.take_append_drop]

theorem render_append' (a b : List (List Cell)) : render (a ++ b) = render a ++ render b := by
  induction a with
  | nil => rfl
  | cons r rs ih => simp [render, ih]

/-- a driver iteration on a window strictly inside the file: some records are imported, the rest is left for later -/
theorem window_step {file : Bytes} {crs ncols : Nat} {offs im : List Nat} {hrow : List Cell} {rows : List (List Cell)}
    (st : Setting file crs ncols offs im hrow rows) {s : DS} {ci d : Nat} {hh : Bool}
    (hinv : DInv ncols (crs * Gen.Csv.CHUNK_ROW_FACTOR) offs im s ci hh d (doneCols rows d))
    (hpos : ci = if hh then 0 else (renderCells hrow ++ render (rows.take d)).length)
    (hd0 : hh = true → d = 0)
    (hin : ci + crs * Gen.Csv.CHUNK_ROW_FACTOR * ncols < file.length) :
    ∃ s' a, driverStep file (crs * Gen.Csv.CHUNK_ROW_FACTOR * ncols) ncols im s = .ok s' ∧ d + a ≤ rows.length ∧
      (hh = true ∨ 1 ≤ a) ∧
      DInv ncols (crs * Gen.Csv.CHUNK_ROW_FACTOR) offs im s' (renderCells hrow ++ render (rows.take (d + a))).length false
        (d + a) (doneCols rows (d + a)) := by
  -- the remaining text
  have hT : render (hrow :: rows) = renderCells hrow ++ render (rows.take d) ++ render (rows.drop d) := by
    rw [List.append_assoc, ← render_take_drop]; rfl
  have hTlen := isFile_length st.isFile
  have hdrop : (render (hrow :: rows)).drop ci = (if hh then renderCells hrow else []) ++ render (rows.drop d) := by
    cases hh with
    | true =>
      have := hd0 rfl
      subst this
      simp only [if_true] at hpos ⊢
      subst hpos
      simp [render]
    | false =>
      simp only [Bool.false_eq_true, if_false] at hpos ⊢
      rw [hT, hpos, List.drop_left]; rfl
  have hwin := readWindow_inside st.isFile hin
  rw [hdrop] at hwin
  have hhdrfit : (if hh then renderCells hrow else []).length ≤ crs * Gen.Csv.CHUNK_ROW_FACTOR * ncols := by
    cases hh
    · simp
    · simpa using st.reg hrow (by simp)
  obtain ⟨w', hw'⟩ : ∃ w', crs * Gen.Csv.CHUNK_ROW_FACTOR * ncols = (if hh then renderCells hrow else []).length + w' :=
    ⟨_, (Nat.add_sub_cancel' hhdrfit).symm⟩
  have htake : ((if hh then renderCells hrow else []) ++ render (rows.drop d)).take (crs * Gen.Csv.CHUNK_ROW_FACTOR * ncols) =
      (if hh then renderCells hrow else []) ++ (render (rows.drop d)).take w' := by rw [hw', take_len_add]
  rw [htake] at hwin
  have hlong : w' < (render (rows.drop d)).length := by
    have h1 : ((render (hrow :: rows)).drop ci).length = (render (hrow :: rows)).length - ci := by simp
    rw [hdrop, List.length_append] at h1
    omega
  obtain ⟨a, r, m, hra, hsplit, hm, hfitA, hpos1⟩ := window_split (rows.drop d) w' hlong
  rw [hsplit, ← List.append_assoc] at hwin
  -- facts about the records involved
  have hale : a < (rows.drop d).length := lt_len_of_get hra
  have hda : d + a < rows.length := by simp at hale; omega
  have hsubA : ∀ x ∈ (rows.drop d).take a, x ∈ rows := fun x hx => List.mem_of_mem_drop (List.mem_of_mem_take hx)
  have hrmem : r ∈ rows := List.mem_of_mem_drop (List.mem_of_getElem? hra)
  have htabA : ∀ x ∈ (rows.drop d).take a, x.length = ncols ∧ ∀ c ∈ x, c.WF := fun x hx => st.tab x (hsubA x hx)
  have hlenA : ((rows.drop d).take a).length = a := by simp; omega
  have hmaxpos : 0 < crs * Gen.Csv.CHUNK_ROW_FACTOR := Nat.mul_pos st.crsPos (by decide)
  have hrowsA : ((rows.drop d).take a).length < crs * Gen.Csv.CHUNK_ROW_FACTOR := by
    have h1 := render_length_ge ncols ((rows.drop d).take a) (fun l hl => st.min l (by simp [hsubA l hl]))
    apply count_lt_of_bytes (ncols := ncols) (b := (render ((rows.drop d).take a)).length) _ h1
    · omega
    · have : 1 ≤ crs := st.crsPos
      show 2 ≤ crs * 2
      omega
  have hne : hh = true ∨ (rows.drop d).take a ≠ [] := by
    cases hh with
    | true => exact Or.inl rfl
    | false =>
      right
      intro h
      have h0 : a = 0 := by rw [h] at hlenA; simpa using hlenA.symm
      cases hrd : rows.drop d with
      | nil => rw [hrd] at hale; simp at hale
      | cons r0 rs =>
        have hr0 : r0 ∈ rows := List.mem_of_mem_drop (by rw [hrd]; simp)
        have := hpos1 r0 rs hrd (by
          have := st.reg r0 (by simp [hr0])
          simp only [Bool.false_eq_true, if_false, List.length_nil, Nat.zero_add] at hw'
          omega)
        omega
  have hcap : RowsCap offs (fun _ => []) ((rows.drop d).take a ++ [r]) := by
    apply rowsCap_of_final offs ncols
    · intro x hx
      rcases List.mem_append.mp hx with h | h
      · exact (htabA x h).1
      · simp at h; subst h; exact (st.tab _ hrmem).1
    · intro c hc
      have hpart := column_part_le (rows.take d) ((rows.drop d).take a ++ [r]) ((rows.drop d).drop (a + 1)) c
      have hrows : rows.take d ++ ((rows.drop d).take a ++ [r]) ++ (rows.drop d).drop (a + 1) = rows := by
        rw [← take_succ_of_get hra, List.append_assoc, List.take_append_drop, List.take_append_drop]
      rw [hrows] at hpart
      have := st.fit c hc
      simp only [List.nil_append]
      omega
  obtain ⟨o, hker, hok⟩ :=
    kernel_window (src := readWindow file ci (crs * Gen.Csv.CHUNK_ROW_FACTOR * ncols)) (offs := offs) hh hrow
      ((rows.drop d).take a) r m [] (by rw [hwin]; simp) hm (st.tab r hrmem) (fun _ => st.hdr) htabA st.nc hinv.shape
      hmaxpos hinv.zero hcap hrowsA hne
  have hslice : ((slice file ci (ci + crs * Gen.Csv.CHUNK_ROW_FACTOR * ncols)).length == 0) = false := by
    have hpos' : 0 < crs * Gen.Csv.CHUNK_ROW_FACTOR * ncols := Nat.mul_pos hmaxpos st.nc
    apply beq_false_of_ne
    simp [slice]
    omega
  have hnp : ([] ++ ((if hh then renderCells hrow else []) ++ render ((rows.drop d).take a))).length ≠ 0 := by
    rcases hne with h | h
    · subst h
      have := renderCells_ne_nil hrow (by intro h; have := st.hdr.1; rw [h] at this; simp at this; have := st.nc; omega)
      simp only [if_true, List.nil_append, List.length_append]
      have : 0 < (renderCells hrow).length := List.length_pos_iff.mpr this
      omega
    · cases hA : (rows.drop d).take a with
      | nil => exact absurd hA h
      | cons x xs =>
        have hx := (htabA x (by rw [hA]; simp)).1
        have := renderCells_ne_nil x (by intro h'; rw [h'] at hx; simp at hx; have := st.nc; omega)
        have : 0 < (renderCells x).length := List.length_pos_iff.mpr this
        simp only [List.nil_append, List.length_append, render]
        omega
  obtain ⟨s', hstep, hinv'⟩ :=
    driverStep_fresh hinv hslice (by simpa using hker) hok hnp
      (fun c hc => by rw [stageRows_length _ htabA c hc]) st.imOk
  refine ⟨s', a, hstep, by omega, ?_, ?_⟩
  · rcases hne with h | h
    · exact Or.inl h
    · right
      rcases Nat.eq_zero_or_pos a with h0 | h0
      · subst h0; simp at h
      · exact h0
  · rw [hlenA] at hinv'
    have hci : ci + ([] ++ ((if hh then renderCells hrow else []) ++ render ((rows.drop d).take a))).length =
        (renderCells hrow ++ render (rows.take (d + a))).length := by
      cases hh with
      | true =>
        have := hd0 rfl
        subst this
        simp only [if_true] at hpos
        subst hpos
        simp
      | false =>
        simp only [Bool.false_eq_true, if_false] at hpos ⊢
        rw [hpos, List.take_add, render_append']
        simp [Nat.add_assoc]
    have hD : (fun c => doneCols rows d c ++ stageRows (fun _ => []) ((rows.drop d).take a) c) = doneCols rows (d + a) := by
      funext c
      rw [stageRows_col, List.nil_append, doneCols_add]
    rw [hci, hD] at hinv'
    exact hinv'

end Exetera.Csv
