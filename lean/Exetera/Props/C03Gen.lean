import Exetera.Props.C03
import Exetera.Lemmas.JoinBULoop
import Exetera.Lemmas.GenKernelsJoin
import Exetera.Lemmas.GenKernelsJoinGeneral
import Exetera.Lemmas.JoinGeneralLoop
import Exetera.Lemmas.GenKernelsJoinInnerUnique
import Exetera.Lemmas.GenKernelsJoinLeftUnique
import Exetera.Lemmas.GenKernelsJoinInnerGeneral
import Exetera.Lemmas.JoinLULoop
import Exetera.Lemmas.JoinRULoop
import Exetera.Lemmas.JoinTail
/-!
  C03 over the TRANSLATED join kernels (`Gen/Kernels.lean`, regenerated from operations.py by tools/translate_njit.py on
  every run): all eight `generate_ordered_map_to_{left,inner}{,_left_unique,_right_unique,_both_unique}_partial` kernels,
  `generate_ordered_map_to_left_remaining` and `generate_ordered_map_to_left_right_unique_remaining`.

  The model (`Model/Join.lean`) keeps the two chunk-sized result buffers as the lists of values written so far; the translated
  kernels, like the code, write position `r` of fixed-size arrays.  `gen_*_ok`: every `.ok` run of the model's kernel loop
  is a run of the translated kernel (same fuel) on ANY buffer of the chunk capacity whose written prefix is the model's list —
  it returns the model's `i`, `j`, `r` and a buffer whose written prefix is the model's new list.  Hence what the streamed
  drivers flush (`result[:r]`) is, call for call, what the theorems of Props/C03 speak about.
-/
namespace Exetera.Props.C03Gen

open Exetera Exetera.Join Exetera.GenK Exetera.Gen.Kernels

theorem gen_both_unique_partial_ok (p : P) (k k' : K) (rbuf : List Int)
    (hr : rbuf.length = p.cap) (h2 : rbuf.take k.rb.length = k.rb) (h : runPartial .leftBU p k = .ok k') :
    ∃ rbuf', generate_ordered_map_to_left_both_unique_partial.run p.left p.right rbuf p.inv p.jOff k.i k.j k.rb.length
        (partialFuel p) = .ok ((k'.i : Int), (k'.j : Int), (k'.rb.length : Int), rbuf') ∧
      rbuf'.length = p.cap ∧ rbuf'.take k'.rb.length = k'.rb :=
  both_unique_partial_ok p k k' rbuf hr h2 h

theorem gen_left_remaining_ok (p : P) (k k' : K) (lbuf rbuf : List Int)
    (hl : lbuf.length = p.cap) (hr : rbuf.length = p.cap) (hlen : k.lb.length = k.rb.length)
    (h1 : lbuf.take k.rb.length = k.lb) (h2 : rbuf.take k.rb.length = k.rb)
    (h : runRemaining p k = .ok k') :
    ∃ lbuf' rbuf', generate_ordered_map_to_left_remaining.run p.iMax lbuf rbuf p.iOff k.i k.rb.length p.inv (p.iMax + 1)
        = .ok ((k'.i : Int), (k'.rb.length : Int), lbuf', rbuf') ∧
      lbuf'.length = p.cap ∧ rbuf'.length = p.cap ∧ lbuf'.take k'.rb.length = k'.lb ∧ rbuf'.take k'.rb.length = k'.rb :=
  left_remaining_ok p k k' lbuf rbuf hl hr hlen h1 h2 h

theorem gen_right_unique_remaining_ok (p : P) (k k' : K) (rbuf : List Int)
    (hr : rbuf.length = p.cap) (h2 : rbuf.take k.rb.length = k.rb) (h : runRemaining p k = .ok k') :
    ∃ rbuf', generate_ordered_map_to_left_right_unique_remaining.run p.iMax rbuf k.i k.rb.length p.inv (p.iMax + 1)
        = .ok ((k'.i : Int), (k'.rb.length : Int), rbuf') ∧
      rbuf'.length = p.cap ∧ rbuf'.take k'.rb.length = k'.rb :=
  right_unique_remaining_ok p k k' rbuf hr h2 h

/-- the general finite-state kernel (both keys may repeat; the `inner` cartesian-block state is carried between calls): every
    `.ok` run of the model's `_partial` loop is a run of the translated kernel with the model's indices, `r`, FSM registers and
    written prefixes -/
theorem gen_left_partial_ok (p : P) (k k' : K) (lbuf rbuf : List Int)
    (hl : lbuf.length = p.cap) (hr : rbuf.length = p.cap) (hlen : k.lb.length = k.rb.length)
    (h1 : lbuf.take k.rb.length = k.lb) (h2 : rbuf.take k.rb.length = k.rb)
    (h : runPartial .left p k = .ok k') :
    ∃ lbuf' rbuf', generate_ordered_map_to_left_partial.run p.left p.iMax p.right p.jMax lbuf rbuf p.inv p.iOff p.jOff k.i k.j
        k.rb.length k.ii k.jj k.iiMax k.jjMax k.inner (partialFuel p)
        = .ok ((k'.i : Int), (k'.j : Int), (k'.rb.length : Int), (k'.ii : Int), (k'.jj : Int), k'.iiMax, k'.jjMax, k'.inner,
               lbuf', rbuf') ∧
      lbuf'.length = p.cap ∧ rbuf'.length = p.cap ∧ lbuf'.take k'.rb.length = k'.lb ∧ rbuf'.take k'.rb.length = k'.rb :=
  left_partial_ok p k k' lbuf rbuf hl hr hlen h1 h2 h

/-- one `_partial` call of the GENERAL left driver executed by the TRANSLATED kernel: from any driver state satisfying the proof's
    global invariant, on result buffers of the chunk size holding the rows written since the last flush, the translated kernel
    returns normally (no subscript out of range or negative; the outer loop and both run-counting loops end within the fuel)
    with the model's state and written prefixes; the invariant is kept and the loop guard is false afterwards. -/
theorem gen_general_partial_call {L R : List Int} {cs : Nat} {inv : Int} (hL : Spec.Sorted L) (hR : Spec.Sorted R)
    (d : D) (hinv : GInv true L R cs inv d) (lbuf rbuf : List Int) (hl : lbuf.length = cs) (hr : rbuf.length = cs)
    (hlen : d.k.lb.length = d.k.rb.length) (h1 : lbuf.take d.k.rb.length = d.k.lb) (h2 : rbuf.take d.k.rb.length = d.k.rb) :
    ∃ k' lbuf' rbuf', generate_ordered_map_to_left_partial.run d.lch.data d.iMax d.rch.data d.jMax lbuf rbuf inv d.lch.lo d.rch.lo
        d.k.i d.k.j d.k.rb.length d.k.ii d.k.jj d.k.iiMax d.k.jjMax d.k.inner (partialFuel (mkP L R cs inv d))
        = .ok ((k'.i : Int), (k'.j : Int), (k'.rb.length : Int), (k'.ii : Int), (k'.jj : Int), k'.iiMax, k'.jjMax, k'.inner,
               lbuf', rbuf') ∧
      lbuf'.length = cs ∧ rbuf'.length = cs ∧ lbuf'.take k'.rb.length = k'.lb ∧ rbuf'.take k'.rb.length = k'.rb ∧
      GInv true L R cs inv { d with k := k' } ∧ partialGuard .left (mkP L R cs inv d) k' = false := by
  obtain ⟨k', hrun, hI, hg, _, _⟩ := general_partial (emit := true) hL hR d hinv
  have hv : gvariant true = Variant.left := rfl
  rw [hv] at hrun hg
  obtain ⟨lbuf', rbuf', hgen, hl', hr', ht1, ht2⟩ := left_partial_ok (mkP L R cs inv d) d.k k' lbuf rbuf hl hr hlen h1 h2 hrun
  exact ⟨k', lbuf', rbuf', hgen, hl', hr', ht1, ht2, hI, hg⟩

example : ∃ k', runPartial .left ⟨[1, 2, 2], [2, 2, 3], 3, 3, 8, 0, 10, -1⟩ {} = .ok k' ∧ k'.lb = [0, 1, 1, 2, 2] ∧
    k'.rb = [-1, 10, 11, 10, 11] := ⟨_, rfl, rfl, rfl⟩
example : generate_ordered_map_to_left_partial.run [1, 2, 2] 3 [2, 2, 3] 3 [7, 7, 7, 7, 7, 7, 7, 7] [8, 8, 8, 8, 8, 8, 8, 8] (-1) 0 10
    0 0 0 0 0 (-1) (-1) false 40 = .ok (3, 2, 5, 0, 0, -1, -1, false, [0, 1, 1, 2, 2, 7, 7, 7], [-1, 10, 11, 10, 11, 8, 8, 8]) := rfl

/-- one `_partial` call of the both-unique LEFT driver, as the code makes it, executed by the TRANSLATED kernel: from any driver
    state satisfying the proof's global invariant, on a result buffer of the chunk size holding the rows written since the
    last flush, the translated kernel returns normally (no subscript out of range or negative, the loop ends within its
    fuel) with the model's `i, j, r` and written prefix; the invariant is kept and the loop guard is false afterwards. -/
theorem gen_bu_partial_call {L R : List Int} {cs : Nat} {inv : Int} (hL : L.Pairwise (· < ·)) (hR : R.Pairwise (· < ·))
    (d : D) (hinv : BInv true L R cs inv d) (rbuf : List Int) (hr : rbuf.length = cs)
    (h2 : rbuf.take d.k.rb.length = d.k.rb) :
    ∃ k' rbuf', generate_ordered_map_to_left_both_unique_partial.run d.lch.data d.rch.data rbuf inv d.rch.lo d.k.i d.k.j
        d.k.rb.length (partialFuel (mkP L R cs inv d)) = .ok ((k'.i : Int), (k'.j : Int), (k'.rb.length : Int), rbuf') ∧
      rbuf'.length = cs ∧ rbuf'.take k'.rb.length = k'.rb ∧
      BInv true L R cs inv { d with k := k' } ∧ partialGuard .leftBU (mkP L R cs inv d) k' = false := by
  obtain ⟨k', hrun, hI, hg, _, _⟩ := bu_partial (emit := true) hL hR d hinv
  have hv : bvariant true = Variant.leftBU := rfl
  rw [hv] at hrun hg
  obtain ⟨rbuf', hgen, hlen, htake⟩ := both_unique_partial_ok (mkP L R cs inv d) d.k k' rbuf hr h2 hrun
  exact ⟨k', rbuf', hgen, hlen, htake, hI, hg⟩

example : generate_ordered_map_to_left_both_unique_partial.run [1, 3, 5] [3, 4, 5] [9, 9, 9, 9] (-1) 10 0 0 0 20
    = .ok (3, 3, 3, [-1, 10, 12, 9]) := rfl
example : generate_ordered_map_to_left_remaining.run 3 [9, 9] [9, 9] 100 1 0 (-1) 4 = .ok (3, 2, [101, 102], [-1, -1]) := rfl
example : generate_ordered_map_to_left_right_unique_remaining.run 3 [9, 9] 2 1 (-1) 4 = .ok (3, 2, [9, -1]) := rfl

/-- the hypotheses of the three transfer theorems are met by concrete runs of the model -/
example : ∃ k', runPartial .leftBU ⟨[1, 3, 5], [3, 4, 5], 3, 3, 4, 0, 10, -1⟩ {} = .ok k' ∧ k'.rb = [-1, 10, 12] := ⟨_, rfl, rfl⟩
example : ∃ k', runRemaining ⟨[], [], 3, 0, 2, 100, 0, -1⟩ { i := 1 } = .ok k' ∧ k'.lb = [101, 102] ∧ k'.rb = [-1, -1] :=
  ⟨_, rfl, rfl, rfl⟩

/-! ### the remaining six `_partial` kernels: transfer from the model, and one driver call under the proof's global invariant -/

theorem gen_left_left_unique_partial_ok (p : P) (k k' : K) (lbuf rbuf : List Int)
    (hl : lbuf.length = p.cap) (hr : rbuf.length = p.cap) (hlen : k.lb.length = k.rb.length)
    (h1 : lbuf.take k.rb.length = k.lb) (h2 : rbuf.take k.rb.length = k.rb)
    (h : runPartial .leftLU p k = .ok k') :
    ∃ lbuf' rbuf', generate_ordered_map_to_left_left_unique_partial.run p.left p.right p.jMax lbuf rbuf p.inv p.iOff p.jOff
        k.i k.j k.rb.length (partialFuel p) = .ok ((k'.i : Int), (k'.j : Int), (k'.rb.length : Int), lbuf', rbuf') ∧
      lbuf'.length = p.cap ∧ rbuf'.length = p.cap ∧ lbuf'.take k'.rb.length = k'.lb ∧ rbuf'.take k'.rb.length = k'.rb :=
  left_left_unique_partial_ok p k k' lbuf rbuf hl hr hlen h1 h2 h

/-- the kernel has no `l_result`: only the model's `rb` is observed -/
theorem gen_left_right_unique_partial_ok (p : P) (k k' : K) (rbuf : List Int)
    (hr : rbuf.length = p.cap) (h2 : rbuf.take k.rb.length = k.rb) (h : runPartial .leftRU p k = .ok k') :
    ∃ rbuf', generate_ordered_map_to_left_right_unique_partial.run p.left p.iMax p.right rbuf p.inv p.jOff
        k.i k.j k.rb.length (partialFuel p) = .ok ((k'.i : Int), (k'.j : Int), (k'.rb.length : Int), rbuf') ∧
      rbuf'.length = p.cap ∧ rbuf'.take k'.rb.length = k'.rb :=
  left_right_unique_partial_ok p k k' rbuf hr h2 h

theorem gen_inner_partial_ok (p : P) (k k' : K) (lbuf rbuf : List Int)
    (hl : lbuf.length = p.cap) (hr : rbuf.length = p.cap) (hlen : k.lb.length = k.rb.length)
    (h1 : lbuf.take k.rb.length = k.lb) (h2 : rbuf.take k.rb.length = k.rb)
    (h : runPartial .inner p k = .ok k') :
    ∃ lbuf' rbuf', generate_ordered_map_to_inner_partial.run p.left p.iMax p.right p.jMax lbuf rbuf p.iOff p.jOff k.i k.j
        k.rb.length k.ii k.jj k.iiMax k.jjMax k.inner (partialFuel p)
        = .ok ((k'.i : Int), (k'.j : Int), (k'.rb.length : Int), (k'.ii : Int), (k'.jj : Int), k'.iiMax, k'.jjMax, k'.inner,
               lbuf', rbuf') ∧
      lbuf'.length = p.cap ∧ rbuf'.length = p.cap ∧ lbuf'.take k'.rb.length = k'.lb ∧ rbuf'.take k'.rb.length = k'.rb :=
  inner_partial_ok p k k' lbuf rbuf hl hr hlen h1 h2 h

theorem gen_inner_left_unique_partial_ok (p : P) (k k' : K) (lbuf rbuf : List Int)
    (hl : lbuf.length = p.cap) (hr : rbuf.length = p.cap) (hlen : k.lb.length = k.rb.length)
    (h1 : lbuf.take k.rb.length = k.lb) (h2 : rbuf.take k.rb.length = k.rb)
    (h : runPartial .innerLU p k = .ok k') :
    ∃ lbuf' rbuf', generate_ordered_map_to_inner_left_unique_partial.run p.left p.iMax p.right p.jMax lbuf rbuf p.iOff p.jOff
        k.i k.j k.rb.length (partialFuel p) = .ok ((k'.i : Int), (k'.j : Int), (k'.rb.length : Int), lbuf', rbuf') ∧
      lbuf'.length = p.cap ∧ rbuf'.length = p.cap ∧ lbuf'.take k'.rb.length = k'.lb ∧ rbuf'.take k'.rb.length = k'.rb :=
  inner_left_unique_partial_ok p k k' lbuf rbuf hl hr hlen h1 h2 h

theorem gen_inner_right_unique_partial_ok (p : P) (k k' : K) (lbuf rbuf : List Int)
    (hl : lbuf.length = p.cap) (hr : rbuf.length = p.cap) (hlen : k.lb.length = k.rb.length)
    (h1 : lbuf.take k.rb.length = k.lb) (h2 : rbuf.take k.rb.length = k.rb)
    (h : runPartial .innerRU p k = .ok k') :
    ∃ lbuf' rbuf', generate_ordered_map_to_inner_right_unique_partial.run p.left p.iMax p.right p.jMax lbuf rbuf p.iOff p.jOff
        k.i k.j k.rb.length (partialFuel p) = .ok ((k'.i : Int), (k'.j : Int), (k'.rb.length : Int), lbuf', rbuf') ∧
      lbuf'.length = p.cap ∧ rbuf'.length = p.cap ∧ lbuf'.take k'.rb.length = k'.lb ∧ rbuf'.take k'.rb.length = k'.rb :=
  inner_right_unique_partial_ok p k k' lbuf rbuf hl hr hlen h1 h2 h

theorem gen_inner_both_unique_partial_ok (p : P) (k k' : K) (lbuf rbuf : List Int)
    (hl : lbuf.length = p.cap) (hr : rbuf.length = p.cap) (hlen : k.lb.length = k.rb.length)
    (h1 : lbuf.take k.rb.length = k.lb) (h2 : rbuf.take k.rb.length = k.rb)
    (h : runPartial .innerBU p k = .ok k') :
    ∃ lbuf' rbuf', generate_ordered_map_to_inner_both_unique_partial.run p.left p.iMax p.right p.jMax lbuf rbuf p.iOff p.jOff
        k.i k.j k.rb.length (partialFuel p) = .ok ((k'.i : Int), (k'.j : Int), (k'.rb.length : Int), lbuf', rbuf') ∧
      lbuf'.length = p.cap ∧ rbuf'.length = p.cap ∧ lbuf'.take k'.rb.length = k'.lb ∧ rbuf'.take k'.rb.length = k'.rb :=
  inner_both_unique_partial_ok p k k' lbuf rbuf hl hr hlen h1 h2 h

/-- one `_partial` call of the left-unique LEFT driver executed by the TRANSLATED kernel, from any driver state satisfying the
    proof's global invariant `LU.UInv` (left keys strictly increasing, right keys sorted): returns normally with the model's state
    and written prefixes, keeps the invariant, leaves the loop guard false -/
theorem gen_llu_partial_call {L R : List Int} {cs : Nat} {inv : Int} (hL : L.Pairwise (· < ·)) (hR : Spec.Sorted R)
    (d : D) (hinv : LU.UInv true L R cs inv d) (lbuf rbuf : List Int) (hl : lbuf.length = cs) (hr : rbuf.length = cs)
    (h1 : lbuf.take d.k.rb.length = d.k.lb) (h2 : rbuf.take d.k.rb.length = d.k.rb) :
    ∃ k' lbuf' rbuf', generate_ordered_map_to_left_left_unique_partial.run d.lch.data d.rch.data d.jMax lbuf rbuf inv d.lch.lo
        d.rch.lo d.k.i d.k.j d.k.rb.length (partialFuel (mkP L R cs inv d))
        = .ok ((k'.i : Int), (k'.j : Int), (k'.rb.length : Int), lbuf', rbuf') ∧
      lbuf'.length = cs ∧ rbuf'.length = cs ∧ lbuf'.take k'.rb.length = k'.lb ∧ rbuf'.take k'.rb.length = k'.rb ∧
      LU.UInv true L R cs inv { d with k := k' } ∧ partialGuard .leftLU (mkP L R cs inv d) k' = false := by
  obtain ⟨k', hrun, hI, hg, _, _⟩ := LU.unique_partial (emit := true) hL hR d hinv
  have hv : LU.uvariant true = Variant.leftLU := rfl
  rw [hv] at hrun hg
  obtain ⟨lbuf', rbuf', hgen, hl', hr', ht1, ht2⟩ :=
    left_left_unique_partial_ok (mkP L R cs inv d) d.k k' lbuf rbuf hl hr hinv.blen h1 h2 hrun
  exact ⟨k', lbuf', rbuf', hgen, hl', hr', ht1, ht2, hI, hg⟩

/-- the same for the left-unique INNER driver -/
theorem gen_ilu_partial_call {L R : List Int} {cs : Nat} {inv : Int} (hL : L.Pairwise (· < ·)) (hR : Spec.Sorted R)
    (d : D) (hinv : LU.UInv false L R cs inv d) (lbuf rbuf : List Int) (hl : lbuf.length = cs) (hr : rbuf.length = cs)
    (h1 : lbuf.take d.k.rb.length = d.k.lb) (h2 : rbuf.take d.k.rb.length = d.k.rb) :
    ∃ k' lbuf' rbuf', generate_ordered_map_to_inner_left_unique_partial.run d.lch.data d.iMax d.rch.data d.jMax lbuf rbuf d.lch.lo
        d.rch.lo d.k.i d.k.j d.k.rb.length (partialFuel (mkP L R cs inv d))
        = .ok ((k'.i : Int), (k'.j : Int), (k'.rb.length : Int), lbuf', rbuf') ∧
      lbuf'.length = cs ∧ rbuf'.length = cs ∧ lbuf'.take k'.rb.length = k'.lb ∧ rbuf'.take k'.rb.length = k'.rb ∧
      LU.UInv false L R cs inv { d with k := k' } ∧ partialGuard .innerLU (mkP L R cs inv d) k' = false := by
  obtain ⟨k', hrun, hI, hg, _, _⟩ := LU.unique_partial (emit := false) hL hR d hinv
  have hv : LU.uvariant false = Variant.innerLU := rfl
  rw [hv] at hrun hg
  obtain ⟨lbuf', rbuf', hgen, hl', hr', ht1, ht2⟩ :=
    inner_left_unique_partial_ok (mkP L R cs inv d) d.k k' lbuf rbuf hl hr hinv.blen h1 h2 hrun
  exact ⟨k', lbuf', rbuf', hgen, hl', hr', ht1, ht2, hI, hg⟩

/-- one `_partial` call of the right-unique LEFT driver (left keys sorted, right keys strictly increasing; `RU.UInv`) -/
theorem gen_lru_partial_call {L R : List Int} {cs : Nat} {inv : Int} (hL : Spec.Sorted L) (hR : R.Pairwise (· < ·))
    (d : D) (hinv : RU.UInv true L R cs inv d) (rbuf : List Int) (hr : rbuf.length = cs)
    (h2 : rbuf.take d.k.rb.length = d.k.rb) :
    ∃ k' rbuf', generate_ordered_map_to_left_right_unique_partial.run d.lch.data d.iMax d.rch.data rbuf inv d.rch.lo
        d.k.i d.k.j d.k.rb.length (partialFuel (mkP L R cs inv d))
        = .ok ((k'.i : Int), (k'.j : Int), (k'.rb.length : Int), rbuf') ∧
      rbuf'.length = cs ∧ rbuf'.take k'.rb.length = k'.rb ∧
      RU.UInv true L R cs inv { d with k := k' } ∧ partialGuard .leftRU (mkP L R cs inv d) k' = false := by
  obtain ⟨k', hrun, hI, hg, _, _⟩ := RU.ru_partial (emit := true) hL hR d hinv
  have hv : RU.ruvariant true = Variant.leftRU := rfl
  rw [hv] at hrun hg
  obtain ⟨rbuf', hgen, hr', ht2⟩ := left_right_unique_partial_ok (mkP L R cs inv d) d.k k' rbuf hr h2 hrun
  exact ⟨k', rbuf', hgen, hr', ht2, hI, hg⟩

/-- the same for the right-unique INNER driver (both result buffers) -/
theorem gen_iru_partial_call {L R : List Int} {cs : Nat} {inv : Int} (hL : Spec.Sorted L) (hR : R.Pairwise (· < ·))
    (d : D) (hinv : RU.UInv false L R cs inv d) (lbuf rbuf : List Int) (hl : lbuf.length = cs) (hr : rbuf.length = cs)
    (h1 : lbuf.take d.k.rb.length = d.k.lb) (h2 : rbuf.take d.k.rb.length = d.k.rb) :
    ∃ k' lbuf' rbuf', generate_ordered_map_to_inner_right_unique_partial.run d.lch.data d.iMax d.rch.data d.jMax lbuf rbuf d.lch.lo
        d.rch.lo d.k.i d.k.j d.k.rb.length (partialFuel (mkP L R cs inv d))
        = .ok ((k'.i : Int), (k'.j : Int), (k'.rb.length : Int), lbuf', rbuf') ∧
      lbuf'.length = cs ∧ rbuf'.length = cs ∧ lbuf'.take k'.rb.length = k'.lb ∧ rbuf'.take k'.rb.length = k'.rb ∧
      RU.UInv false L R cs inv { d with k := k' } ∧ partialGuard .innerRU (mkP L R cs inv d) k' = false := by
  obtain ⟨k', hrun, hI, hg, _, _⟩ := RU.ru_partial (emit := false) hL hR d hinv
  have hv : RU.ruvariant false = Variant.innerRU := rfl
  rw [hv] at hrun hg
  obtain ⟨lbuf', rbuf', hgen, hl', hr', ht1, ht2⟩ :=
    inner_right_unique_partial_ok (mkP L R cs inv d) d.k k' lbuf rbuf hl hr hinv.blen h1 h2 hrun
  exact ⟨k', lbuf', rbuf', hgen, hl', hr', ht1, ht2, hI, hg⟩

/-- one `_partial` call of the both-unique INNER driver (`BInv false`) -/
theorem gen_ibu_partial_call {L R : List Int} {cs : Nat} {inv : Int} (hL : L.Pairwise (· < ·)) (hR : R.Pairwise (· < ·))
    (d : D) (hinv : BInv false L R cs inv d) (lbuf rbuf : List Int) (hl : lbuf.length = cs) (hr : rbuf.length = cs)
    (h1 : lbuf.take d.k.rb.length = d.k.lb) (h2 : rbuf.take d.k.rb.length = d.k.rb) :
    ∃ k' lbuf' rbuf', generate_ordered_map_to_inner_both_unique_partial.run d.lch.data d.iMax d.rch.data d.jMax lbuf rbuf d.lch.lo
        d.rch.lo d.k.i d.k.j d.k.rb.length (partialFuel (mkP L R cs inv d))
        = .ok ((k'.i : Int), (k'.j : Int), (k'.rb.length : Int), lbuf', rbuf') ∧
      lbuf'.length = cs ∧ rbuf'.length = cs ∧ lbuf'.take k'.rb.length = k'.lb ∧ rbuf'.take k'.rb.length = k'.rb ∧
      BInv false L R cs inv { d with k := k' } ∧ partialGuard .innerBU (mkP L R cs inv d) k' = false := by
  obtain ⟨k', hrun, hI, hg, _, _⟩ := bu_partial (emit := false) hL hR d hinv
  have hv : bvariant false = Variant.innerBU := rfl
  rw [hv] at hrun hg
  obtain ⟨lbuf', rbuf', hgen, hl', hr', ht1, ht2⟩ :=
    inner_both_unique_partial_ok (mkP L R cs inv d) d.k k' lbuf rbuf hl hr hinv.blen h1 h2 hrun
  exact ⟨k', lbuf', rbuf', hgen, hl', hr', ht1, ht2, hI, hg⟩

/-- one `_partial` call of the GENERAL inner driver (`GInv false`) -/
theorem gen_inner_general_partial_call {L R : List Int} {cs : Nat} {inv : Int} (hL : Spec.Sorted L) (hR : Spec.Sorted R)
    (d : D) (hinv : GInv false L R cs inv d) (lbuf rbuf : List Int) (hl : lbuf.length = cs) (hr : rbuf.length = cs)
    (h1 : lbuf.take d.k.rb.length = d.k.lb) (h2 : rbuf.take d.k.rb.length = d.k.rb) :
    ∃ k' lbuf' rbuf', generate_ordered_map_to_inner_partial.run d.lch.data d.iMax d.rch.data d.jMax lbuf rbuf d.lch.lo d.rch.lo
        d.k.i d.k.j d.k.rb.length d.k.ii d.k.jj d.k.iiMax d.k.jjMax d.k.inner (partialFuel (mkP L R cs inv d))
        = .ok ((k'.i : Int), (k'.j : Int), (k'.rb.length : Int), (k'.ii : Int), (k'.jj : Int), k'.iiMax, k'.jjMax, k'.inner,
               lbuf', rbuf') ∧
      lbuf'.length = cs ∧ rbuf'.length = cs ∧ lbuf'.take k'.rb.length = k'.lb ∧ rbuf'.take k'.rb.length = k'.rb ∧
      GInv false L R cs inv { d with k := k' } ∧ partialGuard .inner (mkP L R cs inv d) k' = false := by
  obtain ⟨k', hrun, hI, hg, _, _⟩ := general_partial (emit := false) hL hR d hinv
  have hv : gvariant false = Variant.inner := rfl
  rw [hv] at hrun hg
  obtain ⟨lbuf', rbuf', hgen, hl', hr', ht1, ht2⟩ :=
    inner_partial_ok (mkP L R cs inv d) d.k k' lbuf rbuf hl hr hinv.blen h1 h2 hrun
  exact ⟨k', lbuf', rbuf', hgen, hl', hr', ht1, ht2, hI, hg⟩

/-- one `_remaining` call of the tail loop of a left driver (general / left-unique: both buffers) executed by the TRANSLATED
    kernel under the tail invariant `TInv`: returns normally with the model's `i`, `r` and written prefixes, keeps the invariant,
    leaves the kernel's loop guard false -/
theorem gen_left_remaining_call {L R : List Int} {cs : Nat} {inv : Int} (hL : Spec.Sorted L) (hR : Spec.Sorted R)
    (d : D) (hinv : TInv L R cs inv d) (lbuf rbuf : List Int) (hl : lbuf.length = cs) (hr : rbuf.length = cs)
    (h1 : lbuf.take d.k.rb.length = d.k.lb) (h2 : rbuf.take d.k.rb.length = d.k.rb) :
    ∃ k' lbuf' rbuf', generate_ordered_map_to_left_remaining.run d.iMax lbuf rbuf d.lch.lo d.k.i d.k.rb.length inv (d.iMax + 1)
        = .ok ((k'.i : Int), (k'.rb.length : Int), lbuf', rbuf') ∧
      lbuf'.length = cs ∧ rbuf'.length = cs ∧ lbuf'.take k'.rb.length = k'.lb ∧ rbuf'.take k'.rb.length = k'.rb ∧
      TInv L R cs inv { d with k := k' } ∧ (decide (k'.i < d.iMax) && decide (k'.r < cs)) = false := by
  obtain ⟨k', hrun, hI, hg, _, _⟩ := remaining_run hL hR d hinv
  obtain ⟨lbuf', rbuf', hgen, hl', hr', ht1, ht2⟩ :=
    left_remaining_ok (mkP L R cs inv d) d.k k' lbuf rbuf hl hr hinv.blen h1 h2 hrun
  exact ⟨k', lbuf', rbuf', hgen, hl', hr', ht1, ht2, hI, hg⟩

/-- the same for the right-unique / both-unique left drivers, whose `_remaining` kernel writes `r_result` only -/
theorem gen_right_unique_remaining_call {L R : List Int} {cs : Nat} {inv : Int} (hL : Spec.Sorted L) (hR : Spec.Sorted R)
    (d : D) (hinv : TInv L R cs inv d) (rbuf : List Int) (hr : rbuf.length = cs) (h2 : rbuf.take d.k.rb.length = d.k.rb) :
    ∃ k' rbuf', generate_ordered_map_to_left_right_unique_remaining.run d.iMax rbuf d.k.i d.k.rb.length inv (d.iMax + 1)
        = .ok ((k'.i : Int), (k'.rb.length : Int), rbuf') ∧
      rbuf'.length = cs ∧ rbuf'.take k'.rb.length = k'.rb ∧
      TInv L R cs inv { d with k := k' } ∧ (decide (k'.i < d.iMax) && decide (k'.r < cs)) = false := by
  obtain ⟨k', hrun, hI, hg, _, _⟩ := remaining_run hL hR d hinv
  obtain ⟨rbuf', hgen, hr', ht2⟩ := right_unique_remaining_ok (mkP L R cs inv d) d.k k' rbuf hr h2 hrun
  exact ⟨k', rbuf', hgen, hr', ht2, hI, hg⟩

/-! concrete runs: the translated kernels on small inputs, and the model runs that meet the hypotheses of the transfer theorems -/
example : generate_ordered_map_to_left_left_unique_partial.run [1, 2, 4] [2, 2, 3] 3 [7, 7, 7, 7] [8, 8, 8, 8] (-1) 0 10 0 0 0 40
    = .ok (2, 3, 3, [0, 1, 1, 7], [-1, 10, 11, 8]) := rfl
example : ∃ k', runPartial .leftLU ⟨[1, 2, 4], [2, 2, 3], 3, 3, 4, 0, 10, -1⟩ {} = .ok k' ∧ k'.lb = [0, 1, 1] ∧ k'.rb = [-1, 10, 11] :=
  ⟨_, rfl, rfl, rfl⟩
example : generate_ordered_map_to_left_right_unique_partial.run [1, 2, 2, 4] 4 [2, 3] [8, 8, 8, 8, 8] (-1) 10 0 0 0 40
    = .ok (3, 2, 3, [-1, 10, 10, 8, 8]) := rfl
example : ∃ k', runPartial .leftRU ⟨[1, 2, 2, 4], [2, 3], 4, 2, 5, 0, 10, -1⟩ {} = .ok k' ∧ k'.rb = [-1, 10, 10] :=
  ⟨_, rfl, rfl⟩
example : generate_ordered_map_to_inner_partial.run [1, 2, 2] 3 [2, 2, 3] 3 [7, 7, 7, 7, 7] [8, 8, 8, 8, 8] 0 10 0 0 0 0 0 (-1) (-1)
    false 40 = .ok (3, 2, 4, 0, 0, -1, -1, false, [1, 1, 2, 2, 7], [10, 11, 10, 11, 8]) := rfl
example : ∃ k', runPartial .inner ⟨[1, 2, 2], [2, 2, 3], 3, 3, 5, 0, 10, -1⟩ {} = .ok k' ∧ k'.lb = [1, 1, 2, 2] ∧
    k'.rb = [10, 11, 10, 11] := ⟨_, rfl, rfl, rfl⟩
example : generate_ordered_map_to_inner_left_unique_partial.run [1, 2, 4] 3 [2, 2, 3] 3 [7, 7, 7] [8, 8, 8] 0 10 0 0 0 40
    = .ok (2, 3, 2, [1, 1, 7], [10, 11, 8]) := rfl
example : ∃ k', runPartial .innerLU ⟨[1, 2, 4], [2, 2, 3], 3, 3, 3, 0, 10, -1⟩ {} = .ok k' ∧ k'.lb = [1, 1] ∧ k'.rb = [10, 11] :=
  ⟨_, rfl, rfl, rfl⟩
example : generate_ordered_map_to_inner_right_unique_partial.run [1, 2, 2, 4] 4 [2, 3] 2 [7, 7, 7] [8, 8, 8] 0 10 0 0 0 40
    = .ok (3, 2, 2, [1, 2, 7], [10, 10, 8]) := rfl
example : ∃ k', runPartial .innerRU ⟨[1, 2, 2, 4], [2, 3], 4, 2, 3, 0, 10, -1⟩ {} = .ok k' ∧ k'.lb = [1, 2] ∧ k'.rb = [10, 10] :=
  ⟨_, rfl, rfl, rfl⟩
example : generate_ordered_map_to_inner_both_unique_partial.run [1, 3, 5] 3 [3, 4, 5] 3 [7, 7, 7] [8, 8, 8] 0 10 0 0 0 40
    = .ok (3, 3, 2, [1, 2, 7], [10, 12, 8]) := rfl
example : ∃ k', runPartial .innerBU ⟨[1, 3, 5], [3, 4, 5], 3, 3, 3, 0, 10, -1⟩ {} = .ok k' ∧ k'.lb = [1, 2] ∧ k'.rb = [10, 12] :=
  ⟨_, rfl, rfl, rfl⟩

end Exetera.Props.C03Gen
