import Exetera.Lemmas.GroupByCore
/-!
  C07 helper lemmas, part 4: `_write_groupby_keys`, the span reductions, and their reading as adjacent groups of the
  sorted frame.
-/
namespace Exetera.GroupBy
open Exetera Exetera.Spec Exetera.Spans Exetera.SortIndex List

/-- what each aggregate computes on the values of one group -/
def aggSpec : Agg → List Int → Option Int
  | .min => List.min?
  | .max => List.max?
  | .first => List.head?
  | .last => List.getLast?

theorem pairs_map_fst : ∀ (sp : List Nat), (pairs sp).map (·.1) = sp.dropLast
  | [] => rfl
  | [_] => rfl
  | a :: b :: l => by
    rw [pairs_cons_cons, map_cons, pairs_map_fst (b :: l)]
    simp [dropLast]

theorem dropLast_lt_of_wellformed {sp : List Nat} {n : Nat} (h : Wellformed sp n) : ∀ a ∈ sp.dropLast, a < n := by
  intro a ha
  rw [← pairs_map_fst, mem_map] at ha
  obtain ⟨p, hp, rfl⟩ := ha
  have := pairs_wellformed h p hp
  omega

theorem keyRows_map (l : List Nat) : ∀ (cols : List (List Int)),
    keyRows l.length (cols.map (fun c => l.map (c.getD · 0))) = l.map (keyAt cols)
  | [] => by
    simp only [map_nil, keyRows]
    apply List.ext_getElem <;> simp [keyAt]
  | c :: cs => by
    simp only [map_cons, keyRows, keyRows_map l cs, keyAt_cons]
    apply List.ext_getElem
    · simp
    · intro i h1 h2
      simp [keyAt]

theorem writeKeys_none (sp : List Nat) : ∀ (cols : List (List Int)), (∀ c ∈ cols, ∀ a ∈ sp.dropLast, a < c.length) →
    writeKeys ⟨none, sp⟩ cols = .ok (cols.map (fun c => sp.dropLast.map (c.getD · 0)))
  | [], _ => rfl
  | c :: cs, h => by
    have ih := writeKeys_none sp cs (fun c' hc' => h c' (by simp [hc']))
    simp only [writeKeys, gather_ok c 0 sp.dropLast (h c (by simp)), ih, SortIndex.consE_ok, map_cons]

theorem writeKeys_some (idx sp : List Nat) : ∀ (cols : List (List Int)), (∀ c ∈ cols, ∀ i ∈ idx, i < c.length) →
    (∀ a ∈ sp.dropLast, a < idx.length) →
    writeKeys ⟨some idx, sp⟩ cols = .ok ((colsAlong cols idx).map (fun c => sp.dropLast.map (c.getD · 0)))
  | [], _, _ => rfl
  | c :: cs, h, h2 => by
    have ih := writeKeys_some idx sp cs (fun c' hc' => h c' (by simp [hc'])) h2
    simp only [writeKeys, gather_ok c 0 idx (h c (by simp))]
    rw [gather_ok (idx.map (c.getD · 0)) 0 sp.dropLast (by simpa using h2), ih]
    simp [colsAlong]

theorem getElem?_rowsBy (cols : List (List Int)) (n i : Nat) (h : i < n) : (rowsBy cols n)[i]? = some (keyAt cols i) := by
  simp [rowsBy, h]

/-- on a sorted frame `(cs, Ts)`: the key columns written through `spans[:-1]` are the keys of the adjacent groups, the
    slices of the target between consecutive spans are the groups' values -/
theorem frame_core {V} (cs : List (List Int)) (Ts : List V) (n : Nat) (hT : Ts.length = n) :
    keyRows (spans neq (rowsBy cs n)).dropLast.length
        (cs.map (fun c => (spans neq (rowsBy cs n)).dropLast.map (c.getD · 0))) =
      (groupAdj ((rowsBy cs n).zip Ts)).map (·.1) ∧
    (pairs (spans neq (rowsBy cs n))).map (fun p => slice Ts p.1 p.2) = (groupAdj ((rowsBy cs n).zip Ts)).map (·.2) := by
  have hlen : Ts.length = (rowsBy cs n).length := by simp [rowsBy, hT]
  have hB := pairs_spans_eq_groupAdj (rowsBy cs n) Ts hlen
  have hw : Wellformed (spans neq (rowsBy cs n)) n := by
    have := spans_wellformed' neq (rowsBy cs n)
    simpa [rowsBy] using this
  constructor
  · rw [keyRows_map]
    have h1 := congrArg (List.map Prod.fst) hB
    simp only [map_map] at h1
    have h2 : (pairs (spans neq (rowsBy cs n))).map (Prod.fst ∘ fun p => ((rowsBy cs n)[p.1]?, slice Ts p.1 p.2)) =
        ((pairs (spans neq (rowsBy cs n))).map (·.1)).map (fun a => some (keyAt cs a)) := by
      rw [map_map]
      apply map_congr_left
      intro p hp
      have := pairs_wellformed hw p hp
      simp [getElem?_rowsBy cs n p.1 (by omega)]
    rw [h2] at h1
    rw [pairs_map_fst] at h1
    have h3 : (groupAdj ((rowsBy cs n).zip Ts)).map (Prod.fst ∘ fun g => (some g.1, g.2)) =
        ((groupAdj ((rowsBy cs n).zip Ts)).map (·.1)).map some := by
      rw [map_map]; rfl
    rw [h3] at h1
    have h4 : map (fun a => some (keyAt cs a)) (spans neq (rowsBy cs n)).dropLast =
        map some (map (keyAt cs) (spans neq (rowsBy cs n)).dropLast) := by rw [map_map]; rfl
    rw [h4] at h1
    exact (map_inj_right (fun _ _ h => Option.some.inj h)).1 h1
  · have h1 := congrArg (List.map Prod.snd) hB
    rw [map_map, map_map] at h1
    exact h1

/-- the span reduction of a non-indexed target: no error, one value per span, the aggregate of the slice -/
theorem applySpans_plain (agg : Agg) (sp : List Nat) (Ts : List Int) (h : Wellformed sp Ts.length) :
    ∃ r, applySpans .repaired agg sp (.plain Ts) = .ok (.ints r) ∧
      r.map some = (pairs sp).map (fun p => aggSpec agg (slice Ts p.1 p.2)) := by
  have ht := Exetera.Props.C08.field_apply_spans_transparent (plainKernel agg) sp Ts Ts.length h
  have : ∃ r, plainKernel agg sp Ts = .ok r ∧ r.map some = (pairs sp).map (fun p => aggSpec agg (slice Ts p.1 p.2)) := by
    cases agg with
    | min => exact Exetera.Props.C08.apply_spans_min_eq sp Ts h
    | max => exact Exetera.Props.C08.apply_spans_max_eq sp Ts h
    | first => exact Exetera.Props.C08.apply_spans_first_eq sp Ts h
    | last => exact Exetera.Props.C08.apply_spans_last_eq sp Ts h
  obtain ⟨r, hr, hm⟩ := this
  exact ⟨r, by simp [applySpans, ht, hr], hm⟩

end Exetera.GroupBy
