import Driver.Util
import Exetera.Model.Concat
open Lean Exetera Exetera.Concat
namespace Driver.C16

def destJson (d : Dest Nat) (calls : Nat) : Json :=
  Json.mkObj [("indices", Driver.nats d.indices), ("values", Driver.nats d.values), ("calls", toJson calls)]

def runV (v : Variant) (sep delim : Nat) (spans idx vals : List Nat) (sc dc mult : Nat) : Json :=
  match applySpansConcatS v sep delim spans idx vals sc dc mult with
  | .ok st => Driver.okJson (destJson st.dest st.calls)
  | .error e => Driver.errJson e

def handle : Driver.Handler := fun op j =>
  match op with
  | "concat_session" => some do
    let spans ← Driver.get? (List Nat) j "spans"
    let idx ← Driver.get? (List Nat) j "idx"
    let vals ← Driver.get? (List Nat) j "vals"
    let sc ← Driver.get? Nat j "sc"
    let dc ← Driver.get? Nat j "dc"
    let mult ← Driver.get? Nat j "mult"
    let sep := (j.getObjValAs? Nat "sep").toOption.getD 44
    let delim := (j.getObjValAs? Nat "delim").toOption.getD 34
    -- the result of the repaired variant is the model output; the as-found variant is reported next to it so that
    -- a regression to the code before the fix: patches can be named
    let rep := runV .repaired sep delim spans idx vals sc dc mult
    let asf := runV .asFound sep delim spans idx vals sc dc mult
    pure <| rep.setObjVal! "as_found" asf
  | "concat_kernel" => some do
    let spans ← Driver.get? (List Nat) j "spans"
    let idx ← Driver.get? (List Nat) j "idx"
    let vals ← Driver.get? (List Nat) j "vals"
    let capI ← Driver.get? Nat j "cap_i"
    let capV ← Driver.get? Nat j "cap_v"
    let maxI ← Driver.get? Nat j "max_i"
    let maxV ← Driver.get? Nat j "max_v"
    let spStart ← Driver.get? Nat j "sp_start"
    let dsv ← Driver.get? Nat j "dest_start_v"
    let index0 ← Driver.get? Nat j "index0"
    let sep := (j.getObjValAs? Nat "sep").toOption.getD 44
    let delim := (j.getObjValAs? Nat "delim").toOption.getD 34
    let P : Params Nat := { spans := spans, idx := idx, vals := vals, sep := sep, delim := delim, capI := capI,
                            capV := capV, maxI := maxI, maxV := maxV, destStartV := dsv, index0 := index0 }
    pure <| Driver.outE (fun (r : Nat × Buf Nat) =>
      Json.mkObj [("s", toJson r.1), ("ib", Driver.nats r.2.ib), ("vb", Driver.nats r.2.vb)]) (kernel P spStart)
  | _ => none

end Driver.C16
