import Exetera.Gen.Kernels
import Exetera.Model.Journal
import Exetera.Lemmas.GenKernels
import Exetera.Lemmas.GenKernelsSpans
import Exetera.Lemmas.GenKernelsSpansIndex
import Exetera.Lemmas.GenKernelsJournal
/-!
  The TRANSLATED `compare_indexed_rows_for_journalling` (three `assert`s, two of them on the constant negative subscript
  `indices[-1]`; slices of the value arrays compared with `np.array_equal`) against `Journal.compareIndexedRows` — transfer form:
  every `.ok` run of the model is a run of the translated kernel with the same `to_keep`, provided no map entry is below -1 (the
  model wraps a negative row number around once, the translation makes a negative subscript an error).
-/
namespace Exetera.GenK

open Exetera Exetera.PyRt Exetera.Journal Exetera.Gen.Kernels

theorem idxNegE_one_ints (xs : List Nat) (site : String) {x : Nat} (h : xs.getLast? = some x) :
    idxNegE (ints xs) 1 site = .ok (x : Int) := by
  rw [List.getLast?_eq_getElem?] at h
  have hlen : 1 ≤ xs.length := by
    cases xs with
    | nil => simp at h
    | cons a t => simp
  simp only [idxNegE, ints_length, hlen, if_true]
  exact getE_ints xs _ site h

namespace CI

abbrev St := compare_indexed_rows_for_journalling.St

theorem step (om nm : List Int) (oi : List Nat) (ov : List Int) (ni : List Nat) (nv : List Int)
    (hom : ∀ x ∈ om, -1 ≤ x) (hnm : ∀ x ∈ nm, -1 ≤ x) (i : Nat) (tk tk' : List Bool) (s : St)
    (hR : s.p0 = om ∧ s.p1 = nm ∧ s.p2 = ints oi ∧ s.p3 = ov ∧ s.p4 = ints ni ∧ s.p5 = nv ∧ s.p6 = tk)
    (h : compareBody om nm (strDiffers oi ov ni nv) i tk = .ok tk') :
    ∃ s', compare_indexed_rows_for_journalling.body_L1 { s with v0 := (i : Int) } = .ok s' ∧
      (s'.p0 = om ∧ s'.p1 = nm ∧ s'.p2 = ints oi ∧ s'.p3 = ov ∧ s'.p4 = ints ni ∧ s'.p5 = nv ∧ s'.p6 = tk') := by
  obtain ⟨h0, h1, h2, h3, h4, h5, h6⟩ := hR
  simp only [compareBody, bind, Except.bind, pure, Except.pure] at h
  simp only [compare_indexed_rows_for_journalling.body_L1, h0, h1, h2, h3, h4, h5, h6, idxE_nat]
  cases ht : getE tk i "to_keep[i]" with
  | error e => rw [ht] at h; simp at h
  | ok t =>
    rw [ht] at h
    simp only [] at h
    rw [getE_site_j "p6[v0]" ht]
    simp only [bindE_ok]
    cases t with
    | true =>
      simp only [Bool.true_eq_false, if_false, beq_iff_eq, Except.ok.injEq] at h ⊢
      subst h
      exact ⟨_, rfl, rfl, rfl, rfl, rfl, rfl, rfl, rfl⟩
    | false =>
      simp only [beq_self_eq_true, if_true] at h ⊢
      cases ho : getE om i "old_map[i]" with
      | error e => rw [ho] at h; simp at h
      | ok o =>
        rw [ho] at h
        simp only [] at h
        rw [getE_site_j "p0[v0]" ho]
        simp only [bindE_ok]
        by_cases ho1 : o = -1
        · subst ho1
          simp only [beq_self_eq_true, if_true, setTk] at h ⊢
          rw [setIdxE_nat]
          simp only [setE] at h ⊢
          split at h
          · rename_i hlt
            simp only [Except.ok.injEq] at h
            subst h
            simp only [hlt, if_true, bindE_ok]
            exact ⟨_, rfl, rfl, rfl, rfl, rfl, rfl, rfl, rfl⟩
          · simp at h
        · have ho1' : (o == -1) = false := by simp [ho1]
          simp only [ho1', Bool.false_eq_true, if_false] at h ⊢
          cases hn : getE nm i "new_map[i]" with
          | error e => rw [hn] at h; simp at h
          | ok n =>
            rw [hn] at h
            simp only [] at h
            rw [getE_site_j "p1[v0]" hn]
            simp only [bindE_ok]
            by_cases hn1 : n = -1
            · subst hn1
              simp only [beq_self_eq_true, if_true, setTk] at h ⊢
              rw [setIdxE_nat]
              simp only [setE] at h ⊢
              split at h
              · rename_i hlt
                simp only [Except.ok.injEq] at h
                subst h
                simp only [hlt, if_true, bindE_ok]
                exact ⟨_, rfl, rfl, rfl, rfl, rfl, rfl, rfl, rfl⟩
              · simp at h
            · have hn1' : (n == -1) = false := by simp [hn1]
              simp only [hn1', Bool.false_eq_true, if_false, strDiffers, rowBytes, bind, Except.bind, pure, Except.pure] at h ⊢
              have ho0 : 0 ≤ o := by
                have := hom o (List.mem_of_getElem? (getE_eq_ok.mp ho)); omega
              have hn0 : 0 ≤ n := by
                have := hnm n (List.mem_of_getElem? (getE_eq_ok.mp hn)); omega
              rw [getI_nonneg_j _ _ _ ho0, getI_nonneg_j _ _ _ (by omega : 0 ≤ o + 1), getI_nonneg_j _ _ _ hn0,
                getI_nonneg_j _ _ _ (by omega : 0 ≤ n + 1)] at h
              cases ha : oi[o.toNat]? with
              | none => simp [getE, ha] at h
              | some a =>
                cases hb : oi[(o + 1).toNat]? with
                | none => simp [getE, ha, hb] at h
                | some b =>
                  cases hc : ni[n.toNat]? with
                  | none => simp [getE, ha, hb, hc] at h
                  | some c =>
                    cases hd : ni[(n + 1).toNat]? with
                    | none => simp [getE, ha, hb, hc, hd] at h
                    | some d =>
                      simp only [getE, ha, hb, hc, hd, setTk] at h
                      have e1 : idxE (ints oi) o "p2[p0[v0]]" = .ok (a : Int) := by
                        simp only [idxE, ho0, if_true]; exact getE_ints _ _ _ ha
                      have e2 : idxE (ints oi) (o + 1) "p2[p0[v0] + 1]" = .ok (b : Int) := by
                        simp only [idxE, (by omega : 0 ≤ o + 1), if_true]; exact getE_ints _ _ _ hb
                      have e3 : idxE (ints ni) n "p4[p1[v0]]" = .ok (c : Int) := by
                        simp only [idxE, hn0, if_true]; exact getE_ints _ _ _ hc
                      have e4 : idxE (ints ni) (n + 1) "p4[p1[v0] + 1]" = .ok (d : Int) := by
                        simp only [idxE, (by omega : 0 ≤ n + 1), if_true]; exact getE_ints _ _ _ hd
                      simp only [e1, e2, e3, e4, bindE_ok, pySlice_nat]
                      have hval : (!(slice ov a b == slice nv c d)) = (slice ov a b != slice nv c d) := by simp [bne]
                      rw [hval, setIdxE_nat]
                      simp only [setE] at h ⊢
                      split at h
                      · rename_i hlt
                        simp only [Except.ok.injEq] at h
                        subst h
                        simp only [hlt, if_true, bindE_ok]
                        exact ⟨_, rfl, rfl, rfl, rfl, rfl, rfl, rfl, rfl⟩
                      · simp at h

end CI

/-- every `.ok` run of the model's indexed compare kernel (its three assertions included) is a run of the translated kernel with the
    same `to_keep`, provided no map entry is below -1 -/
theorem compare_indexed_rows_ok (om nm : List Int) (oi : List Nat) (ov : List Int) (ni : List Nat) (nv : List Int)
    (tk tk' : List Bool) (hom : ∀ x ∈ om, -1 ≤ x) (hnm : ∀ x ∈ nm, -1 ≤ x)
    (h : compareIndexedRows om nm oi ov ni nv tk = .ok tk') :
    compare_indexed_rows_for_journalling.run om nm (ints oi) ov (ints ni) nv tk = .ok tk' := by
  unfold compareIndexedRows at h
  by_cases hlen : om.length = nm.length
  · have hl1 : (om.length != nm.length) = false := by simp [hlen]
    simp only [hl1, Bool.false_eq_true, if_false] at h
    cases hlo : oi.getLast? with
    | none => simp [hlo] at h
    | some lo =>
      cases hln : ni.getLast? with
      | none => simp [hlo, hln] at h
      | some ln =>
        simp only [hlo, hln] at h
        by_cases h1 : lo = ov.length
        · have h1' : (lo != ov.length) = false := by simp [h1]
          simp only [h1', Bool.false_eq_true, if_false] at h
          by_cases h2 : ln = nv.length
          · have h2' : (ln != nv.length) = false := by simp [h2]
            simp only [h2', Bool.false_eq_true, if_false] at h
            obtain ⟨s', hs, _, _, _, _, _, _, h6⟩ := forRange_forE_ok
              (fun (t : List Bool) (s : CI.St) =>
                s.p0 = om ∧ s.p1 = nm ∧ s.p2 = ints oi ∧ s.p3 = ov ∧ s.p4 = ints ni ∧ s.p5 = nv ∧ s.p6 = t)
              (compareBody om nm (strDiffers oi ov ni nv))
              (fun k s => compare_indexed_rows_for_journalling.body_L1 { s with v0 := k })
              (fun i t t' s hR hb => CI.step om nm oi ov ni nv hom hnm i t t' s hR hb) om.length 0 tk tk'
              { p0 := om, p1 := nm, p2 := ints oi, p3 := ov, p4 := ints ni, p5 := nv, p6 := tk, v0 := 0, v1 := [], v2 := [] }
              ⟨rfl, rfl, rfl, rfl, rfl, rfl, rfl⟩ h
            unfold compare_indexed_rows_for_journalling.run forRangeE
            have hn : (pyLen om - 0).toNat = om.length := by simp [pyLen]
            have hs' : forRangeAux (fun _ => false) (fun k s => compare_indexed_rows_for_journalling.body_L1 { s with v0 := k })
                om.length 0
                { p0 := om, p1 := nm, p2 := ints oi, p3 := ov, p4 := ints ni, p5 := nv, p6 := tk, v0 := 0, v1 := [], v2 := [] }
                = .ok s' := hs
            simp only [pyLen, hlen, beq_self_eq_true, if_true, idxNegE_one_ints oi _ hlo, idxNegE_one_ints ni _ hln, bindE_ok,
              h1, h2]
            have hn' : ((nm.length : Int) - 0).toNat = om.length := by omega
            simp only [hn']
            simp only [hs', bindE_ok, h6]
          · have h2' : (ln != nv.length) = true := by simp [h2]
            simp [h2'] at h
        · have h1' : (lo != ov.length) = true := by simp [h1]
          simp [h1'] at h
  · have hl1 : (om.length != nm.length) = true := by simp [hlen]
    simp [hl1] at h

end Exetera.GenK
