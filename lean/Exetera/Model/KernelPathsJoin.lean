/-!
  C10 — DOC Join
-/
namespace Exetera.KernelPaths

/-- the join kernels: path condition of every subscript occurrence -/
def joinPaths : List (String × List (String × List String)) := [
  ("generate_ordered_map_to_left_remaining", [
    ("W l_result[r]", ["while i < i_max and r < len(l_result)"]),
    ("W r_result[r]", ["while i < i_max and r < len(l_result)"])]),
  ("generate_ordered_map_to_left_partial", [
    ("R left[i]", ["while i < i_max and j < j_max and (r < len(l_result))", "inner is False"]),
    ("R left[i]", ["while i < i_max and j < j_max and (r < len(l_result))", "inner is False", "not (left[i] < right[j])"]),
    ("R left[i_ + 1]", ["while i < i_max and j < j_max and (r < len(l_result))", "inner is False", "not (left[i] < right[j])", "not (left[i] > right[j])", "i_ + 1 < i_max"]),
    ("R left[i_]", ["while i < i_max and j < j_max and (r < len(l_result))", "inner is False", "not (left[i] < right[j])", "not (left[i] > right[j])", "i_ + 1 < i_max"]),
    ("R right[j]", ["while i < i_max and j < j_max and (r < len(l_result))", "inner is False"]),
    ("R right[j]", ["while i < i_max and j < j_max and (r < len(l_result))", "inner is False", "not (left[i] < right[j])"]),
    ("R right[j_ + 1]", ["while i < i_max and j < j_max and (r < len(l_result))", "inner is False", "not (left[i] < right[j])", "not (left[i] > right[j])", "j_ + 1 < j_max"]),
    ("R right[j_]", ["while i < i_max and j < j_max and (r < len(l_result))", "inner is False", "not (left[i] < right[j])", "not (left[i] > right[j])", "j_ + 1 < j_max"]),
    ("W l_result[r]", ["while i < i_max and j < j_max and (r < len(l_result))", "inner is False", "left[i] < right[j]"]),
    ("W l_result[r]", ["while i < i_max and j < j_max and (r < len(l_result))", "not (inner is False)"]),
    ("W r_result[r]", ["while i < i_max and j < j_max and (r < len(l_result))", "inner is False", "left[i] < right[j]"]),
    ("W r_result[r]", ["while i < i_max and j < j_max and (r < len(l_result))", "not (inner is False)"])]),
  ("generate_ordered_map_to_left_left_unique_partial", [
    ("R left[i]", ["while i < len(left) and j < j_max and (r < len(l_result))"]),
    ("R left[i]", ["while i < len(left) and j < j_max and (r < len(l_result))", "not (left[i] < right[j])"]),
    ("R right[j + 1]", ["while i < len(left) and j < j_max and (r < len(l_result))", "not (left[i] < right[j])", "not (left[i] > right[j])", "not (j + 1 >= j_max)"]),
    ("R right[j]", ["while i < len(left) and j < j_max and (r < len(l_result))"]),
    ("R right[j]", ["while i < len(left) and j < j_max and (r < len(l_result))", "not (left[i] < right[j])"]),
    ("R right[j]", ["while i < len(left) and j < j_max and (r < len(l_result))", "not (left[i] < right[j])", "not (left[i] > right[j])", "not (j + 1 >= j_max)"]),
    ("W l_result[r]", ["while i < len(left) and j < j_max and (r < len(l_result))", "left[i] < right[j]"]),
    ("W l_result[r]", ["while i < len(left) and j < j_max and (r < len(l_result))", "not (left[i] < right[j])", "not (left[i] > right[j])"]),
    ("W r_result[r]", ["while i < len(left) and j < j_max and (r < len(l_result))", "left[i] < right[j]"]),
    ("W r_result[r]", ["while i < len(left) and j < j_max and (r < len(l_result))", "not (left[i] < right[j])", "not (left[i] > right[j])"])]),
  ("generate_ordered_map_to_left_right_unique_partial", [
    ("R left[i + 1]", ["while i < i_max and j < len(right) and (r < len(r_result))", "not (left[i] < right[j])", "not (left[i] > right[j])", "not (i + 1 >= i_max)"]),
    ("R left[i]", ["while i < i_max and j < len(right) and (r < len(r_result))"]),
    ("R left[i]", ["while i < i_max and j < len(right) and (r < len(r_result))", "not (left[i] < right[j])"]),
    ("R left[i]", ["while i < i_max and j < len(right) and (r < len(r_result))", "not (left[i] < right[j])", "not (left[i] > right[j])", "not (i + 1 >= i_max)"]),
    ("R right[j]", ["while i < i_max and j < len(right) and (r < len(r_result))"]),
    ("R right[j]", ["while i < i_max and j < len(right) and (r < len(r_result))", "not (left[i] < right[j])"]),
    ("W r_result[r]", ["while i < i_max and j < len(right) and (r < len(r_result))", "left[i] < right[j]"]),
    ("W r_result[r]", ["while i < i_max and j < len(right) and (r < len(r_result))", "not (left[i] < right[j])", "not (left[i] > right[j])"])]),
  ("generate_ordered_map_to_left_both_unique_partial", [
    ("R left[i]", ["while i < i_max and j < j_max and (r < r_max)"]),
    ("R left[i]", ["while i < i_max and j < j_max and (r < r_max)", "not (left[i] < right[j])"]),
    ("R right[j]", ["while i < i_max and j < j_max and (r < r_max)"]),
    ("R right[j]", ["while i < i_max and j < j_max and (r < r_max)", "not (left[i] < right[j])"]),
    ("W r_result[r]", ["while i < i_max and j < j_max and (r < r_max)", "left[i] < right[j]"]),
    ("W r_result[r]", ["while i < i_max and j < j_max and (r < r_max)", "not (left[i] < right[j])", "not (left[i] > right[j])"])]),
  ("generate_ordered_map_to_left_right_unique_remaining", [
    ("W r_result[r]", ["while i < i_max and r < len(r_result)"])]),
  ("generate_ordered_map_to_inner_partial", [
    ("R left[i]", ["while i < i_max and j < j_max and (r < len(l_result))", "inner is False"]),
    ("R left[i]", ["while i < i_max and j < j_max and (r < len(l_result))", "inner is False", "not (left[i] < right[j])"]),
    ("R left[i_ + 1]", ["while i < i_max and j < j_max and (r < len(l_result))", "inner is False", "not (left[i] < right[j])", "not (left[i] > right[j])", "i_ + 1 < i_max"]),
    ("R left[i_]", ["while i < i_max and j < j_max and (r < len(l_result))", "inner is False", "not (left[i] < right[j])", "not (left[i] > right[j])", "i_ + 1 < i_max"]),
    ("R right[j]", ["while i < i_max and j < j_max and (r < len(l_result))", "inner is False"]),
    ("R right[j]", ["while i < i_max and j < j_max and (r < len(l_result))", "inner is False", "not (left[i] < right[j])"]),
    ("R right[j_ + 1]", ["while i < i_max and j < j_max and (r < len(l_result))", "inner is False", "not (left[i] < right[j])", "not (left[i] > right[j])", "j_ + 1 < j_max"]),
    ("R right[j_]", ["while i < i_max and j < j_max and (r < len(l_result))", "inner is False", "not (left[i] < right[j])", "not (left[i] > right[j])", "j_ + 1 < j_max"]),
    ("W l_result[r]", ["while i < i_max and j < j_max and (r < len(l_result))", "not (inner is False)"]),
    ("W r_result[r]", ["while i < i_max and j < j_max and (r < len(l_result))", "not (inner is False)"])]),
  ("generate_ordered_map_to_inner_left_unique_partial", [
    ("R left[i]", ["while i < i_max and j < j_max and (r < len(l_result))"]),
    ("R left[i]", ["while i < i_max and j < j_max and (r < len(l_result))", "not (left[i] < right[j])"]),
    ("R right[j + 1]", ["while i < i_max and j < j_max and (r < len(l_result))", "not (left[i] < right[j])", "not (left[i] > right[j])", "not (j + 1 >= j_max)"]),
    ("R right[j]", ["while i < i_max and j < j_max and (r < len(l_result))"]),
    ("R right[j]", ["while i < i_max and j < j_max and (r < len(l_result))", "not (left[i] < right[j])"]),
    ("R right[j]", ["while i < i_max and j < j_max and (r < len(l_result))", "not (left[i] < right[j])", "not (left[i] > right[j])", "not (j + 1 >= j_max)"]),
    ("W l_result[r]", ["while i < i_max and j < j_max and (r < len(l_result))", "not (left[i] < right[j])", "not (left[i] > right[j])"]),
    ("W r_result[r]", ["while i < i_max and j < j_max and (r < len(l_result))", "not (left[i] < right[j])", "not (left[i] > right[j])"])]),
  ("generate_ordered_map_to_inner_right_unique_partial", [
    ("R left[i + 1]", ["while i < i_max and j < j_max and (r < len(l_result))", "not (left[i] < right[j])", "not (left[i] > right[j])", "not (i + 1 >= i_max)"]),
    ("R left[i]", ["while i < i_max and j < j_max and (r < len(l_result))"]),
    ("R left[i]", ["while i < i_max and j < j_max and (r < len(l_result))", "not (left[i] < right[j])"]),
    ("R left[i]", ["while i < i_max and j < j_max and (r < len(l_result))", "not (left[i] < right[j])", "not (left[i] > right[j])", "not (i + 1 >= i_max)"]),
    ("R right[j]", ["while i < i_max and j < j_max and (r < len(l_result))"]),
    ("R right[j]", ["while i < i_max and j < j_max and (r < len(l_result))", "not (left[i] < right[j])"]),
    ("W l_result[r]", ["while i < i_max and j < j_max and (r < len(l_result))", "not (left[i] < right[j])", "not (left[i] > right[j])"]),
    ("W r_result[r]", ["while i < i_max and j < j_max and (r < len(l_result))", "not (left[i] < right[j])", "not (left[i] > right[j])"])]),
  ("generate_ordered_map_to_inner_both_unique_partial", [
    ("R left[i]", ["while i < i_max and j < j_max and (r < len(l_result))"]),
    ("R left[i]", ["while i < i_max and j < j_max and (r < len(l_result))", "not (left[i] < right[j])"]),
    ("R right[j]", ["while i < i_max and j < j_max and (r < len(l_result))"]),
    ("R right[j]", ["while i < i_max and j < j_max and (r < len(l_result))", "not (left[i] < right[j])"]),
    ("W l_result[r]", ["while i < i_max and j < j_max and (r < len(l_result))", "not (left[i] < right[j])", "not (left[i] > right[j])"]),
    ("W r_result[r]", ["while i < i_max and j < j_max and (r < len(l_result))", "not (left[i] < right[j])", "not (left[i] > right[j])"])])
]

end Exetera.KernelPaths
