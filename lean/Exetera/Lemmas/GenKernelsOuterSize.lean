import Exetera.Gen.Kernels
import Exetera.Lemmas.While
import Exetera.Lemmas.GenKernels
/-!
  The TRANSLATED kernel `ordered_outer_map_result_size_both_unique(left, right)` (three consecutive `while` loops).

  The kernel has NO caller in the library (only tests/ call it) and no hand model elsewhere: the theorems below are NOT
  obligations of any property (an edit to dead code must not raise a semantic alarm); they are re-checked by
  `lake build Exetera` only. The translation itself is validated differentially under C10 (checks/harness/genkernels.py).

  `outerSize`: the merge recursion the three loops implement. `outer_size_eq`: on EVERY pair of arrays (sorted or not) the
  translated kernel returns `outerSize left right` within len(left) + len(right) iterations per loop, no subscript out of range
  or negative. `outerSize_spec`: on strictly increasing columns it is the number of rows of the full outer join:
  len(left) + len(right) − the number of left keys that occur on the right.
-/
namespace Exetera.GenK

open Exetera Exetera.PyRt Exetera.Gen.Kernels

/-- the merge the kernel performs: one result row per step of the first loop, then the rest of either side -/
def outerSize : List Int → List Int → Nat
  | [], r => r.length
  | a :: l, [] => (a :: l).length
  | a :: l, b :: r =>
    1 + (if a < b then outerSize l (b :: r) else if a > b then outerSize (a :: l) r else outerSize l r)
termination_by l r => l.length + r.length

namespace OuterSize

abbrev St := ordered_outer_map_result_size_both_unique.St

abbrev mk (l r : List Int) (i j sz : Int) : St := ⟨l, r, i, j, sz⟩

theorem outerSize_nil_right (l : List Int) : outerSize l [] = l.length := by
  cases l <;> simp [outerSize]

theorem loop1 (L R : List Int) :
    ∀ (n i j : Nat) (sz : Nat), (L.length - i) + (R.length - j) ≤ n → i ≤ L.length → j ≤ R.length →
      ∃ i' j' sz' : Nat,
        whileE ordered_outer_map_result_size_both_unique.guard_L1 ordered_outer_map_result_size_both_unique.body_L1 n
            (mk L R i j sz) = .ok (mk L R i' j' sz') ∧
          i' ≤ L.length ∧ j' ≤ R.length ∧
          sz' + (L.length - i') + (R.length - j') = sz + outerSize (L.drop i) (R.drop j) := by
  intro n
  induction n with
  | zero =>
    intro i j sz h hi hj
    have hi' : i = L.length := by omega
    have hj' : j = R.length := by omega
    have hg : ordered_outer_map_result_size_both_unique.guard_L1 (mk L R i j sz) = false := by
      simp [ordered_outer_map_result_size_both_unique.guard_L1, pyLen, hi']
    exact ⟨i, j, sz, by simp [whileE, hg], hi, hj, by subst hi' hj'; simp [outerSize]⟩
  | succ n ih =>
    intro i j sz h hi hj
    by_cases hil : i < L.length
    · by_cases hjl : j < R.length
      · have hg : ordered_outer_map_result_size_both_unique.guard_L1 (mk L R i j sz) = true := by
          show (decide ((i : Int) < (L.length : Int)) && decide ((j : Int) < (R.length : Int))) = true
          simp only [Bool.and_eq_true, decide_eq_true_eq]; omega
        have hdl : L.drop i = L[i] :: L.drop (i + 1) := List.drop_eq_getElem_cons hil
        have hdr : R.drop j = R[j] :: R.drop (j + 1) := List.drop_eq_getElem_cons hjl
        have e_i : (i : Int) + 1 = ((i + 1 : Nat) : Int) := by omega
        have e_j : (j : Int) + 1 = ((j + 1 : Nat) : Int) := by omega
        have e_s : (sz : Int) + 1 = ((sz + 1 : Nat) : Int) := by omega
        rw [whileE, hg, if_pos rfl]
        by_cases hlt : L[i] < R[j]
        · have hb : ordered_outer_map_result_size_both_unique.body_L1 (mk L R i j sz) = .ok (mk L R (i + 1 : Nat) j (sz + 1 : Nat)) := by
            simp only [ordered_outer_map_result_size_both_unique.body_L1, idxE_nat, getE_of_lt _ hil, getE_of_lt _ hjl, bindE_ok,
              hlt, decide_true, if_true, e_i, e_s]
          obtain ⟨i', j', sz', hw, h1, h2, h3⟩ := ih (i + 1) j (sz + 1) (by omega) (by omega) hj
          refine ⟨i', j', sz', by rw [hb]; exact hw, h1, h2, ?_⟩
          rw [h3, hdl, hdr, outerSize, if_pos hlt, ← hdr]; omega
        · by_cases hgt : L[i] > R[j]
          · have hb : ordered_outer_map_result_size_both_unique.body_L1 (mk L R i j sz) = .ok (mk L R i (j + 1 : Nat) (sz + 1 : Nat)) := by
              simp only [ordered_outer_map_result_size_both_unique.body_L1, idxE_nat, getE_of_lt _ hil, getE_of_lt _ hjl, bindE_ok,
                hlt, hgt, decide_true, decide_false, Bool.false_eq_true, if_true, if_false, e_j, e_s]
            obtain ⟨i', j', sz', hw, h1, h2, h3⟩ := ih i (j + 1) (sz + 1) (by omega) hi (by omega)
            refine ⟨i', j', sz', by rw [hb]; exact hw, h1, h2, ?_⟩
            rw [h3, hdl, hdr, outerSize, if_neg hlt, if_pos hgt, ← hdl]; omega
          · have hb : ordered_outer_map_result_size_both_unique.body_L1 (mk L R i j sz)
                = .ok (mk L R (i + 1 : Nat) (j + 1 : Nat) (sz + 1 : Nat)) := by
              simp only [ordered_outer_map_result_size_both_unique.body_L1, idxE_nat, getE_of_lt _ hil, getE_of_lt _ hjl, bindE_ok,
                hlt, hgt, decide_false, Bool.false_eq_true, if_false, e_i, e_j, e_s]
            obtain ⟨i', j', sz', hw, h1, h2, h3⟩ := ih (i + 1) (j + 1) (sz + 1) (by omega) (by omega) (by omega)
            refine ⟨i', j', sz', by rw [hb]; exact hw, h1, h2, ?_⟩
            rw [h3, hdl, hdr, outerSize, if_neg hlt, if_neg hgt]; omega
      · have hj' : j = R.length := by omega
        have hg : ordered_outer_map_result_size_both_unique.guard_L1 (mk L R i j sz) = false := by
          simp [ordered_outer_map_result_size_both_unique.guard_L1, pyLen, hj']
        refine ⟨i, j, sz, by simp [whileE, hg], hi, hj, ?_⟩
        subst hj'
        simp [outerSize_nil_right]
    · have hi' : i = L.length := by omega
      have hg : ordered_outer_map_result_size_both_unique.guard_L1 (mk L R i j sz) = false := by
        simp [ordered_outer_map_result_size_both_unique.guard_L1, pyLen, hi']
      refine ⟨i, j, sz, by simp [whileE, hg], hi, hj, ?_⟩
      subst hi'
      simp [outerSize]

theorem loop2 (L R : List Int) :
    ∀ (n i : Nat) (j sz : Int) (szn : Nat), sz = szn → L.length - i ≤ n → i ≤ L.length →
      whileE ordered_outer_map_result_size_both_unique.guard_L2 ordered_outer_map_result_size_both_unique.body_L2 n
          (mk L R i j sz) = .ok (mk L R L.length j ((szn + (L.length - i) : Nat) : Int)) := by
  intro n
  induction n with
  | zero =>
    intro i j sz szn hs h hi
    have hi' : i = L.length := by omega
    subst hi' hs
    simp [whileE, ordered_outer_map_result_size_both_unique.guard_L2, pyLen]
  | succ n ih =>
    intro i j sz szn hs h hi
    subst hs
    by_cases hil : i < L.length
    · have hg : ordered_outer_map_result_size_both_unique.guard_L2 (mk L R i j szn) = true := by
        show decide ((i : Int) < (L.length : Int)) = true
        simp only [decide_eq_true_eq]; omega
      have e_i : (i : Int) + 1 = ((i + 1 : Nat) : Int) := by omega
      have hb : ordered_outer_map_result_size_both_unique.body_L2 (mk L R i j szn) = .ok (mk L R (i + 1 : Nat) j ((szn + 1 : Nat) : Int)) := by
        simp only [ordered_outer_map_result_size_both_unique.body_L2, e_i]
        rfl
      rw [whileE, hg, if_pos rfl, hb]
      simp only []
      rw [ih (i + 1) j _ (szn + 1) rfl (by omega) (by omega)]
      congr 2
      omega
    · have hi' : i = L.length := by omega
      subst hi'
      simp [whileE, ordered_outer_map_result_size_both_unique.guard_L2, pyLen]

theorem loop3 (L R : List Int) :
    ∀ (n j : Nat) (i sz : Int) (szn : Nat), sz = szn → R.length - j ≤ n → j ≤ R.length →
      whileE ordered_outer_map_result_size_both_unique.guard_L3 ordered_outer_map_result_size_both_unique.body_L3 n
          (mk L R i j sz) = .ok (mk L R i R.length ((szn + (R.length - j) : Nat) : Int)) := by
  intro n
  induction n with
  | zero =>
    intro j i sz szn hs h hj
    have hj' : j = R.length := by omega
    subst hj' hs
    simp [whileE, ordered_outer_map_result_size_both_unique.guard_L3, pyLen]
  | succ n ih =>
    intro j i sz szn hs h hj
    subst hs
    by_cases hjl : j < R.length
    · have hg : ordered_outer_map_result_size_both_unique.guard_L3 (mk L R i j szn) = true := by
        show decide ((j : Int) < (R.length : Int)) = true
        simp only [decide_eq_true_eq]; omega
      have e_j : (j : Int) + 1 = ((j + 1 : Nat) : Int) := by omega
      have hb : ordered_outer_map_result_size_both_unique.body_L3 (mk L R i j szn) = .ok (mk L R i (j + 1 : Nat) ((szn + 1 : Nat) : Int)) := by
        simp only [ordered_outer_map_result_size_both_unique.body_L3, e_j]
        rfl
      rw [whileE, hg, if_pos rfl, hb]
      simp only []
      rw [ih (j + 1) i _ (szn + 1) rfl (by omega) (by omega)]
      congr 2
      omega
    · have hj' : j = R.length := by omega
      subst hj'
      simp [whileE, ordered_outer_map_result_size_both_unique.guard_L3, pyLen]

end OuterSize

/-- on EVERY pair of arrays the translated kernel returns `outerSize left right`, for every fuel ≥ len(left) + len(right) -/
theorem outer_size_eq (L R : List Int) (fuel : Nat) (hf : L.length + R.length ≤ fuel) :
    ordered_outer_map_result_size_both_unique.run L R fuel = .ok (outerSize L R : Nat) := by
  obtain ⟨i', j', sz', hw, h1, h2, h3⟩ := OuterSize.loop1 L R fuel 0 0 0 (by omega) (Nat.zero_le _) (Nat.zero_le _)
  unfold ordered_outer_map_result_size_both_unique.run
  simp only [OuterSize.mk, Int.natCast_zero] at hw
  simp only [hw, bindE_ok]
  have h2' := OuterSize.loop2 L R fuel i' j' sz' sz' rfl (by omega) h1
  simp only [OuterSize.mk] at h2'
  simp only [h2', bindE_ok]
  have h3' := OuterSize.loop3 L R fuel j' L.length ((sz' + (L.length - i') : Nat) : Int) (sz' + (L.length - i')) rfl (by omega) h2
  simp only [OuterSize.mk] at h3'
  simp only [h3', bindE_ok]
  simp only [List.drop_zero] at h3
  congr 2
  omega

/-- strictly increasing columns: `outerSize` counts the rows of the full outer join — every left key, every right key, a key on
    both sides once -/
theorem outerSize_spec (L R : List Int) (hL : L.Pairwise (· < ·)) (hR : R.Pairwise (· < ·)) :
    outerSize L R + (L.filter (fun a => R.contains a)).length = L.length + R.length := by
  induction L, R using outerSize.induct with
  | case1 r => simp [outerSize]
  | case2 a l => simp [outerSize]
  | case3 a l b r ih1 ih2 ih3 =>
    have hl := (List.pairwise_cons.mp hL)
    have hr := (List.pairwise_cons.mp hR)
    rw [outerSize]
    by_cases hlt : a < b
    · have := ih1 hl.2 hR
      have hna : (b :: r).contains a = false := by
        simp only [List.contains_cons, Bool.or_eq_false_iff, beq_eq_false_iff_ne, ne_eq]
        refine ⟨by omega, ?_⟩
        rw [← Bool.not_eq_true, List.contains_iff_mem]
        intro hm; have := hr.1 a hm; omega
      simp only [if_pos hlt, List.filter_cons, hna, Bool.false_eq_true, if_false, List.length_cons] at this ⊢
      omega
    · by_cases hgt : a > b
      · have := ih2 hL hr.2
        have hc : (a :: l).filter (fun x => (b :: r).contains x) = (a :: l).filter (fun x => r.contains x) := by
          apply List.filter_congr
          intro x hx
          have hxb : x ≠ b := by
            rcases List.mem_cons.mp hx with rfl | hm
            · omega
            · have := hl.1 x hm; omega
          simp [hxb]
        rw [hc, if_neg hlt, if_pos hgt]
        simp only [List.length_cons] at this ⊢
        omega
      · have hab : a = b := by omega
        subst hab
        have := ih3 hl.2 hr.2
        have hc : l.filter (fun x => x == a || r.contains x) = l.filter (fun x => r.contains x) := by
          apply List.filter_congr
          intro x hx
          have hxa : x ≠ a := by have := hl.1 x hx; omega
          simp [hxa]
        rw [if_neg hlt, if_neg hgt]
        simp only [List.filter_cons, List.contains_cons, beq_self_eq_true, Bool.true_or, if_true, List.length_cons, hc]
        omega

/-- the translated kernel on strictly increasing columns: len(left) + len(right) − (left keys that occur on the right) -/
theorem outer_size_both_unique (L R : List Int) (hL : L.Pairwise (· < ·)) (hR : R.Pairwise (· < ·)) (fuel : Nat)
    (hf : L.length + R.length ≤ fuel) :
    ∃ n : Nat, ordered_outer_map_result_size_both_unique.run L R fuel = .ok (n : Int) ∧
      n + (L.filter (fun a => R.contains a)).length = L.length + R.length :=
  ⟨outerSize L R, outer_size_eq L R fuel hf, outerSize_spec L R hL hR⟩

example : [1, 2, 4, 7].Pairwise (fun a b : Int => a < b) := by decide

example : ordered_outer_map_result_size_both_unique.run [1, 2, 4, 7] [2, 3, 7, 9] 8 = .ok 6 := rfl
example : outerSize [1, 2, 4, 7] [2, 3, 7, 9] = 6 := by simp [outerSize]

end Exetera.GenK
