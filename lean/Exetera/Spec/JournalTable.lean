import Exetera.Spec.Journal
/-!
  Specification of `journal_table` for tables in *physical* row order (C17).

  The old table is not assumed sorted: the versions of a key are scattered over the table and are ordered by their
  `valid_from` time, rows with the same time in the order they have in the table.  Per key in ascending order the
  journalled table lists that history followed by the snapshot's row iff the key is new or the row differs from the last
  version of the history.
-/
namespace Exetera.Spec.Journal

/-- stable insertion of an earlier row `r` (time `t`) into the sorted list of the later rows: before the first time `≥ t` -/
def insertByTime (t : Int) (r : Nat) : List (Int × Nat) → List (Int × Nat)
  | [] => [(t, r)]
  | (t', r') :: rest => if t' < t then (t', r') :: insertByTime t r rest else (t, r) :: (t', r') :: rest

/-- stable insertion sort of `(time, row)` pairs by time (rows with equal times keep their order) -/
def sortByTime : List (Int × Nat) → List (Int × Nat)
  | [] => []
  | (t, r) :: rest => insertByTime t r (sortByTime rest)

/-- the rows of key `k` of the old table in (valid_from, physical row) order -/
def history (okeys ovf : List Int) (k : Int) : List Nat :=
  (sortByTime ((positions k okeys).filterMap (fun r => ovf[r]?.map (·, r)))).map (·.2)

/-- per key ascending: its old versions in (valid_from, row) order, then the snapshot row iff new or different from the
    last version -/
def planPhys (okeys ovf nkeys : List Int) (differs : Nat → Nat → Bool) : List Src :=
  (keyUnion okeys nkeys).flatMap (fun k =>
    (history okeys ovf k).map .old ++ newPart differs (positions k nkeys).head? (history okeys ovf k).getLast?)

end Exetera.Spec.Journal
