import Exetera.Props.C07
import Exetera.Props.C10.Basic
import Exetera.Model.KernelSitesGroupBy
import Exetera.Model.KernelPathsGroupBy
/-!
# C10 — group-by: `check_if_sorted_for_multi_fields` and the kernel pipeline of `DataFrame.groupby` (owning property: C07)
-/
namespace Exetera.Props.C10
open Exetera Exetera.GroupBy Exetera.Spec Exetera.Spans

theorem access_sites_covered_group_by : ∀ k ∈ KernelSites.groupBySites, lookup k.1 = some k := by decide +kernel

/-- the PATH CONDITION of every subscript occurrence in these kernels (enclosing loop guards, `if` / `elif` tests, negated
    `else` branches and early exits), as regenerated from the current source (`Gen/KernelPaths.lean`), is exactly the one the
    model was written against (`Model/KernelPathsGroupBy.lean`): dropping or changing a test that dominates a subscript breaks
    the build; and the table covers exactly the kernels of the site table -/
theorem access_paths_covered_group_by :
    (∀ k ∈ KernelPaths.groupByPaths, lookupPaths k.1 = some k) ∧
    KernelPaths.groupByPaths.map (·.1) = KernelSites.groupBySites.map (·.1) := by decide +kernel

example : KernelSites.groupBySites.length = 1 := by decide

/-- `check_if_sorted_for_multi_fields` on ≥ 1 stacked key columns of equal length -/
theorem no_oob_check_if_sorted (f0 : List Int) (fs : List (List Int)) (n : Nat) (h : Rect n (f0 :: fs)) (site : String) :
    checkIfSorted (f0 :: fs) ≠ .error (.oob site) :=
  ne_oob_of_exists (checkIfSorted_spec f0 fs n h) site

example : Rect 3 [[1, 1, 2], [5, 4, 4]] := by intro c hc; simp at hc; rcases hc with rfl | rfl <;> rfl
example : checkIfSorted [[1, 1, 2], [5, 4, 4]] = .ok false := rfl
/-- the error branch is real: a ragged key array -/
example : checkIfSorted [[1, 1, 1], [4, 4]] = .error (.oob "fields_data[j, i]") := rfl

/-- the whole kernel pipeline of `df.groupby(by, hint).min|max|first|last(target)` — sortedness check, span detection,
    re-indexing, `apply_spans_*` — on a numeric / fixed-string target. `_partial` as its owner
    `C07.groupby_eq_spec_partial`: `Faithful keys` excludes the open finding D20 (mixed-dtype compound keys are promoted
    by the stacking cast), under which the spans are still computed from in-range reads but no theorem says so. -/
theorem no_oob_groupby_agg_partial (agg : Agg) (keys : List KeyCol) (hint : Bool) (target : List Int) (n : Nat)
    (hframe : C07.Frame keys n) (htarget : target.length = n) (hcast : Faithful keys)
    (hhint : hint = true → RowsSorted (keyRows n (C07.cols keys))) (site : String) :
    groupbyAgg .repaired agg keys hint [.plain target] ≠ .error (.oob site) := by
  obtain ⟨kc, vals, ok, h, _⟩ := C07.groupby_eq_spec_partial agg keys hint target n hframe htarget hcast hhint
  exact ne_oob_of_ok h site

/-- the same for an indexed-string target (`apply_spans_index_of_*_indexed` + `apply_indices_to_index_values`) -/
theorem no_oob_groupby_indexed_partial (agg : Agg) (keys : List KeyCol) (hint : Bool) (indices values : List Nat) (n : Nat)
    (hframe : C07.Frame keys n) (hindex : ValidIndex indices values) (hrows : indices.length = n + 1)
    (hcast : Faithful keys) (hhint : hint = true → RowsSorted (keyRows n (C07.cols keys))) (site : String) :
    groupbyAgg .repaired agg keys hint [.indexed indices values] ≠ .error (.oob site) := by
  obtain ⟨kc, out, ok, h, _⟩ :=
    C07.groupby_indexed_eq_spec_partial agg keys hint indices values n hframe hindex hrows hcast hhint
  exact ne_oob_of_ok h site

/-- `df.groupby(by, hint).count()` (`apply_spans_count`) and `.distinct()` / `drop_duplicates` -/
theorem no_oob_groupby_count_partial (keys : List KeyCol) (hint : Bool) (n : Nat) (hframe : C07.Frame keys n)
    (hcast : Faithful keys) (hhint : hint = true → RowsSorted (keyRows n (C07.cols keys))) (site : String) :
    groupbyCount .repaired keys hint ≠ .error (.oob site) := by
  obtain ⟨kc, counts, ok, h, _⟩ := C07.groupby_count_eq_spec_partial keys hint n hframe hcast hhint
  exact ne_oob_of_ok h site

theorem no_oob_groupby_distinct_partial (keys : List KeyCol) (hint : Bool) (n : Nat) (hframe : C07.Frame keys n)
    (hcast : Faithful keys) (hhint : hint = true → RowsSorted (keyRows n (C07.cols keys))) (site : String) :
    groupbyDistinct .repaired keys hint ≠ .error (.oob site) := by
  obtain ⟨kc, ok, h, _⟩ := C07.drop_duplicates_eq_spec_partial keys hint n hframe hcast hhint
  exact ne_oob_of_ok h site

example : C07.Frame [⟨id, [1, 0, 1, 0, 1]⟩, ⟨id, [5, 7, 5, 7, 3]⟩] 5 ∧ Faithful [⟨id, [1, 0, 1, 0, 1]⟩, ⟨id, [5, 7, 5, 7, 3]⟩] :=
  ⟨⟨by simp, by simp⟩, C07.same_dtype_faithful (by simp [C07.SameDtype])⟩

end Exetera.Props.C10
