import Exetera.Model.Unique
import Exetera.Spec.Unique
namespace Exetera.Witness.C14
end Exetera.Witness.C14
