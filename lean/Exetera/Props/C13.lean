import Exetera.Model.FieldOps
import Exetera.Lemmas.FieldOps
/-!
# C13 — field arithmetic, comparison and logic equal numpy's element-wise results

numpy is opaque (`np`), so the content of the theorems is the dispatch: which symbol, which operand order, and that the
result is a fresh field. They are stated over `Gen/OperatorTable.lean`, regenerated from `fields.py` on every run.
-/
namespace Exetera.Props.C13
open Exetera Exetera.FieldOps

/-- the regenerated tables route every supported (class, operator) to the symbol and operand order the property demands -/
theorem resolve_eq_spec : ∀ p ∈ allPairs, resolve p.1 p.2 = spec p.2 := by decide +kernel

/-- … and the property's list has no unknown operator -/
theorem spec_total : ∀ p ∈ allPairs, (spec p.2).isSome = true := by decide +kernel

/-- For every class and supported operator, for every numpy and all operands: the forward form computes
    `sym(self, other)`, the reflected form `sym(other, self)`, the unary form `sym(self)`. -/
theorem dunder_table_correct {α β} (np : String → List α → β) (cls d : String) (h : (cls, d) ∈ allPairs) (self other : α) :
    ∃ sym ord, spec d = some (sym, ord) ∧
      eval np cls d self other = some (np sym (ord.map (fun k => if k == 0 then self else other))) := by
  have h1 := resolve_eq_spec (cls, d) h
  have h2 := spec_total (cls, d) h
  simp only at h1 h2
  cases hs : spec d with
  | none => rw [hs] at h2; cases h2
  | some r =>
    refine ⟨r.1, r.2, rfl, ?_⟩
    simp [eval, h1, hs]

/-- reflected operators really swap: e.g. `3 - f` is `operator.sub(3, f)` for every class that supports `-` -/
theorem rsub_reflected {α β} (np : String → List α → β) (cls : String) (h : (cls, "__rsub__") ∈ allPairs) (self other : α) :
    eval np cls "__rsub__" self other = some (np "operator.sub" [other, self]) := by
  obtain ⟨sym, ord, h1, h2⟩ := dunder_table_correct np cls "__rsub__" h self other
  simp [spec] at h1
  obtain ⟨rfl, rfl⟩ := h1
  simpa using h2

/-- the result of `_binary_op` is a fresh in-memory field: every existing field keeps its data -/
theorem result_is_fresh {α} (s : Store α) (f : α → α → α) (a b : Operand α) (s' : Store α) (rid : Nat)
    (hfresh : ∀ c ∈ s.cells, c.1 < s.next) (h : binaryOp s f a b = some (s', rid)) :
    rid = s.next ∧ (∀ id, id ≠ rid → s'.get? id = s.get? id) ∧
      ∃ x y, a.data s = some x ∧ b.data s = some y ∧ s'.get? rid = some (f x y) := by
  simp only [binaryOp, bind, Option.bind] at h
  cases ha : a.data s with
  | none => simp [ha] at h
  | some x =>
    cases hb : b.data s with
    | none => simp [ha, hb] at h
    | some y =>
      simp only [ha, hb, pure, Option.some.injEq, Prod.mk.injEq] at h
      obtain ⟨rfl, rfl⟩ := h
      refine ⟨rfl, ?_, x, y, rfl, rfl, ?_⟩
      · intro id hne
        simp only [Store.get?, List.find?_cons]
        have : (s.next == id) = false := by simpa using fun h => hne h.symm
        simp [this]
      · simp [Store.get?]

/-- **The result field carries numpy's dtype.** For every dtype `n` a field operator can produce, `dtype_to_str` (as
    regenerated from the source) names the numpy type `n` exactly `n` — so `NumericMemField(session, dtype_to_str(r.dtype))`
    is declared with the dtype of numpy's result `r`, never a folded or widened one. -/
theorem dtype_to_str_faithful : ∀ n ∈ resultDtypes, dtypeToStr (npSymbol n) = some n := by decide +kernel

/-- no two rows of the chain answer for the same numpy type, and no two numpy types get the same name: the chain is a
    bijection between the types it tests and the names it returns (first-match order is therefore immaterial) -/
theorem dtype_to_str_injective :
    (Gen.dtypeToStrRows.map (·.1)).Nodup ∧ (Gen.dtypeToStrRows.map (·.2)).Nodup := by decide +kernel

/-- every answer is a row of the chain; a dtype outside the chain falls through to the final `raise ValueError` (it is
    refused, not silently renamed); a dtype already given as a string is passed through unchanged -/
theorem dtype_to_str_total_or_raises (ty : String) :
    ((∃ n, dtypeToStr ty = some n ∧ (ty, n) ∈ Gen.dtypeToStrRows) ∨ dtypeToStr ty = none) ∧
      Gen.dtypeToStrRaises = "ValueError" ∧ Gen.dtypeToStrPassthrough = true := by
  refine ⟨?_, by decide, by decide⟩
  unfold dtypeToStr
  cases h : Gen.dtypeToStrRows.find? (fun r => r.1 == ty) with
  | none => right; rfl
  | some r =>
    left
    refine ⟨r.2, rfl, ?_⟩
    have hm := List.mem_of_find?_eq_some h
    have he := List.find?_some h
    simp only [beq_iff_eq] at he
    rw [← he]; exact hm

-- non-vacuity: the table is non-empty and contains the interesting reflected rows
example : allPairs.length = 128 := by decide +kernel
example : ("TimestampField", "__rdivmod__") ∈ allPairs := by decide +kernel
example : eval (fun s (xs : List Int) => (s, xs)) "NumericField" "__rfloordiv__" 7 2 = some ("operator.floordiv", [2, 7]) := by
  decide +kernel

example : dtypeToStr "np.uint16" = some "uint16" := by decide +kernel
example : dtypeToStr "np.float16" = none := by decide +kernel

/-! ## The whole operator, over the regenerated helper bodies (`Gen/FieldOpsShape.lean`)

`opBinary np w op l r` is `l <op> r` as Python evaluates it: operator protocol (`pyDunders`, numpy's deferral rule read off the
regenerated `__array_ufunc__` attributes) → `cls.<dunder>` → `FieldDataOps.<method>` → the regenerated body of `_binary_op` /
`_unary_op` / `numeric_divmod`. numpy (`np : Numpy α`) is opaque throughout; `w` is any heap. -/
section whole
variable {α : Type}

/-- table fact: the FORWARD dunder of every supported binary operator runs `_binary_op` (`numeric_divmod` for divmod) with the
    operator's symbol on (self, other) -/
theorem forward_route : ∀ cls ∈ classes, ∀ op ∈ "divmod" :: binOps, supportsOp cls op = true →
    (pyDunders op).bind (fun p => routeOf cls p.1) = (opSymbol op).map (fun s => (helperOf op, s, [0, 1])) := by
  decide +kernel

/-- table fact: the dunder Python falls back to when the LEFT operand is not a field: the reflected dunder applies the operator's
    symbol to (other, self); for a comparison it is the mirrored comparison on (self, other) -/
theorem reflected_route : ∀ cls ∈ classes, ∀ op ∈ "divmod" :: binOps, supportsOp cls op = true →
    (pyDunders op).bind (fun p => routeOf cls p.2) =
      (opSymbol op).map (fun s => (helperOf op, mirrorSym s, if cmpOps.contains op then [0, 1] else [1, 0])) := by
  decide +kernel

/-- table fact: `~` / `logical_not` run `_unary_op` with `operator.invert` / `np.logical_not` on (self) -/
theorem unary_route : ∀ cls ∈ classes, ∀ op ∈ unOps, supportsUnary cls op = true →
    (pyUnary op).bind (routeOf cls) = (opSymbol op).map (fun s => ("_unary_op", s, [0])) := by
  decide +kernel

/-- table fact (fix ff6219e): every one of the six classes makes `ndarray <op> field` defer to the field's reflected dunder -/
theorem classes_defer : ∀ cls ∈ classes, defers cls = true := by decide +kernel

theorem ops_total : (∀ op ∈ "divmod" :: binOps, (opSymbol op).isSome = true) ∧ (∀ op ∈ unOps, (opSymbol op).isSome = true) := by
  decide +kernel

/-- table fact: both divmod dunders are the body of `numeric_divmod` applied to (left, right) -/
theorem divmod_routes : ∀ cls ∈ classes, supportsOp cls "divmod" = true →
    routeOf cls "__divmod__" = some ("numeric_divmod", "np.divmod", [0, 1]) ∧
    routeOf cls "__rdivmod__" = some ("numeric_divmod", "np.divmod", [1, 0]) := by decide +kernel

theorem helperOf_bin : ∀ op ∈ binOps, helperOf op = "_binary_op" := by decide +kernel
theorem mirror_noncmp : ∀ op ∈ "divmod" :: binOps, op ∉ cmpOps → (opSymbol op).map mirrorSym = opSymbol op := by decide +kernel
theorem cmp_sub_bin : ∀ op ∈ cmpOps, op ∈ binOps := by decide +kernel

/-- numpy's comparisons give the same answer with the operands exchanged and the comparison mirrored (`a < b` ≡ `b > a`, …).
    An ASSUMPTION about numpy; used only where Python itself falls back to the mirrored comparison (`ndarray < field`). -/
def MirrorLaw (np : Numpy α) : Prop :=
  ∀ op ∈ cmpOps, ∀ s, opSymbol op = some s → ∀ x y, np.call (mirrorSym s) [y, x] = np.call s [x, y]

/-- what "returns a new in-memory field holding `v` under dtype name `n`, everything else untouched" means -/
def ReturnsNew (w w' : World α) (rid : Nat) (n : String) (v : α) : Prop :=
  rid = w.next ∧ w.get? rid = none ∧ w'.get? rid = some ⟨"NumericMemField", n, some v⟩ ∧
    (∀ id, id ≠ rid → w'.get? id = w.get? id) ∧ w'.frames = w.frames ∧ w'.next = w.next + 1 ∧ w'.wf

/-- how a binary operator reaches a helper body: for every class, every operator the class supports (divmod included) and
    every operand kind on either side, `l <op> r` IS a run of the regenerated `_binary_op` (`numeric_divmod`) body -/
theorem opBinary_runs (np : Numpy α) (w : World α) (op : String) (l r : Operand α) (cls : String)
    (hop : op ∈ "divmod" :: binOps) (hcls : cls ∈ classes) (hsup : supportsOp cls op = true)
    (hdisp : dispatchClass w l r = some cls) :
    ∃ s a b, opBinary np w op l r = runProg np s (if op = "divmod" then divmodProg else binaryProg) w [a, b] := by
  have hf := forward_route cls hcls op hop hsup
  have hr := reflected_route cls hcls op hop hsup
  cases hp : pyDunders op with
  | none => simp [supportsOp, hp] at hsup
  | some p =>
    obtain ⟨fwd, refl⟩ := p
    cases hs : opSymbol op with
    | none => have := ops_total.1 op hop; rw [hs] at this; cases this
    | some sym =>
      rw [hp, hs] at hf hr
      simp only [Option.bind_some, Option.map_some] at hf hr
      have key : ∀ (id : Nat) (v : Val α), w.classOf id = some cls →
          ∃ s a b, callDunder np w cls refl [.fld id, v] = runProg np s (if op = "divmod" then divmodProg else binaryProg) w [a, b] := by
        intro id v _
        by_cases hc : cmpOps.contains op = true
        · rw [hc] at hr
          exact ⟨_, _, _, by simp [callDunder, hr, pick, lookup_helperOf]; rfl⟩
        · have hc' : cmpOps.contains op = false := by simpa using hc
          rw [hc'] at hr
          exact ⟨_, _, _, by simp [callDunder, hr, pick, lookup_helperOf]; rfl⟩
      cases l with
      | field id =>
        simp only [dispatchClass] at hdisp
        exact ⟨_, _, _, by simp [opBinary, hp, hdisp, callDunder, hf, pick, lookup_helperOf]; rfl⟩
      | array a =>
        cases r with
        | field id =>
          simp only [dispatchClass] at hdisp
          obtain ⟨s, x, y, h⟩ := key id (.arr a) hdisp
          exact ⟨s, x, y, by simp [opBinary, hp, hdisp, classes_defer cls hcls, Operand.val, h]⟩
        | array b => simp [dispatchClass] at hdisp
        | scalar b => simp [dispatchClass] at hdisp
      | scalar a =>
        cases r with
        | field id =>
          simp only [dispatchClass] at hdisp
          obtain ⟨s, x, y, h⟩ := key id (.arr a) hdisp
          exact ⟨s, x, y, by simp [opBinary, hp, hdisp, classes_defer cls hcls, Operand.val, h]⟩
        | array b => simp [dispatchClass] at hdisp
        | scalar b => simp [dispatchClass] at hdisp

/-- **C13, value and dtype.** For every field class, every single-result binary operator the class supports
    (`+ - * / // % & ^ |` and the comparisons), with a field, an ndarray or a scalar on either side — forward `field <op> x`,
    field-field, and `ndarray <op> field` / `scalar <op> field` through the reflected dunder — for every numpy and every heap:
    the operator returns ONE new NumericMemField whose data is `sym(l', r')` on the operands' underlying arrays in the order
    written, declared under `dtype_to_str` of numpy's result dtype; no other object and no dataframe changes.
    (A comparison with a non-field on the LEFT is `reflected_comparison_eq_numpy`: Python mirrors it.)
    `hn` says numpy's result dtype is one `dtype_to_str` names — otherwise the operator raises (`unsupported_dtype_raises`). -/
theorem operator_result_eq_numpy (np : Numpy α) (w : World α) (op : String) (l r : Operand α) (cls sym n : String) (x y : α)
    (hw : w.wf) (hop : op ∈ binOps) (hcls : cls ∈ classes) (hsup : supportsOp cls op = true)
    (hdisp : dispatchClass w l r = some cls) (hside : l.isField = true ∨ op ∉ cmpOps)
    (hx : l.under np w = .ok x) (hy : r.under np w = .ok y) (hs : opSymbol op = some sym)
    (hn : dtypeToStr (np.dtypeOf (np.call sym [x, y])) = some n) :
    ∃ w' rid, opBinary np w op l r = .ok (w', [rid]) ∧ ReturnsNew w w' rid n (np.call sym [x, y]) := by
  have hmem : op ∈ "divmod" :: binOps := List.mem_cons_of_mem _ hop
  have hf := forward_route cls hcls op hmem hsup
  have hr := reflected_route cls hcls op hmem hsup
  have hfresh := World.get?_none_of_wf hw (Nat.le_refl w.next)
  rw [hs, helperOf_bin op hop] at hf hr
  cases hp : pyDunders op with
  | none => rw [hp] at hf; simp at hf
  | some p =>
    obtain ⟨fwd, refl⟩ := p
    rw [hp] at hf hr
    simp only [Option.bind_some, Option.map_some] at hf hr
    have key : ∀ (id : Nat) (a : α), l.val = .arr a → l.isField = false → r = .field id →
        ∃ w' rid, opBinary np w op l r = .ok (w', [rid]) ∧ ReturnsNew w w' rid n (np.call sym [x, y]) := by
      intro id a hl hlf hrf
      subst hrf
      have hnc : op ∉ cmpOps := by
        rcases hside with h | h
        · rw [hlf] at h; cases h
        · exact h
      have hm := mirror_noncmp op hmem hnc
      rw [hs] at hm
      simp only [Option.map_some, Option.some.injEq] at hm
      have hc : cmpOps.contains op = false := by simpa using hnc
      rw [hm, hc] at hr
      have hd : w.classOf id = some cls := by
        cases l <;> simp_all [dispatchClass, Operand.isField]
      simp only [Operand.under, hl] at hx
      simp only [Operand.under, Operand.val] at hy
      obtain ⟨w', h1, h2⟩ := run_binary np sym w (.arr a) (.fld id) x y n hw hx hy hn
      refine ⟨w', w.next, ?_, rfl, hfresh, h2⟩
      cases l with
      | field _ => cases hlf
      | array a' =>
        simp only [Operand.val, Val.arr.injEq] at hl; subst hl
        simp [opBinary, hp, hd, classes_defer cls hcls, callDunder, hr, pick, lookup_binary, h1, Operand.val]
      | scalar a' =>
        simp only [Operand.val, Val.arr.injEq] at hl; subst hl
        simp [opBinary, hp, hd, classes_defer cls hcls, callDunder, hr, pick, lookup_binary, h1, Operand.val]
    cases l with
    | field id =>
      simp only [dispatchClass] at hdisp
      simp only [Operand.under, Operand.val] at hx hy
      obtain ⟨w', h1, h2⟩ := run_binary np sym w (.fld id) r.val x y n hw hx hy hn
      refine ⟨w', w.next, ?_, rfl, hfresh, h2⟩
      simp [opBinary, hp, hdisp, callDunder, hf, pick, lookup_binary, h1]
    | array a =>
      cases r with
      | field id => exact key id a rfl rfl rfl
      | array b => simp [dispatchClass] at hdisp
      | scalar b => simp [dispatchClass] at hdisp
    | scalar a =>
      cases r with
      | field id => exact key id a rfl rfl rfl
      | array b => simp [dispatchClass] at hdisp
      | scalar b => simp [dispatchClass] at hdisp

/-- **C13, comparisons with the field on the right** (`ndarray < field`, `3 >= field`, …): Python calls the field's MIRRORED
    comparison on (field, other); under numpy's mirror law the result is again `sym(l', r')` in the order written. -/
theorem reflected_comparison_eq_numpy (np : Numpy α) (w : World α) (op : String) (l : Operand α) (id : Nat) (cls sym n : String)
    (x y : α) (hw : w.wf) (hop : op ∈ cmpOps) (hcls : cls ∈ classes) (hsup : supportsOp cls op = true)
    (hl : l.isField = false) (hdisp : w.classOf id = some cls) (hm : MirrorLaw np)
    (hx : l.under np w = .ok x) (hy : (Operand.field id : Operand α).under np w = .ok y) (hs : opSymbol op = some sym)
    (hn : dtypeToStr (np.dtypeOf (np.call sym [x, y])) = some n) :
    ∃ w' rid, opBinary np w op l (.field id) = .ok (w', [rid]) ∧ ReturnsNew w w' rid n (np.call sym [x, y]) := by
  have hop' := cmp_sub_bin op hop
  have hmem : op ∈ "divmod" :: binOps := List.mem_cons_of_mem _ hop'
  have hr := reflected_route cls hcls op hmem hsup
  have hfresh := World.get?_none_of_wf hw (Nat.le_refl w.next)
  have hc : cmpOps.contains op = true := by simpa using hop
  rw [hs, helperOf_bin op hop', hc] at hr
  have law := hm op hop sym hs x y
  rw [← law] at hn ⊢
  cases hp : pyDunders op with
  | none => rw [hp] at hr; simp at hr
  | some p =>
    obtain ⟨fwd, refl⟩ := p
    rw [hp] at hr
    simp only [Option.bind_some, Option.map_some] at hr
    simp only [Operand.under, Operand.val] at hy
    cases l with
    | field _ => cases hl
    | array a =>
      simp only [Operand.under, Operand.val] at hx
      obtain ⟨w', h1, h2⟩ := run_binary np (mirrorSym sym) w (.fld id) (.arr a) y x n hw hy hx hn
      refine ⟨w', w.next, ?_, rfl, hfresh, h2⟩
      simp [opBinary, hp, hdisp, classes_defer cls hcls, callDunder, hr, pick, lookup_binary, h1, Operand.val]
    | scalar a =>
      simp only [Operand.under, Operand.val] at hx
      obtain ⟨w', h1, h2⟩ := run_binary np (mirrorSym sym) w (.fld id) (.arr a) y x n hw hy hx hn
      refine ⟨w', w.next, ?_, rfl, hfresh, h2⟩
      simp [opBinary, hp, hdisp, classes_defer cls hcls, callDunder, hr, pick, lookup_binary, h1, Operand.val]

/-- **C13, unary operators.** `~f` is `operator.invert(f')`, `f.logical_not()` is `np.logical_not(f')`, for every class that has
    them: one new NumericMemField with numpy's data and dtype name, nothing else changes. -/
theorem unary_table_correct (np : Numpy α) (w : World α) (op : String) (id : Nat) (cls sym n : String) (x : α)
    (hw : w.wf) (hop : op ∈ unOps) (hcls : cls ∈ classes) (hsup : supportsUnary cls op = true)
    (hdisp : w.classOf id = some cls) (hx : (Operand.field id : Operand α).under np w = .ok x) (hs : opSymbol op = some sym)
    (hn : dtypeToStr (np.dtypeOf (np.call sym [x])) = some n) :
    (op = "~" → sym = "operator.invert") ∧ (op = "logical_not" → sym = "np.logical_not") ∧
    ∃ w' rid, opUnary np w op id = .ok (w', [rid]) ∧ ReturnsNew w w' rid n (np.call sym [x]) := by
  refine ⟨fun h => by subst h; simpa [opSymbol] using hs.symm, fun h => by subst h; simpa [opSymbol] using hs.symm, ?_⟩
  have hr := unary_route cls hcls op hop hsup
  have hfresh := World.get?_none_of_wf hw (Nat.le_refl w.next)
  rw [hs] at hr
  cases hp : pyUnary op with
  | none => rw [hp] at hr; simp at hr
  | some d =>
    rw [hp] at hr
    simp only [Option.bind_some, Option.map_some] at hr
    simp only [Operand.under, Operand.val] at hx
    obtain ⟨w', h1, h2⟩ := run_unary np sym w (.fld id) x n hw hx hn
    refine ⟨w', w.next, ?_, rfl, hfresh, h2⟩
    simp [opUnary, hp, hdisp, callDunder, hr, pick, lookup_unary, h1]

/-- **C13, divmod.** `divmod(l, r)` with a field on either side returns a PAIR of distinct new NumericMemFields: the two
    components of ONE `np.divmod(l', r')` call, in numpy's order (quotient, remainder), each under its own dtype name;
    nothing that existed before changes. -/
theorem divmod_returns_pair (np : Numpy α) (w : World α) (l r : Operand α) (cls n1 n2 : String) (x y : α)
    (hw : w.wf) (hcls : cls ∈ classes) (hsup : supportsOp cls "divmod" = true) (hdisp : dispatchClass w l r = some cls)
    (hx : l.under np w = .ok x) (hy : r.under np w = .ok y)
    (hn1 : dtypeToStr (np.dtypeOf (np.call2 "np.divmod" [x, y]).1) = some n1)
    (hn2 : dtypeToStr (np.dtypeOf (np.call2 "np.divmod" [x, y]).2) = some n2) :
    ∃ w' q m, opDivmod np w l r = .ok (w', [q, m]) ∧ q = w.next ∧ m = w.next + 1 ∧ q ≠ m ∧
      w.get? q = none ∧ w.get? m = none ∧
      w'.get? q = some ⟨"NumericMemField", n1, some (np.call2 "np.divmod" [x, y]).1⟩ ∧
      w'.get? m = some ⟨"NumericMemField", n2, some (np.call2 "np.divmod" [x, y]).2⟩ ∧
      (∀ id, id < w.next → w'.get? id = w.get? id) ∧ w'.frames = w.frames ∧ w'.wf := by
  obtain ⟨hf, hr⟩ := divmod_routes cls hcls hsup
  have hfresh := World.get?_none_of_wf hw (Nat.le_refl w.next)
  have hfresh2 := World.get?_none_of_wf hw (Nat.le_succ w.next)
  have e1 : pyDunders "divmod" = some ("__divmod__", "__rdivmod__") := rfl
  have fin : ∀ a b, unwrapVal np w a = .ok x → unwrapVal np w b = .ok y →
      opDivmod np w l r = runProg np "np.divmod" divmodProg w [a, b] →
      ∃ w' q m, opDivmod np w l r = .ok (w', [q, m]) ∧ q = w.next ∧ m = w.next + 1 ∧ q ≠ m ∧
      w.get? q = none ∧ w.get? m = none ∧
      w'.get? q = some ⟨"NumericMemField", n1, some (np.call2 "np.divmod" [x, y]).1⟩ ∧
      w'.get? m = some ⟨"NumericMemField", n2, some (np.call2 "np.divmod" [x, y]).2⟩ ∧
      (∀ id, id < w.next → w'.get? id = w.get? id) ∧ w'.frames = w.frames ∧ w'.wf := by
    intro a b ha hb he
    obtain ⟨w', h1, h2, h3, h4, h5, _, h7⟩ := run_divmod np "np.divmod" w a b x y n1 n2 hw ha hb hn1 hn2
    exact ⟨w', w.next, w.next + 1, by rw [he, h1], rfl, rfl, by omega, hfresh, hfresh2, h2, h3, h4, h5, h7⟩
  cases l with
  | field id =>
    simp only [dispatchClass] at hdisp
    simp only [Operand.under, Operand.val] at hx hy
    exact fin (.fld id) r.val hx hy (by simp [opDivmod, opBinary, e1, hdisp, callDunder, hf, pick, lookup_divmod])
  | array a =>
    cases r with
    | field id =>
      simp only [dispatchClass] at hdisp
      simp only [Operand.under, Operand.val] at hx hy
      exact fin (.arr a) (.fld id) hx hy
        (by simp [opDivmod, opBinary, e1, hdisp, classes_defer cls hcls, callDunder, hr, pick, lookup_divmod, Operand.val])
    | array b => simp [dispatchClass] at hdisp
    | scalar b => simp [dispatchClass] at hdisp
  | scalar a =>
    cases r with
    | field id =>
      simp only [dispatchClass] at hdisp
      simp only [Operand.under, Operand.val] at hx hy
      exact fin (.arr a) (.fld id) hx hy
        (by simp [opDivmod, opBinary, e1, hdisp, classes_defer cls hcls, callDunder, hr, pick, lookup_divmod, Operand.val])
    | array b => simp [dispatchClass] at hdisp
    | scalar b => simp [dispatchClass] at hdisp

/-- **C13, operands untouched.** Whatever a supported binary operator or divmod returns (any operand kinds, either side), every
    object that existed before the call — both operands included — and every dataframe is exactly as it was. No assumption on
    numpy, on the operands' data or on the result dtype. -/
theorem operands_unchanged (np : Numpy α) (w w' : World α) (op : String) (l r : Operand α) (cls : String) (ids : List Nat)
    (hw : w.wf) (hop : op ∈ "divmod" :: binOps) (hcls : cls ∈ classes) (hsup : supportsOp cls op = true)
    (hdisp : dispatchClass w l r = some cls) (h : opBinary np w op l r = .ok (w', ids)) :
    (∀ id rec, w.get? id = some rec → w'.get? id = some rec) ∧ w'.frames = w.frames := by
  obtain ⟨s, a, b, he⟩ := opBinary_runs np w op l r cls hop hcls hsup hdisp
  rw [he] at h
  have hfr : (∀ id, id < w.next → w'.get? id = w.get? id) ∧ w'.frames = w.frames := by
    by_cases hd : op = "divmod"
    · rw [if_pos hd] at h; exact run_divmod_frame np s w w' a b ids h
    · rw [if_neg hd] at h; exact run_binary_frame np s w w' a b ids h
  refine ⟨fun id rec hr => ?_, hfr.2⟩
  rw [hfr.1 id (World.lt_next_of_get? hw hr)]; exact hr

/-- … and the same for the unary operators -/
theorem operands_unchanged_unary (np : Numpy α) (w w' : World α) (op : String) (id : Nat) (cls : String) (ids : List Nat)
    (hw : w.wf) (hop : op ∈ unOps) (hcls : cls ∈ classes) (hsup : supportsUnary cls op = true)
    (hdisp : w.classOf id = some cls) (h : opUnary np w op id = .ok (w', ids)) :
    (∀ id rec, w.get? id = some rec → w'.get? id = some rec) ∧ w'.frames = w.frames := by
  have hr := unary_route cls hcls op hop hsup
  cases hp : pyUnary op with
  | none => simp [supportsUnary, hp] at hsup
  | some d =>
    cases hs : opSymbol op with
    | none => have := ops_total.2 op hop; rw [hs] at this; cases this
    | some sym =>
      rw [hp, hs] at hr
      simp only [Option.bind_some, Option.map_some] at hr
      simp [opUnary, hp, hdisp, callDunder, hr, pick, lookup_unary] at h
      have hfr := run_unary_frame np sym w w' (.fld id) ids h
      refine ⟨fun id rec hr => ?_, hfr.2⟩
      rw [hfr.1 id (World.lt_next_of_get? hw hr)]; exact hr

/-- when numpy's result dtype is one `dtype_to_str` does not name, the operator raises ValueError instead of inventing a name -/
theorem unsupported_dtype_raises (np : Numpy α) (w : World α) (op : String) (id : Nat) (r : Operand α) (cls sym : String) (x y : α)
    (hop : op ∈ binOps) (hcls : cls ∈ classes) (hsup : supportsOp cls op = true) (hdisp : w.classOf id = some cls)
    (hx : (Operand.field id : Operand α).under np w = .ok x) (hy : r.under np w = .ok y) (hs : opSymbol op = some sym)
    (hn : dtypeToStr (np.dtypeOf (np.call sym [x, y])) = none) :
    opBinary np w op (.field id) r = .error (.valueError "Unsupported dtype") := by
  have hmem : op ∈ "divmod" :: binOps := List.mem_cons_of_mem _ hop
  have hf := forward_route cls hcls op hmem hsup
  rw [hs, helperOf_bin op hop] at hf
  cases hp : pyDunders op with
  | none => rw [hp] at hf; simp at hf
  | some p =>
    obtain ⟨fwd, refl⟩ := p
    rw [hp] at hf
    simp only [Option.bind_some, Option.map_some] at hf
    have h := run_binary_unsupported np sym w (.fld id) r.val x y hx hy hn
    simp [opBinary, hp, hdisp, callDunder, hf, pick, lookup_binary, h]

/-- **C13, assignment into a dataframe.** `df[name] = f` for a numeric field `f` holding data `a` (every operator result is one),
    `name` not yet a column: the dataframe gets a NEW NumericField column `name` declared with `f`'s dtype name and holding the
    values h5py stores for `a` in a dataset of that dtype; `f` itself, the operands and every other object are unchanged; the other
    columns keep their place. `hcast`: writing an array into a dataset of its own dtype stores it unchanged (numpy / h5py). -/
theorem setitem_stores_result (np : Numpy α) (w : World α) (df : Nat) (name : String) (rid : Nat) (cols : List (String × Nat))
    (rec : FieldRec α) (a : α) (hw : w.wf) (hf : w.frame? df = some cols) (hr : w.get? rid = some rec)
    (hc : createLikeTarget rec.cls = some "NumericField") (hd : rec.data = some a)
    (hnew : cols.any (fun c => c.1 == name) = false) (hcast : np.cast rec.dtype a = a) :
    ∃ w', setItem np w df name rid = .ok w' ∧
      w'.column? df name = some ⟨"NumericField", rec.dtype, some a⟩ ∧
      w'.frame? df = some (cols ++ [(name, w.next)]) ∧ w.get? w.next = none ∧
      (∀ id rec', w.get? id = some rec' → w'.get? id = some rec') ∧ w'.get? rid = some rec ∧
      (∀ d, d ≠ df → w'.frame? d = w.frame? d) := by
  have hfresh := World.get?_none_of_wf hw (Nat.le_refl w.next)
  have keep : ∀ id rec', w.get? id = some rec' →
      ((w.alloc ⟨"NumericField", rec.dtype, none⟩).put w.next ⟨"NumericField", rec.dtype, some a⟩).get? id = some rec' := by
    intro id rec' h
    have : ¬ w.next = id := by have := World.lt_next_of_get? hw h; omega
    simp [this, h]
  have hfind : (cols ++ [(name, w.next)]).find? (fun c => c.1 == name) = some (name, w.next) := by
    rw [List.find?_append]
    have : cols.find? (fun c => c.1 == name) = none := by
      rw [List.find?_eq_none]
      intro c hcm
      have := List.any_eq_false.mp hnew c hcm
      simpa using this
    simp [this]
  refine ⟨_, by simp [setItem, hf, hr, hc, hnew, hd, hcast]; rfl, ?_, ?_, hfresh, ?_, ?_, ?_⟩
  · simp [World.column?, World.frame?, hfind, World.get?, World.put, World.alloc]
  · simp [World.frame?]
  · intro id rec' h
    have := keep id rec' h
    simpa [World.get?, World.put, World.alloc] using this
  · have := keep rid rec hr
    simpa [World.get?, World.put, World.alloc] using this
  · intro d hd'
    have : (df == d) = false := by simpa using fun e => hd' e.symm
    simp [World.frame?, this]

/-- assigning under a name the dataframe already has raises ValueError (from `create_like`) before anything is written -/
theorem setitem_existing_name_raises (np : Numpy α) (w : World α) (df : Nat) (name : String) (rid : Nat)
    (cols : List (String × Nat)) (rec : FieldRec α) (hf : w.frame? df = some cols) (hr : w.get? rid = some rec)
    (hc : createLikeTarget rec.cls = some "NumericField") (hex : cols.any (fun c => c.1 == name) = true) :
    setItem np w df name rid = .error (.valueError "Field already exists in group") := by
  simp [setItem, hf, hr, hc, hex]

/-- every operator result can be assigned: `create_like` of a NumericMemField (and of a NumericField) is the numeric route -/
theorem result_class_assignable : createLikeTarget "NumericMemField" = some "NumericField" ∧
    createLikeTarget "NumericField" = some "NumericField" := by decide

end whole

/-! ### non-vacuity: a toy numpy over `Int` "arrays", a heap with one HDF5 field, one memory field and a dataframe -/

/-- integers as one-element arrays; comparisons give 0 / 1 -/
def toyNp : Numpy Int where
  call s xs := match s, xs with
    | "operator.sub", [a, b] => a - b
    | "operator.lt", [a, b] => if a < b then 1 else 0
    | "operator.gt", [a, b] => if a > b then 1 else 0
    | "operator.le", [a, b] => if a ≤ b then 1 else 0
    | "operator.ge", [a, b] => if a ≥ b then 1 else 0
    | "operator.eq", [a, b] => if a = b then 1 else 0
    | "operator.ne", [a, b] => if a ≠ b then 1 else 0
    | "operator.invert", [a] => -a - 1
    | _, _ => 0
  call2 _ xs := match xs with
    | [a, b] => (a / b, a % b)
    | _ => (0, 0)
  dtypeOf _ := "np.int64"
  append a _ := a
  zeros0 _ := 0
  cast _ a := a

def toyWorld : World Int :=
  { fields := [(0, ⟨"NumericField", "int64", some 3⟩), (1, ⟨"TimestampMemField", "float64", some 20⟩)], next := 2,
    frames := [(0, [("x", 0)])] }

theorem toyWorld_wf : toyWorld.wf := by unfold World.wf; decide

theorem toy_mirror : MirrorLaw toyNp := by
  intro op hop s hs x y
  simp only [cmpOps, List.mem_cons, List.not_mem_nil, or_false] at hop
  rcases hop with rfl | rfl | rfl | rfl | rfl | rfl <;> simp only [opSymbol, Option.some.injEq] at hs <;> subst hs <;>
    simp [mirrorSym, toyNp, eq_comm]

-- a reflected NON-COMMUTATIVE operator with an ndarray on the left: `array(10) - field(3)` is `operator.sub(10, 3)`, not (3, 10)
example : ((opBinary toyNp toyWorld "-" (.array 10) (.field 0)).toOption.map (fun p => (p.1.get? 2, p.2, p.1.get? 0))) =
    some (some ⟨"NumericMemField", "int64", some 7⟩, [2], some ⟨"NumericField", "int64", some 3⟩) := by decide +kernel
example := operator_result_eq_numpy toyNp toyWorld "-" (.array 10) (.field 0) "NumericField" "operator.sub" "int64" 10 3
  toyWorld_wf (by decide) (by decide) (by decide) (by decide) (by decide) rfl rfl rfl (by decide)
-- `array(10) < field(3)` goes through `NumericField.__gt__(field, array)`
example : ((opBinary toyNp toyWorld "<" (.array 10) (.field 0)).toOption.map (fun p => p.1.get? 2)) =
    some (some ⟨"NumericMemField", "int64", some 0⟩) := by decide +kernel
example := reflected_comparison_eq_numpy toyNp toyWorld "<" (.array 10) 0 "NumericField" "operator.lt" "int64" 10 3
  toyWorld_wf (by decide) (by decide) (by decide) rfl (by decide) toy_mirror rfl rfl rfl (by decide)
-- divmod with the field on the right: `divmod(scalar 20, field 3)` = (6, 2), two distinct new fields
example : ((opDivmod toyNp toyWorld (.scalar 20) (.field 0)).toOption.map (fun p => (p.2, p.1.get? 2, p.1.get? 3))) =
    some ([2, 3], some ⟨"NumericMemField", "int64", some 6⟩, some ⟨"NumericMemField", "int64", some 2⟩) := by decide +kernel
example := divmod_returns_pair toyNp toyWorld (.scalar 20) (.field 0) "NumericField" "int64" "int64" 20 3
  toyWorld_wf (by decide) (by decide) (by decide) rfl rfl (by decide) (by decide)
-- timestamp field on the left, numeric field on the right
example := operator_result_eq_numpy toyNp toyWorld "-" (.field 1) (.field 0) "TimestampMemField" "operator.sub" "int64" 20 3
  toyWorld_wf (by decide) (by decide) (by decide) (by decide) (by decide) rfl rfl rfl (by decide)
example := unary_table_correct toyNp toyWorld "~" 0 "NumericField" "operator.invert" "int64" 3
  toyWorld_wf (by decide) (by decide) (by decide) (by decide) rfl rfl (by decide)
example := operands_unchanged toyNp toyWorld
  (toyWorld.alloc ⟨"NumericMemField", "int64", none⟩ |>.put 2 ⟨"NumericMemField", "int64", some 7⟩) "-" (.array 10) (.field 0)
  "NumericField" [2] toyWorld_wf (by decide) (by decide) (by decide) (by decide) (by rfl)
-- `df['r'] = (array(10) - field)`
example : ((opBinary toyNp toyWorld "-" (.array 10) (.field 0)).toOption.bind (fun p =>
    (setItem toyNp p.1 0 "r" 2).toOption.map (fun w => (w.column? 0 "r", w.column? 0 "x", w.get? 2)))) =
    some (some ⟨"NumericField", "int64", some 7⟩, some ⟨"NumericField", "int64", some 3⟩,
      some ⟨"NumericMemField", "int64", some 7⟩) := by decide +kernel
example := setitem_stores_result toyNp toyWorld 0 "r" 0 [("x", 0)] ⟨"NumericField", "int64", some 3⟩ 3
  toyWorld_wf (by decide) (by decide) (by decide) rfl (by decide) rfl
example : setItem toyNp toyWorld 0 "x" 0 = .error (.valueError "Field already exists in group") := by rfl
example : Gen.helperProgs.length = 3 ∧ Gen.arrayProtocol.length = 6 := by decide

end Exetera.Props.C13
