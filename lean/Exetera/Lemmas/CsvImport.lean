import Exetera.Lemmas.CsvSpecLink
/-! `IndexedStringImporter.import_part` on staging buffers that hold a column (C05). -/
namespace Exetera.Csv
open Exetera Spec

theorem endOf_cons_succ (e : Bytes) (es : List Bytes) (k : Nat) : endOf (e :: es) (k + 1) = e.length + endOf es k := by
  simp [endOf]

theorem offsetsFrom_getElem? (es : List Bytes) : ∀ (b k : Nat),
    (offsetsFrom b es)[k]? = if k ≤ es.length then some (b + endOf es k) else none := by
  induction es with
  | nil =>
    intro b k
    cases k <;> simp [offsetsFrom, endOf]
  | cons e es ih =>
    intro b k
    cases k with
    | zero => simp [offsetsFrom, endOf]
    | succ k =>
      simp only [offsetsFrom, List.getElem?_cons_succ, ih, List.length_cons, Nat.add_le_add_iff_right, endOf_cons_succ]
      split <;> simp [Nat.add_assoc]

theorem take_eq_offsets {r : List Nat} {es : List Bytes} (h : ∀ k, k ≤ es.length → r[k]? = some (endOf es k)) :
    r.take (es.length + 1) = offsetsFrom 0 es := by
  apply List.ext_getElem?
  intro k
  rw [List.getElem?_take, offsetsFrom_getElem?]
  by_cases hk : k ≤ es.length
  · have : k < es.length + 1 := by omega
    simp [hk, this, h k hk]
  · have : ¬ k < es.length + 1 := by omega
    simp [hk, this]

theorem slice_of_at {vals : List Nat} {off : Nat} {bs : Bytes} (h : At vals off bs) :
    slice vals off (off + bs.length) = bs := by
  apply List.ext_getElem?
  intro k
  unfold slice
  rw [List.getElem?_take, List.getElem?_drop]
  by_cases hk : k < bs.length
  · have : k < off + bs.length - off := by omega
    simp only [this, if_true]
    exact h k hk
  · have : ¬ k < off + bs.length - off := by omega
    simp only [this, if_false]
    rw [List.getElem?_eq_none (by omega)]

theorem offsetsFrom_head (b : Nat) (es : List Bytes) : [b] ++ (offsetsFrom b es).drop 1 = offsetsFrom b es := by
  cases es <;> simp [offsetsFrom]

/-- what `import_part` appends to a fresh indexed string field when column `c` holds the entries `es` -/
theorem importPart_indexed {offs : List Nat} {inds : List (List Nat)} {vals : List Nat} {c : Nat} {es : List Bytes}
    (h : ColOK offs inds vals c es) (ho : offs[c]? = some (offAt offs c)) :
    Imp.importPart { kind := .indexed } inds vals offs c es.length =
      .ok { kind := .indexed, idx := indexOf es, vals := bytesOf es, acc := (bytesOf es).length } := by
  obtain ⟨⟨r, hr, hk⟩, hat⟩ := h
  have htot : r[es.length]? = some es.flatten.length := by rw [hk _ (Nat.le_refl _), endOf_all]
  have hgo : getE offs c "column_offsets[col_idx]" = .ok (offAt offs c) := getE_eq_ok.mpr ho
  have hgt : getE r es.length "column_inds[col_idx,written_row_count]" = .ok es.flatten.length := getE_eq_ok.mpr htot
  simp only [Imp.importPart, hr, hgo, hgt, take_eq_offsets hk, slice_of_at hat]
  have hh : 0 :: (offsetsFrom 0 es).tail = offsetsFrom 0 es := by cases es <;> simp [offsetsFrom]
  simp [indexOf, bytesOf, hh]

/-- `import_part` for every column of `index_map`, each into a fresh indexed string field -/
theorem importAll_indexed {offs : List Nat} {inds : List (List Nat)} {vals : List Nat} {ncols n : Nat}
    {E : Nat → List Bytes} (hcols : ∀ c, c < ncols → ColOK offs inds vals c (E c))
    (hlen : ∀ c, c < ncols → (E c).length = n) (hoffs : offs.length = ncols + 1) :
    ∀ (im : List Nat), (∀ c ∈ im, c < ncols) →
      importAll inds vals offs n im (im.map (fun _ => ({ kind := .indexed } : Imp))) =
        .ok (im.map (fun c => ({ kind := .indexed, idx := indexOf (E c), vals := bytesOf (E c),
                                 acc := (bytesOf (E c)).length } : Imp))) := by
  intro im
  induction im with
  | nil => intro _; rfl
  | cons c im ih =>
    intro h
    have hc := h c (by simp)
    have h1 := importPart_indexed (hcols c hc) (offs_get hoffs (by omega))
    rw [hlen c hc] at h1
    simp only [List.map_cons, importAll, h1, ih (fun x hx => h x (by simp [hx]))]

end Exetera.Csv
