import Exetera.Model.Basic
/-!
  Specification of C08: spans are the maximal runs of equal adjacent rows; reductions are taken over exactly the
  rows of each span.  Everything here is index-based and meant to be read in a minute.
-/
namespace Exetera.Spec

/-- row `i` starts a new run: `0 < i < n` and `xs[i-1] ≠ xs[i]` -/
def isBoundary {α} (ne : α → α → Bool) (xs : List α) (i : Nat) : Bool :=
  match i, xs[i - 1]?, xs[i]? with
  | _ + 1, some a, some b => ne a b
  | _, _, _ => false

/-- the span array of a column: `0`, every run start, and the row count `n` (just `[0]` when there are no rows) -/
def spans {α} (ne : α → α → Bool) (xs : List α) : List Nat :=
  if xs.length = 0 then [0]
  else 0 :: (List.range xs.length).filter (isBoundary ne xs) ++ [xs.length]

/-- the comparison the property demands: rows differ (byte-exact for strings, all fields jointly for tuples) -/
def neq {α} [BEq α] (a b : α) : Bool := a != b

/-- the joint column of several equal-length columns: row `i` is the tuple of the fields' `i`-th entries -/
def jointRows (fs : List (List Int)) (n : Nat) : List (List (Option Int)) :=
  (List.range n).map (fun i => fs.map (·[i]?))

/-- strictly increasing, starts at 0, ends at the row count `n` -/
def Wellformed (sp : List Nat) (n : Nat) : Prop :=
  sp.Pairwise (· < ·) ∧ sp.head? = some 0 ∧ sp.getLast? = some n

/-- rows `i` and `j` lie in the same span of `sp`: no span start separates them -/
def SameSpan (sp : List Nat) (i j : Nat) : Prop := ∀ b ∈ sp, b ≤ i ↔ b ≤ j

/-- the spans as (start, end) pairs -/
def pairs (sp : List Nat) : List (Nat × Nat) := sp.zip sp.tail

/-- the rows of a span -/
def rowsOf {α} (src : List α) (p : Nat × Nat) : List α := Exetera.slice src p.1 p.2

/-- position of the first occurrence of the minimum / maximum of a non-empty list -/
def argminOf (l : List Int) : Option Nat := l.min?.map (fun m => l.idxOf m)
def argmaxOf (l : List Int) : Option Nat := l.max?.map (fun m => l.idxOf m)

/-- bytewise lexicographic order on strings (a proper prefix is smaller) -/
def lexLt : List Nat → List Nat → Bool
  | [], [] => false
  | [], _ :: _ => true
  | _ :: _, [] => false
  | a :: as, b :: bs => a < b || (a == b && lexLt as bs)

/-- within the rows `[a, b)` of a string column, `r` is the FIRST row that no row is below (in `lexLt`) -/
def IsFirstMinIn (rows : List (List Nat)) (a b r : Nat) : Prop :=
  a ≤ r ∧ r < b ∧ ∃ row, rows[r]? = some row ∧
    (∀ t s, a ≤ t → t < b → rows[t]? = some s → lexLt s row = false) ∧
    (∀ t s, a ≤ t → t < r → rows[t]? = some s → lexLt row s = true)

/-- within the rows `[a, b)`, `r` is the FIRST row that no row is above -/
def IsFirstMaxIn (rows : List (List Nat)) (a b r : Nat) : Prop :=
  a ≤ r ∧ r < b ∧ ∃ row, rows[r]? = some row ∧
    (∀ t s, a ≤ t → t < b → rows[t]? = some s → lexLt row s = false) ∧
    (∀ t s, a ≤ t → t < r → rows[t]? = some s → lexLt s row = true)

end Exetera.Spec
