import Exetera.Lemmas.CsvKernelThm
/-! Runs of bytes that may reach the end of the window (C05): the same runs as in `CsvRun`, but tracking
    `done = (index == len(source))` instead of assuming that something follows. -/
namespace Exetera.Csv
open Exetera Spec

theorem step_write_any {src : Bytes} {offs : List Nat} {maxrow : Nat} {s : KS} {c : Nat} {e' c' : Bool}
    (hc : src[s.index]? = some c)
    (hlex : lexByte src[s.index + 1]? (s.index == s.ics) s.escaped s.cand c = .ok ⟨.write, e', c'⟩)
    (hif : s.indsFull = false) (hvf : s.valsFull = false)
    (hcap : s.hdr = false → s.colOff + s.cstart + s.count < s.vals.length ∧ s.cstart + s.count + 1 < s.colCnt) :
    ∃ s', step src offs maxrow s = .ok s' ∧ s'.index = s.index + 1 ∧ s'.escaped = e' ∧ s'.cand = c' ∧
      s'.done = (s.index + 1 == src.length) ∧ s'.ctx = s.ctx ∧
      s'.count = (if s.hdr then s.count else s.count + 1) ∧
      s'.vals = (if s.hdr then s.vals else s.vals.set (s.colOff + s.cstart + s.count) c) := by
  cases hh : s.hdr with
  | true =>
    refine ⟨_, by simp only [step, getE, hc, hlex, writeChar, hh, if_true]; rfl, ?_⟩
    simp [KS.ctx, hh, hif, hvf]
  | false =>
    obtain ⟨hb, hcnt⟩ := hcap hh
    have hfull : decide (s.colCnt ≤ s.cstart + s.count + 1) = false := by simp; omega
    refine ⟨_, by simp only [step, getE, hc, hlex, writeChar, hh, setE, hb, if_true, hfull]; rfl, ?_⟩
    simp [KS.ctx, hh, hif, hvf]

theorem step_skip_any {src : Bytes} {offs : List Nat} {maxrow : Nat} {s : KS} {c : Nat} {e' c' : Bool}
    (hc : src[s.index]? = some c)
    (hlex : lexByte src[s.index + 1]? (s.index == s.ics) s.escaped s.cand c = .ok ⟨.skip, e', c'⟩)
    (hif : s.indsFull = false) (hvf : s.valsFull = false) :
    ∃ s', step src offs maxrow s = .ok s' ∧ s'.index = s.index + 1 ∧ s'.escaped = e' ∧ s'.cand = c' ∧
      s'.done = (s.index + 1 == src.length) ∧ s'.ctx = s.ctx ∧ s'.count = s.count ∧ s'.vals = s.vals := by
  refine ⟨_, by simp only [step, getE, hc, hlex]; rfl, ?_⟩
  simp [KS.ctx, hif, hvf]

/-- `RunEffect` without the claim that the loop goes on -/
def RunEff (s s' : KS) (w : Bytes) : Prop :=
  s'.ctx = s.ctx ∧
  (if s.hdr then s'.count = s.count ∧ s'.vals = s.vals
   else s'.count = s.count + w.length ∧ Wrote s.vals s'.vals (s.colOff + s.cstart + s.count) w)

theorem runEff_cons {s s1 s2 : KS} {b : Nat} {w : Bytes} (hctx1 : s1.ctx = s.ctx)
    (hcnt1 : s1.count = if s.hdr then s.count else s.count + 1)
    (hv1 : s1.vals = if s.hdr then s.vals else s.vals.set (s.colOff + s.cstart + s.count) b)
    (hroom : Room s (w.length + 1)) (h2 : RunEff s1 s2 w) : RunEff s s2 (b :: w) := by
  obtain ⟨_, _, hh1, _, _, hcs1, _, _, _, hco1, _, _⟩ := ctx_eq hctx1
  obtain ⟨hctx2, heff⟩ := h2
  refine ⟨by rw [hctx2, hctx1], ?_⟩
  rw [hh1] at heff
  cases hh : s.hdr with
  | true =>
    simp [hh] at heff hcnt1 hv1 ⊢
    exact ⟨by rw [heff.1, hcnt1], by rw [heff.2, hv1]⟩
  | false =>
    simp [hh] at heff hcnt1 hv1 ⊢
    refine ⟨by rw [heff.1, hcnt1]; omega, ?_⟩
    have hroom' := hroom hh
    apply Wrote.set_cons (by omega)
    have := heff.2
    rw [hv1, hco1, hcs1, hcnt1] at this
    simpa [Nat.add_assoc] using this

theorem runEff_nil (s : KS) : RunEff s s [] := by
  refine ⟨rfl, ?_⟩
  cases s.hdr <;> simp [Wrote.nil]

/-- a run of bare text, possibly up to the end of the window -/
theorem run_plain_g {src : Bytes} {offs : List Nat} {maxrow : Nat} (w : Bytes) :
    ∀ (A R : Bytes) (s : KS), src = A ++ (w ++ R) → s.index = A.length → s.done = (s.index == src.length) →
      s.indsFull = false → s.valsFull = false →
      (∀ b ∈ w, b ≠ QUOTE ∧ b ≠ SEP ∧ b ≠ NL) → Room s w.length →
      ∃ n s', KSteps src offs maxrow n s s' ∧ s'.index = A.length + w.length ∧ s'.escaped = s.escaped ∧ s'.cand = s.cand ∧
        s'.done = (s'.index == src.length) ∧ RunEff s s' w := by
  induction w with
  | nil =>
    intro A R s _ hi hd _ _ _ _
    exact ⟨0, s, .refl _, by simpa using hi, rfl, rfl, hd, runEff_nil s⟩
  | cons b w ih =>
    intro A R s hsrc hi hd hif hvf hw hroom
    have hb := hw b (by simp)
    have hc : src[s.index]? = some b := by rw [hsrc, hi, getElem?_append_len0]; simp
    have hd0 : s.done = false := by
      rw [hd, hi, hsrc]; simp
    obtain ⟨s1, hstep, hi1, he1, hc1, hd1, hctx1, hcnt1, hv1⟩ :=
      step_write_any (offs := offs) (maxrow := maxrow) hc (lex_plain hb.2.1 hb.2.2 hb.1) hif hvf
        (by intro hh; have := hroom hh; simp at this; omega)
    obtain ⟨_, _, hh1, _, _, hcs1, _, hif1, hvf1, hco1, hcc1, _⟩ := ctx_eq hctx1
    have hsrc1 : src = (A ++ [b]) ++ (w ++ R) := by simp [hsrc]
    obtain ⟨n, s2, hsteps, hi2, he2, hc2, hd2, heff⟩ :=
      ih (A ++ [b]) R s1 hsrc1 (by simp [hi1, hi]) (by rw [hd1, hi1]) (by rw [hif1, hif]) (by rw [hvf1, hvf])
        (fun x hx => hw x (by simp [hx]))
        (by
          intro hh
          rw [hh1] at hh
          have := hroom hh
          simp [hh] at hcnt1 hv1
          rw [hcs1, hco1, hcc1, hcnt1, hv1]
          simp at this ⊢
          omega)
    refine ⟨n + 1, s2, ?_, by simp [hi2]; omega, by rw [he2, he1], by rw [hc2, hc1], hd2,
      runEff_cons hctx1 hcnt1 hv1 hroom heff⟩
    have := StepsN.trans (StepsN.one (g := kguard) (by simp [kguard, hd0]) hstep) hsteps
    rwa [Nat.add_comm] at this

/-- the content of a quoted cell, possibly up to the end of the window (but never ending between the two quotes of a
    doubled quote: that case is `tailq` of `cell_tail`) -/
theorem run_quoted_g {src : Bytes} {offs : List Nat} {maxrow : Nat} (w : Bytes) :
    ∀ (A R : Bytes) (s : KS), src = A ++ (escape w ++ R) → s.index = A.length → s.done = (s.index == src.length) →
      s.indsFull = false → s.valsFull = false → s.escaped = true → s.cand = false → Room s w.length →
      ∃ n s', KSteps src offs maxrow n s s' ∧ s'.index = A.length + (escape w).length ∧ s'.escaped = true ∧ s'.cand = false ∧
        s'.done = (s'.index == src.length) ∧ RunEff s s' w := by
  induction w with
  | nil =>
    intro A R s _ hi hd _ _ he hcd _
    exact ⟨0, s, .refl _, by simpa [escape] using hi, he, hcd, hd, runEff_nil s⟩
  | cons b w ih =>
    intro A R s hsrc hi hd hif hvf he hcd hroom
    by_cases hb : b = QUOTE
    · subst hb
      have hsrc' : src = A ++ (QUOTE :: QUOTE :: (escape w ++ R)) := by simp [hsrc, escape]
      have hc : src[s.index]? = some QUOTE := by rw [hsrc', hi, getElem?_append_len0]; simp
      have hnx : src[s.index + 1]? = some QUOTE := by rw [hsrc', hi, getElem?_append_len]; simp
      have hd0 : s.done = false := by rw [hd, hi, hsrc']; simp
      obtain ⟨s1, hstep1, hi1, he1, hc1, hd1, hctx1, hcnt1, hv1⟩ :=
        step_skip_any (offs := offs) (maxrow := maxrow) hc (by rw [hnx, he, hcd]; exact lex_pair1 _) hif hvf
      obtain ⟨_, _, hh1, _, _, hcs1, _, hif1, hvf1, hco1, hcc1, _⟩ := ctx_eq hctx1
      have hc' : src[s1.index]? = some QUOTE := by rw [hi1, hnx]
      have hd10 : s1.done = false := by rw [hd1, hi, hsrc']; simp
      obtain ⟨s2, hstep2, hi2, he2, hc2, hd2, hctx2, hcnt2, hv2⟩ :=
        step_write_any (offs := offs) (maxrow := maxrow) hc' (by rw [he1, hc1]; exact lex_pair2 _ _)
          (by rw [hif1, hif]) (by rw [hvf1, hvf])
          (by
            intro hh
            rw [hh1] at hh
            have := hroom hh
            rw [hco1, hcs1, hcc1, hcnt1, hv1]
            simp at this ⊢
            omega)
      obtain ⟨_, _, hh2, _, _, hcs2, _, hif2, hvf2, hco2, hcc2, _⟩ := ctx_eq hctx2
      have hsrc2 : src = (A ++ [QUOTE, QUOTE]) ++ (escape w ++ R) := by simp [hsrc']
      have hctx12 : s2.ctx = s.ctx := by rw [hctx2, hctx1]
      have hroom2 : Room s2 w.length := by
        intro hh
        rw [hh2, hh1] at hh
        have := hroom hh
        simp [hh1, hh] at hcnt2 hv2
        rw [hcs2, hco2, hcc2, hcnt2, hv2, hcs1, hco1, hcc1, hcnt1, hv1]
        simp at this ⊢
        omega
      obtain ⟨n, s3, hsteps, hi3, he3, hc3, hd3, heff⟩ :=
        ih (A ++ [QUOTE, QUOTE]) R s2 hsrc2 (by simp [hi2, hi1, hi]) (by rw [hd2, hi2]) (by rw [hif2, hif1, hif])
          (by rw [hvf2, hvf1, hvf]) he2 hc2 hroom2
      refine ⟨n + 2, s3, ?_, by simp [hi3, escape]; omega, he3, hc3, hd3, ?_⟩
      · have h12 := StepsN.trans (StepsN.one (g := kguard) (by simp [kguard, hd0]) hstep1)
          (StepsN.one (g := kguard) (by simp [kguard, hd10]) hstep2)
        have := StepsN.trans h12 hsteps
        rwa [Nat.add_comm] at this
      · apply runEff_cons hctx12 (by rw [hcnt2, hh1, hcnt1]) (by rw [hv2, hh1, hv1, hco1, hcs1, hcnt1]) hroom heff
    · have hsrc' : src = A ++ (b :: (escape w ++ R)) := by simp [hsrc, escape, hb]
      have hc : src[s.index]? = some b := by rw [hsrc', hi, getElem?_append_len0]; simp
      have hd0 : s.done = false := by rw [hd, hi, hsrc']; simp
      obtain ⟨s1, hstep1, hi1, he1, hc1, hd1, hctx1, hcnt1, hv1⟩ :=
        step_write_any (offs := offs) (maxrow := maxrow) hc (by rw [he]; exact lex_esc_nonquote hb) hif hvf
          (by intro hh; have := hroom hh; simp at this; omega)
      obtain ⟨_, _, hh1, _, _, hcs1, _, hif1, hvf1, hco1, hcc1, _⟩ := ctx_eq hctx1
      have hsrc1 : src = (A ++ [b]) ++ (escape w ++ R) := by simp [hsrc']
      have hroom1 : Room s1 w.length := by
        intro hh
        rw [hh1] at hh
        have := hroom hh
        simp [hh] at hcnt1 hv1
        rw [hcs1, hco1, hcc1, hcnt1, hv1]
        simp at this ⊢
        omega
      obtain ⟨n, s2, hsteps, hi2, he2, hc2, hd2, heff⟩ :=
        ih (A ++ [b]) R s1 hsrc1 (by simp [hi1, hi]) (by rw [hd1, hi1]) (by rw [hif1, hif]) (by rw [hvf1, hvf]) he1
          (by rw [hc1, hcd]) hroom1
      refine ⟨n + 1, s2, ?_, by simp [hi2, escape, hb]; omega, he2, hc2, hd2, runEff_cons hctx1 hcnt1 hv1 hroom heff⟩
      have := StepsN.trans (StepsN.one (g := kguard) (by simp [kguard, hd0]) hstep1) hsteps
      rwa [Nat.add_comm] at this

end Exetera.Csv
