import Exetera.Lemmas.MapValidIndexed
/-! Helper lemmas for C04, part 5: the loop over partial calls inside one sub-chunk of the map
    (`while sm < sm_end` of `ordered_map_valid_indexed_stream`). Core Lean only. -/
namespace Exetera.MapValid

open Exetera Exetera.Spec

theorem valueWindow_spec {β} (ix : List Int) (values : List β) (sc : Nat × Nat) (A B : Int) (hix : WinOK ix values)
    (hsc : sc.1 ≤ sc.2) (hA : ix[sc.1]? = some A) (hB : ix[sc.2]? = some B) :
    valueWindow ix values sc = .ok (slice values A.toNat B.toNat) := by
  have h0 := hix.nonneg _ _ hA
  have h1 := hix.le_len _ _ hB
  have h2 := hix.mono _ _ _ _ hsc hA hB
  simp only [valueWindow, getE, hA, hB]
  rw [pySlice_nonneg values A B h0 (by omega) h1 h2]

section inner

variable {β : Type} (map_ : List Int) (sS sE : Nat) (ix : List Int) (values : List β) (subs : List (Nat × Nat))
  (f : Int) (N : Nat) (capI capV : Nat) (inv : Int) (esL : List (List β)) (accum0 : Int) (outI0 : List Int)
  (outV0 : List β)

/-- invariant of the loop over partial calls -/
def InnerInv (w : IW β) : Prop :=
  sS ≤ w.sm ∧ w.sm ≤ sE ∧ subs[w.s]? = some w.sc ∧
  (∃ A B, ix[w.sc.1]? = some A ∧ ix[w.sc.2]? = some B ∧ w.vals = slice values A.toNat B.toNat) ∧
  w.ri = [] ∧ w.rv = [] ∧
  w.outI = outI0 ++ runSums accum0 (slice esL sS w.sm) ∧
  w.outV = outV0 ++ (slice esL sS w.sm).flatten ∧
  w.accum = accum0 + sumLen (slice esL sS w.sm) ∧
  (∀ (p : Nat) (k : Int), w.sm ≤ p → p < sE → map_[p]? = some k → k ≠ inv → (w.sc.1 : Int) ≤ k - f) ∧
  (∀ x ∈ slice esL sS w.sm, x.length ≤ capV)

/-- the D5 error: raised, and only because the mapped entry at some position of `[sS, sE)` exceeds the value buffer -/
def Oversize (e : Err) : Prop :=
  e = .valueError "entry does not fit the value buffer" ∧
  ∃ (p : Nat) (k : Int), sS ≤ p ∧ p < sE ∧ map_[p]? = some k ∧ k ≠ inv ∧
    capV < (wentry ix values (k - f).toNat).length

variable (hix : WinOK ix values) (hixlen : ix.length = N + 1) (htiles : Tiles subs 0 N)
  (hsE : sE ≤ map_.length) (hesLen : sE ≤ esL.length) (hcapI : sE - sS ≤ capI)
  (hwin : ∀ (p : Nat) (k : Int), sS ≤ p → p < sE → map_[p]? = some k → k ≠ inv → 0 ≤ k - f ∧ k - f < N)
  (hmono : MonoOn map_ inv sS sE)
  (hes : ∀ (p : Nat) (k : Int), sS ≤ p → p < sE → map_[p]? = some k →
      esL[p]? = some (if k = inv then [] else wentry ix values (k - f).toNat))

include hix hixlen htiles hsE hesLen hcapI hwin hmono hes in
/-- one iteration: a partial call, the no-progress test, the flush and the move to the next value sub-chunk -/
theorem innerBody_spec (w : IW β) (hI : InnerInv map_ sS sE ix values subs f capV inv esL accum0 outI0 outV0 w)
    (hg : w.sm < sE) :
    (∃ w', innerBody map_ sE ix values subs f capI capV inv w = .ok w' ∧
      InnerInv map_ sS sE ix values subs f capV inv esL accum0 outI0 outV0 w' ∧
      (sE - w'.sm) + (subs.length - w'.s) < (sE - w.sm) + (subs.length - w.s)) ∨
    (∃ e, innerBody map_ sE ix values subs f capI capV inv w = .error e ∧
      Oversize map_ sS sE ix values f capV inv e ∧ 0 < (sE - w.sm) + (subs.length - w.s)) := by
  obtain ⟨h1, h2, hsc, ⟨A, B, hA, hB, hvals⟩, hri, hrv, hoI, hoV, hacc, hlow, hfit⟩ := hI
  have hscw : w.sc = (w.sc.1, w.sc.2) := rfl
  obtain ⟨t1, t2, t3, t4⟩ := Tiles.getElem? htiles w.s w.sc.1 w.sc.2 (by rw [← hscw]; exact hsc)
  have hslen : w.s < subs.length := (List.getElem?_eq_some_iff.mp hsc).1
  obtain ⟨r, hrun, hr1, hr2, ⟨pri, prv, pacc, pfit⟩, hstop, hend⟩ :=
    indexedPartial_spec map_ sE ix w.sc.1 w.sc.2 values w.vals f capI capV inv w.sm w.accum esL A B
      hix t2 (by omega) hA hB hvals hsE hesLen h2 (by omega)
      (by
        intro p k hp1 hp2 hpk hki
        have := hwin p k (by omega) hp2 hpk hki
        exact ⟨hlow p k hp1 hp2 hpk hki, by omega⟩)
      (fun p k hp1 hp2 hpk => hes p k (by omega) hp2 hpk)
  -- the outputs after the flush, whatever happens to the sub-chunk
  have hsl : slice esL sS r.sm = slice esL sS w.sm ++ slice esL w.sm r.sm :=
    (slice_append_slice esL sS w.sm r.sm h1 hr1).symm
  have hoI' : w.outI ++ r.ri = outI0 ++ runSums accum0 (slice esL sS r.sm) := by
    rw [hoI, pri, hsl, runSums_append, hacc, List.append_assoc]
  have hoV' : w.outV ++ r.rv = outV0 ++ (slice esL sS r.sm).flatten := by
    rw [hoV, prv, hsl, List.flatten_append, List.append_assoc]
  have hacc' : r.accum = accum0 + sumLen (slice esL sS r.sm) := by
    rw [pacc, hacc, hsl, sumLen_append]; omega
  have hfit' : ∀ x ∈ slice esL sS r.sm, x.length ≤ capV := by
    intro x hx
    rw [hsl, List.mem_append] at hx
    rcases hx with hx | hx
    · exact hfit x hx
    · exact pfit x hx
  by_cases hfin : r.sm = sE
  · -- the sub-chunk of the map is finished
    have hneed := hend hfin
    have hne : (r.sm == w.sm) = false := by simp; omega
    refine Or.inl ⟨{ w with sm := r.sm, ri := [], rv := [], accum := r.accum, outI := w.outI ++ r.ri, outV := w.outV ++ r.rv },
      ?_, ⟨by simp only []; omega, by simp only []; omega, hsc, ⟨A, B, hA, hB, hvals⟩, rfl, rfl, hoI', hoV', hacc', ?_, hfit'⟩, ?_⟩
    · simp only [innerBody, hri, hrv, hrun, hne, hneed, Bool.false_and, Bool.false_eq_true, if_false]
    · intro p k hp1 hp2; simp only [] at hp1; omega
    · simp only []; omega
  · have hlt : r.sm < sE := by omega
    obtain ⟨k, hk, hki, hreason⟩ := hstop hlt
    obtain ⟨hk0, hkN⟩ := hwin r.sm k (by omega) hlt hk hki
    rcases hreason with ⟨hneed, hbk⟩ | ⟨hneed, hkb, hfull⟩
    · -- the next entry lies in a later value sub-chunk
      obtain ⟨z, hz⟩ := t4 (by omega)
      obtain ⟨u1, u2, u3, _⟩ := Tiles.getElem? htiles (w.s + 1) w.sc.2 z hz
      have hzl : z < ix.length := by omega
      have hgz : ix[z]? = some ix[z] := List.getElem?_eq_getElem hzl
      have hvw := valueWindow_spec ix values (w.sc.2, z) B ix[z] hix (by simp only []; omega) hB hgz
      have hgs : getE subs (w.s + 1) "sub_chunks[s]" = .ok (w.sc.2, z) := by simp [getE, hz]
      refine Or.inl ⟨{ w with sm := r.sm, ri := [], rv := [], accum := r.accum, outI := w.outI ++ r.ri, outV := w.outV ++ r.rv,
                              s := w.s + 1, sc := (w.sc.2, z), vals := slice values B.toNat ix[z].toNat },
        ?_, ⟨by simp only []; omega, by simp only []; omega, hz, ⟨B, ix[z], hB, hgz, rfl⟩, rfl, rfl, hoI', hoV', hacc', ?_, hfit'⟩, ?_⟩
      · simp only [innerBody, hri, hrv, hrun, hneed, Bool.not_true, Bool.and_false, Bool.false_eq_true, if_false, if_true, hgs, hvw]
      · intro p k' hp1 hp2 hpk' hki'
        simp only [] at hp1 ⊢
        have := hmono r.sm p k k' (by omega) hp1 hp2 hk hpk' hki hki'
        omega
      · have := (List.getElem?_eq_some_iff.mp hz).1
        simp only []; omega
    · by_cases heq : r.sm = w.sm
      · -- the buffer was empty and the entry still does not fit: the D5 error
        have hrv0 : r.rv = [] := by rw [prv, heq, slice_self]; rfl
        rw [hrv0] at hfull
        refine Or.inr ⟨_, ?_, ⟨rfl, r.sm, k, by omega, hlt, hk, hki, ?_⟩, by omega⟩
        · simp [innerBody, hri, hrv, hrun, heq, hneed]
        · simp at hfull; omega
      · -- the value buffer is full: it held something, so the call made progress
        have hprog : w.sm < r.sm := by omega
        have hne : (r.sm == w.sm) = false := by simp; omega
        refine Or.inl ⟨{ w with sm := r.sm, ri := [], rv := [], accum := r.accum, outI := w.outI ++ r.ri, outV := w.outV ++ r.rv },
          ?_, ⟨by simp only []; omega, by simp only []; omega, hsc, ⟨A, B, hA, hB, hvals⟩, rfl, rfl, hoI', hoV', hacc', ?_, hfit'⟩, ?_⟩
        · simp only [innerBody, hri, hrv, hrun, hne, hneed, Bool.false_and, Bool.false_eq_true, if_false]
        · intro p k' hp1 hp2 hpk' hki'
          simp only [] at hp1
          exact hlow p k' (by omega) hp2 hpk' hki'
        · simp only []; omega

include hix hixlen htiles hsE hesLen hcapI hwin hmono hes in
/-- the whole loop over partial calls for one sub-chunk `[sS, sE)` of the map that holds a valid entry: it either
    appends the stored form of the sub-chunk's entries (all of which fitted the value buffer), or stops with the D5
    error because one of them does not fit -/
theorem innerLoop_spec (sc0 : Nat × Nat) (vals0 : List β) (hsS : sS ≤ sE)
    (hsc0 : subs[0]? = some sc0) (hsc01 : sc0.1 = 0)
    (hv0 : ∃ A B, ix[sc0.1]? = some A ∧ ix[sc0.2]? = some B ∧ vals0 = slice values A.toNat B.toNat) :
    (∃ w, whileE (fun w : IW β => decide (w.sm < sE)) (innerBody map_ sE ix values subs f capI capV inv)
        (sE - sS + subs.length) ⟨sS, 0, sc0, vals0, [], [], accum0, outI0, outV0⟩ = .ok w ∧
      w.accum = accum0 + sumLen (slice esL sS sE) ∧
      w.outI = outI0 ++ runSums accum0 (slice esL sS sE) ∧
      w.outV = outV0 ++ (slice esL sS sE).flatten ∧
      (∀ x ∈ slice esL sS sE, x.length ≤ capV)) ∨
    (∃ e, whileE (fun w : IW β => decide (w.sm < sE)) (innerBody map_ sE ix values subs f capI capV inv)
        (sE - sS + subs.length) ⟨sS, 0, sc0, vals0, [], [], accum0, outI0, outV0⟩ = .error e ∧
      Oversize map_ sS sE ix values f capV inv e) := by
  have h := whileE_rule_err (fun w : IW β => decide (w.sm < sE)) (innerBody map_ sE ix values subs f capI capV inv)
    (InnerInv map_ sS sE ix values subs f capV inv esL accum0 outI0 outV0)
    (Oversize map_ sS sE ix values f capV inv)
    (fun w => (sE - w.sm) + (subs.length - w.s))
    (by
      intro w hI hg
      have hg' : w.sm < sE := by simpa using hg
      exact innerBody_spec map_ sS sE ix values subs f N capI capV inv esL accum0 outI0 outV0
        hix hixlen htiles hsE hesLen hcapI hwin hmono hes w hI hg')
    (sE - sS + subs.length) ⟨sS, 0, sc0, vals0, [], [], accum0, outI0, outV0⟩
    ⟨Nat.le_refl _, hsS, hsc0, hv0, rfl, rfl, by simp [slice_self, runSums], by simp [slice_self],
      by simp [slice_self, sumLen],
      by
        intro p k hp1 hp2 hpk hki
        have := (hwin p k hp1 hp2 hpk hki).1
        simp only [hsc01]; omega,
      by simp [slice_self]⟩
    (by simp)
  rcases h with ⟨w, hrun, ⟨h1, h2, _, _, _, _, hoI, hoV, hacc, _, hfit⟩, hg⟩ | ⟨e, hrun, hq⟩
  · have hge : sE ≤ w.sm := by simpa using hg
    have heq : w.sm = sE := by omega
    rw [heq] at hoI hoV hacc hfit
    exact Or.inl ⟨w, hrun, hacc, hoI, hoV, hfit⟩
  · exact Or.inr ⟨e, hrun, hq⟩

end inner

end Exetera.MapValid
