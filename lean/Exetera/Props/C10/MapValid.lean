import Exetera.Props.C04
import Exetera.Props.C10.Basic
import Exetera.Model.KernelSitesMapValid
import Exetera.Model.KernelPathsMapValid
import Exetera.Lemmas.NoOobMapValid
/-!
# C10 — the map-valid kernels (owning property: C04)

`no_oob_*`: for every input the owning C04 theorem calls valid (hypotheses repeated verbatim), every chunk size and value
factor it allows and every site, the model run is not `.error (.oob site)`. Each is a corollary of the C04 theorem.
The compiled kernels `ordered_map_valid_partial`, `ordered_map_valid_indexed_partial`, `next_map_subchunk` and
`get_valid_value_extents` are only reachable through the two streams; the stream theorems cover every call the streams
make of them.
-/
namespace Exetera.Props.C10
open Exetera Exetera.MapValid Exetera.Spec

/-- the loop guards and subscripts of the modelled map-valid kernels, as regenerated from the current source, are
    exactly the ones the model was written against -/
theorem access_sites_covered_map_valid : ∀ k ∈ KernelSites.mapValidSites, lookup k.1 = some k := by decide +kernel

/-- the PATH CONDITION of every subscript occurrence in these kernels (enclosing loop guards, `if` / `elif` tests, negated
    `else` branches and early exits), as regenerated from the current source (`Gen/KernelPaths.lean`), is exactly the one the
    model was written against (`Model/KernelPathsMapValid.lean`): dropping or changing a test that dominates a subscript breaks
    the build; and the table covers exactly the kernels of the site table -/
theorem access_paths_covered_map_valid :
    (∀ k ∈ KernelPaths.mapValidPaths, lookupPaths k.1 = some k) ∧
    KernelPaths.mapValidPaths.map (·.1) = KernelSites.mapValidSites.map (·.1) := by decide +kernel

example : KernelSites.mapValidSites.length = 7 := by decide

/-- `ordered_map_valid_stream` (and through it `ordered_map_valid_partial`, `next_map_subchunk`,
    `get_valid_value_extents`): no out-of-bounds access at any site for every in-range map (ordered or not), every
    marker and every chunk size ≥ 1. In particular the chunk-sized buffer `result_data` is never overrun. -/
theorem no_oob_map_valid_stream {α} (src : List α) (m : List Int) (inv : Int) (cs : Nat) (empty : α)
    (hcs : 1 ≤ cs) (hr : InRange src.length m inv) (site : String) :
    orderedMapValidStream src m inv cs empty ≠ .error (.oob site) :=
  ne_oob_of_exists (C04.map_stream_eq_any src m inv cs empty hcs hr) site

example : InRange 3 [0, 1, 2, 0, 1, 2] INVALID_INDEX_64 := C04.inRange_of_all (by decide)

/-- `ordered_map_valid_indexed_stream` (and through it `ordered_map_valid_indexed_partial`): for a well-formed indexed
    source, every in-range map, every marker, every chunk size ≥ 1 and EVERY value factor — whatever the ratio of the
    mapped bytes to the buffer `chunksize * value_factor` — no out-of-bounds access at any site: the run ends `.ok` or
    with the D5 `ValueError` (an entry longer than the whole value buffer). -/
theorem no_oob_map_valid_indexed_stream {β} (indices : List Int) (values : List β) (m : List Int) (inv : Int)
    (cs vf : Nat) (hok : IndexedOK indices values) (hcs : 1 ≤ cs)
    (hr : InRange (entries indices values).length m inv) (site : String) :
    orderedMapValidIndexedStream indices values m inv cs vf ≠ .error (.oob site) := by
  rcases indexed_stream_total_any indices values m inv cs vf hok hcs hr with ⟨out, es, h, _⟩ | ⟨e, h, he, _⟩
  · exact ne_oob_of_ok h site
  · rw [h, he]; intro h'; cases h'

example : IndexedOK [0, 1, 3, 6] [97, 98, 98, 99, 99, (99 : Int)] ∧
    InRange (entries [0, 1, 3, 6] [97, 98, 98, 99, 99, (99 : Int)]).length [0, 1, 2, 0, 1, 2] INVALID_INDEX_64 :=
  ⟨by unfold IndexedOK; decide, C04.inRange_of_all (by decide)⟩

/-- **result buffers of the indexed kernel are never overrun**: whatever the arguments (valid or not) and whatever the
    ratio of mapped bytes to buffer size, a call of `ordered_map_valid_indexed_partial` that starts with at most
    `capI` / `capV` elements in `result_indices` / `result_values` and returns normally leaves at most `capI` / `capV`
    elements in them — a write at `ri ≥ capI` is the model's `.oob "result_indices[ri]"`, and the byte copy is only
    entered when `rv + (v_end - v_start) ≤ capV`. -/
theorem indexed_partial_buffers_bounded {β} (map_ : List Int) (smEnd : Nat) (indices : List Int) (iStart iMax : Nat)
    (values : List β) (mvStart : Int) (capI capV : Nat) (inv : Int) (sm : Nat) (ri : List Int) (rv : List β)
    (accum : Int) (p : IP β) (hri : ri.length ≤ capI) (hrv : rv.length ≤ capV)
    (h : indexedPartial map_ smEnd indices iStart iMax values mvStart capI capV inv sm ri rv accum = .ok p) :
    p.ri.length ≤ capI ∧ p.rv.length ≤ capV := by
  unfold indexedPartial at h
  split at h
  · cases h
  · rename_i vOffset _
    refine whileE_inv_of_ok _ _ (fun s : IP β => s.ri.length ≤ capI ∧ s.rv.length ≤ capV) ?_ _ _ _ h ⟨hri, hrv⟩
    intro s s' hI hb
    simp only [ipBody] at hb
    split at hb
    · cases hb
    · rename_i k _
      split at hb
      · split at hb
        · cases hb; simp only [List.length_append, List.length_singleton]; omega
        · cases hb
      · split at hb
        · cases hb; exact hI
        · split at hb
          · rename_i a b _ _
            split at hb
            · cases hb; exact hI
            · rename_i hfit
              split at hb
              · cases hb
              · rename_i bytes hbytes
                split at hb
                · cases hb
                  have := readRange_length _ _ _ _ hbytes
                  simp only [List.length_append, List.length_singleton]
                  omega
                · cases hb
          · cases hb
          · cases hb

example : indexedPartial [0, 1] 2 [0, 1, 3] 0 2 [97, 98, (98 : Int)] 0 2 2 (-1) 0 [] [] 0
    = .ok ⟨1, [1], [97], 1, false, true⟩ := by rfl

/-- `safe_map_values` with any filter of the map's length whose set rows are row numbers of `data` -/
theorem no_oob_safe_map_values {α} (data : List α) (m : List Int) (filt : List Bool) (e : Option α) (zero : α)
    (hlen : filt.length = m.length)
    (hr : ∀ (i : Nat) (k : Int), m[i]? = some k → filt[i]? = some true → 0 ≤ k ∧ k < data.length) (site : String) :
    safeMapValues data m filt e zero ≠ .error (.oob site) :=
  ne_oob_of_exists (C04.safe_map_values_rows data m filt e zero hlen hr) site

example : safeMapValues [10, 20, 30] [2, -1, 0] [true, false, true] none (0 : Int) = .ok [30, 0, 10] := by rfl

/-- `map_valid`, allocating its result or writing into a caller-supplied array of the map's length -/
theorem no_oob_map_valid {α} (data : List α) (m : List Int) (result : Option (List α)) (inv : Int) (zero : α)
    (hres : ∀ r, result = some r → r.length = m.length) (hr : InRange data.length m inv) (site : String) :
    mapValid data m result inv zero ≠ .error (.oob site) := by
  cases result with
  | none => exact ne_oob_of_exists (C04.map_valid_eq data m inv zero hr) site
  | some r => exact ne_oob_of_exists (C04.map_valid_rows data m r inv zero (hres r rfl) hr) site

example : mapValid [10, 20, 30] [2, -1, 0] (some [7, 7, 7]) (-1) (0 : Int) = .ok [30, 7, 10] := by rfl

/-- `safe_map_indexed_values` with the filter "entry is not the marker" on a well-formed indexed source. The model checks
    the writes `i_result[i + 1]` and `v_result[dst:dse]` against the sizes the kernel allocates between its two passes
    (`len(map_field) + 1`, the `value_length` of the first pass), so this covers the result arrays too -/
theorem no_oob_safe_map_indexed_values {β} (indices : List Int) (values : List β) (m : List Int) (inv : Int)
    (hok : IndexedOK indices values) (hr : InRange (entries indices values).length m inv) (site : String) :
    safeMapIndexedValues indices values m (m.map (fun k => k != inv)) [] ≠ .error (.oob site) :=
  ne_oob_of_exists (C04.safe_map_indexed_values_eq indices values m inv hok hr) site

example : safeMapIndexedValues [0, 1, 3] [97, 98, 99] [1, -1, 0] ([1, -1, 0].map (fun k => k != -1)) []
    = .ok ([0, 2, 2, 3], [98, 99, 97]) := by rfl

/-- **the result arrays of `safe_map_indexed_values` are never overrun**: whatever the arguments (valid or not) and whatever
    sizes `capI = len(i_result)`, `capV = len(v_result)`, an iteration of the second pass that returns normally has written
    `i_result[i + 1]` inside `i_result`, and a slice it has written to `v_result` ends inside `v_result` -/
theorem safe_map_indexed_step_bounded {β} (indices : List Int) (values : List β) (m : List Int) (filt : List Bool)
    (empty : List β) (capI : Nat) (capV : Int) (i : Nat) (s s' : SI β)
    (h : smivStep indices values m filt empty capI capV i s = .ok s') :
    i + 1 < capI ∧ ((filt[i]? = some true ∨ empty ≠ []) → s'.offset ≤ capV) := by
  unfold smivStep at h
  cases hf : filt[i]? with
  | none => simp only [hf] at h; cases h
  | some b =>
    cases b with
    | true =>
      simp only [hf] at h
      cases hm : m[i]? with
      | none => simp only [hm] at h; cases h
      | some k =>
        simp only [hm] at h
        cases ha : getI indices k "data_indices[map_field[i]]" with
        | error e => simp only [ha] at h; cases h
        | ok sst =>
          cases hb : getI indices (k + 1) "data_indices[map_field[i]+1]" with
          | error e => simp only [ha, hb] at h; cases h
          | ok sse =>
            simp only [ha, hb] at h
            by_cases hc : capI ≤ i + 1
            · simp only [hc, if_true] at h; cases h
            · by_cases hv : capV < s.offset + (sse - sst)
              · simp only [hc, hv, if_true, if_false] at h; cases h
              · simp only [hc, hv, if_false] at h
                cases h
                exact ⟨by omega, fun _ => by simp only; omega⟩
    | false =>
      simp only [hf] at h
      by_cases hc : capI ≤ i + 1
      · simp only [hc, if_true] at h; cases h
      · by_cases hv : (!empty.isEmpty && decide (capV < s.offset + (empty.length : Int))) = true
        · simp only [hc, hv, if_true, if_false] at h; cases h
        · simp only [hc, hv, if_false] at h
          cases h
          refine ⟨by omega, fun hor => ?_⟩
          rcases hor with hor | hor
          · cases hor
          · have hne : empty.isEmpty = false := by cases empty <;> simp_all
            simp only [hne, Bool.not_false, Bool.true_and, decide_eq_true_eq] at hv
            simp only; omega

example : smivStep [0, 1, 3] [97, 98, 99] [1] [true] [] 1 5 0 ⟨0, [0], []⟩ = .error (.oob "i_result[i+1]") ∧
    smivStep [0, 1, 3] [97, 98, 99] [1] [true] [] 2 1 0 ⟨0, [0], []⟩ = .error (.oob "v_result[dst:dse]") ∧
    smivStep [0, 1, 3] [97, 98, 99] [1] [true] [] 2 2 0 ⟨0, [0], []⟩ = .ok ⟨2, [0, 2], [98, 99]⟩ := ⟨by rfl, by rfl, by rfl⟩

/-- `get_map_subchunks_based_on_index_lengths` / `next_map_subchunk` on ANY map, marker and chunk size ≥ 1 -/
theorem no_oob_subchunks (m : List Int) (inv : Int) (cs : Nat) (hcs : 1 ≤ cs) (site : String) :
    subchunks m inv cs ≠ .error (.oob site) :=
  ne_oob_of_exists (C04.subchunks_partition m inv cs hcs) site

/-- `get_valid_value_extents` on a non-empty range inside the chunk -/
theorem no_oob_get_valid_value_extents (m : List Int) (s e : Nat) (inv : Int) (hse : s < e) (he : e ≤ m.length)
    (site : String) : getValidValueExtents m s e inv ≠ .error (.oob site) :=
  ne_oob_of_exists (C04.extents_correct m s e inv hse he) site

example : getValidValueExtents [-1, 1, 5, -1] 0 4 (-1) = .ok (1, 5) := by rfl

end Exetera.Props.C10
