import Exetera.Lemmas.SpansEntry
/-! Helper lemmas for C08, part 6: `Session.get_spans(fields=…)` over ANY number of fields (after fix NC08d): folding the merge
    of span arrays over the columns gives the span array of the joint column. -/
namespace Exetera.Spans

open Exetera Exetera.Spec

/-- the joint column of several columns of any kinds: row `i` is the tuple of the columns' `i`-th rows -/
def jointCols (cols : List Column) (n : Nat) : List (List (Option Row)) :=
  (List.range n).map (fun i => cols.map (fun c => c.rows[i]?))

theorem jointCols_length (cols : List Column) (n : Nat) : (jointCols cols n).length = n := by
  simp [jointCols]

theorem getElem?_jointCols (cols : List Column) (n i : Nat) (h : i < n) :
    (jointCols cols n)[i]? = some (cols.map (fun c => c.rows[i]?)) := by
  unfold jointCols
  rw [List.getElem?_map, List.getElem?_range h]; rfl

theorem isBoundary_false_of_ge {α} (ne : α → α → Bool) (xs : List α) (i : Nat) (h : xs.length ≤ i) :
    isBoundary ne xs i = false := by
  cases hb : isBoundary ne xs i with
  | false => rfl
  | true => have := isBoundary_lt hb; omega

/-- two tuples of rows differ iff some component differs -/
theorem neq_map_rows (cols : List Column) (i j : Nat) (hi : ∀ c ∈ cols, i < c.rows.length) (hj : ∀ c ∈ cols, j < c.rows.length) :
    neq (cols.map (fun c => c.rows[i]?)) (cols.map (fun c => c.rows[j]?)) =
      cols.any (fun c => match c.rows[i]?, c.rows[j]? with
        | some a, some b => neq a b
        | _, _ => false) := by
  induction cols with
  | nil => simp [neq]
  | cons c cs ih =>
    have hci := hi c (by simp)
    have hcj := hj c (by simp)
    have ih' := ih (fun d hd => hi d (by simp [hd])) (fun d hd => hj d (by simp [hd]))
    simp only [List.map_cons, List.any_cons, List.getElem?_eq_getElem hci, List.getElem?_eq_getElem hcj]
    simp only [neq] at ih' ⊢
    by_cases hab : c.rows[i] = c.rows[j]
    · simp only [hab, bne_self_eq_false, Bool.false_or]
      rw [← ih']
      simp [bne, List.cons_beq_cons]
    · have e1 : (c.rows[i] == c.rows[j]) = false := by simpa using hab
      simp [bne, List.cons_beq_cons, e1]

/-- a boundary of the joint column is a boundary of some column -/
theorem isBoundary_jointCols (cols : List Column) (n : Nat) (hl : ∀ c ∈ cols, c.rows.length = n) (i : Nat) :
    isBoundary neq (jointCols cols n) i = cols.any (fun c => isBoundary neq c.rows i) := by
  cases i with
  | zero => simp [isBoundary_zero]
  | succ j =>
    by_cases hj : j + 1 < n
    · rw [isBoundary_succ, getElem?_jointCols cols n j (by omega), getElem?_jointCols cols n (j + 1) hj]
      simp only []
      rw [neq_map_rows cols j (j + 1) (fun c hc => by have := hl c hc; omega) (fun c hc => by have := hl c hc; omega)]
      congr 1
      funext c
      rw [isBoundary_succ]
      cases c.rows[j]? <;> cases c.rows[j + 1]? <;> rfl
    · rw [isBoundary_false_of_ge _ _ _ (by rw [jointCols_length]; omega)]
      symm
      rw [List.any_eq_false]
      intro c hc
      rw [isBoundary_false_of_ge _ _ _ (by have := hl c hc; omega)]
      simp

/-- what the running span array of the fold is: strictly increasing, and holding exactly 0, `n` and the boundaries of the
    columns merged so far -/
def FoldInv (done : List Column) (n : Nat) (acc : List Nat) : Prop :=
  acc.Pairwise (· < ·) ∧ ∀ z, z ∈ acc ↔ z = 0 ∨ z = n ∨ done.any (fun c => isBoundary neq c.rows z) = true

theorem foldInv_spans (c : Column) : FoldInv [c] c.rows.length (spans neq c.rows) :=
  ⟨spans_pairwise _ _, fun z => by rw [mem_spans]; simp⟩

theorem foldInv_le {done : List Column} {n : Nat} {acc : List Nat} (h : FoldInv done n acc)
    (hl : ∀ c ∈ done, c.rows.length = n) : ∀ x ∈ acc, x ≤ n := by
  intro x hx
  rcases (h.2 x).1 hx with h0 | hn | hb
  · omega
  · omega
  · rw [List.any_eq_true] at hb
    obtain ⟨c, hc, hcb⟩ := hb
    have := isBoundary_lt hcb
    have := hl c hc
    omega

/-- **the fold**: merging the remaining columns' span arrays into a running array that satisfies the invariant succeeds and
    ends with the invariant for all columns -/
theorem foldColumnSpans_spec (n : Nat) : ∀ (rest done : List Column) (acc : List Nat),
    FoldInv done n acc → (∀ c ∈ done, c.rows.length = n) → (∀ c ∈ rest, c.Valid ∧ c.rows.length = n) →
    ∃ m, foldColumnSpans .repaired acc rest = .ok m ∧ FoldInv (done ++ rest) n m
  | [], done, acc, hinv, _, _ => ⟨acc, rfl, by simpa using hinv⟩
  | c :: cs, done, acc, hinv, hdone, hrest => by
    obtain ⟨hv, hcl⟩ := hrest c (by simp)
    have hn : n ∈ spans neq c.rows := by rw [mem_spans]; right; left; exact hcl.symm
    obtain ⟨m, hm, hp, hmem⟩ := mergeLoop_spec acc (spans neq c.rows) hinv.1 (spans_pairwise _ _)
      (Or.inr (fun x hx => ⟨n, hn, foldInv_le hinv hdone x hx⟩))
    have hinv' : FoldInv (done ++ [c]) n m := by
      refine ⟨hp, fun z => ?_⟩
      rw [hmem, hinv.2, mem_spans, hcl, List.any_append]
      simp only [List.any_cons, List.any_nil, Bool.or_false, Bool.or_eq_true]
      constructor
      · rintro ((h | h | h) | (h | h | h))
        · exact Or.inl h
        · exact Or.inr (Or.inl h)
        · exact Or.inr (Or.inr (Or.inl h))
        · exact Or.inl h
        · exact Or.inr (Or.inl h)
        · exact Or.inr (Or.inr (Or.inr h))
      · rintro (h | h | h | h)
        · exact Or.inl (Or.inl h)
        · exact Or.inl (Or.inr (Or.inl h))
        · exact Or.inl (Or.inr (Or.inr h))
        · exact Or.inr (Or.inr (Or.inr h))
    obtain ⟨r, hr, hfin⟩ := foldColumnSpans_spec n cs (done ++ [c]) m hinv'
      (fun d hd => by
        rcases List.mem_append.1 hd with h | h
        · exact hdone d h
        · simp at h; subst h; exact hcl)
      (fun d hd => hrest d (by simp [hd]))
    refine ⟨r, ?_, by simpa using hfin⟩
    have hmerge : getSpansFor2FieldsBySpans acc (spans neq c.rows) = .ok m := hm
    simp only [foldColumnSpans, columnSpans_eq_spec c hv, hmerge]
    exact hr

/-- **`Session.get_spans(fields=(f0, …, fk))` for Fields of any kinds, any number ≥ 1** = the spans of the joint column -/
theorem sessionGetSpansFields_all (c0 : Column) (cs : List Column) (hv : ∀ c ∈ c0 :: cs, c.Valid)
    (hl : ∀ c ∈ cs, c.rows.length = c0.rows.length) :
    sessionGetSpansFields .repaired (c0 :: cs) = .ok (spans neq (jointCols (c0 :: cs) c0.rows.length)) := by
  obtain ⟨m, hm, hinv⟩ := foldColumnSpans_spec c0.rows.length cs [c0] (spans neq c0.rows) (foldInv_spans c0)
    (fun c hc => by simp at hc; subst hc; rfl) (fun c hc => ⟨hv c (by simp [hc]), hl c hc⟩)
  simp only [sessionGetSpansFields, columnSpans_eq_spec c0 (hv c0 (by simp)), hm]
  congr 1
  apply pairwise_lt_ext hinv.1 (spans_pairwise _ _)
  intro z
  have hall : ∀ c ∈ c0 :: cs, c.rows.length = c0.rows.length := by
    intro c hc
    rcases List.mem_cons.1 hc with h | h
    · subst h; rfl
    · exact hl c h
  rw [hinv.2, mem_spans, jointCols_length, isBoundary_jointCols _ _ hall]
  simp

/-! ### ndarray arguments -/

theorem foldArraySpans_eq : ∀ (as : List (List Int)) (acc : List Nat),
    foldArraySpans acc as = foldColumnSpans .repaired acc (as.map .numeric)
  | [], _ => rfl
  | a :: as, acc => by
    simp only [foldArraySpans, List.map_cons, foldColumnSpans, columnSpans]
    cases getSpansFor2FieldsBySpans acc (getSpansForField (fun x y => x != y) a) with
    | error e => rfl
    | ok m => exact foldArraySpans_eq as m

theorem numeric_rows_length (a : List Int) : (Column.numeric a).rows.length = a.length := by simp [Column.rows]

/-- **`Session.get_spans(fields=(a0, …, ak))` for ndarrays, any number ≥ 1** = the spans of the joint column (two arrays go
    through the two-array kernel, any other number through the fold) -/
theorem sessionGetSpansArrays_all (a0 : List Int) (as : List (List Int)) (hl : ∀ a ∈ as, a.length = a0.length) :
    sessionGetSpansArrays .repaired (a0 :: as) =
      .ok (spans neq (jointCols ((a0 :: as).map .numeric) a0.length)) := by
  have hfold : ∀ as : List (List Int), (∀ a ∈ as, a.length = a0.length) →
      foldArraySpans (getSpansForField (fun x y => x != y) a0) as =
        .ok (spans neq (jointCols ((a0 :: as).map .numeric) a0.length)) := by
    intro as hl
    have h := sessionGetSpansFields_all (.numeric a0) (as.map .numeric)
      (fun c hc => by
        rcases List.mem_cons.1 hc with h | h
        · subst h; trivial
        · obtain ⟨a, _, rfl⟩ := List.mem_map.1 h; trivial)
      (fun c hc => by
        obtain ⟨a, ha, rfl⟩ := List.mem_map.1 hc
        rw [numeric_rows_length, numeric_rows_length]; exact hl a ha)
    rw [numeric_rows_length] at h
    simp only [sessionGetSpansFields, columnSpans] at h
    rw [foldArraySpans_eq]; exact h
  match as, hl with
  | [], hl => simpa [sessionGetSpansArrays] using hfold [] hl
  | [a1], hl =>
    have h1 : a0.length = a1.length := (hl a1 (by simp)).symm
    simp only [sessionGetSpansArrays]
    rw [getSpansFor2Fields_eq_spec a0 a1 h1]
    congr 1
    apply spans_congr
    · simp [jointCols_length, List.length_zip, h1]
    · intro i
      rw [isBoundary_zip a0 a1 h1, isBoundary_jointCols _ _ (by
        intro c hc
        simp only [List.map_cons, List.map_nil, List.mem_cons, List.not_mem_nil, or_false] at hc
        rcases hc with rfl | rfl
        · exact numeric_rows_length a0
        · rw [numeric_rows_length]; exact h1.symm)]
      simp only [List.map_cons, List.map_nil, List.any_cons, List.any_nil, Bool.or_false, Column.rows]
      rw [isBoundary_map Row.num (fun a b h => by injection h), isBoundary_map Row.num (fun a b h => by injection h)]
  | a1 :: a2 :: as', hl =>
    simpa [sessionGetSpansArrays] using hfold (a1 :: a2 :: as') hl

end Exetera.Spans
