import Exetera.Model.Spans
import Exetera.Spec.Spans
/-!
  Counterexamples for the C08 defects, on the `asFound` variants of the model (which mirror /repo before the `fix:`
  patches), and for the open finding NC08d (on the model as it is, since that one is not repaired).
  All by evaluation in the kernel.
-/
namespace Exetera.Witness.C08

open Exetera Exetera.Spans Exetera.Spec

/-- D18: `apply_spans_index_of_min_indexed` as found never updates `minlen`: for the single span ["b","ab","a"]
    it answers row 1 ("ab"); with the fix it answers row 2 ("a"). -/
theorem d18_stale_minlen :
    applySpansIndexOfMinIndexed .asFound [0, 3] [0, 1, 3, 4] [98, 97, 98, 97] = .ok [1] ∧
    applySpansIndexOfMinIndexed .repaired [0, 3] [0, 1, 3, 4] [98, 97, 98, 97] = .ok [2] ∧
    lexLt [97] [97, 98] = true := ⟨rfl, rfl, rfl⟩

/-- D19: with `np.char.not_equal` (trailing whitespace ignored) the rows 'a', 'a ', 'a  ', 'b' form the spans [0,3,4]
    although they are pairwise different byte strings; the byte-exact comparison gives [0,1,2,3,4]. -/
theorem d19_trailing_blanks :
    columnSpans .asFound (.fixed [[97], [97, 32], [97, 32, 32], [98]]) = .ok [0, 3, 4] ∧
    columnSpans .repaired (.fixed [[97], [97, 32], [97, 32, 32], [98]]) = .ok [0, 1, 2, 3, 4] ∧
    spans neq [[97], [97, 32], [97, 32, 32], [98]] = [0, 1, 2, 3, 4] := ⟨rfl, rfl, rfl⟩

/-- NC08b: as found the two-array and multi-array kernels write `spans[1]` of a one-element buffer for zero rows -/
theorem nc08b_empty_columns_oob :
    getSpansFor2Fields .asFound [] [] = .error (.oob "spans[count + 1]") ∧
    getSpansForMultiFields .asFound [[], []] = .error (.oob "spans[count + 1]") ∧
    getSpansFor2Fields .repaired [] [] = .ok [0] ∧
    getSpansForMultiFields .repaired [[], []] = .ok [0] := ⟨rfl, rfl, rfl, rfl⟩

/-- NC08c: as found an indexed string field without rows gets the spans `[0, len(indices) - 1]`: `[0, 0]` for
    `indices = [0]` (and `[0, -1]` for `indices = []`, which `Nat` subtraction renders as `[0, 0]` too) — not strictly
    increasing, and different from `[0]`, which every other entry point returns. -/
theorem nc08c_empty_indexed_field :
    getSpansForIndexStringField .asFound [0] [] = .ok [0, 0] ∧
    getSpansForIndexStringField .asFound [] [] = .ok [0, 0] ∧
    ¬ Wellformed [0, 0] 0 ∧
    getSpansForIndexStringField .repaired [0] [] = .ok [0] ∧
    getSpansForIndexStringField .repaired [] [] = .ok [0] := by
  refine ⟨rfl, rfl, ?_, rfl, rfl⟩
  intro h; have := h.1; simp at this

/-- NC08d (repaired in /repo; the as-found variant is kept): `Session.get_spans(fields=(f0, f1, f2))` ignored `f2`, a single
    entry raised IndexError. The repaired variant returns the spans of the zipped rows in both cases. -/
theorem nc08d_third_field_ignored :
    sessionGetSpansFields .asFound [.numeric [1, 1, 2, 2], .numeric [1, 1, 2, 2], .numeric [1, 2, 2, 3]] = .ok [0, 2, 4] ∧
    sessionGetSpansArrays .asFound [[1, 1, 2, 2], [1, 1, 2, 2], [1, 2, 2, 3]] = .ok [0, 2, 4] ∧
    spans neq (jointRows [[1, 1, 2, 2], [1, 1, 2, 2], [1, 2, 2, 3]] 4) = [0, 1, 2, 3, 4] ∧
    getSpansForMultiFields .repaired [[1, 1, 2, 2], [1, 1, 2, 2], [1, 2, 2, 3]] = .ok [0, 1, 2, 3, 4] ∧
    sessionGetSpansFields .asFound [.numeric [1, 1, 2]] = .error (.oob "fields[1]") ∧
    sessionGetSpansFields .repaired [.numeric [1, 1, 2, 2], .numeric [1, 1, 2, 2], .numeric [1, 2, 2, 3]] = .ok [0, 1, 2, 3, 4] ∧
    sessionGetSpansArrays .repaired [[1, 1, 2, 2], [1, 1, 2, 2], [1, 2, 2, 3]] = .ok [0, 1, 2, 3, 4] ∧
    sessionGetSpansFields .repaired [.numeric [1, 1, 2]] = .ok [0, 2, 3] := ⟨rfl, rfl, rfl, rfl, rfl, rfl, rfl, rfl⟩

end Exetera.Witness.C08
