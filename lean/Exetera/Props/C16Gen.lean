import Exetera.Props.C16
import Exetera.Lemmas.GenKernelsConcat
/-!
  C16 over the TRANSLATED `_apply_spans_concat_2` (`Gen/Kernels.lean`, regenerated from operations.py by tools/translate_njit.py on
  every run), for byte columns (`α := Nat`).

  * `gen_apply_spans_concat_2_ok` (transfer form): every `.ok` run of the model `Concat.kernel` is a run of the translated kernel on
    buffers of the model's capacities (in the first batch entry 0 of `dest_index` is the model's `index0`): it returns the model's
    `s + 1` and the two write positions, and the buffers start with the prefixes the model has written. Transfer and not refinement:
    the model keeps only those prefixes (what the caller reads), the kernel the whole reusable buffers.
  * `gen_kernel_eq_spec`: the property statement `C16.kernel_eq_spec` for the translated kernel itself.
-/
namespace Exetera.Props.C16Gen

open Exetera Exetera.Concat Exetera.Spec.CsvLine Exetera.GenK Exetera.Gen.Kernels

theorem gen_apply_spans_concat_2_ok (P : Params Nat) (spStart : Nat) (bufI bufV : List Int) (hI : bufI.length = P.capI)
    (hV : bufV.length = P.capV) (hI0 : spStart = 0 → bufI[0]? = some (P.index0 : Int)) (sp' : Nat) (buf : Buf Nat)
    (h : kernel P spStart = .ok (sp', buf)) :
    ∃ bI bV, _apply_spans_concat_2.run (ints P.spans) (ints P.idx) (ints P.vals) bufI bufV P.maxI P.maxV P.sep P.delim spStart
        P.destStartV = .ok ((sp' : Int), (buf.ib.length : Int), (buf.vb.length : Int), bI, bV) ∧
      bI.length = P.capI ∧ bI.take buf.ib.length = ints buf.ib ∧ bV.length = P.capV ∧ bV.take buf.vb.length = ints buf.vb :=
  apply_spans_concat_2_ok P spStart bufI bufV hI hV hI0 sp' buf h

/-- `_apply_spans_concat_2` as translated, called on the index / value arrays of a byte column with `sp_start` inside the span list,
    limits within the buffers and a value buffer with room for one more span output below the value limit: it returns normally (no
    subscript out of range or negative, all seven loops end, the loop variable read after the loop is bound), handles `k ≥ 1` spans,
    returns `sp_start + k` and the two positions, and the first `d_index_i` offsets / `d_index_v` bytes of the buffers are exactly the
    running offsets (shifted by `dest_start_v`) and the CSV-joined outputs of the spans `sp_start … sp_start + k - 1` -/
theorem gen_kernel_eq_spec (P : Params Nat) (entries : List (List Nat))
    (hidx : P.idx = offsets entries) (hvals : P.vals = entries.flatten) (hbound : ∀ p ∈ P.spans, p ≤ entries.length)
    (M : Nat) (hM : ∀ o ∈ concatSpec P.sep P.delim entries P.spans, o.length ≤ M)
    (hI : P.maxI ≤ P.capI) (hMV : M ≤ P.capV) (hV : P.maxV - 1 + M ≤ P.capV)
    (spStart : Nat) (hs : spStart < P.spans.length - 1) (hci : (if spStart = 0 then 1 else 0) < P.capI)
    (bufI bufV : List Int) (hbI : bufI.length = P.capI) (hbV : bufV.length = P.capV)
    (hI0 : spStart = 0 → bufI[0]? = some (P.index0 : Int)) :
    ∃ (k : Nat) (bI bV : List Int), 0 < k ∧ spStart + k ≤ P.spans.length - 1 ∧
      let outs := ((concatSpec P.sep P.delim entries P.spans).drop spStart).take k
      let ib := (if spStart = 0 then [P.index0] else []) ++ offsetsFrom P.destStartV outs
      _apply_spans_concat_2.run (ints P.spans) (ints P.idx) (ints P.vals) bufI bufV P.maxI P.maxV P.sep P.delim spStart
          P.destStartV = .ok (((spStart + k : Nat) : Int), (ib.length : Int), (outs.flatten.length : Int), bI, bV) ∧
        bI.take ib.length = ints ib ∧ bV.take outs.flatten.length = ints outs.flatten := by
  obtain ⟨k, hk0, hk1, hker⟩ := C16.kernel_eq_spec P entries hidx hvals hbound M hM hI hMV hV spStart hs hci
  obtain ⟨bI, bV, hrun, _, hIt, _, hVt⟩ := apply_spans_concat_2_ok P spStart bufI bufV hbI hbV hI0 _ _ hker
  exact ⟨k, bI, bV, hk0, hk1, hrun, hIt, hVt⟩

example : _apply_spans_concat_2.run (ints C16.exParams.spans) (ints C16.exParams.idx) (ints C16.exParams.vals) [0, 0]
    (List.replicate 24 0) 2 12 44 34 1 1
    = .ok (3, 2, 12, [1, 13], [34, 98, 44, 99, 34, 44, 34, 100, 34, 34, 101, 34] ++ List.replicate 12 0) := by decide

end Exetera.Props.C16Gen
