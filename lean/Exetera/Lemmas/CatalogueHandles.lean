import Exetera.Lemmas.CatalogueViews
/-! Field objects when several of them wrap one group (`field.writeable()`): rename, cross-frame move. -/
namespace Exetera.Catalogue

/-- every open field object of a linked group — the stored one or a writeable view — follows a rename -/
theorem wrapper_follows_rename {s : State} (hI : InvCore s) (g : Nat) (dict : List (Name × Name))
    (hok : RenameOk dict ((ownedBy s.cols g).map (·.1))) {h : Nat} {hd : Handle} {n : Name}
    (hh : s.handles[h]? = some hd) (hc : hd.closed = false) (hl : ((g, n), hd.oid) ∈ s.links) :
    viewHandle s h = .named n ∧ viewHandle (renamedState s g dict) h = .named (renOf dict n) := by
  have hv := (hI.handleLink h hd hh hc _ hl).1
  have hI' := renamedState_core hI g dict hok
  have hh' : (renamedState s g dict).handles[h]? = some hd := hh
  constructor
  · unfold viewHandle
    simp only [hh, hc, hv, Bool.false_eq_true, if_false, Bool.not_true]
    rw [(nameOfVal_eq_some hI.oidInj).2 ⟨g, hl⟩]
  · unfold viewHandle
    simp only [hh', hc, hv, Bool.false_eq_true, if_false, Bool.not_true]
    have : ((g, renOf dict n), hd.oid) ∈ (renamedState s g dict).links :=
      mem_renamed_links.2 ⟨((g, n), hd.oid), hl, by simp [renKey]⟩
    rw [(nameOfVal_eq_some hI'.oidInj).2 ⟨g, this⟩]

theorem addField_handles {v : Variant} {s s1 : State} {g : Nat} {n : Name} {c : Content} {a : Nat}
    (h : addField v s g n c = .ok a s1) : ∃ nh : Handle, s1.handles = s.handles ++ [nh] ∧ nh.oid = s.objs.length := by
  unfold addField at h
  split at h
  · cases h
  split at h
  · cases h
  simp only [Res.ok.injEq] at h
  obtain ⟨_, rfl⟩ := h
  exact ⟨_, rfl, rfl⟩

/-- the field objects after a cross-frame `dataframe.move`: one new object (the destination column, a new group), and the
    object that was handed in has `_valid_reference = False`; no other object is told anything -/
theorem moveField_cross_handles {s s' : State} {h g : Nat} {n : Name} {hd : Handle}
    (hv : ensureValid s h = .ok hd) (hne : hd.owner ≠ some g) (hok : moveField .repaired s h g n = .ok () s') :
    ∃ nh : Handle, nh.oid = s.objs.length ∧
      s'.handles = (s.handles ++ [nh]).modify h (fun x => { x with valid := false }) := by
  unfold moveField at hok
  simp only [hv, hne, if_false] at hok
  cases hcp : copyField .repaired s h g n with
  | err e s1 => rw [hcp] at hok; simp [Res.andThen] at hok
  | ok a s1 =>
    rw [hcp] at hok
    simp only [Res.andThen] at hok
    obtain ⟨nh, hnh, hoid⟩ : ∃ nh : Handle, s1.handles = s.handles ++ [nh] ∧ nh.oid = s.objs.length := by
      unfold copyField at hcp
      split at hcp
      · cases hcp
      · exact addField_handles hcp
    split at hok
    · cases hok
    · next og _ =>
      split at hok
      · cases hok
      · next k _ =>
        have hdh := dropField_handles s1 og k
        cases hdr : dropField s1 og k with
        | err e s2 => rw [hdr] at hok; cases hok
        | ok u s2 =>
          rw [hdr] at hok hdh
          simp only [Res.ok.injEq, true_and] at hok
          subst hok
          simp only [Res.state] at hdh
          exact ⟨nh, hoid, by simp only [invalidate, hdh, hnh]⟩

/-- If no OTHER open, valid field object wraps the moved field's group, then after a cross-frame `dataframe.move` every open
    field object of that group reports itself invalid. -/
theorem moveField_cross_all_invalid {s s' : State} (hI : InvCore s) {h g : Nat} {n : Name} {hd : Handle}
    (hv : ensureValid s h = .ok hd) (hne : hd.owner ≠ some g) (hok : moveField .repaired s h g n = .ok () s')
    (hsole : ∀ j hj, j ≠ h → s.handles[j]? = some hj → hj.closed = false → hj.valid = true → hj.oid ≠ hd.oid) :
    ∀ j hj, s'.handles[j]? = some hj → hj.closed = false → hj.oid = hd.oid → viewHandle s' j = .invalid := by
  obtain ⟨nh, hoid, hH⟩ := moveField_cross_handles hv hne hok
  intro j hj hjj hcl ho
  have hinv : hj.valid = false → viewHandle s' j = .invalid := by
    intro hval
    unfold viewHandle
    simp only [hjj, hcl, hval, Bool.false_eq_true, if_false, Bool.not_false, if_true]
  rw [hH, List.getElem?_modify] at hjj
  cases hx : (s.handles ++ [nh])[j]? with
  | none => rw [hx] at hjj; simp at hjj
  | some x =>
    rw [hx] at hjj
    simp only [Option.map_eq_map, Option.map_some, Option.some.injEq] at hjj
    by_cases hjh : h = j
    · simp only [hjh, if_true] at hjj
      exact hinv (by rw [← hjj])
    · simp only [hjh, if_false] at hjj
      subst hjj
      rcases getElem?_snoc hx with ⟨_, hx'⟩ | ⟨_, rfl⟩
      · cases hval : x.valid with
        | false => exact hinv hval
        | true => exact absurd ho (hsole j x (fun e => hjh e.symm) hx' hcl hval)
      · have := hI.handleOidLt h hd (ensureValid_ok hv).1
        omega

end Exetera.Catalogue
